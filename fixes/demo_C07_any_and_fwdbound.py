from typing import *
from pedantic import pedantic, pedantic_class
T = TypeVar('T')
@pedantic_class
class Box(Generic[T]):
    def m(self, a: T) -> None: pass
    def o(self, a: Optional[T]) -> None: pass
def t(label, f):
    try: r = f(); print(label, '->', 'ok' if r is None else r)
    except BaseException as e: print(label, '->', type(e).__name__, str(e)[:80].replace('\n', ' '))
b = Box[Any]()
t('Box[Any]().m(a=1)', lambda: b.m(a=1)); t('Box[Any]().o(a="x")', lambda: b.o(a='x'))
class P: pass
class C1(P): pass
class C2(P): pass
class U: pass
TF = TypeVar('TF', bound='P')
TP = TypeVar('TP', bound=P)
@pedantic
def f(a: TF, b: TF) -> None: pass
@pedantic
def g(a: TP, b: TP) -> None: pass
t('bound="P": f(a=C1(), b=C2()) must mismatch', lambda: f(a=C1(), b=C2()))
t('bound=P : g(a=C1(), b=C2()) must mismatch', lambda: g(a=C1(), b=C2()))
t('bound="P": f(a=C1(), b=C1())', lambda: f(a=C1(), b=C1()))
t('bound="P": f(a=U(), b=U()) must reject', lambda: f(a=U(), b=U()))
