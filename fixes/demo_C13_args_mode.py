from pedantic.decorators.fn_deco_validate.fn_deco_validate import validate, ReturnAs
from pedantic.decorators.fn_deco_validate.parameters import Parameter
@validate(Parameter(name='a'), Parameter(name='b'))
def f(a, b): return dict(a=a, b=b)
print(f(1, b=2), f(b=2, a=1))
@validate(Parameter(name='b'))
def k(a=0, b=1): return dict(a=a, b=b)
print(k(b=2))
@validate(Parameter(name='x'), strict=False)
def g(x, *args): return (x, args)
print(g(1, 2, 3))
