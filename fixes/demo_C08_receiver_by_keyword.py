"""C08 candidate fix (receiverByKeywordIndexError): `K.m(self=obj, a=1)` - the receiver of a method passed by KEYWORD, a call Python
accepts for the undecorated method - no longer ends in a raw IndexError out of the wrapper.

Exit 0 on the fixed tree, 1 on the unfixed one.   Run: PYTHONPATH=<tree> /venv/bin/python demo_C08_receiver_by_keyword.py

Before the fix `FunctionCall.__init__` did `self._instance = self.args[0] if self.func.is_instance_method else None`: with no positional
argument that is `()[0]`.  After the fix the receiver is the first positional argument or, failing that, the keyword argument `self`;
`not_yet_check_kwargs` does not offer that keyword to the `**kwargs` check.
"""
import asyncio
import sys

from pedantic import pedantic, pedantic_class, require_kwargs
from pedantic.exceptions import PedanticException, PedanticTypeCheckException

failures = []
SEEN = []


class K:
    @pedantic
    def m(self, a: int) -> int:
        SEEN.append((self, a))
        return a

    @pedantic
    def kw(self, a: int, **kwargs: int) -> int:
        SEEN.append((self, a, dict(kwargs)))
        return a

    @pedantic
    async def am(self, a: int) -> int:
        SEEN.append((self, a))
        return a

    @require_kwargs
    def rk(self, a):
        SEEN.append((self, a))
        return a


@pedantic_class
class C:
    def m(self, a: int) -> 'C':
        SEEN.append((self, a))
        return self


def outcome(thunk):
    try:
        return 'RET', thunk()
    except PedanticException as e:
        return 'PED:' + type(e).__name__, None
    except BaseException as e:
        return 'ESC:' + type(e).__name__, None


def expect(what, got, want):
    if got != want:
        failures.append(f'{what}: {got} instead of {want}')


k, c = K(), C()
del SEEN[:]
expect('K.m(self=k, a=1)', outcome(lambda: K.m(self=k, a=1)), ('RET', 1))
expect('body saw the receiver', SEEN[-1:] and SEEN[-1][0] is k, True)
expect("K.m(self=k, a='x')", outcome(lambda: K.m(self=k, a='x'))[0], 'PED:PedanticTypeCheckException')
expect('K.kw(self=k, a=1, b=2)', outcome(lambda: K.kw(self=k, a=1, b=2)), ('RET', 1))          # self is no value of **kwargs: int
expect('**kwargs of the body', SEEN[-1:] and SEEN[-1][2], {'b': 2})
expect("K.kw(self=k, a=1, b='x')", outcome(lambda: K.kw(self=k, a=1, b='x'))[0], 'PED:PedanticTypeCheckException')
expect('K.am(self=k, a=1)', outcome(lambda: asyncio.run(K.am(self=k, a=1))), ('RET', 1))
expect('K.rk(self=k, a=1)', outcome(lambda: K.rk(self=k, a=1)), ('RET', 1))
out, res = outcome(lambda: C.m(self=c, a=1))
expect('C.m(self=c, a=1) through @pedantic_class', (out, res is c), ('RET', True))
# unchanged: the usual calls, and a call without any receiver is Python's own TypeError
expect('k.m(a=1)', outcome(lambda: k.m(a=1)), ('RET', 1))
expect('K.m(k, a=1)', outcome(lambda: K.m(k, a=1)), ('RET', 1))
expect('K.m(a=1)', outcome(lambda: K.m(a=1))[0], 'ESC:TypeError')

for f in failures:
    print('FAIL', f)
print('demo_C08_receiver_by_keyword:', 'ok' if not failures else f'{len(failures)} failure(s)')
sys.exit(1 if failures else 0)
