"""C20, WithDecoratedMethods.get_decorated_functions: the regions in which the result is not "exactly the bound methods that were
decorated through create_decorator, with the decorator argument" (finding ids of the check in brackets).
Exit status 0: every region behaves as C20 demands; 1: at least one of those the candidate repair addresses does not.
Two regions are left as they are by the repair and only reported: [transformationDropsDecoratorAttribute], [enumValueNamesFunctionSlot]."""
import sys
from pedantic import DecoratorType, create_decorator, WithDecoratedMethods

bad, info = [], []


def check(finding, label, f, expected, repaired=True):
    try:
        got = f()
    except BaseException as e:
        got = f'raised {type(e).__name__}: {e}'
    ok = got == expected
    print(f"{'ok  ' if ok else 'FAIL'} [{finding}] {label}: {got!r}" + ('' if ok else f'   (C20: {expected!r})'))
    if not ok:
        (bad if repaired else info).append(finding)


class D(DecoratorType):
    FOO = '_foo'
    BAR = '_bar'


foo = create_decorator(D.FOO)


# --- enum values that are attribute names of str / dict / functions
class Up(DecoratorType):
    UP = 'upper'


class A(WithDecoratedMethods[Up]):
    @create_decorator(Up.UP)(1)
    def m(self): pass


a = A()
check('enumValueCollidesWithAttributeName', "UP = 'upper'", a.get_decorated_functions, {Up.UP: {a.m: 1}})


class Get(DecoratorType):
    GET = 'get'


class B(WithDecoratedMethods[Get]):
    @create_decorator(Get.GET)(1)
    def m(self): pass


b = B()
check('enumValueCollidesWithAttributeName', "GET = 'get'", b.get_decorated_functions, {Get.GET: {b.m: 1}})


class Same(DecoratorType):
    FOO = 'FOO'


class B2(WithDecoratedMethods[Same]):
    @create_decorator(Same.FOO)(1)
    def m(self): pass


b2 = B2()
check('enumValueCollidesWithAttributeName', "FOO = 'FOO'", b2.get_decorated_functions, {Same.FOO: {b2.m: 1}})


# --- static and class methods: the methods of the class as the instance sees them - a class method is a method bound to the class,
#     a static method has no bound form: instance.s is the function, and that is what stands for it
class C(WithDecoratedMethods[D]):
    @staticmethod
    @foo(1)
    def s(): pass

    @classmethod
    @foo(3)
    def c(cls): pass

    @foo(2)
    def m(self): pass


c = C()
check('decoratedStaticOrClassMethodReported', 'decorated staticmethod / classmethod', c.get_decorated_functions,
      {D.FOO: {c.m: 2, c.s: 1, c.c: 3}, D.BAR: {}})


# --- a property that raises
class E(WithDecoratedMethods[D]):
    @foo(1)
    def m(self): pass

    @property
    def lazy(self): raise ValueError('not initialised yet')


e = E()
check('propertyEvaluatedByScan', 'property that raises', e.get_decorated_functions, {D.FOO: {e.m: 1}, D.BAR: {}})


# --- a decorated function stored on the instance / an object carrying such an attribute
@foo('callback')
def callback(): pass


class Holder:
    _foo = 'x'


class F(WithDecoratedMethods[D]):
    helper = Holder()

    def __init__(self): self.cb = callback

    @foo(1)
    def m(self): pass


f = F()
check('foreignObjectWithDecoratorAttributeReported', 'self.cb = decorated function; class attribute with _foo', f.get_decorated_functions,
      {D.FOO: {f.m: 1}, D.BAR: {}})


# --- dunder-named methods
class G(WithDecoratedMethods[D]):
    @foo(1)
    def __call__(self): pass


g = G()
check('decoratedDunderMethodSkipped', '@foo(1) def __call__', g.get_decorated_functions, {D.FOO: {g.__call__: 1}, D.BAR: {}})


# --- left as they are


def no_wraps(fn, decorator_type, value):
    def wrapper(*args, **kwargs): return fn(*args, **kwargs)
    return wrapper


class H(WithDecoratedMethods[D]):
    @create_decorator(D.BAR, transformation=no_wraps)(2)
    @foo(1)
    def m(self): pass


h = H()
check('transformationDropsDecoratorAttribute', 'transformation without functools.wraps', h.get_decorated_functions,
      {D.FOO: {h.m: 1}, D.BAR: {h.m: 2}}, repaired=False)



class Doc(DecoratorType):
    DOC = '__doc__'


class I(WithDecoratedMethods[Doc]):
    @create_decorator(Doc.DOC)('x')
    def m(self): pass


i_ = I()
check('enumValueNamesFunctionSlot', "DOC = '__doc__'", i_.get_decorated_functions, {Doc.DOC: {i_.m: 'x'}}, repaired=False)

print()
print('regions violating C20 that the repair addresses:', sorted(set(bad)) or 'none')
print('regions left as they are:', sorted(set(info)) or 'none')
sys.exit(1 if bad else 0)
