"""Follows the NamedTuple repair of `_is_instance` (fixes/candidates/namedtuple_isinstance.diff) in /verif/known_findings.json
(robust against concurrent edits of that file; idempotent).

usage:  /venv/bin/python fixes/candidates/known_findings_namedtuple_apply.py [<commit hash of the repair>]

* `namedtupleStructural` (C01), `namedtupleStructuralArgument` (C03), `namedtupleVsPlainClass` (C02): open -> fixed
  ("commit": the hash given, else "PENDING" - put the hash in; "demo": fixes/demo_namedtuple_isinstance.py).  Their failing inputs stay
  (the corpus replays them on every run); the class table stored inside checker inputs is refreshed (it now says which classes are
  NamedTuple classes).
* new open finding `namedtupleFieldMismatch` (C02): what is left of `namedtupleVsPlainClass` - an instance of the annotated NamedTuple
  class with a field value that does not conform to the field annotation is rejected although isinstance holds.
"""
import json, os, sys
root = os.path.dirname(os.path.dirname(os.path.dirname(os.path.abspath(__file__))))
sys.path[:0] = [os.environ.get('VERIF_REPO', '/repo'), os.path.join(root, 'harness'), os.path.join(root, 'harness', 'props')]
import _checker_common as K

commit = sys.argv[1] if len(sys.argv) > 1 else 'PENDING'
p = os.path.join(root, 'known_findings.json')
raw = open(p).read()
k = json.loads(raw)
MOVED = {'namedtupleStructural': 'an NT2 instance is rejected for the annotation NT1 (and for a dataclass with the same field names): a NamedTuple-class annotation means isinstance + every annotated field; any other annotation is checked the ordinary way',
         'namedtupleStructuralArgument': "f(a=NT2(1, 'a')) no longer reaches the body of def f(a: NT1)",
         'namedtupleVsPlainClass': "NT1(1, 'a') is accepted for object, tuple[int, str], Sequence[...]: only a NamedTuple-class annotation takes the NamedTuple block (what is left of the region: namedtupleFieldMismatch)"}
for e in list(k['open']):
    if e.get('id') in MOVED:
        k['open'].remove(e)
        if not any(isinstance(x, dict) and x.get('id') == e['id'] for x in k['fixed']):
            e = dict(e, status='fixed', commit=commit, demo='fixes/demo_namedtuple_isinstance.py', fixed_what=MOVED[e['id']])
            fi = e.get('failing_input')
            if isinstance(fi, dict) and isinstance(fi.get('c'), dict) and 'env' in fi['c']:
                fi['c']['env'] = K.env_json()
            k['fixed'].append(e)
for x in k['fixed']:
    if isinstance(x, dict) and x.get('id') in MOVED and commit != 'PENDING':
        x['commit'] = commit
if not any(e.get('id') == 'namedtupleFieldMismatch' for e in k['open']):
    case = K.mk_case(K.canon_ann(K.cls_term(K.NT1))[0],
                     ["ntup", K.IDX[K.NT1], [K.nid('a'), K.nid('b')], [K.lit('x'), K.lit('a')]], kind='finding')
    k['open'].append({
        "id": "namedtupleFieldMismatch", "property": "C02", "status": "open",
        "region": "an instance of the annotated NamedTuple class (or of a subclass of it) one of whose field values does not conform to the annotation of that field - at top level or inside a container",
        "lean_witness": "PedVerif.Checker.complete_fails_namedtupleFieldMismatch (Props/C02.lean); guard v.hasNT = false of verdict_exact_split; region predicate conforms ∧ ¬conformsNT (Model/CheckerWF.lean), reported by the driver",
        "what": "NT1('x', 'a') is rejected for the annotation NT1 (a: int, b: str) although isinstance(NT1('x', 'a'), NT1) holds: the NamedTuple block of _is_instance also checks every annotated field (not repaired: pinned by the maintainers' test_namedtuple_wrong_field_type)",
        "failing_input": case})
open(p, 'w').write(json.dumps(k, indent=1) + ('\n' if raw.endswith('\n') else ''))
print('known_findings.json: open =', len(k['open']), 'fixed =', len(k['fixed']))
