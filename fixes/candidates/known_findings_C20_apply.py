#!/usr/bin/env python3
"""known_findings.json after the repair fixes/candidates/C20_scan_only_bound_methods.diff (get_decorated_functions looks at the raw
attribute, goes on only with functions defined in a class, reads the marks from the function's __dict__, skips no name):

  * moves five C20 ids from `open` to `fixed` (commit PENDING - put the hash of the `fix:` commit there; their failing inputs stay
    in the corpus through the `fixed` list and must pass):
        enumValueCollidesWithAttributeName, decoratedDunderMethodSkipped, decoratedStaticOrClassMethodReported,
        propertyEvaluatedByScan, foreignObjectWithDecoratorAttributeReported
  * keeps `transformationDropsDecoratorAttribute` open
  * adds the narrower open finding `enumValueNamesFunctionSlot` (entry taken from harness/props/C20.known_findings.json): an enum value
    that is the name of a slot of function objects (`__doc__`, `__name__`) cannot work as a mark

usage: python3 fixes/candidates/known_findings_C20_apply.py [--commit <hash>] [path/to/known_findings.json]     (idempotent)"""
import json, os, sys

ROOT = os.path.dirname(os.path.dirname(os.path.dirname(os.path.abspath(__file__))))
args = sys.argv[1:]
commit = 'PENDING'
if '--commit' in args:
    i = args.index('--commit'); commit = args[i + 1]; del args[i:i + 2]
path = args[0] if args else os.path.join(ROOT, 'known_findings.json')
DEMO = 'fixes/candidates/demo_C20_scan_only_bound_methods.py'
FIXED = {
    'enumValueCollidesWithAttributeName':
        "get_decorated_functions asked hasattr(attribute, <enum value>) of every attribute of the instance: UP = 'upper' reported the class "
        "name (a str) and the enum class next to the decorated methods, GET = 'get' / 'keys' / '__doc__' raised TypeError (unhashable dict "
        "returned by type_vars) for every class using the enum, FOO = 'FOO' reported the enum class; now the decorator types are looked up in "
        "vars(function) of the functions defined in the classes only",
    'decoratedDunderMethodSkipped':
        "a method whose name starts with '__' (`@foo(1) def __call__(self)`) decorated through create_decorator was missing from the result; "
        "no name is passed over any more (only decorated functions are reported, so dunder names cost nothing)",
    'decoratedStaticOrClassMethodReported':
        "decorated static / class methods: the class method is reported as the method bound to the class, the static method as the function "
        "(what instance.name is) - now the behaviour demanded by the spec (methods of a class as the instance sees them) and covered by "
        "decorated_scan_exact; before the repair both fell outside the proved region",
    'propertyEvaluatedByScan':
        "get_decorated_functions called getattr(self, name) for every name of dir(self) and so evaluated every property; a getter that raised "
        "made it raise; now the raw attribute (inspect.getattr_static) is looked at first and only functions are evaluated",
    'foreignObjectWithDecoratorAttributeReported':
        "a decorated function stored in the instance __dict__ (self.cb = f) or any object carrying an attribute named like an enum value was "
        "reported among the decorated methods; now only what getattr(self, name) turns into a method made from a function of a class is",
}
k = json.load(open(path))
is_c20 = lambda e, fid: isinstance(e, dict) and e.get('property') == 'C20' and e.get('id') == fid
moved = []
for fid, what in FIXED.items():
    entry = next((e for e in k['open'] if is_c20(e, fid)), None)
    if entry is None:
        continue
    k['open'].remove(entry)
    k['fixed'].append({'id': fid, 'status': 'fixed', 'property': 'C20', 'commit': commit, 'what': what, 'demo': DEMO,
                       'failing_input': entry['failing_input'],
                       'line': f"fixed: property=C20 {commit} {fid}: {what[:160]}"})
    moved.append(fid)
for e in k['fixed']:
    if isinstance(e, dict) and e.get('property') == 'C20' and e.get('id') in FIXED and commit != 'PENDING':
        e['line'] = e['line'].replace('PENDING', commit); e['commit'] = commit
added = []
extra = json.load(open(os.path.join(ROOT, 'harness', 'props', 'C20.known_findings.json')))
for e in extra:
    if e['id'] == 'enumValueNamesFunctionSlot' and not any(is_c20(o, e['id']) for o in k['open']):
        k['open'].append(e); added.append(e['id'])
json.dump(k, open(path, 'w'), indent=1)
print('moved to fixed:', moved or 'nothing (already done)'); print('added to open:', added or 'nothing (already there)')
