"""After the repair fixes/candidates/generic_params_from_parameters.diff is committed in /repo: moves the findings
genericParamsFromFirstBase, genericSubclassNotRecognised (C07) and genericParamsFromFirstBaseEscapes (C08) in /verif/known_findings.json
from "open" to "fixed" ("commit": "PENDING" - put the hash in; the former failing inputs stay, core adds them to the corpus).
Robust against concurrent edits of that file.   usage:  python3 fixes/candidates/known_findings_generic_params_fixed_apply.py [commit hash]
"""
import json, os, sys
root = os.path.dirname(os.path.dirname(os.path.dirname(os.path.abspath(__file__))))
p = os.path.join(root, 'known_findings.json')
raw = open(p).read()
k = json.loads(raw)
ents = json.load(open(os.path.join(root, 'fixes/candidates/known_findings_generic_params_fixed_entries.json')))
commit = sys.argv[1] if len(sys.argv) > 1 else 'PENDING'
ids = {e['id'] for e in ents}
k['open'] = [e for e in k['open'] if e.get('id') not in ids]
for e in ents:
    e = dict(e, commit=commit, line=e['line'].replace('PENDING', commit))
    k['fixed'] = [x for x in k['fixed'] if not (isinstance(x, dict) and x.get('id') == e['id'])] + [e]
open(p, 'w').write(json.dumps(k, indent=1) + ('\n' if raw.endswith('\n') else ''))
print('known_findings.json: open =', len(k['open']), 'fixed =', len(k['fixed']))
