"""Moves the C18 finding traceFormatsArgumentsAndResults from "open" to "fixed" in /verif/known_findings.json (robust against concurrent
edits of that file) - run it AFTER fixes/candidates/C18_safe_formatting.diff is committed to /repo.
usage:  python3 fixes/candidates/known_findings_C18_apply.py [<commit hash>]      # without a hash: "commit": "PENDING"
The failing input stays with the entry (core.corpus_cases replays the failing inputs of fixed findings on every run); the demo is
fixes/demo_C18_safe_formatting.py (FAIL before the repair, PASS after it)."""
import json, os, sys
root = os.path.dirname(os.path.dirname(os.path.dirname(os.path.abspath(__file__))))
p = os.path.join(root, 'known_findings.json')
raw = open(p).read()
k = json.loads(raw)
fx = json.load(open(os.path.join(root, 'fixes/candidates/known_findings_C18_fixed_entry.json')))
if len(sys.argv) > 1:
    fx['commit'] = sys.argv[1]
old = [e for e in k['open'] if e.get('id') == fx['id']]
if old and old[0].get('failing_input') is not None:
    fx['failing_input'] = old[0]['failing_input']
k['open'] = [e for e in k['open'] if e.get('id') != fx['id']]
k['fixed'] = [e for e in k['fixed'] if not (isinstance(e, dict) and e.get('id') == fx['id'])] + [fx]
open(p, 'w').write(json.dumps(k, indent=1) + ('\n' if raw.endswith('\n') else ''))
print('known_findings.json: open =', len(k['open']), 'fixed =', len(k['fixed']), '| C18 open:', [e['id'] for e in k['open'] if e.get('property') == 'C18'])
