"""Adds the two round-2 findings of C12 to /verif/known_findings.json (robust against concurrent edits of that file).
usage:  python3 fixes/candidates/known_findings_round2_apply.py open       # now: both entries -> "open"
        python3 fixes/candidates/known_findings_round2_apply.py fixed      # after the repair of varPositionalSurplusDropped is committed:
                                                                          # that entry open -> fixed ("commit": "PENDING" - put the hash in)
"""
import json, os, sys
root = os.path.dirname(os.path.dirname(os.path.dirname(os.path.abspath(__file__))))
p = os.path.join(root, 'known_findings.json')
raw = open(p).read()
k = json.loads(raw)
if sys.argv[1] == 'open':
    ents = json.load(open(os.path.join(root, 'fixes/candidates/known_findings_round2_entries.json')))
    have = {e.get('id') for e in k['open']}
    k['open'] += [e for e in ents if e['id'] not in have]
else:
    fx = json.load(open(os.path.join(root, 'fixes/VarPositionalSurplus_after_fix/known_findings_fixed_entry.json')))
    k['open'] = [e for e in k['open'] if e.get('id') != fx['id']]
    if not any(isinstance(e, dict) and e.get('id') == fx['id'] for e in k['fixed']):
        k['fixed'].append(fx)
open(p, 'w').write(json.dumps(k, indent=1) + ('\n' if raw.endswith('\n') else ''))
print('known_findings.json: open =', len(k['open']), 'fixed =', len(k['fixed']))
