"""Candidate repair `generic_params_from_parameters.diff` (C07 findings genericParamsFromFirstBase, genericSubclassNotRecognised;
C08 finding genericParamsFromFirstBaseEscapes).

An instance created as Cls[X]() of a generic @pedantic_class class accepts a value for a T-annotated parameter iff it conforms to X -
whatever makes the class generic.  The unchanged tree
  * zips the type arguments of the FIRST original base with the arguments of __orig_class__ (R(Dict[str, T], Generic[T]): a raw IndexError
    out of the wrapper; C(Mixin, Generic[T]), C(List[List[T]]): X is never read; C(Dict[K, V], Generic[V, K]): K and V swapped), and
  * calls a class generic only when Generic is among its DIRECT bases (class Child(Base[T]): Child[int]().put(item='s') is accepted).
The repair reads type(instance).__parameters__ and calls a class generic when it still has type parameters.
Run with PYTHONPATH=<tree>: prints PASS on the repaired tree, FAIL (with the deviating lines) on the unchanged one.
"""
import sys
from typing import Dict, Generic, List, TypeVar

from pedantic import pedantic_class
from pedantic.exceptions import PedanticException, PedanticTypeVarMismatchException

T = TypeVar('T')
K = TypeVar('K')
V = TypeVar('V')


class Mixin:
    pass


@pedantic_class
class Base(Generic[T]):
    def base_put(self, item: T) -> None:
        pass


@pedantic_class
class Registry(Dict[str, T], Generic[T]):
    def put(self, item: T) -> None:
        pass


@pedantic_class
class WithMixin(Mixin, Generic[T]):
    def put(self, item: T) -> None:
        pass


@pedantic_class
class Nested(List[List[T]]):
    def put(self, item: T) -> None:
        pass


@pedantic_class
class Swapped(Dict[K, V], Generic[V, K]):
    def put_v(self, item: V) -> None:
        pass


@pedantic_class
class Child(Base[T]):
    def put(self, item: T) -> None:
        pass


@pedantic_class
class Bag(List[T]):
    def put(self, item: T) -> None:
        pass


def outcome(thunk):
    try:
        thunk()
        return 'accepted'
    except PedanticTypeVarMismatchException:
        return 'mismatch'
    except PedanticException as e:
        return 'rejected'
    except Exception as e:
        return 'RAW ' + type(e).__name__


def fresh(make, method, value):
    obj = make()
    return outcome(lambda: getattr(obj, method)(item=value))


def mk_registry():
    x = Registry[int]()
    return x


def mk_mixin():
    x = WithMixin[int]()
    return x


def mk_nested():
    x = Nested[int]()
    return x


def mk_swapped():
    x = Swapped[str, int]()       # parameters (V, K): V = str, K = int
    return x


def mk_child():
    x = Child[int]()
    return x


def mk_bag():
    x = Bag[int]()
    return x


problems = []


def expect(what, got, wanted):
    if got != wanted:
        problems.append(f'{what}: expected {wanted}, got {got}')


for name, make in [('Registry(Dict[str, T], Generic[T])[int]', mk_registry), ('WithMixin(Mixin, Generic[T])[int]', mk_mixin),
                   ('Nested(List[List[T]])[int]', mk_nested), ('Child(Base[T])[int]', mk_child), ('Bag(List[T])[int]', mk_bag)]:
    expect(f'{name}.put(item=1)', fresh(make, 'put', 1), 'accepted')
    expect(f'{name}.put(item="s")', fresh(make, 'put', 's'), 'mismatch')
expect('Swapped(Dict[K, V], Generic[V, K])[str, int].put_v(item="s")', fresh(mk_swapped, 'put_v', 's'), 'accepted')
expect('Swapped(Dict[K, V], Generic[V, K])[str, int].put_v(item=1)', fresh(mk_swapped, 'put_v', 1), 'mismatch')

if problems:
    print('FAIL')
    for p in problems:
        print('  ' + p)
    sys.exit(1)
print('PASS')
