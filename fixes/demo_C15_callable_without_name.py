"""C15: retry_func / @retry must retry any callable, also one without __name__ (functools.partial, instance with __call__).
Exits 1 before ccd8bc6, 0 after."""
import sys, functools, logging
from pedantic.decorators.fn_deco_retry import retry_func, retry
logging.disable(logging.CRITICAL)
bad = []


def flaky(state, limit):
    state.append(1)
    if len(state) < limit:
        raise ValueError('not yet')
    return len(state)


class Job:
    def __init__(self): self.state = []
    def __call__(self): return flaky(self.state, 3)


for what, run in [('partial', lambda: retry_func(functools.partial(flaky, [], 3), attempts=5, exceptions=ValueError)),
                  ('instance', lambda: retry_func(Job(), attempts=5, exceptions=ValueError)),
                  ('decorated partial', lambda: retry(attempts=5, exceptions=ValueError)(functools.partial(flaky, [], 3))())]:
    try:
        r = run()
        if r != 3: bad.append(f'{what}: returned {r!r} instead of 3')
    except Exception as e:
        bad.append(f'{what}: {type(e).__name__}: {e}')
print('\n'.join(bad) if bad else 'PASS')
sys.exit(1 if bad else 0)
