"""GenWrap fix 3 (failedPrimingConsumesInit, C04; keeps C03): whether a sent value is checked depends on whether the generator is
suspended at a yield (then the value is delivered to the body), not on whether send was called before.

Exit 0 on the fixed tree, 1 on the unfixed one.   Run: PYTHONPATH=<tree> /venv/bin/python demo_GenWrap_3.py

The wrapper set `_initialized` on the first send, whatever became of it.  send(5) on a fresh generator is CPython's TypeError
("can't send non-None value to a just-started generator") on both sides, but afterwards the wrapper took the generator for primed:
the next(g) that really starts it sends None, which was checked against the send type - for Generator[int, int, None] the
generator could never be started.  Likewise a value sent to a generator that has finished is delivered to nobody and needs no check.
C03 is kept: once the body waits at a yield a non-conforming value is rejected and never delivered - also after an earlier step
of the same generator was rejected.
"""
import sys
from typing import Generator

from pedantic import pedantic
from pedantic.exceptions import PedanticTypeCheckException

failures = []
received = []


def plain(first: object = 0) -> Generator[int, int, None]:
    got = yield first
    while True:
        received.append(got)
        got = yield got


decorated = pedantic(plain)


def step(gen, *value):
    try:
        return ('value', gen.send(value[0]) if value else next(gen))
    except StopIteration as ex:
        return ('StopIteration', ex.value)
    except PedanticTypeCheckException:
        return ('PedanticTypeCheckException', None)
    except Exception as ex:
        return (type(ex).__name__, None)


# 1. failed priming, then the real priming
for make in (decorated, plain):
    g = make()
    obs = [step(g, 5), step(g), step(g, 7)]
    if obs != [('TypeError', None), ('value', 0), ('value', 7)]:
        failures.append(f'{"decorated" if make is decorated else "undecorated"} after a failed priming: {obs}')

# 2. a value sent to a finished generator is delivered to nobody: bare StopIteration on both sides
for make in (decorated, plain):
    g = make()
    next(g)
    g.close()
    obs = step(g, 'not an int')
    if obs != ('StopIteration', None):
        failures.append(f'{"decorated" if make is decorated else "undecorated"} send to a closed generator: {obs}')

# 3. C03: a started body never receives a non-conforming value
g = decorated()
next(g)
del received[:]
if step(g, 'x') != ('PedanticTypeCheckException', None) or received:
    failures.append(f'bad send after priming: body received {received}')
if step(g, 3) != ('value', 3) or received != [3]:
    failures.append(f'good send after a rejected one: body received {received}')

# 4. C03, also when the first yield was rejected (the generator is suspended all the same)
g = decorated(first='not an int')
del received[:]
if step(g) != ('PedanticTypeCheckException', None):
    failures.append('non-conforming first yield was handed out')
if step(g, 'x') != ('PedanticTypeCheckException', None) or received:
    failures.append(f'bad send after a rejected first yield: body received {received}')

if failures:
    print('FAIL')
    for f in failures:
        print('  -', f)
    sys.exit(1)
print('PASS')
sys.exit(0)
