import PedVerif.Gen.GenWrap
/-!
Model of `pedantic/models/generator_wrapper.py: GeneratorWrapper` and of its creation in
`FunctionCall._check_types_return` (generator clause of C03 / C04).

* `send` and `throw` are not re-written by hand: the translator turns the two methods into the straight-line programs
  `Gen.GenWrap.sendProg` / `throwProg`, and `runStmts` below *interprets* them.  `__next__`, `close`, `__init__` and
  `_set_and_check_return_types` enter through the generated flags / tables.
* The wrapped generator is the environment (CPython's generator protocol): a body scripted by a list of `GStep`s with the
  three states unstarted / suspended / finished (`resumeGen`).  The body journals everything it does and receives.
* The type checker is abstract: `conf : Ty → V → Bool` (it is verified by C01 / C02); `confC` is the concrete table the
  driver uses for the correspondence runs.
-/
namespace PedVerif.GenWrap
open PedVerif.Gen.GenWrap

/-! ## values and types -/

/-- runtime class of a value -/
inductive VTy where | none | bool | int | str | float | listInt | listStr
deriving DecidableEq, Repr

/-- a value: its class and the identity of the object -/
structure V where
  ty : VTy
  id : Nat
deriving DecidableEq, Repr

/-- the `None` object -/
def V.none : V := ⟨.none, 0⟩

/-- the slot types used in the correspondence runs -/
inductive Ty where | none | bool | int | str | float | listInt | any | optInt
deriving DecidableEq, Repr

/-- concrete conformance table (what C01 / C02 verify about the checker, restricted to this alphabet):
    `bool` is a subclass of `int`; `float` does not accept `int` -/
def confC : Ty → V → Bool
  | .any, _ => true
  | .none, v => v.ty == .none
  | .bool, v => v.ty == .bool
  | .int, v => v.ty == .int || v.ty == .bool
  | .str, v => v.ty == .str
  | .float, v => v.ty == .float
  | .listInt, v => v.ty == .listInt
  | .optInt, v => v.ty == .int || v.ty == .bool || v.ty == .none

/-- the three slots of the wrapper -/
structure Types where
  yieldT : Ty
  sendT : Ty
  returnT : Ty
deriving DecidableEq, Repr

def Types.get (ts : Types) : Slot → Ty
  | .yieldT => ts.yieldT | .sendT => ts.sendT | .returnT => ts.returnT

def Types.set (ts : Types) (s : Slot) (t : Ty) : Types :=
  match s with
  | .yieldT => { ts with yieldT := t } | .sendT => { ts with sendT := t } | .returnT => { ts with returnT := t }

/-! ## creation: `GeneratorWrapper.__init__` / `_set_and_check_return_types` -/

/-- the return annotation as `get_base_generic` / `get_type_arguments` see it -/
structure Ann where
  base : String            -- "typing.Generator", "collections.abc.Iterator", "int", "typing.Any", …
  args : List Ty
  quoted : Bool            -- the whole annotation is a string (`-> 'Iterator[int]'`): base and args are what it evaluates to
deriving DecidableEq, Repr

/-- what `get_base_generic` returns: for a string annotation the string itself -/
def Ann.seenBase (a : Ann) : String := if a.quoted then "<str>" else a.base
/-- what `get_type_arguments` returns: nothing for a string -/
def Ann.seenArgs (a : Ann) : List Ty := if a.quoted then [] else a.args

/-- what `__init__` leaves in a slot that the annotation does not fill (`None` in the code; a non-`None` default is
    outside the model and approximated by "accepts everything") -/
def defaultTy (s : Slot) : Ty := if slotDefaultIsNone s then .none else .any

def defaultTypes : Types := ⟨defaultTy .yieldT, defaultTy .sendT, defaultTy .returnT⟩

def applyAssignments (args : List Ty) : List (Slot × Nat) → Types → Option Types
  | [], ts => some ts
  | (s, i) :: rest, ts =>
    match args[i]? with
    | some t => applyAssignments args rest (ts.set s t)
    | none => none                                  -- IndexError in the code (does not happen for the generated table: `cfg_creation`)

/-- `none` = PedanticTypeCheckException while the wrapper is created (the generator body never runs) -/
def setTypes (a : Ann) : Option Types :=
  if !acceptedBases.contains a.seenBase then none else
  match arityMap.lookup a.seenArgs.length with
  | some asg =>
    -- were the defaults assigned after the annotation is taken apart they would overwrite it
    (applyAssignments a.seenArgs asg defaultTypes).map (fun ts => if setTypesAfterDefaults then ts else defaultTypes)
  | none => if otherArityRaises then none else some defaultTypes

/-! ## the wrapped generator (environment: CPython's generator protocol) -/

/-- which exceptions thrown in at a `yield` the scripted body catches (and then carries on with its next step) -/
inductive Catch where
  | nothing        -- no handler
  | exc            -- `except Exception`  (not GeneratorExit)
  | all            -- `except BaseException`  (also GeneratorExit)
deriving DecidableEq, Repr

/-- what the generator body does when it is resumed (scripted); a script that is used up = falling off the end = `return None` -/
inductive GStep where
  | yield_ (v : V) (c : Catch)
  | return_ (v : V)
  | raise_ (e : Nat)
deriving DecidableEq, Repr

inductive Exc where
  | body (e : Nat)          -- raised by the body itself
  | thrown (k : Nat)        -- thrown in by the consumer (an `Exception` subclass instance) and not caught
deriving DecidableEq, Repr

/-- journal written by the body -/
inductive JEv where
  | recv (x : V)            -- value of a `yield` expression
  | thrown (k : Nat)        -- exception arriving at a `yield`
  | exit                    -- GeneratorExit arriving at a `yield`
  | yielded (v : V)         -- about to yield v
  | returned (v : V)        -- about to return v (also falling off the end: None)
  | raised (e : Nat)        -- about to raise
deriving DecidableEq, Repr

inductive GSt where
  | unstarted
  | suspended (c : Catch)   -- at a `yield` guarded by handler `c`
  | finished
deriving DecidableEq, Repr

structure Gen where
  st : GSt
  script : List GStep       -- the steps still ahead
deriving DecidableEq, Repr

def Gen.fresh (script : List GStep) : Gen := ⟨.unstarted, script⟩

/-- how the generator is resumed -/
inductive Inp where
  | send (x : V)
  | throw (k : Nat)
  | exit                    -- GeneratorExit (from `close`)
deriving DecidableEq, Repr

/-- what a resume produces -/
inductive Res where
  | yielded (v : V)
  | returned (v : V)        -- StopIteration(v)
  | raised (e : Exc)
  | genExit                 -- the GeneratorExit propagated out of the body / nothing to close
  | typeErr                 -- "can't send non-None value to a just-started generator"
deriving DecidableEq, Repr

/-- the body runs from its current position to the next yield / return / raise -/
def runBody : List GStep → Res × List JEv × Gen
  | [] => (.returned V.none, [.returned V.none], ⟨.finished, []⟩)
  | .yield_ v c :: rest => (.yielded v, [.yielded v], ⟨.suspended c, rest⟩)
  | .return_ v :: _ => (.returned v, [.returned v], ⟨.finished, []⟩)
  | .raise_ e :: _ => (.raised (.body e), [.raised e], ⟨.finished, []⟩)

def prepend (j : List JEv) (r : Res × List JEv × Gen) : Res × List JEv × Gen := (r.1, j ++ r.2.1, r.2.2)

def resumeGen (g : Gen) : Inp → Res × List JEv × Gen
  | .send x =>
    match g.st with
    | .unstarted => if x.ty == .none then runBody g.script else (.typeErr, [], g)
    | .suspended _ => prepend [.recv x] (runBody g.script)
    | .finished => (.returned V.none, [], g)
  | .throw k =>
    match g.st with
    | .unstarted => (.raised (.thrown k), [], ⟨.finished, []⟩)
    | .suspended .nothing => (.raised (.thrown k), [.thrown k], ⟨.finished, []⟩)
    | .suspended _ => prepend [.thrown k] (runBody g.script)
    | .finished => (.raised (.thrown k), [], g)
  | .exit =>
    match g.st with
    | .unstarted => (.genExit, [], ⟨.finished, []⟩)
    | .suspended .all => prepend [.exit] (runBody g.script)
    | .suspended _ => (.genExit, [.exit], ⟨.finished, []⟩)
    | .finished => (.genExit, [], g)

/-! ## the consumer -/

inductive Op where
  | next
  | send (x : V)
  | throw (k : Nat)
  | close
deriving DecidableEq, Repr

/-- what the consumer observes for one operation -/
inductive Obs where
  | got (v : V)             -- a value was handed over
  | stop (v : V)            -- StopIteration(v)
  | ped                     -- PedanticTypeCheckException
  | exc (e : Exc)           -- a body exception / the thrown exception comes back
  | typeErr
  | closed                  -- `close()` returned
  | runtimeErr              -- "generator ignored GeneratorExit"
  | crash                   -- the wrapper itself fails (UnboundLocalError …): never for the generated programs (`cfg_*`)
deriving DecidableEq, Repr

/-- one step of an interaction as both sides record it -/
structure Step where
  op : Op
  obs : Obs
  jev : List JEv            -- what the body journalled during this operation
deriving DecidableEq, Repr

def Op.isThrow : Op → Bool
  | .throw _ => true | _ => false

/-- `next` is `send(None)` -/
def Op.sendLike : Op → Option V
  | .next => some V.none | .send x => some x | _ => none

/-- how an operation resumes the generator (`next` is `send(None)`, `close` throws GeneratorExit in) -/
def Op.inp : Op → Inp
  | .next => .send V.none | .send x => .send x | .throw k => .throw k | .close => .exit

/-- what `send` / `throw` on a plain generator show the consumer -/
def obsPlain : Res → Obs
  | .yielded v => .got v
  | .returned v => .stop v
  | .raised e => .exc e
  | .typeErr => .typeErr
  | .genExit => .crash             -- unreachable: only `close` throws GeneratorExit in

/-- what `close` on a plain generator shows the consumer (CPython 3.12: a returned value is dropped) -/
def obsClose : Res → Obs
  | .yielded _ => .runtimeErr      -- the body caught GeneratorExit and yielded again
  | .raised e => .exc e
  | _ => .closed

/-- the unwrapped generator under one consumer operation -/
def plainOp (g : Gen) (op : Op) : Obs × List JEv × Gen :=
  let r := resumeGen g op.inp
  (if op = .close then obsClose r.1 else obsPlain r.1, r.2.1, r.2.2)

def plainRun : Gen → List Op → List Step
  | _, [] => []
  | g, op :: ops => let r := plainOp g op; ⟨op, r.1, r.2.1⟩ :: plainRun r.2.2 ops

/-! ## the interpreter of the translated methods -/

/-- how the resume of the wrapped generator ended, as far as control flow in the wrapper is concerned -/
inductive RK where
  | yielded | stopped | raised
deriving DecidableEq, Repr

def Res.kind : Res → RK
  | .yielded _ => .yielded | .returned _ => .stopped | _ => .raised

/-- how the method ends -/
inductive Act where
  | ped                     -- a check failed
  | retYielded | retStopVal | retNone
  | raiseStop               -- the caught StopIteration is re-raised
  | propagate               -- an exception of the wrapped generator other than StopIteration passes through
  | crash                   -- use of an unbound name
deriving DecidableEq, Repr

structure AOut where
  act : Act
  init : Bool               -- `_initialized` afterwards
  resumed : Bool            -- was the wrapped generator resumed
deriving DecidableEq, Repr

/-- availability of the three value sources at the current program point -/
structure Avail where
  sent : Bool
  yielded : Bool
  stopVal : Bool
deriving DecidableEq, Repr

def Avail.has (a : Avail) : Src → Bool
  | .sent => a.sent | .yielded => a.yielded | .stopVal => a.stopVal

/-- the wrapped generator's state as `inspect.getgeneratorstate` reports it (a scripted body never re-enters its own
    wrapper, so `running` does not occur) -/
def GSt.toGState : GSt → GState
  | .unstarted => .created | .suspended _ => .suspended | .finished => .closed

def evalCond (init : Bool) (st : GState) : Cond → Bool
  | .tt => true
  | .init => init
  | .state s => st == s
  | .not c => !evalCond init st c
  | .and a b => evalCond init st a && evalCond init st b
  | .or a b => evalCond init st a || evalCond init st b

/-- one statement without resume: `some act` = the method ends here; the Bool is `_initialized` afterwards -/
def runSimple (orc : Src → Slot → Bool) (av : Avail) (st : GState) : Simple → Bool → Option Act × Bool
  | .check s t, init =>
    if !av.has s then (some .crash, init)
    else if orc s t then (none, init)
    else (some .ped, init)
  | .setInit b, _ => (none, b)
  | .reraise, init => (some (if av.stopVal then .raiseStop else .crash), init)
  | .retYielded, init => (some (if av.yielded then .retYielded else .crash), init)
  | .retStopVal, init => (some (if av.stopVal then .retStopVal else .crash), init)
  | .retNone, init => (some .retNone, init)
  | .when c s, init => if evalCond init st c then runSimple orc av st s init else (none, init)

def runSimples (orc : Src → Slot → Bool) (av : Avail) (st : GState) : List Simple → Bool → Option Act × Bool
  | [], init => (none, init)
  | s :: rest, init =>
    match runSimple orc av st s init with
    | (some a, i) => (some a, i)
    | (none, i) => runSimples orc av st rest i

/-- the method body; `orc s t` = does the value from source `s` conform to slot `t`; `rk` = how the resume ends;
    `st` = the state of the wrapped generator when the method is entered -/
def runStmts (orc : Src → Slot → Bool) (rk : RK) (st : GState) : List Stmt → Avail → Bool → Bool → AOut
  | [], _, init, resumed => ⟨.retNone, init, resumed⟩
  | .simple s :: rest, av, init, resumed =>
    match runSimple orc av st s init with
    | (some a, i) => ⟨a, i, resumed⟩
    | (none, i) => runStmts orc rk st rest av i resumed
  | .ifC c thn els :: rest, av, init, resumed =>
    match runSimples orc av st (if evalCond init st c then thn else els) init with
    | (some a, i) => ⟨a, i, resumed⟩
    | (none, i) => runStmts orc rk st rest av i resumed
  | .resume onStop :: rest, av, init, resumed =>
    if resumed then ⟨.crash, init, resumed⟩ else          -- a second resume is outside the translator's subset
    match rk with
    | .raised => ⟨.propagate, init, true⟩
    | .stopped =>
      match runSimples orc { av with stopVal := true } st onStop init with
      | (some a, i) => ⟨a, i, true⟩
      | (none, i) => runStmts orc rk st rest av i true
    | .yielded => runStmts orc rk st rest { av with yielded := true } init true

/-- the oracle of one concrete call: the values are the sent one and what the resume produces -/
def mkOrc (conf : Ty → V → Bool) (ts : Types) (sent : Option V) (res : Res) : Src → Slot → Bool :=
  fun s t =>
    match (match s with
           | .sent => sent
           | .yielded => (match res with | .yielded v => some v | _ => none)
           | .stopVal => (match res with | .returned v => some v | _ => none)) with
    | some v => conf (ts.get t) v
    | none => false

def obsOf : Act → Res → Obs
  | .ped, _ => .ped
  | .retYielded, .yielded v => .got v
  | .retStopVal, .returned v => .got v        -- `return ex.value`: handed over like a yielded value
  | .retNone, _ => .got V.none
  | .raiseStop, .returned v => .stop v
  | .propagate, .raised e => .exc e
  | .propagate, .typeErr => .typeErr
  | _, _ => .crash

/-- the wrapper: the wrapped generator, and `_initialized` (an attribute the repaired class no longer has: `hasInitFlag = false`,
    no condition of the translated methods reads it; kept so that the old source shape still translates and runs) -/
structure W where
  init : Bool
  gen : Gen
deriving DecidableEq, Repr

/-- `send` / `throw` of the wrapper: interpret the translated method against what the wrapped generator would do -/
def wrapResume (conf : Ty → V → Bool) (ts : Types) (prog : List Stmt) (w : W) (inp : Inp) : Obs × List JEv × W :=
  let r := resumeGen w.gen inp
  let sent : Option V := match inp with | .send x => some x | _ => none
  let a := runStmts (mkOrc conf ts sent r.1) r.1.kind w.gen.st.toGState prog ⟨sent.isSome, false, false⟩ w.init false
  if a.resumed then (obsOf a.act r.1, r.2.1, ⟨a.init, r.2.2⟩) else (obsOf a.act r.1, [], ⟨a.init, w.gen⟩)

def wrapOp (conf : Ty → V → Bool) (ts : Types) (w : W) : Op → Obs × List JEv × W
  | .send x => wrapResume conf ts sendProg w (.send x)
  | .next => if nextIsSendNone then wrapResume conf ts sendProg w (.send V.none) else (.crash, [], w)
  | .throw k => wrapResume conf ts throwProg w (.throw k)
  | .close =>
    if closeDelegates then
      let r := plainOp w.gen .close
      (r.1, r.2.1, ⟨w.init, r.2.2⟩)
    else (.closed, [], w)

def wrapRun (conf : Ty → V → Bool) (ts : Types) : W → List Op → List Step
  | _, [] => []
  | w, op :: ops => let r := wrapOp conf ts w op; ⟨op, r.1, r.2.1⟩ :: wrapRun conf ts r.2.2 ops

def W.fresh (script : List GStep) : W := ⟨initInitialized, Gen.fresh script⟩

/-- a call of the decorated generator function followed by the consumer's operations: `none` = the call itself raises
    PedanticTypeCheckException (the generator object exists, its body never ran) -/
def callAndDrive (conf : Ty → V → Bool) (a : Ann) (script : List GStep) (ops : List Op) : Option (List Step) :=
  if !(wrapsGeneratorResult && wrapperGetsReturnAnnotation && generatorBranchBeforePlainCheck) then none else
  match setTypes a with
  | none => none
  | some ts => some (wrapRun conf ts (W.fresh script) ops)

/-! ## readable reference semantics of `send` and `throw` (what `cfg_send_semantics` / `cfg_throw_semantics` show the
translated programs to compute) -/

/-- `send`: the sent value is checked exactly when the generator is suspended at a `yield` (then it becomes the value of
    that yield expression), before the resume; the StopIteration value is checked unless the generator had finished
    before (then the StopIteration carries no result); the yielded value is always checked -/
def refSend (orc : Src → Slot → Bool) (rk : RK) (st : GState) (init : Bool) : AOut :=
  if st == .suspended && !orc .sent .sendT then ⟨.ped, init, false⟩ else
  match rk with
  | .raised => ⟨.propagate, init, true⟩
  | .stopped => if st == .closed || orc .stopVal .returnT then ⟨.raiseStop, init, true⟩ else ⟨.ped, init, true⟩
  | .yielded => if orc .yielded .yieldT then ⟨.retYielded, init, true⟩ else ⟨.ped, init, true⟩

/-- `throw`: what the body produces in response is checked as in `send`; a StopIteration is the body's return only if the
    body ran, i.e. the generator was suspended (otherwise it is the exception thrown in) -/
def refThrow (orc : Src → Slot → Bool) (rk : RK) (st : GState) (init : Bool) : AOut :=
  match rk with
  | .raised => ⟨.propagate, init, true⟩
  | .stopped => if st != .suspended || orc .stopVal .returnT then ⟨.raiseStop, init, true⟩ else ⟨.ped, init, true⟩
  | .yielded => if orc .yielded .yieldT then ⟨.retYielded, init, true⟩ else ⟨.ped, init, true⟩

end PedVerif.GenWrap
