"""C04 (C03 for the generator part): forward references in the annotations of a @pedantic function refer to the module that defines
it - whoever calls or steps it.  Exits 1 before 173abdd (conforming calls rejected), 0 after."""
import asyncio, sys
from typing import Generator, Iterator, List, Optional, TypeVar
from pedantic import pedantic


class Item:
    pass


TB = TypeVar('TB', bound='Item')


@pedantic
def items() -> Iterator['Item']:
    yield Item()


@pedantic
def chunks() -> Generator[List['Item'], None, Optional['Item']]:
    yield [Item()]
    return Item()


@pedantic
async def fetch(x: 'Item') -> List['Item']:
    return [x]


@pedantic
async def same(x: TB) -> TB:
    return x


async def gathered():
    return await asyncio.gather(fetch(x=Item()), same(x=Item()))

bad = []
for what, run in [('generator Iterator[Item]', lambda: list(items())), ('generator Generator[List[Item], None, Optional[Item]]', lambda: list(chunks())),
                  ('asyncio.run(coroutine)', lambda: asyncio.run(fetch(x=Item()))), ('asyncio.gather', lambda: asyncio.run(gathered())),
                  ('TypeVar bound by name, asyncio.run', lambda: asyncio.run(same(x=Item())))]:
    try:
        run()
    except Exception as e:
        bad.append(f'{what}: {type(e).__name__}: {str(e).splitlines()[-1][:110]}')
try:
    asyncio.run(fetch(x=object()))
    bad.append('a non-conforming value was accepted')
except Exception as e:
    if type(e).__name__ != 'PedanticTypeCheckException':
        bad.append(f'wrong exception {type(e).__name__}')
print('\n'.join(bad) if bad else 'PASS')
sys.exit(1 if bad else 0)
