import sys, functools, collections.abc
from typing import *
from pedantic import assert_value_matches_type, pedantic
from pedantic.exceptions import PedanticTypeCheckException


def verdict(value, annotation):
    """accept | reject (the checker answered False) | raised:<class> (an exception inside the checker was wrapped)"""
    try:
        assert_value_matches_type(value=value, type_=annotation, err='', type_vars={}, context={})
        return 'accept'
    except PedanticTypeCheckException as e:
        return 'reject' if e.__context__ is None else 'raised:' + type(e.__context__).__name__


BAD = []


def expect(label, got, want):
    ok = got == want
    print(('ok   ' if ok else 'FAIL ') + f'{label}: {got}' + ('' if ok else f'   (expected {want})'))
    if not ok:
        BAD.append(label)


# F5 callableGenericVsRawClass: a parametrised generic is a subtype of its raw class / of an unparametrised supertype
# (List[int] is a list, a collections.abc.Sequence).   exit 0 = fixed, 1 = unfixed.   Run: PYTHONPATH=<tree> python demo_Callable_F5.py
def rL() -> List[int]:
    return []


def pL(a: List[int]) -> None:
    pass


def rD() -> Dict[str, int]:
    return {}


expect('def rL() -> List[int] as Callable[[], list]', verdict(rL, Callable[[], list]), 'accept')
expect('def pL(a: List[int]) -> None as Callable[[list], None]', verdict(pL, Callable[[list], None]), 'accept')
expect('def rL() -> List[int] as Callable[[], collections.abc.Sequence]', verdict(rL, Callable[[], collections.abc.Sequence]), 'accept')
expect('def rD() -> Dict[str, int] as Callable[[], dict]', verdict(rD, Callable[[], dict]), 'accept')
# still rejected / unchanged
expect('def rL() -> List[int] as Callable[[], dict]', verdict(rL, Callable[[], dict]), 'reject')
expect('def rL() -> List[int] as Callable[[], str]', verdict(rL, Callable[[], str]), 'reject')
expect('def rL() -> List[int] as Callable[[], List[str]]', verdict(rL, Callable[[], List[str]]), 'reject')
expect('def rL() -> List[int] as Callable[[], Sequence[int]]', verdict(rL, Callable[[], Sequence[int]]), 'accept')
sys.exit(1 if BAD else 0)
