"""C02: a coroutine function conforms to Callable[..., Any] / Callable[[int], object].  Exits 1 before the repair (HEAD of /repo before "fix: a coroutine function conforms to Callable[..., Any]"), 0 after."""
import sys
from typing import Callable, Any, Awaitable
from pedantic.type_checking_logic.check_types import assert_value_matches_type
from pedantic.exceptions import PedanticTypeCheckException

async def g(x: int) -> int:
    return x

bad = 0
for ann in (Callable[..., Any], Callable[[int], Any], Callable[[int], object], Callable[..., Awaitable[int]]):
    try:
        assert_value_matches_type(value=g, type_=ann, err='', type_vars={})
        print('accepted', ann)
    except PedanticTypeCheckException as e:
        print('REJECTED', ann); bad += 1
# still rejected: a coroutine function does not return an int
try:
    assert_value_matches_type(value=g, type_=Callable[[int], int], err='', type_vars={})
    print('ACCEPTED Callable[[int], int]'); bad += 1
except PedanticTypeCheckException:
    print('rejected Callable[[int], int] (right)')
sys.exit(1 if bad else 0)
