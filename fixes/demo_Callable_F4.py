import sys, functools, collections.abc
from typing import *
from pedantic import assert_value_matches_type, pedantic
from pedantic.exceptions import PedanticTypeCheckException


def verdict(value, annotation):
    """accept | reject (the checker answered False) | raised:<class> (an exception inside the checker was wrapped)"""
    try:
        assert_value_matches_type(value=value, type_=annotation, err='', type_vars={}, context={})
        return 'accept'
    except PedanticTypeCheckException as e:
        return 'reject' if e.__context__ is None else 'raised:' + type(e.__context__).__name__


BAD = []


def expect(label, got, want):
    ok = got == want
    print(('ok   ' if ok else 'FAIL ') + f'{label}: {got}' + ('' if ok else f'   (expected {want})'))
    if not ok:
        BAD.append(label)


# F4 callableDeclaredUnionVsClass: a declared Union (either spelling) against a class / generic: every member must be a
# subtype; no TypeError from issubclass(typing.Union, cls) any more.
# exit 0 = fixed, 1 = unfixed.   Run: PYTHONPATH=<tree> python demo_Callable_F4.py
def ru() -> Union[bool, int]:
    return 1


def ru6() -> bool | int:
    return 1


def ro() -> Optional[int]:
    return None


def pu(a: Union[bool, int]) -> None:
    pass


def rl() -> List[Union[int, bool]]:
    return []


expect('def ru() -> Union[bool, int] as Callable[[], int]', verdict(ru, Callable[[], int]), 'accept')
expect('def ru6() -> bool | int as Callable[[], int]', verdict(ru6, Callable[[], int]), 'accept')
expect('def pu(a: Union[bool, int]) -> None as Callable[[int], None]', verdict(pu, Callable[[int], None]), 'accept')
expect('def rl() -> List[Union[int, bool]] as Callable[[], List[int]]', verdict(rl, Callable[[], List[int]]), 'accept')
# still rejected - and rejected, not an internal TypeError
expect('def ro() -> Optional[int] as Callable[[], int]', verdict(ro, Callable[[], int]), 'reject')
expect('def ru() -> Union[bool, int] as Callable[[], bool]', verdict(ru, Callable[[], bool]), 'reject')
expect('def ru() -> Union[bool, int] as Callable[[], str]', verdict(ru, Callable[[], str]), 'reject')
sys.exit(1 if BAD else 0)
