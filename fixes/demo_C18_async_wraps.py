from pedantic import pedantic
@pedantic
async def target(a: int) -> int:
    """doc"""
    return a
print(target.__name__, target.__qualname__, target.__doc__, target.__module__)
