import sys, functools, collections.abc
from typing import *
from pedantic import assert_value_matches_type, pedantic
from pedantic.exceptions import PedanticTypeCheckException


def verdict(value, annotation):
    """accept | reject (the checker answered False) | raised:<class> (an exception inside the checker was wrapped)"""
    try:
        assert_value_matches_type(value=value, type_=annotation, err='', type_vars={}, context={})
        return 'accept'
    except PedanticTypeCheckException as e:
        return 'reject' if e.__context__ is None else 'raised:' + type(e.__context__).__name__


BAD = []


def expect(label, got, want):
    ok = got == want
    print(('ok   ' if ok else 'FAIL ') + f'{label}: {got}' + ('' if ok else f'   (expected {want})'))
    if not ok:
        BAD.append(label)


# F2 callableAbcSpelling: collections.abc.Callable[[A1..An], R] is converted to typing.Callable[[A1..An], R] for every arity
# (it used to work for n == 1 and `...` only) and a bare `list` among the arguments is no error (as in the typing spelling).
# exit 0 = fixed, 1 = unfixed.   Run: PYTHONPATH=<tree> python demo_Callable_F2.py
A = collections.abc


def f0() -> str:
    return ''


def f2(a: int, b: str) -> bool:
    return True


def fl(a: list) -> str:
    return ''


PAIRS = [('def f0() -> str', f0, A.Callable[[], str], Callable[[], str]),
         ('def f2(a: int, b: str) -> bool', f2, A.Callable[[int, str], bool], Callable[[int, str], bool]),
         ('def f2(a: int, b: str) -> bool', f2, A.Callable[[int, int], bool], Callable[[int, int], bool]),
         ('def f2(a: int, b: str) -> bool', f2, A.Callable[[int], bool], Callable[[int], bool]),
         ('def fl(a: list) -> str', fl, A.Callable[[list], str], Callable[[list], str]),
         ('def f0() -> str', f0, A.Callable[..., str], Callable[..., str]),
         ('None', None, Optional[A.Callable[[], str]], Optional[Callable[[], str]]),
         ('[]', [], list[A.Callable[[], None]], List[Callable[[], None]]),
         ('[f0, f2]', [f0, f2], List[A.Callable[[], str]], List[Callable[[], str]]),
         ("{'k': f2}", {'k': f2}, dict[str, A.Callable[[int, str], bool]], Dict[str, Callable[[int, str], bool]]),
         ('3', 3, A.Callable[[int, str], bool], Callable[[int, str], bool])]
for label, v, abc_spelling, typing_spelling in PAIRS:
    expect(f'{label} as {abc_spelling}', verdict(v, abc_spelling), verdict(v, typing_spelling))
expect('def f2(a: int, b: str) -> bool as collections.abc.Callable[[int, str], bool]', verdict(f2, A.Callable[[int, str], bool]), 'accept')
expect('def f0() -> str as collections.abc.Callable[[], str]', verdict(f0, A.Callable[[], str]), 'accept')
sys.exit(1 if BAD else 0)
