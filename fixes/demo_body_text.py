"""fixed: property=C04/C06/C08 — words in the body, comments or docstring of a @pedantic function must not change its behaviour.
exit 0 on the repaired tree; 1 where a comment mentioning @staticmethod makes the keyword call raise IndexError."""
import sys
from typing import Tuple
from pedantic import pedantic
from pedantic.exceptions import PedanticTypeCheckException

bad = []


@pedantic
def f(a: int) -> int:
    # no @staticmethod here
    return a


@pedantic
def g(a: int) -> int:
    """ not a property: @g.setter is just text, like @pedantic and @require_kwargs """
    return a


@pedantic
def h() -> Tuple:
    # note: @staticmethod
    return ()


for label, thunk, want in (('f(a=1)', lambda: f(a=1), 1), ('g(a=2)', lambda: g(a=2), 2)):
    try:
        r = thunk()
        if r != want: bad.append(f'{label} returned {r!r}')
    except Exception as e:
        bad.append(f'{label} raised {type(e).__name__}: {e}')
try:
    h()
    bad.append('h() returned although its return annotation is incomplete')
except PedanticTypeCheckException:
    pass
except Exception as e:
    bad.append(f'h() raised {type(e).__name__} instead of PedanticTypeCheckException')
try:
    g(3)
    bad.append('g(3): a positional call was accepted')
except Exception as e:
    if type(e).__name__ != 'PedanticCallWithArgsException': bad.append(f'g(3) raised {type(e).__name__}')
print('\n'.join(bad) or 'ok')
sys.exit(1 if bad else 0)
