from typing import Generic, TypeVar, Any
from pedantic import pedantic_class
from pedantic.exceptions import PedanticException
T = TypeVar('T')
@pedantic_class
class G(Generic[T]):
    def __init__(self, x: T) -> None:
        self.x = x
    def __getattr__(self, name: str) -> Any:
        raise AttributeError(name)
    def get(self) -> T:
        return self.x
    def put(self, x: T) -> None:
        self.x = x
print(G(x=1).get())
g = G[int](x=1); print(g.get())
try:
    g.put(x='a'); print('ACCEPTED')
except PedanticException as e: print('rejected', type(e).__name__)
try: g.nope
except AttributeError as e: print('AttributeError', e)
