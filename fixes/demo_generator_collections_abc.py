"""C04: a generator function annotated with the collections.abc spelling is as transparent as with the typing spelling.
Exits 1 before the repair 1f320b1, 0 after."""
import sys, collections.abc
from typing import Iterator
from pedantic import pedantic
from pedantic.exceptions import PedanticTypeCheckException

bad = 0
@pedantic
def t() -> Iterator[int]:
    yield 1
    yield 2
assert list(t()) == [1, 2]

@pedantic
def a() -> collections.abc.Iterator[int]:
    yield 1
    yield 2
@pedantic
def b() -> collections.abc.Iterable[int]:
    yield 1
@pedantic
def c() -> collections.abc.Generator[int, str, bool]:
    x = yield 1
    assert x == 's'
    return True
@pedantic
def d() -> collections.abc.Iterator[int]:
    yield 'no int'
for f, want in ((a, [1, 2]), (b, [1])):
    try:
        got = list(f())
        print(f.__name__, got); bad += got != want
    except PedanticTypeCheckException as e:
        print(f.__name__, 'REJECTED at the call:', str(e)[:90]); bad += 1
try:
    g = c(); assert next(g) == 1
    try:
        g.send('s'); bad += 1
    except StopIteration as s:
        print('c returned', s.value); bad += s.value is not True
    g = c(); next(g)
    try:
        g.send(5); print('c: bad send ACCEPTED'); bad += 1
    except PedanticTypeCheckException:
        print('c: bad send rejected (right)')
except PedanticTypeCheckException as e:
    print('c REJECTED at the call:', str(e)[:90]); bad += 1
try:
    list(d()); print('d: bad yield ACCEPTED'); bad += 1
except PedanticTypeCheckException as e:
    print('d: rejected:', 'at the call' if 'Generator should have' in str(e) else 'bad yield (right)'); bad += 'Generator should have' in str(e)
sys.exit(1 if bad else 0)
