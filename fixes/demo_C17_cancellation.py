"""
C17: "Every invocation terminates ... and leaves no open pipe ends and no un-reaped child process behind."

An invocation also ends when the task that awaits it is CANCELLED (task.cancel(), asyncio.wait_for / asyncio.timeout
running out, a TaskGroup that is torn down, a server that shuts down).  While `calculate_in_subprocess` sits in
`await event.wait()` the CancelledError is raised there; the `finally` of that block removes the reader - and the
exception leaves the coroutine BEFORE `process.join()` and `rx.close()`: the child keeps running (and stays an
un-reaped zombie once it is through), the read end of the pipe stays open for as long as anything refers to the
coroutine's frame (the traceback of the exception does).

The demo cancels / times out invocations whose callee sleeps and then looks - without calling anything of
multiprocess that would reap children as a side effect - at the children of this process (right after the await, while
the caller still holds the exception, as a caller that logs it does) and, once the exception has been dropped and
garbage has been collected, at its open descriptors.  Exit 0: nothing is left behind.  Exit 1: something is.
"""
import asyncio
import gc
import os
import signal
import sys
import time

from pedantic import in_subprocess
from pedantic.decorators.fn_deco_in_subprocess import calculate_in_subprocess

signal.alarm(60)  # watchdog: never hang
ME = os.getpid()


@in_subprocess
def slow(seconds: float) -> str:
    time.sleep(seconds)
    return 'done'


async def slow_async(seconds: float) -> str:
    await asyncio.sleep(seconds)
    return 'done'


def children():
    """direct children of this process (running or zombie), read from /proc without reaping anything"""
    out = []
    for d in os.listdir('/proc'):
        if d.isdigit():
            try:
                with open(f'/proc/{d}/stat') as f:
                    s = f.read()
                rest = s[s.rindex(')') + 2:].split()
                if int(rest[1]) == ME:
                    out.append((int(d), rest[0]))
            except (OSError, ValueError):
                pass
    return out


def fds():
    return set(os.listdir('/proc/self/fd'))


async def cancelled_task() -> BaseException:
    task = asyncio.ensure_future(slow(3.0))
    await asyncio.sleep(0.3)          # the child is running, the coroutine waits for its result
    task.cancel()
    try:
        await task
    except asyncio.CancelledError as ex:
        return ex
    raise AssertionError('the cancelled task did not raise CancelledError')


async def timed_out() -> BaseException:
    try:
        await asyncio.wait_for(calculate_in_subprocess(slow_async, 3.0), timeout=0.3)
    except asyncio.TimeoutError as ex:
        return ex
    raise AssertionError('wait_for did not time out')


async def main() -> int:
    bad = 0
    await slow(0.0)                    # warm-up: whatever the first invocation opens for good is not counted
    for label, scenario in (('task.cancel()', cancelled_task), ('asyncio.wait_for(.., timeout=0.3)', timed_out)):
        before_fds, before_kids = fds(), {pid for pid, _ in children()}
        t0 = time.monotonic()
        ex = await scenario()          # keeps the exception (and so its traceback) alive, like a caller that logs it
        took = time.monotonic() - t0
        left_kids = [(pid, st) for pid, st in children() if pid not in before_kids]
        name = type(ex).__name__
        del ex                         # (the Process object of an invocation owns two descriptors of its own for as long as it lives;
        await asyncio.sleep(0)         #  asyncio itself still refers to the CancelledError until the caller has gone through the loop once more
        gc.collect()                   #  and keeps a cancelled task and its exception in a reference cycle)
        left_fds = sorted(fds() - before_fds, key=int)
        print(f'{label}: {name} after {took:.2f} s; children left behind: {left_kids}; descriptors left open: {left_fds}')
        if left_kids or left_fds:
            bad += 1
    # an ordinary invocation afterwards still works
    if await slow(0.0) != 'done':
        bad += 1
    return bad


if __name__ == '__main__':
    failures = asyncio.run(main())
    print('FAIL: a cancelled invocation left its child process / its pipe end behind' if failures else 'OK: nothing is left behind')
    sys.exit(1 if failures else 0)
