"""Validate fix (varPositionalNotNamedArgs, C12; the text-test quirks of the same line, C13): @validate finds the VAR_POSITIONAL
parameter in the signature instead of looking for the text '*args' in str(signature) and the key 'args'.

Exit 0 on the fixed tree, 1 on the unfixed one.   Run: PYTHONPATH=<tree> /venv/bin/python demo_Validate_varpositional.py

Before the fix `_wrapper_content` recognised surplus positionals only if the parameter was spelled `*args`:
  * `def f(a, *rest)`: the tuple bind_partial files under `rest` was treated like ONE ordinary argument called rest - strict=False:
    handed to the body unvalidated and nested in a tuple; strict=True: TooManyArguments for a legal call; KWARGS modes: TypeError;
  * a function WITHOUT *args whose signature text merely contains '*args' (a default value '*args', an annotation, `*argsx`) and
    that has an ordinary parameter called `args` sent that parameter through the zip branch: positional calls bound differently
    from keyword calls.
`*args` itself behaves as before.
"""
import contextlib
import io
import sys

from pedantic.decorators.fn_deco_validate.exceptions import ParameterException
from pedantic.decorators.fn_deco_validate.fn_deco_validate import validate, ReturnAs
from pedantic.decorators.fn_deco_validate.parameters import Parameter
from pedantic.decorators.fn_deco_validate.validators import Validator, Min

failures = []


class Tag(Validator):
    """ marks what went through it """

    def __init__(self, tag):
        self.tag = tag

    def validate(self, value):
        return self.tag, value


def observe(fn, *a, **kw):
    with contextlib.redirect_stdout(io.StringIO()):
        try:
            return fn(*a, **kw)
        except Exception as ex:  # every exception is an observation too
            return f'raised {type(ex).__name__}'


def expect(what, got, want):
    if got != want:
        failures.append(f'{what}: expected {want!r}, got {got!r}')


def params():
    return [Parameter('a', validators=[Tag('A')]), Parameter('b', validators=[Tag('B')], required=False, default='DB')]


# 1. the spelling of the VAR_POSITIONAL parameter does not matter: *rest behaves like *args
for strict in (True, False):
    @validate(*params(), strict=strict)
    def with_args(a, *args):
        return a, args

    @validate(*params(), strict=strict)
    def with_rest(a, *rest):
        return a, rest

    for call in [(1,), (1, 2), (1, 2, 3)]:
        want = observe(with_args, *call)
        expect(f'strict={strict} with_rest{call}', observe(with_rest, *call), want)

    expect(f'strict={strict} with_args(1, 2)', observe(with_args, 1, 2), (('A', 1), (('B', 2),)))      # unchanged behaviour of *args

# 2. the gate holds for *rest: a surplus positional is validated by the unused Parameter, a rejection blocks the body
body_ran = []


@validate(Parameter('a', value_type=int), Parameter('b', value_type=int, validators=[Min(0)]), strict=False)
def gated(a, *rest):
    body_ran.append((a, rest))
    return a, rest


expect('gated(1, 5)', observe(gated, 1, 5), (1, (5,)))
expect('gated(1, -5)', observe(gated, 1, -5), 'raised ParameterException')
expect('gated(1, "x")', observe(gated, 1, 'x'), 'raised ParameterException')
expect('bodies run', body_ran, [(1, (5,))])

# 3. no VAR_POSITIONAL parameter: an ordinary parameter called `args` binds by name, whatever the text of the signature contains
for return_as in ReturnAs:
    @validate(Parameter('x'), Parameter('args'), return_as=return_as)
    def default_text(args, x='*args'):
        return {'args': args, 'x': x}

    @validate(Parameter('x'), Parameter('args'), return_as=return_as)
    def annotation_text(args, x: '*args' = 5):
        return {'args': args, 'x': x}

    for fn in (default_text, annotation_text):
        want = {'args': 1, 'x': 2}
        expect(f'{fn.__name__} {return_as.name} positional', observe(fn, 1, 2), want)
        expect(f'{fn.__name__} {return_as.name} keyword', observe(fn, x=2, args=1), want)
        expect(f'{fn.__name__} {return_as.name} mixed', observe(fn, 1, x=2), want)


@validate(Parameter('x'), Parameter('args'), strict=False)
def prefix_text(args, x, *argsx):
    return {'args': args, 'x': x, 'argsx': argsx}


# (positional calls only: a function WITH a VAR_POSITIONAL parameter is handed its values in arrival order - outside C13, unchanged)
expect('prefix_text positional', observe(prefix_text, 1, 2), {'args': 1, 'x': 2, 'argsx': ()})
expect('prefix_text positional + surplus', observe(prefix_text, 1, 2, 3), {'args': 1, 'x': 2, 'argsx': ()})

if failures:
    print(f'{len(failures)} failure(s):')
    for line in failures:
        print('  ' + line)
    print('FAIL')
    sys.exit(1)

print('PASS')
sys.exit(0)
