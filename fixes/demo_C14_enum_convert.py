import enum
from pedantic.decorators.fn_deco_validate.validators import IsEnum
from pedantic.decorators.fn_deco_validate.convert_value import convert_value
class IE(enum.IntEnum):
    A = 1
for v in (float('inf'), float('-inf'), float('nan'), 1, 2):
    try: print('IsEnum', v, IsEnum(IE).validate(v))
    except Exception as e: print('IsEnum', v, type(e).__name__)
for t in (float, str, bool, list, int):
    try: print('convert 10**4300 ->', t.__name__, str(convert_value(10**4300, t))[:10])
    except Exception as e: print('convert 10**4300 ->', t.__name__, type(e).__name__)
