"""C12 fix (varPositionalSurplusDropped): the zip branch of @validate takes the surplus positionals from what `bind_partial` bound to
the VAR_POSITIONAL parameter (`bound_args[var_positional]`) instead of `[a for a in args if a not in used_args]`, and under strict
refuses a surplus positional that no declared Parameter is left to take.

Exit 0 on the fixed tree, 1 on the unfixed one.   Run: PYTHONPATH=<tree> /venv/bin/python demo_C12_var_positional_surplus.py

Before the fix
  * strict=True, `def f(a, *rest)`, only Parameter('a'): `f(100, 101, 102)` ran the body with rest == () - two arguments without
    declared Parameter silently dropped although strict promises TooManyArguments; with a second Parameter b, 101 reached rest and 102
    was dropped;
  * the surplus was filtered by value EQUALITY with the validated named positionals: `f(5, 5, 6)` with Parameters a, b filed b == 6
    (the second 5 vanished), and `f(5, 5)` filed nothing for b at all;
  * for a method the receiver itself is a positional that is not in `used_args`: `obj.m(1, 2)` validated `obj` as the first surplus
    positional (b == obj -> TypeError / a wrong binding).
After the fix the i-th surplus positional goes to the i-th declared Parameter the caller did not supply (declaration order), all of
them, equal values and all.  Non-strict, a surplus positional beyond the Parameters left is dropped as before (it reaches neither the
body's *rest nor a Parameter).  The hand-over order of ARGS mode for functions with *args (test_return_as_args_advanced_different_order)
is unchanged.
"""
import contextlib
import io
import sys

from pedantic.decorators.fn_deco_validate.fn_deco_validate import validate, ReturnAs
from pedantic.decorators.fn_deco_validate.parameters import Parameter
from pedantic.decorators.fn_deco_validate.validators import Validator

failures = []


class Tag(Validator):
    """ marks what went through it """

    def __init__(self, tag):
        self.tag = tag

    def validate(self, value):
        return self.tag, value


def observe(fn, *a, **kw):
    with contextlib.redirect_stdout(io.StringIO()):
        try:
            return fn(*a, **kw)
        except Exception as ex:  # every exception is an observation too
            return f'raised {type(ex).__name__}'


def expect(what, got, want):
    if got != want:
        failures.append(f'{what}: expected {want!r}, got {got!r}')


def P(name, **kw):
    return Parameter(name, validators=[Tag(name.upper())], **kw)


for mode in ReturnAs:
    by_name = mode != ReturnAs.ARGS

    # 1. strict: a surplus positional that no Parameter is left to take is an argument without declared Parameter
    @validate(P('a'), strict=True, return_as=mode)
    def f1(a, *rest):
        return a, rest
    expect(f'{mode.name} strict def f1(a, *rest) [a]: f1(100, 101, 102)', observe(f1, 100, 101, 102), 'raised TooManyArguments')
    expect(f'{mode.name} strict def f1(a, *rest) [a]: f1(100, 101)', observe(f1, 100, 101), 'raised TooManyArguments')
    expect(f'{mode.name} strict def f1(a, *rest) [a]: f1(100)', observe(f1, 100), (('A', 100), ()))

    @validate(P('a'), P('b', required=False, default='DB'), strict=True, return_as=mode)
    def f2(a, *rest, **kwargs):
        return a, rest, kwargs
    expect(f'{mode.name} strict def f2(a, *rest, **kw) [a, b]: f2(100, 101, 102)', observe(f2, 100, 101, 102), 'raised TooManyArguments')
    expect(f'{mode.name} strict def f2(a, *rest, **kw) [a, b]: f2(100, 101)', observe(f2, 100, 101),
           (('A', 100), (), {'b': ('B', 101)}) if by_name else (('A', 100), (('B', 101),), {}))
    expect(f'{mode.name} strict def f2(a, *rest, **kw) [a, b]: f2(100)', observe(f2, 100),
           (('A', 100), (), {'b': 'DB'}) if by_name else (('A', 100), ('DB',), {}))

    # 2. equal values are different arguments
    @validate(P('a'), P('b', required=False, default='DB'), P('c', required=False, default='DC'), strict=False, return_as=mode)
    def f3(a, *rest, **kwargs):
        return a, rest, kwargs
    expect(f'{mode.name} def f3(a, *rest, **kw) [a, b, c]: f3(5, 5, 6)', observe(f3, 5, 5, 6),
           (('A', 5), (), {'b': ('B', 5), 'c': ('C', 6)}) if by_name else (('A', 5), (('B', 5), ('C', 6)), {}))
    expect(f'{mode.name} def f3(a, *rest, **kw) [a, b, c]: f3(5, 5)', observe(f3, 5, 5),
           (('A', 5), (), {'b': ('B', 5), 'c': 'DC'}) if by_name else (('A', 5), (('B', 5), 'DC'), {}))
    expect(f'{mode.name} def f3(a, *rest, **kw) [a, b, c]: f3(5, 6, 6)', observe(f3, 5, 6, 6),
           (('A', 5), (), {'b': ('B', 6), 'c': ('C', 6)}) if by_name else (('A', 5), (('B', 6), ('C', 6)), {}))
    # non-strict: what no Parameter is left for is dropped (unchanged)
    expect(f'{mode.name} def f3(a, *rest, **kw) [a, b, c]: f3(5, 6, 7, 8)', observe(f3, 5, 6, 7, 8),
           (('A', 5), (), {'b': ('B', 6), 'c': ('C', 7)}) if by_name else (('A', 5), (('B', 6), ('C', 7)), {}))

    # 3. a method: the receiver is no surplus positional
    for strict in (True, False):
        class K:
            @validate(P('a'), P('b', required=False, default='DB'), strict=strict, return_as=mode)
            def m(self, a, *rest, **kwargs):
                return self, a, rest, kwargs
        o = K()
        expect(f'{mode.name} strict={strict} def m(self, a, *rest, **kw) [a, b]: o.m(1, 2)', observe(o.m, 1, 2),
               (o, ('A', 1), (), {'b': ('B', 2)}))
        expect(f'{mode.name} strict={strict} def m(self, a, *rest, **kw) [a, b]: o.m(1)', observe(o.m, 1), (o, ('A', 1), (), {'b': 'DB'}))
        expect(f'{mode.name} strict={strict} def m(self, a, *rest, **kw) [a, b]: o.m(1, 2, 3)', observe(o.m, 1, 2, 3),
               'raised TooManyArguments' if strict else (o, ('A', 1), (), {'b': ('B', 2)}))

# 4. the maintainers' pinned behaviour is unchanged
@validate(Parameter(name='c'), Parameter(name='a'), Parameter(name='b'), return_as=ReturnAs.ARGS)
def bar(a, b, *args, **kwargs):
    return a, b, args, kwargs


expect('pinned: bar(a=1, b=3, c=42)', observe(bar, a=1, b=3, c=42), (1, 3, (42,), {}))
expect('pinned: bar(1, 3, 42)', observe(bar, 1, 3, 42), (1, 3, (42,), {}))
expect('pinned: bar(1, 3, c=42)', observe(bar, 1, 3, c=42), (42, 1, (3,), {}))

if failures:
    print(f'{len(failures)} differences:')
    for f_ in failures:
        print('  ' + f_)
    sys.exit(1)
print('OK: the surplus positionals are exactly what *rest received; strict refuses what no Parameter is left for')
