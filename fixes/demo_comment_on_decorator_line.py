"""C04 / C05 / C08: a comment on a decorator line is no decorator.  Exits 1 before b8ad1a1, 0 after."""
import sys
from pedantic import pedantic

bad = []


@pedantic  # not a @staticmethod
def area(width: int, height: int) -> int:
    return width * height


@pedantic  # see @other and @more: one decorator, whatever the comment mentions
def twice(x: int) -> int:
    return 2 * x


try:
    if area(width=2, height=3) != 6:
        bad.append('area: wrong result')
except Exception as e:
    bad.append(f'area(width=2, height=3): {type(e).__name__}: {e}')
try:
    twice(4)
    bad.append('twice(4): the positional call was accepted')
except Exception as e:
    if type(e).__name__ != 'PedanticCallWithArgsException':
        bad.append(f'twice(4): {type(e).__name__}')
print('\n'.join(bad) if bad else 'PASS')
sys.exit(1 if bad else 0)
