"""C10: copy_with() and the constructor of a decorated subclass must resolve forward references to function-local classes in the
frame of their caller, like the constructor of the base does.  Exits 1 before 26263cd, 0 after."""
import sys
from typing import List, Dict
from pedantic import frozen_type_safe_dataclass, frozen_dataclass

bad = []


def scope():
    class Item:
        pass

    @frozen_type_safe_dataclass
    class A:
        items: List['Item']
        n: int

    @frozen_dataclass(type_safe=True)
    class B(A):
        more: Dict[str, 'Item']

    a = A(items=[Item()], n=1)                      # always worked
    a.deep_copy_with(n=2)                           # always worked
    try:
        a.copy_with(n=2)
    except Exception as e:
        bad.append(f'copy_with: {type(e).__name__}: {str(e)[:120]}')
    try:
        B(items=[Item()], n=1, more={'x': Item()})
    except Exception as e:
        bad.append(f'subclass constructor: {type(e).__name__}: {str(e)[:120]}')
    try:
        B(items=[], n=1, more={}).copy_with(items=[Item()])
    except Exception as e:
        bad.append(f'subclass copy_with: {type(e).__name__}: {str(e)[:120]}')
    try:
        a.copy_with(items=[object()])               # non-conforming values are still rejected
        bad.append('copy_with accepted a non-conforming value')
    except Exception as e:
        if type(e).__name__ != 'PedanticTypeCheckException':
            bad.append(f'wrong exception {type(e).__name__}')


scope()
print('\n'.join(bad) if bad else 'PASS')
sys.exit(1 if bad else 0)
