"""fixed: property=C14 — Min/Max reject NaN (value or bound) with ValidatorException.
exit 0 on the repaired tree, 1 where NaN passes (both comparisons of the old code were false)."""
import sys
from pedantic.decorators.fn_deco_validate.validators import Min, Max
from pedantic.decorators.fn_deco_validate.exceptions import ValidatorException

nan = float('nan')
bad = []
for label, thunk in [('Min(5).validate(nan)', lambda: Min(5).validate(nan)), ('Min(5, False).validate(nan)', lambda: Min(5, False).validate(nan)),
                     ('Max(5).validate(nan)', lambda: Max(5).validate(nan)), ('Max(5, False).validate(nan)', lambda: Max(5, False).validate(nan)),
                     ('Min(nan).validate(3)', lambda: Min(nan).validate(3)), ('Max(nan).validate(3)', lambda: Max(nan).validate(3))]:
    try:
        r = thunk()
        bad.append(f'{label} returned {r!r}')
    except ValidatorException:
        pass
# unchanged behaviour away from NaN
assert Min(7, True).validate(7) == 7 and Max(7, True).validate(7) == 7 and Min(7, False).validate(7.001) == 7.001
for thunk in (lambda: Min(7, False).validate(7), lambda: Max(7, False).validate(7), lambda: Min(7).validate(6), lambda: Max(7).validate(float('inf'))):
    try:
        thunk(); bad.append('a value outside the bound was accepted')
    except ValidatorException:
        pass
print('\n'.join(bad) or 'ok')
sys.exit(1 if bad else 0)
