import dataclasses
from pedantic import frozen_dataclass
@frozen_dataclass
class NB:
    x: int
class NBSub(NB): pass
r = NBSub(x=1).deep_copy_with()
print('deep_copy_with class:', type(r).__name__)
@frozen_dataclass
class IF:
    a: int
    b: int = dataclasses.field(default=5, init=False)
try:
    print('init=False:', IF(a=1).deep_copy_with(a=2))
except Exception as e: print('init=False:', type(e).__name__, e)
