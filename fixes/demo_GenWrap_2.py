"""GenWrap fix 2 (exhaustedGeneratorRecheck, C04): the bare StopIteration of a generator that had finished BEFORE the resume
carries no result and reaches the caller unchanged.

Exit 0 on the fixed tree, 1 on the unfixed one.   Run: PYTHONPATH=<tree> /venv/bin/python demo_GenWrap_2.py

Every StopIteration coming out of send was checked against the return type - also the one CPython raises for a generator that
returned, raised or was closed earlier, whose value is always None.  For a return type that does not accept None
(Generator[int, None, str]) the second next() after exhaustion raised PedanticTypeCheckException where the undecorated generator
raises StopIteration.  The value the body really returns is still checked (C03).
"""
import sys
from typing import Generator

from pedantic import pedantic
from pedantic.exceptions import PedanticTypeCheckException

failures = []


def plain(mode: str = 'return') -> Generator[int, None, str]:
    yield 1
    if mode == 'raise':
        raise KeyError('body error')
    return 'done' if mode == 'return' else 5


decorated = pedantic(plain)


def observe(gen, ops):
    out = []
    for op in ops:
        try:
            out.append(('value', next(gen)) if op == 'next' else ('closed', gen.close()))
        except StopIteration as ex:
            out.append(('StopIteration', ex.value))
        except PedanticTypeCheckException:
            out.append(('PedanticTypeCheckException', None))
        except Exception as ex:
            out.append((type(ex).__name__, None))
    return out


for label, mode, ops in [('next after the generator returned', 'return', ['next', 'next', 'next', 'next']),
                         ('next after the body raised', 'raise', ['next', 'next', 'next']),
                         ('next after close()', 'return', ['next', 'close', 'next']),
                         ('next after close() of a generator that never started', 'return', ['close', 'next'])]:
    d, p = observe(decorated(mode=mode), ops), observe(plain(mode=mode), ops)
    if d != p:
        failures.append(f'{label}: decorated {d}, undecorated {p}')

# C03 is kept: the value the body really returns is checked
d = observe(decorated(mode='bad return'), ['next', 'next', 'next'])
if d != [('value', 1), ('PedanticTypeCheckException', None), ('StopIteration', None)]:
    failures.append(f'non-conforming return value: {d}')

if failures:
    print('FAIL')
    for f in failures:
        print('  -', f)
    sys.exit(1)
print('PASS')
sys.exit(0)
