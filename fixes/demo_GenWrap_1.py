"""GenWrap fix 1 (throwBypassesYieldCheck, C03): GeneratorWrapper.throw checks what the body produces in response like send does.

Exit 0 on the fixed tree, 1 on the unfixed one.   Run: PYTHONPATH=<tree> /venv/bin/python demo_GenWrap_1.py

`throw` was `return self._generator.throw(*args)`: a value the body yields after catching the thrown exception, and the value it
returns in response (StopIteration.value), reached the caller unchecked.  Conforming answers, an exception the body does not catch
and body exceptions still pass through unchanged.
"""
import sys
from typing import Generator

from pedantic import pedantic, pedantic_class
from pedantic.exceptions import PedanticTypeCheckException

failures = []


class Boom(Exception):
    pass


@pedantic
def answers(with_what: str) -> Generator[int, int, str]:
    try:
        yield 1
    except Boom:
        if with_what == 'bad yield':
            yield 'not an int'
        elif with_what == 'good yield':
            yield 2
        elif with_what == 'bad return':
            return 5
        elif with_what == 'good return':
            return 'done'
        else:
            raise KeyError('body error')


@pedantic_class
class K:
    def m(self) -> Generator[int, None, None]:
        try:
            yield 1
        except Boom:
            yield 'not an int'


def throw_into(gen):
    next(gen)
    try:
        return 'yielded', gen.throw(Boom())
    except StopIteration as ex:
        return 'returned', ex.value
    except PedanticTypeCheckException:
        return 'PedanticTypeCheckException', None
    except Exception as ex:
        return type(ex).__name__, None


def expect(label, got, want):
    if got != want:
        failures.append(f'{label}: got {got}, expected {want}')


expect('bad yield in response to throw', throw_into(answers(with_what='bad yield')), ('PedanticTypeCheckException', None))
expect('bad return in response to throw', throw_into(answers(with_what='bad return')), ('PedanticTypeCheckException', None))
expect('method of a pedantic_class', throw_into(K().m()), ('PedanticTypeCheckException', None))
# unchanged behaviour (both trees)
expect('good yield', throw_into(answers(with_what='good yield')), ('yielded', 2))
expect('good return', throw_into(answers(with_what='good return')), ('returned', 'done'))
expect('body exception', throw_into(answers(with_what='raise')), ('KeyError', None))


@pedantic
def deaf() -> Generator[int, None, None]:
    yield 1


g = deaf()
next(g)
boom = Boom()
try:
    g.throw(boom)
    failures.append('uncaught thrown exception did not come back')
except Boom as ex:
    if ex is not boom:
        failures.append('uncaught thrown exception came back as another object')

if failures:
    print('FAIL')
    for f in failures:
        print('  -', f)
    sys.exit(1)
print('PASS')
sys.exit(0)
