from pedantic.decorators.fn_deco_validate.validators import DateTimeUnixTimestamp
for v in (float('nan'), 'nan', 10**400, float('inf')):
    try: print(repr(v)[:12], DateTimeUnixTimestamp().validate(v))
    except Exception as e: print(repr(v)[:12], type(e).__name__)
