import sys, typing
from typing import Generic, TypeVar
from pedantic import GenericMixin
T = TypeVar('T'); L = TypeVar('L')
class Labelled(Generic[L]): pass
class IntL(Labelled[int], GenericMixin): pass
class IntL2(GenericMixin, Labelled[int]): pass
bad=[]
for c in (IntL, IntL2):
    try:
        tv = c().type_vars
        if tv != {L: int}: bad.append(f'{c.__name__}: {tv}')
    except Exception as e: bad.append(f'{c.__name__}: {type(e).__name__}: {e}')
print('\n'.join(bad) if bad else 'PASS'); sys.exit(1 if bad else 0)
