"""C18: require_kwargs must be transparent also for a BOUND method handed to the decorator call (require_kwargs(obj.method)):
a keyword-only call / a call without arguments returns what obj.method(...) returns, positional surplus arguments of a *args
method arrive unchanged, and a positional call of a method without *args is refused with PedanticCallWithArgsException.
Before 86bfec9 DecoratedFunction.is_instance_method took the bound method for a function that still expects its instance:
the keyword-only call raised IndexError and one positional argument slipped through the guard.  Exits 1 before 86bfec9, 0 after."""
import sys
from pedantic import require_kwargs
from pedantic.exceptions import PedanticCallWithArgsException
bad = []


class Bag:
    def __init__(self):
        self.items = []

    def collect(self, *args, tag=None):
        self.items.extend(args)
        return len(self.items), tag

    def pair(self, a, b=None):
        return a, b


def same(what, decorated, plain):
    try:
        want = plain()
    except Exception as e:
        bad.append(f'{what}: the undecorated call itself raised {type(e).__name__}')
        return
    try:
        got = decorated()
    except Exception as e:
        bad.append(f'{what}: raised {type(e).__name__}: {e} instead of returning {want!r}')
        return
    if got != want:
        bad.append(f'{what}: returned {got!r} instead of {want!r}')


b1, b2 = Bag(), Bag()
collect = require_kwargs(b1.collect)
same('collect(tag=…)', lambda: collect(tag='t'), lambda: b2.collect(tag='t'))
same('collect()', lambda: collect(), lambda: b2.collect())
same('collect(7, 8, 9, tag=…)', lambda: collect(7, 8, 9, tag='t'), lambda: b2.collect(7, 8, 9, tag='t'))
if b1.items != b2.items:
    bad.append(f'collect: the instance holds {b1.items!r} instead of {b2.items!r}')
pair = require_kwargs(Bag().pair)
same('pair(a=…)', lambda: pair(a=1), lambda: Bag().pair(a=1))
same('pair(a=…, b=…)', lambda: pair(a=1, b=2), lambda: Bag().pair(a=1, b=2))
for what, call in [('pair(1)', lambda: pair(1)), ('pair(1, b=2)', lambda: pair(1, b=2)), ('pair(1, 2)', lambda: pair(1, 2))]:
    try:
        r = call()
        bad.append(f'{what}: the positional call was let through (returned {r!r})')
    except PedanticCallWithArgsException:
        pass
    except Exception as e:
        bad.append(f'{what}: {type(e).__name__}: {e} instead of PedanticCallWithArgsException')
print('\n'.join(bad) if bad else 'PASS')
sys.exit(1 if bad else 0)
