"""C12 fix (selfKeywordBypassesGate): @validate recognises the receiver of a method by the SIGNATURE - the value bound to the first
parameter when that parameter is called `self` - and no longer by the mere presence of a key 'self' in the validated arguments.

Exit 0 on the fixed tree, 1 on the unfixed one.   Run: PYTHONPATH=<tree> /venv/bin/python demo_C12_self_keyword.py

Before the fix both wrappers ended with `if 'self' in result: return func(result.pop('self'), **result)`.  A keyword argument called
`self` passed to a PLAIN function (no parameter of that name; strict=False lets undeclared arguments pass) was therefore popped and
handed over POSITIONALLY: it landed in the first declared parameter without having seen that parameter's validators
(`f(None, self=X)` under KWARGS_WITHOUT_NONE ran the body with a == X although the chain of `a` rejects everything).
After the fix such a keyword travels like every other undeclared keyword: strict -> TooManyArguments; non-strict -> passed by name ->
Python's own TypeError for an unexpected keyword, the body does not run.  Real methods behave as before, with the receiver passed
positionally (`obj.f(...)`, `K.f(obj, ...)`) or by keyword (`K.f(self=obj, ...)`, non-strict).
"""
import asyncio
import contextlib
import io
import sys

from pedantic.decorators.fn_deco_validate.fn_deco_validate import validate, ReturnAs
from pedantic.decorators.fn_deco_validate.parameters import Parameter
from pedantic.decorators.fn_deco_validate.validators import Validator

failures = []
BODY = []          # what the bodies observed


class RejectAll(Validator):
    """ no value is good enough """

    def validate(self, value):
        self.raise_exception(msg='rejected', value=value)


class Tag(Validator):
    """ marks what went through it """

    def validate(self, value):
        return 'validated', value


def observe(fn, *a, **kw):
    del BODY[:]
    with contextlib.redirect_stdout(io.StringIO()):
        try:
            r = fn(*a, **kw)
            if asyncio.iscoroutine(r):
                r = asyncio.run(r)
            return r
        except Exception as ex:  # every exception is an observation too
            return f'raised {type(ex).__name__}'


def expect(what, got, want):
    if got != want:
        failures.append(f'{what}: expected {want!r}, got {got!r}')


X = 'UNVALIDATED'

# 1. a plain function, the chain of `a` rejects every value: the body must never see X
for mode in ReturnAs:
    for is_async in (False, True):
        if is_async:
            @validate(Parameter('a', validators=[RejectAll()], required=False), strict=False, return_as=mode)
            async def f(a='DA'):
                BODY.append(a)
                return a
        else:
            @validate(Parameter('a', validators=[RejectAll()], required=False), strict=False, return_as=mode)
            def f(a='DA'):
                BODY.append(a)
                return a
        label = f'{mode.name} {"async " if is_async else ""}def f(a=DA)'
        # None passes for the non-required `a`; under KWARGS_WITHOUT_NONE it is dropped again - X must not take its place
        expect(f'{label}: f(None, self=X)', observe(f, None, self=X), 'raised TypeError')
        expect(f'{label}: f(None, self=X) body', list(BODY), [])
        expect(f'{label}: f(self=X)', observe(f, self=X), 'raised TypeError')
        expect(f'{label}: f(self=X) body', list(BODY), [])
        expect(f'{label}: f(a=1, self=X)', observe(f, a=1, self=X), 'raised ParameterException')

# 2. two parameters: the keyword `self` must not shift the binding either
for mode in ReturnAs:
    @validate(Parameter('a', validators=[Tag()]), Parameter('b', validators=[Tag()], required=False), strict=False, return_as=mode)
    def g(a, b='DB'):
        BODY.append((a, b))
        return a, b
    expect(f'{mode.name} def g(a, b=DB): g(b=2, self=X)', observe(g, b=2, self=X), 'raised ParameterException')     # a is required
    expect(f'{mode.name} def g(a, b=DB): g(1, self=X)', observe(g, 1, self=X), 'raised TypeError')
    expect(f'{mode.name} def g(a, b=DB): g(1, self=X) body', list(BODY), [])
    expect(f'{mode.name} def g(a, b=DB): g(1, 2)', observe(g, 1, 2), (('validated', 1), ('validated', 2)))

    @validate(Parameter('a', validators=[Tag()]), strict=False, return_as=mode)
    def g2(x='DX', a='DA'):
        BODY.append((x, a))
        return x, a
    # the undeclared first parameter must not be filled with the value of the keyword `self` (ARGS and KWARGS modes alike)
    expect(f'{mode.name} def g2(x=DX, a=DA): g2(a=1, self=X)', observe(g2, a=1, self=X), 'raised TypeError')
    expect(f'{mode.name} def g2(x=DX, a=DA): g2(a=1, self=X) body', list(BODY), [])

# 3. strict: an undeclared keyword is refused, whatever it is called
for mode in ReturnAs:
    @validate(Parameter('a', validators=[Tag()]), strict=True, return_as=mode)
    def h(a):
        BODY.append(a)
        return a
    expect(f'{mode.name} strict def h(a): h(1, self=X)', observe(h, 1, self=X), 'raised TooManyArguments')
    expect(f'{mode.name} strict def h(a): h(1, zz=X)', observe(h, 1, zz=X), 'raised TooManyArguments')
    expect(f'{mode.name} strict def h(a): h(1)', observe(h, 1), ('validated', 1))

# 4. an ordinary parameter that merely is CALLED self (not the first one) is a parameter like every other: bound by name, validated
for mode in ReturnAs:
    @validate(Parameter('a', validators=[Tag()]), Parameter('self', validators=[Tag()]), strict=True, return_as=mode)
    def k(a, self):
        return a, self
    expect(f'{mode.name} def k(a, self): k(1, 2)', observe(k, 1, 2), (('validated', 1), ('validated', 2)))
    expect(f'{mode.name} def k(a, self): k(self=2, a=1)', observe(k, self=2, a=1), (('validated', 1), ('validated', 2)))

    @validate(Parameter('a', validators=[Tag()]), strict=True, return_as=mode)
    def k2(a, self):
        return a, self
    # strict: no Parameter is declared for the ordinary parameter `self` (only the receiver of a method is exempt)
    expect(f'{mode.name} strict def k2(a, self): k2(1, 2)', observe(k2, 1, 2), 'raised TooManyArguments')

# 5. real methods: the receiver keeps working - positionally (bound and unbound) and, non-strict, by keyword
for mode in ReturnAs:
    for strict in (True, False):
        class K:
            @validate(Parameter('a', validators=[Tag()]), Parameter('b', validators=[Tag()], required=False), strict=strict, return_as=mode)
            def m(self, a, b='DB'):
                return self, a, b

            @validate(Parameter('a', validators=[Tag()]), strict=strict, return_as=mode)
            async def am(self, a):
                return self, a
        o = K()
        label = f'{mode.name} strict={strict} method'
        expect(f'{label}: o.m(1, 2)', observe(o.m, 1, 2), (o, ('validated', 1), ('validated', 2)))
        expect(f'{label}: o.m(b=2, a=1)', observe(o.m, b=2, a=1), (o, ('validated', 1), ('validated', 2)))
        expect(f'{label}: o.m(1)', observe(o.m, 1), (o, ('validated', 1), 'DB'))
        expect(f'{label}: K.m(o, 1, b=2)', observe(K.m, o, 1, b=2), (o, ('validated', 1), ('validated', 2)))
        expect(f'{label}: await o.am(a=1)', observe(o.am, a=1), (o, ('validated', 1)))
        # the receiver by keyword: as before the fix (strict: `self` is an argument without Parameter)
        want = 'raised TooManyArguments' if strict else (o, ('validated', 1), ('validated', 2))
        expect(f'{label}: K.m(self=o, a=1, b=2)', observe(K.m, self=o, a=1, b=2), want)
        expect(f'{label}: K.m(a=1, b=2, self=o)', observe(K.m, a=1, b=2, self=o), want)

if failures:
    print(f'{len(failures)} differences:')
    for f_ in failures:
        print('  ' + f_)
    sys.exit(1)
print('OK: a keyword called self no longer bypasses the gate; methods work as before')
