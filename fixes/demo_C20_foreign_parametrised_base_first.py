import sys, typing
from typing import Generic, TypeVar
from pedantic import GenericMixin
T = TypeVar('T'); L = TypeVar('L')
class Labelled(Generic[L]): pass
class Box(Generic[T], GenericMixin): pass
class Odd(Labelled[str], Box[int]): pass
class Even(Box[int], Labelled[str]): pass
class SeqBox(typing.Sequence[int], Box[int]):
    def __getitem__(self, i): return 0
    def __len__(self): return 0
bad = []
for c in (Odd, Even, SeqBox):
    try:
        tv = c().type_vars
        if tv != {T: int}: bad.append(f'{c.__name__}().type_vars == {tv}')
    except Exception as e:
        bad.append(f'{c.__name__}: {type(e).__name__}: {e}')
print('\n'.join(bad) if bad else 'PASS'); sys.exit(1 if bad else 0)
