"""C08 / C04 / C03 candidate fix (unprintableValueEscapes): building an error message never raises, and the message about the return
value is built only when the return value does not match.

Exit 0 on the fixed tree, 1 on the unfixed one.   Run: PYTHONPATH=<tree> /venv/bin/python demo_C08_unprintable_values.py

Before the fix `FunctionCall._check_types_return` formatted `msg = f'... {result} of type {type(result)} ...'` BEFORE the check, for
every result: a *conforming* result whose `__str__` / `__repr__` / `__format__` raises (or returns a non-string) let that exception
escape from the wrapper (C08: no exception of the checking machinery, whatever the value; C04: a conforming call is transparent), and
`__str__` of every result was called (an observable side effect of checking).  On the failure paths the messages of
`assert_value_matches_type`, of the handler in `_check_type` and of `assert_uses_kwargs` interpolated the user's values as well, so a
non-conforming value that cannot be formatted produced its own exception instead of a PedanticException.
After the fix the return message is a function that is called only if the check failed, and every user value goes through
`check_types._describe` (`str(value)`, falling back to `object.__repr__(value)`).
"""
import sys

from pedantic import pedantic
from pedantic.exceptions import PedanticTypeCheckException, PedanticCallWithArgsException, PedanticException
from pedantic.type_checking_logic.check_types import assert_value_matches_type

failures = []
CALLS = []


class StrRaises:
    def __str__(self):
        CALLS.append('str')
        raise ValueError('no text for you')


class StrReturnsNone:
    def __str__(self):
        return None


class ReprRaises:
    def __repr__(self):
        raise RuntimeError('no repr for you')


class FormatRaises:
    def __format__(self, spec):
        raise KeyError('no format for you')


class Counting:
    def __str__(self):
        CALLS.append('str')
        return 'counting'


UNPRINTABLE = [StrRaises, StrReturnsNone, ReprRaises, FormatRaises]


def outcome(thunk):
    try:
        return 'RET', thunk()
    except PedanticException as e:
        return 'PED:' + type(e).__name__, None
    except BaseException as e:
        return 'ESC:' + type(e).__name__, None


def expect(what, got, want):
    if got != want:
        failures.append(f'{what}: {got} instead of {want}')


for cls in UNPRINTABLE:
    name = cls.__name__

    @pedantic
    def conforming(a: int) -> cls:
        return cls()

    @pedantic
    def wrong_result(a: int) -> int:
        return cls()

    @pedantic
    def takes_int(a: int) -> None:
        return None

    # 1. a conforming result is handed to the caller, whatever its __str__ does
    out, res = outcome(lambda: conforming(a=1))
    expect(f'{name}: conforming result', out, 'RET')
    if out == 'RET' and type(res) is not cls:
        failures.append(f'{name}: the result is not the object the body returned')
    # 2. a non-conforming result is a PedanticTypeCheckException
    expect(f'{name}: non-conforming result', outcome(lambda: wrong_result(a=1))[0], 'PED:PedanticTypeCheckException')
    # 3. a non-conforming argument is a PedanticTypeCheckException
    expect(f'{name}: non-conforming argument', outcome(lambda: takes_int(a=cls()))[0], 'PED:PedanticTypeCheckException')
    # 4. a positional call is a PedanticCallWithArgsException
    expect(f'{name}: positional call', outcome(lambda: takes_int(cls()))[0], 'PED:PedanticCallWithArgsException')
    # 5. the checker itself
    expect(f'{name}: assert_value_matches_type', outcome(lambda: assert_value_matches_type(value=cls(), type_=int, err='', type_vars={}))[0],
           'PED:PedanticTypeCheckException')
    expect(f'{name}: assert_value_matches_type with key', outcome(lambda: assert_value_matches_type(value=cls(), type_=int, err='', type_vars={}, key='a'))[0],
           'PED:PedanticTypeCheckException')


# 6. checking a conforming result does not call its __str__
@pedantic
def counting() -> Counting:
    return Counting()


del CALLS[:]
out, res = outcome(lambda: counting())
expect('Counting: conforming result', out, 'RET')
if CALLS:
    failures.append(f'checking a conforming result called its __str__ ({len(CALLS)} time(s))')


# 7. a value whose class makes the check itself raise (here: a metaclass whose __instancecheck__ ... is not needed: a mapping whose items() raises)
class BadDict(dict):
    def items(self):
        raise OSError('no items')

    def __str__(self):
        raise ValueError('no text')


from typing import Dict


@pedantic
def takes_dict(d: Dict[str, int]) -> None:
    return None


expect('BadDict: a check that raises inside', outcome(lambda: takes_dict(d=BadDict(a=1)))[0], 'PED:PedanticTypeCheckException')

# the text of the messages is unchanged for ordinary values
try:
    @pedantic
    def wrong() -> int:
        return 'x'
    wrong()
except PedanticTypeCheckException as e:
    if "but x of type <class 'str'> was the return value which does not match." not in str(e):
        failures.append(f'return message changed: {e}')
try:
    assert_value_matches_type(value='x', type_=int, err='E:', type_vars={}, key='a')
except PedanticTypeCheckException as e:
    if str(e) != "E:Type hint is incorrect: Argument a=x of type <class 'str'> does not match expected type <class 'int'>.":
        failures.append(f'argument message changed: {e}')

for f in failures:
    print('FAIL', f)
print('demo_C08_unprintable_values:', 'ok' if not failures else f'{len(failures)} failure(s)')
sys.exit(1 if failures else 0)
