"""C07 fix A (nonGenericPedanticClassResetsBindings): FunctionCall.type_vars resolves the binding store once per call.

Exit 0 on the fixed tree, 1 on the unfixed one.   Run: PYTHONPATH=<tree> /venv/bin/python demo_C07_A.py

For an instance of a NON-generic @pedantic_class class the accessor installs a fresh dict on every access of
FunctionCall.type_vars, i.e. before each parameter and before the result, so two parameters (or a parameter and the result)
annotated with the same TypeVar were never compared.  With the store resolved once per call the bindings live for the whole
call; the next call still starts fresh.
"""
import sys
from typing import TypeVar, List

from pedantic import pedantic_class
from pedantic.exceptions import PedanticTypeVarMismatchException

T = TypeVar('T')


@pedantic_class
class NG:
    def m2(self, a: T, b: T) -> None: pass
    def m3(self, a: T) -> T: return 'x'
    def ok(self, a: T, b: List[T]) -> T: return a


def outcome(thunk) -> str:
    try:
        thunk()
        return 'accepted'
    except PedanticTypeVarMismatchException:
        return 'mismatch'


ng = NG()
expected = [
    ("ng.m2(a=1, b='x')", lambda: ng.m2(a=1, b='x'), 'mismatch'),
    ("ng.m3(a=1) returning 'x'", lambda: ng.m3(a=1), 'mismatch'),
    ("ng.ok(a=1, b=[2])", lambda: ng.ok(a=1, b=[2]), 'accepted'),
    ("ng.ok(a='s', b=['t']) (the next call starts fresh)", lambda: ng.ok(a='s', b=['t']), 'accepted'),
    ("ng.m2(a='s', b='t')", lambda: ng.m2(a='s', b='t'), 'accepted'),
    ("ng.m2(a=1, b=2)", lambda: ng.m2(a=1, b=2), 'accepted'),
]
problems = [f'{label}: {outcome(f)}, expected {want}' for label, f, want in expected if outcome(f) != want]
if problems:
    print('FAIL')
    for p in problems:
        print(' -', p)
    sys.exit(1)
print('PASS')
sys.exit(0)
