import asyncio, os, sys, gc
from pedantic.decorators.fn_deco_in_subprocess import in_subprocess, calculate_in_subprocess
def die(): os._exit(3)
def ok(x): return x * 2
async def main():
    before = len(os.listdir('/proc/self/fd'))
    try:
        r = await asyncio.wait_for(calculate_in_subprocess(die), timeout=5)
        print('returned', r)
    except asyncio.TimeoutError: print('HANG (timeout)')
    except BaseException as e: print('raised', type(e).__name__, e)
    print(await calculate_in_subprocess(ok, 21))
    gc.collect()
    print('fd delta', len(os.listdir('/proc/self/fd')) - before)
asyncio.run(main())
