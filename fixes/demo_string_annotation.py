"""fixed: property=C01 9abf519 / property=C02 46bef98 — top-level string annotations.
exit 0 on the repaired tree; 1 where 'P' accepts an unrelated class that is merely NAMED P, or rejects a grandchild of P."""
import sys
from pedantic.type_checking_logic.check_types import assert_value_matches_type
from pedantic.exceptions import PedanticTypeCheckException


class P: pass
class C1(P): pass
class G(C1): pass


def _other():
    class P: pass        # same name, unrelated
    return P


Other = _other()


def accepted(v, ctx):
    try:
        assert_value_matches_type(value=v, type_='P', err='', type_vars={}, context=ctx)
        return True
    except PedanticTypeCheckException:
        return False


bad = []
ctx = {'P': P}
if accepted(Other(), ctx): bad.append("an instance of another class named 'P' is accepted for the string annotation 'P' (C01)")
if not accepted(G(), ctx): bad.append("an instance of a grandchild of P is rejected for the string annotation 'P' (C02)")
if not accepted(G(), {}): bad.append("... also when the context does not know the name (comparison over the MRO)")
if not accepted(P(), ctx) or not accepted(C1(), ctx) or accepted(3, ctx): bad.append('basic behaviour changed')
print('\n'.join(bad) or 'ok')
sys.exit(1 if bad else 0)
