import sys
from typing import NamedTuple, List, Tuple
from dataclasses import dataclass
from pedantic.type_checking_logic.check_types import assert_value_matches_type
from pedantic.exceptions import PedanticTypeCheckException
class NT1(NamedTuple):
    a: int
    b: str
class NT2(NamedTuple):
    a: int
    b: str
@dataclass
class D:
    a: int
    b: str
class Sub(NT1):
    pass
def acc(v, t):
    try:
        assert_value_matches_type(value=v, type_=t, err='', type_vars={}); return True
    except PedanticTypeCheckException:
        return False
bad = 0
for v, t, want in [(NT2(1,'a'), NT1, False), (NT2(1,'a'), D, False), (NT1(1,'a'), NT1, True), (NT1(1,'a'), object, True), (NT1(1,'a'), tuple, None),
                   (NT1(1,'a'), tuple[int, str], True), (NT1(1,'a'), Tuple[int, str], True), (NT1('x','a'), NT1, False), ((1,'a'), NT1, False),
                   (Sub(1,'a'), NT1, True), (NT1(1,'a'), Sub, False), ([NT1(1,'a')], List[NT1], True), ([NT2(1,'a')], List[NT1], False), (NT1(1,'a'), 'NT1', True)]:
    got = acc(v, t)
    flag = '' if want is None or got == want else '   <-- WRONG'
    bad += bool(flag)
    print(f'{v!r:20} vs {t!s:30} accepted={got}{flag}')
sys.exit(1 if bad else 0)
