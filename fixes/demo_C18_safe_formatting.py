"""Demo for the candidate fix C18_safe_formatting.diff (finding traceFormatsArgumentsAndResults).

Run with PYTHONPATH=<tree>:  before the fix every line marked (*) raises the exception of __repr__ / __str__,
after it the decorated functions behave like the undecorated ones.  Comparisons (`result == return_value` in
trace_if_returns, `other != result` in does_same_as_function) still run the objects' own __eq__ / __ne__
(finding comparisonsCallUserEq: a decorator that compares results has to compare them)."""
import contextlib, io, sys
from pedantic import trace, trace_if_returns, does_same_as_function


class BadRepr:
    def __repr__(self): raise ValueError('no repr')


class BadStr:
    def __eq__(self, other): return isinstance(other, BadStr)
    __hash__ = object.__hash__
    def __str__(self): raise ValueError('no str')


problems = []


def check(label, decorated, plain):
    with contextlib.redirect_stdout(io.StringIO()):
        try:
            want = ('ret', type(plain()).__name__)
        except BaseException as e:
            want = ('exc', type(e).__name__)
        try:
            got = ('ret', type(decorated()).__name__)
        except BaseException as e:
            got = ('exc', type(e).__name__)
    if got != want:
        problems.append(f'{label}: decorated {got}, undecorated {want}')


def f(a, b=None): return 1
def g(): return BadRepr()
def h(): return BadStr()
def other(): return BadStr()
def other_differs(): return 0

check('trace, argument whose __repr__ raises (*)', lambda: trace(f)(BadRepr()), lambda: f(BadRepr()))
check('trace, keyword argument whose __repr__ raises (*)', lambda: trace(f)(1, b=BadRepr()), lambda: f(1, b=BadRepr()))
check('trace, result whose __repr__ raises (*)', trace(g), g)
check('trace_if_returns, matching result whose __str__ raises (*)', trace_if_returns(BadStr())(h), h)
check('does_same_as_function, agreeing results', does_same_as_function(other)(h), h)
# a genuine difference is still an AssertionError, also when the results cannot be formatted
with contextlib.redirect_stdout(io.StringIO()):
    try:
        does_same_as_function(other_differs)(h)()
        problems.append('does_same_as_function: differing results did not raise')
    except AssertionError:
        pass
    except BaseException as e:
        problems.append(f'does_same_as_function, differing results whose __str__ raises (*): {type(e).__name__} instead of AssertionError')

for p in problems:
    print(p)
print('FAIL' if problems else 'PASS')
sys.exit(1 if problems else 0)
