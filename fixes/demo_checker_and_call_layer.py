import collections, collections.abc, typing
from typing import *
from pedantic import pedantic, pedantic_class
from pedantic.type_checking_logic.check_types import assert_value_matches_type as A
def t(label, f):
    try: r = f(); print(label, '->', 'ok' if r is None else r)
    except BaseException as e: print(label, '->', type(e).__name__, str(e)[:70].replace('\n', ' '))
t('C08 object() vs "Foo"', lambda: A(object(), 'Foo', '', {}))
t('C02 [1,None] vs list[Optional[int]]', lambda: A([1, None], list[Optional[int]], '', {}))
t('C02 {"a":None} vs dict[str, Optional[int]]', lambda: A({'a': None}, dict[str, Optional[int]], '', {}))
t('C02 [1] vs list[Literal[1]]', lambda: A([1], list[Literal[1]], '', {}))
t('C02 deque([1]) vs collections.deque[int]', lambda: A(collections.deque([1]), collections.deque[int], '', {}))
t('C02 [1] vs collections.abc.Sequence[int]', lambda: A([1], collections.abc.Sequence[int], '', {}))
t('C01 ["x"] vs collections.abc.Sequence[int]', lambda: A(['x'], collections.abc.Sequence[int], '', {}))
T = TypeVar('T'); TC = TypeVar('TC', int, str); TB = TypeVar('TB', bound=int)
@pedantic
def f(a: T, b: T) -> None: pass
t('C07 f(a=[1], b=[2])', lambda: f(a=[1], b=[2]))
t('C07 f(a=1, b="x") (must mismatch)', lambda: f(a=1, b='x'))
@pedantic
def h(a: TC, b: Optional[TC]) -> None: pass
t('C07 h(a=1, b=1.5) (must reject)', lambda: h(a=1, b=1.5))
@pedantic
def hb(a: TB, b: Optional[TB]) -> None: pass
t('C07 hb(a=1, b="s") (must reject)', lambda: hb(a=1, b='s'))
class P: pass
class C1(P): pass
class C2(P): pass
@pedantic_class
class Box(Generic[T]):
    def lst(self, b: List[T]) -> None: pass
bx = Box[P]()
t('C07 Box[P]().lst(b=[C1(), C2()])', lambda: bx.lst(b=[C1(), C2()]))
@pedantic
def it(a: Iterable[int]) -> list: return list(a)
@pedantic
def it2(a: Iterable[int]) -> List[int]: return list(a)
t('C04 generator for Iterable[int] arrives', lambda: it2(a=(i for i in range(3))))
@pedantic
def s1(*args) -> int: return 1
@pedantic
def s2(*args: list) -> int: return 1
@pedantic
def s3(**kwargs: dict) -> int: return 1
t('C06 def f(*args)->int; f()', lambda: s1()); t('C06 *args: list', lambda: s2()); t('C06 **kwargs: dict', lambda: s3())
@pedantic
def v(a: int, *args: int) -> int: return a
t('C08 f(a=1) on def f(a: int, *args: int)', lambda: v(a=1))
t('     f(1, 2) same', lambda: v(1, 2))
@pedantic_class
class K:
    def m(self, *args: int) -> int: return len(args)
    def __call__(self, x: int) -> int: return x
t('C04 K().m()', lambda: K().m()); t('C04 K().m(1,2)', lambda: K().m(1, 2))
t('C08 K()(x=1)', lambda: K()(x=1)); t('     K()(1)', lambda: K()(1))
@pedantic
def mixed(a: str, *args: int) -> int: return len(args)
t('C04 mixed("x", 1, 2)', lambda: mixed('x', 1, 2))
t('    mixed("x", 1, "y") must reject', lambda: mixed('x', 1, 'y'))
