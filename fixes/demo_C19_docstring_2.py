import importlib.util, sys, os, tempfile
CASES = {
'syntax_error': '''
@pedantic
def f(p0: int) -> None:
    """ S.

    Args:
        p0 (List[int): x
    """
''',
'type_error': '''
@pedantic
def f(p0: int) -> None:
    """ S.

    Args:
        p0 (List[int, str]): x
    """
''',
'pep604_user_class': '''
class My: pass
@pedantic
def f(p0: My | None) -> None:
    """ S.

    Args:
        p0 (My | None): x
    """
''',
'pep604_user_class_optional_spelling': '''
class My: pass
@pedantic
def f(p0: My | None) -> None:
    """ S.

    Args:
        p0 (Optional[My]): x
    """
''',
}
d = tempfile.mkdtemp()
for k, src in CASES.items():
    path = os.path.join(d, f'm_{k}.py'); open(path, 'w').write('from typing import *\nfrom pedantic import pedantic\n' + src)
    spec = importlib.util.spec_from_file_location(f'm_{k}', path); mod = importlib.util.module_from_spec(spec)
    try: spec.loader.exec_module(mod); print(k, 'ok')
    except Exception as e: print(k, type(e).__name__, str(e)[:60])
