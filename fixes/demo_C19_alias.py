"""C19 fix (docstringAliasNotResolved): a documented type is read in the namespace of the module that defines the function.

Exit 0 on the fixed tree, 1 on the unfixed one.   Run: PYTHONPATH=<tree> /venv/bin/python demo_C19_alias.py

Before the fix `_check_docstring` evaluated a documented type in a context that starts EMPTY and only receives the `__name__`s of the
objects found in the annotations.  A name under which the module binds such an object but which is not its `__name__` - a type alias
(`Alias = My`, `IntList = List[int]`), a type variable bound under another identifier (`U = TypeVar('T2')`) - was a NameError in `eval`,
and a docstring that documents exactly the annotated parameters, each with a type equal to its annotation, was rejected with
PedanticDocstringException ("Documented type "Alias" was not found").
After the fix the context starts as a copy of the globals of the defining module (`DecoratedFunction.globals`); the `__name__`s found in
the annotations are added on top as before (classes local to a function are still found, and win over a module name).  What a
documented name DENOTES decides: an alias of ANOTHER type is rejected as before, and so is a name nobody defines.
"""
import sys
from typing import Dict, List, Optional, TypeVar

from pedantic import pedantic, pedantic_class_require_docstring, pedantic_require_docstring
from pedantic.exceptions import PedanticDocstringException

failures = []


class My:
    pass


class Other:
    pass


Alias = My                       # alias of a class
IntList = List[int]              # alias of a generic
Table = Dict[str, Optional[My]]  # alias of a nested generic
U = TypeVar('T2')                # a type variable bound under another identifier than its __name__
Wrong = Other                    # an alias of ANOTHER type


def accepted(what, define):
    try:
        define()
    except PedanticDocstringException as ex:
        failures.append(f'{what}: consistent docstring rejected: {str(ex).splitlines()[-1].strip()[:110]}')


def rejected(what, define):
    try:
        define()
    except PedanticDocstringException:
        return
    failures.append(f'{what}: inconsistent docstring accepted')


def class_alias():
    @pedantic
    def f(p: Alias) -> Alias:
        """ S.

        Args:
            p (Alias): text

        Returns:
            Alias: text
        """
        return p


def class_alias_documented_by_name():
    @pedantic
    def f(p: Alias) -> None:
        """ S.

        Args:
            p (My): text
        """


def class_documented_by_alias():
    @pedantic_require_docstring
    def f(p: My) -> None:
        """ S.

        Args:
            p (Alias): text
        """


def generic_alias():
    @pedantic
    def f(p: IntList, q: Table) -> Optional[IntList]:
        """ S.

        Args:
            p (IntList): text
            q (Table): text

        Returns:
            Optional[IntList]: text
        """
        return p


def generic_alias_spelled_out():
    @pedantic
    def f(p: IntList) -> None:
        """ S.

        Args:
            p (List[int]): text
        """


def typevar_under_another_identifier():
    @pedantic
    def f(p: U, q: List[U]) -> U:
        """ S.

        Args:
            p (U): text
            q (List[U]): text

        Returns:
            U: text
        """
        return p


def method_of_a_decorated_class():
    @pedantic_class_require_docstring
    class C:
        def m(self, p: Alias) -> IntList:
            """ S.

            Args:
                p (Alias): text

            Returns:
                IntList: text
            """
            return [1]


def local_class_still_found():
    class Local:
        pass

    @pedantic
    def f(p: Local) -> None:
        """ S.

        Args:
            p (Local): text
        """


def wrong_alias():
    @pedantic
    def f(p: Alias) -> None:
        """ S.

        Args:
            p (Wrong): text
        """


def wrong_generic_alias():
    @pedantic
    def f(p: List[str]) -> None:
        """ S.

        Args:
            p (IntList): text
        """


def undefined_name():
    @pedantic
    def f(p: Alias) -> None:
        """ S.

        Args:
            p (Alais): text
        """


accepted('alias of a class, as parameter and return type', class_alias)
accepted('annotation is the alias, documented by the __name__', class_alias_documented_by_name)
accepted('annotation is the class, documented by the alias', class_documented_by_alias)
accepted('aliases of generics (IntList = List[int], Table = Dict[str, Optional[My]])', generic_alias)
accepted('annotation is a generic alias, documented spelled out', generic_alias_spelled_out)
accepted("type variable bound under another identifier (U = TypeVar('T2'))", typevar_under_another_identifier)
accepted('method of a pedantic_class_require_docstring class', method_of_a_decorated_class)
accepted('class local to a function (control)', local_class_still_found)
rejected('alias of ANOTHER type', wrong_alias)
rejected('generic alias of ANOTHER type', wrong_generic_alias)
rejected('a name nobody defines', undefined_name)

if failures:
    print('FAIL')
    for f in failures:
        print(' -', f)
    sys.exit(1)
print('PASS')
sys.exit(0)
