import sys, functools, collections.abc
from typing import *
from pedantic import assert_value_matches_type, pedantic
from pedantic.exceptions import PedanticTypeCheckException


def verdict(value, annotation):
    """accept | reject (the checker answered False) | raised:<class> (an exception inside the checker was wrapped)"""
    try:
        assert_value_matches_type(value=value, type_=annotation, err='', type_vars={}, context={})
        return 'accept'
    except PedanticTypeCheckException as e:
        return 'reject' if e.__context__ is None else 'raised:' + type(e.__context__).__name__


BAD = []


def expect(label, got, want):
    ok = got == want
    print(('ok   ' if ok else 'FAIL ') + f'{label}: {got}' + ('' if ok else f'   (expected {want})'))
    if not ok:
        BAD.append(label)


# F3 callableUnionNotExactMember + typeOfUnionSubclass: a type is a subtype of a Union when it is a subtype of SOME member
# (it had to be literally one of the members), a Union is a subtype of a Union when every member is.
# exit 0 = fixed, 1 = unfixed.   Run: PYTHONPATH=<tree> python demo_Callable_F3.py
def pb(a: bool) -> None:
    pass


def rb() -> bool:
    return True


def ru() -> Union[bool, str]:
    return True


def rf() -> float:
    return 1.0


def rL() -> List[bool]:
    return []


expect('def pb(a: bool) -> None as Callable[[Union[int, str]], None]', verdict(pb, Callable[[Union[int, str]], None]), 'accept')
expect('def rb() -> bool as Callable[[], Union[int, str]]', verdict(rb, Callable[[], Union[int, str]]), 'accept')
expect('def rb() -> bool as Callable[[], int | str]', verdict(rb, Callable[[], int | str]), 'accept')
expect('def rb() -> bool as Callable[[], Optional[int]]', verdict(rb, Callable[[], Optional[int]]), 'accept')
expect('def ru() -> Union[bool, str] as Callable[[], Union[int, str, None]]', verdict(ru, Callable[[], Union[int, str, None]]), 'accept')
expect('def rL() -> List[bool] as Callable[[], Optional[List[int]]]', verdict(rL, Callable[[], Optional[List[int]]]), 'accept')
expect('bool as Type[Union[int, str]]', verdict(bool, Type[Union[int, str]]), 'accept')
expect('bool as Type[int | str]', verdict(bool, Type[int | str]), 'accept')
# still rejected
expect('def rf() -> float as Callable[[], Union[int, str]]', verdict(rf, Callable[[], Union[int, str]]), 'reject')
expect('def ru() -> Union[bool, str] as Callable[[], Union[int, float]]', verdict(ru, Callable[[], Union[int, float]]), 'reject')
# a member `_is_subtype` cannot compare (a forward reference) neither matches nor raises: unchanged verdicts
expect("int as Type[Union['SomeClass', int]]", verdict(int, Type[Union['SomeClass', int]]), 'accept')
expect("str as Type[Union['SomeClass', int]]", verdict(str, Type[Union['SomeClass', int]]), 'reject')
expect('float as Type[Union[int, str]]', verdict(float, Type[Union[int, str]]), 'reject')
expect('def rb() -> bool as Callable[[], Union[str, float]]', verdict(rb, Callable[[], Union[str, float]]), 'reject')
sys.exit(1 if BAD else 0)
