import importlib.util, sys, os, tempfile
from pedantic.exceptions import *
CASES = {
'renamed': '''
@pedantic
def f(a: int) -> int:
    """ S.

    Args:
        b (int): x

    Returns:
        int: y
    """
    return a
''',
'duplicated': '''
@pedantic
def f(a: int, b: int) -> int:
    """ S.

    Args:
        a (int): x
        a (int): x

    Returns:
        int: y
    """
    return a
''',
'untyped': '''
@pedantic
def f(a: int) -> int:
    """ S.

    Args:
        a: x

    Returns:
        int: y
    """
    return a
''',
'builtin_generic': '''
@pedantic
def f(a: list[int]) -> list[int]:
    """ S.

    Args:
        a (list[int]): x

    Returns:
        list[int]: y
    """
    return a
''',
'consistent': '''
@pedantic
def f(a: List[int]) -> Optional[int]:
    """ S.

    Args:
        a (List[int]): x

    Returns:
        Optional[int]: y
    """
    return None
''',
}
d = tempfile.mkdtemp()
for k, src in CASES.items():
    path = os.path.join(d, f'm_{k}.py'); open(path, 'w').write('from typing import *\nfrom pedantic import pedantic\n' + src)
    spec = importlib.util.spec_from_file_location(f'm_{k}', path); mod = importlib.util.module_from_spec(spec)
    try: spec.loader.exec_module(mod); print(k, 'ok')
    except Exception as e: print(k, type(e).__name__)
