from typing import *
from pedantic import pedantic
def t(label, f):
    try: r = f(); print(label, '->', 'returned', r)
    except BaseException as e: print(label, '->', type(e).__name__, str(e)[:90].replace('\n', ' '))
@pedantic
def s(*args: Type) -> int: return 1
@pedantic
def k(**kwargs: Type) -> int: return 1
@pedantic
def p(a: Type) -> int: return 1
t('def s(*args: Type) -> int; s()', lambda: s())
t('def k(**kwargs: Type) -> int; k()', lambda: k())
t('def p(a: Type); p(a=int)', lambda: p(a=int))
t('def p(a: Type); p(a=5)', lambda: p(a=5))
