"""C07 fix B (methodLevelTypeVarLeaks): the per-instance store of a generic @pedantic_class class remembers only the type
parameters of the class; every other TypeVar lives for one call.  (Needs fix A: the store is resolved once per call, so a
method-level TypeVar is still kept for the whole call.)

Exit 0 on the tree with fixes A + B, 1 otherwise.   Run: PYTHONPATH=<tree> /venv/bin/python demo_C07_B.py
"""
import sys
from typing import TypeVar, Generic

from pedantic import pedantic_class
from pedantic.exceptions import PedanticTypeVarMismatchException

T = TypeVar('T')
S = TypeVar('S')


@pedantic_class
class Box(Generic[T]):
    def other(self, a: S) -> None: pass
    def both(self, a: S, b: S) -> None: pass
    def m(self, a: T) -> None: pass
    def ts(self, a: T, b: S) -> S: return b


def outcome(thunk) -> str:
    try:
        thunk()
        return 'accepted'
    except PedanticTypeVarMismatchException:
        return 'mismatch'


def make_raw():
    return Box()        # not parametrised (hidden from the constructor-call scan): T is bound by the first value, by design


def main() -> int:
    b = Box[int]()
    raw = make_raw()
    expected = [
        ("b.other(a=1)", lambda: b.other(a=1), 'accepted'),
        ("b.other(a='s') after b.other(a=1)", lambda: b.other(a='s'), 'accepted'),
        ("b.both(a=1, b='s') (within one call S is kept)", lambda: b.both(a=1, b='s'), 'mismatch'),
        ("b.both(a='s', b='t')", lambda: b.both(a='s', b='t'), 'accepted'),
        ("b.m(a='s') on Box[int]", lambda: b.m(a='s'), 'mismatch'),
        ("b.m(a=2)", lambda: b.m(a=2), 'accepted'),
        ("b.ts(a=1, b='x')", lambda: b.ts(a=1, b='x'), 'accepted'),
        ("b.ts(a=1, b=2.0)", lambda: b.ts(a=1, b=2.0), 'accepted'),
        ("raw.m(a=1)", lambda: raw.m(a=1), 'accepted'),
        ("raw.m(a='s') (the class parameter of an unparametrised instance persists)", lambda: raw.m(a='s'), 'mismatch'),
        ("raw.other(a=1)", lambda: raw.other(a=1), 'accepted'),
        ("raw.other(a='s')", lambda: raw.other(a='s'), 'accepted'),
        ("raw.m(a=2)", lambda: raw.m(a=2), 'accepted'),
    ]
    problems = [f'{label}: {outcome(f)}, expected {want}' for label, f, want in expected if outcome(f) != want]
    if problems:
        print('FAIL')
        for p in problems:
            print(' -', p)
        return 1
    print('PASS')
    return 0


sys.exit(main())
