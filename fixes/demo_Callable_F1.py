import sys, functools, collections.abc
from typing import *
from pedantic import assert_value_matches_type, pedantic
from pedantic.exceptions import PedanticTypeCheckException


def verdict(value, annotation):
    """accept | reject (the checker answered False) | raised:<class> (an exception inside the checker was wrapped)"""
    try:
        assert_value_matches_type(value=value, type_=annotation, err='', type_vars={}, context={})
        return 'accept'
    except PedanticTypeCheckException as e:
        return 'reject' if e.__context__ is None else 'raised:' + type(e.__context__).__name__


BAD = []


def expect(label, got, want):
    ok = got == want
    print(('ok   ' if ok else 'FAIL ') + f'{label}: {got}' + ('' if ok else f'   (expected {want})'))
    if not ok:
        BAD.append(label)


# F1 callableObjectWithoutName: callables without __name__ (functools.partial, instances with __call__) are checked by their
# signature instead of ending in an internal AttributeError.   exit 0 = fixed, 1 = unfixed.   Run: PYTHONPATH=<tree> python demo_Callable_F1.py
def f(a: int) -> str:
    return str(a)


class K:
    def __call__(self, a: int) -> str:
        return str(a)


@pedantic
def use(cb: Callable[[int], str]) -> int:
    return 1


expect('functools.partial(f) as Callable[[int], str]', verdict(functools.partial(f), Callable[[int], str]), 'accept')
expect('K() (has __call__(self, a: int) -> str) as Callable[[int], str]', verdict(K(), Callable[[int], str]), 'accept')
expect('functools.partial(f) as Callable[..., Any]', verdict(functools.partial(f), Callable[..., Any]), 'accept')
expect('functools.partial(f) as Optional[Callable[[int], str]]', verdict(functools.partial(f), Optional[Callable[[int], str]]), 'accept')
expect('@pedantic use(cb=functools.partial(f))', use(cb=functools.partial(f)) if verdict(functools.partial(f), Callable[[int], str]) == 'accept' else 'raised', 1)
# still rejected: wrong parameter type / wrong arity; lambdas still accepted
expect('functools.partial(f) as Callable[[str], str]', verdict(functools.partial(f), Callable[[str], str]), 'reject')
expect('functools.partial(f, 1) (no parameter left) as Callable[[int], str]', verdict(functools.partial(f, 1), Callable[[int], str]), 'reject')
expect('K() as Callable[[int, int], str]', verdict(K(), Callable[[int, int], str]), 'reject')
expect('lambda x: x as Callable[[int], str]', verdict(lambda x: x, Callable[[int], str]), 'accept')
sys.exit(1 if BAD else 0)
