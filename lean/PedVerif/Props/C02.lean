import PedVerif.Props.CheckerIR
import PedVerif.Lemmas.CheckerEnvs
import PedVerif.Props.Callable
/-!
# C02 — the type checker is complete and spelling-independent

Central statement: on the guarded vocabulary the model of `_is_instance` *computes the specification*
(`exact_raw : isInstance a v = ok (conforms a v)`, every class table, every nesting depth, every value).  Completeness,
spelling invariance, invariance under the order of Union members and under the iteration order of set / dict values are
corollaries.  The guard `Ann.okC` is structural; its complement is the union of the recorded regions
(`emptyFixedTuple`, unresolvable forward references) and of bare / unsupported nodes; top-level
string annotations have their own regions (`strAnnDeepSubclass`); values with `_asdict` are the region
`namedtupleFieldMismatch` (the former `namedtupleVsPlainClass`, narrowed by the NamedTuple repair).  Each region has a negation witness below.
-/
namespace PedVerif.Checker

/-- the property as stated, over the whole vocabulary (false for the current code, see the witnesses) -/
def Complete_full : Prop :=
  ∀ (env : Env) (orc : Nat → Val → Raw) (a : Ann) (v : Val), WfEnv env → a.inVocab = true → v.wf env = true →
    conforms env a v = true → checkType env orc a v = .accept

/-- **C02 (completeness).** A conforming value is accepted. -/
theorem complete_partial (env : Env) (orc : Nat → Val → Raw) (hw : WfEnv env) (a : Ann) (v : Val)
    (hok : a.okC env = true ∨ a = .none) (hwf : v.wf env = true) (hp : v.plain = true) :
    conforms env a v = true → checkType env orc a v = .accept :=
  complete_checkType env orc hw a v hok hwf hp

/-- the verdict is a verdict: on the guarded vocabulary the checker answers accept or reject, exactly as the spec says -/
theorem verdict_exact (env : Env) (orc : Nat → Val → Raw) (hw : WfEnv env) (a : Ann) (v : Val)
    (hok : a.okC env = true ∨ a = .none) (hwf : v.wf env = true) (hp : v.plain = true) :
    checkType env orc a v = if conforms env a v then .accept else .reject :=
  exact_checkType env orc hw a v hok hwf hp

/-- `verdict_exact` with the two exclusions of `plain` named: no NamedTuple instance (region `namedtupleFieldMismatch`: an instance of the
    annotated NamedTuple class with a non-conforming field value is rejected) and no one-shot iterator (region `iteratorItemsUnchecked`: accepted whatever its pending items are) -/
theorem verdict_exact_split (env : Env) (orc : Nat → Val → Raw) (hw : WfEnv env) (a : Ann) (v : Val)
    (hok : a.okC env = true ∨ a = .none) (hwf : v.wf env = true) (hnt : v.hasNT = false) (hit : v.hasIter = false) :
    checkType env orc a v = if conforms env a v then .accept else .reject :=
  verdict_exact env orc hw a v hok hwf (plain_of hnt hit)

/-! ### spelling independence -/

/-- forget how generics and unions are spelled (typing.List[int] vs list[int]; Optional[X] vs Union[X, None] vs X | None) -/
def Ann.erase : Ann → Ann
  | .union _ ms => .union .union (eraseL ms)
  | .typeOf _ a => .typeOf .typing a.erase        -- also inside Type[..]: Type[Union[A, B]] vs type[A | B]
  | .seq _ o a => .seq .typing o a.erase
  | .map _ o k w => .map .typing o k.erase w.erase
  | .tuple _ items => .tuple .typing (eraseL items)
  | .tupleVar _ a => .tupleVar .typing a.erase
  | a => a
where eraseL : List Ann → List Ann
  | [] => []
  | a :: as => a.erase :: eraseL as

/-- the class-level relation of `Type[..]` does not look at spellings -/
theorem memberSpec_erase (env : Env) (c : ClsId) (m : Ann) : memberSpec env c m.erase = memberSpec env c m := by
  cases m <;> simp [Ann.erase, memberSpec]
theorem subSpec_erase (env : Env) (c : ClsId) (a : Ann) : subSpec env c a.erase = subSpec env c a := by
  cases a <;> simp [Ann.erase, subSpec]
  rename_i sp ms
  induction ms with
  | nil => simp [Ann.erase.eraseL]
  | cons m ms ih => simp [Ann.erase.eraseL, memberSpec_erase, ih]

theorem conforms_erase (env : Env) :
    (∀ a v, conforms env a.erase v = conforms env a v) ∧
    (∀ as xs, conformsZip env (Ann.erase.eraseL as) xs = conformsZip env as xs) ∧
    (∀ ms v, conformsAny env (Ann.erase.eraseL ms) v = conformsAny env ms v) := by
  apply conforms.mutual_induct env
    (motive_1 := fun a v => conforms env a.erase v = conforms env a v)
    (motive_2 := fun as xs => conformsZip env (Ann.erase.eraseL as) xs = conformsZip env as xs)
    (motive_3 := fun ms v => conformsAny env (Ann.erase.eraseL ms) v = conformsAny env ms v)
  case case23 =>
    intro t xs h1 h2
    cases t with
    | nil => cases xs with
      | nil => exact (h1 rfl rfl).elim
      | cons x xs => simp [Ann.erase.eraseL, conformsZip]
    | cons a as => cases xs with
      | nil => simp [Ann.erase.eraseL, conformsZip]
      | cons x xs => exact (h2 a as x xs rfl rfl).elim
  case case16 =>
    intro sp o k w v ihk ihw
    simp only [Ann.erase, conforms]
    have : (fun (kv : Val × Val) => conforms env k.erase kv.1 && conforms env w.erase kv.2)
        = (fun (kv : Val × Val) => conforms env k kv.1 && conforms env w kv.2) := by
      funext kv; rw [ihk kv, ihw kv]
    rw [this]
  all_goals (intros; simp_all [Ann.erase, Ann.erase.eraseL, conforms, conformsAny, conformsZip, subSpec_erase])

/-- **C02 (spelling).** Two spellings of one annotation give the same verdict for every value. -/
theorem spelling_invariant (env : Env) (orc : Nat → Val → Raw) (hw : WfEnv env) (a a' : Ann) (v : Val)
    (hsame : a.erase = a'.erase) (hok : a.okC env = true) (hok' : a'.okC env = true)
    (hwf : v.wf env = true) (hp : v.plain = true) :
    checkType env orc a v = checkType env orc a' v := by
  rw [verdict_exact env orc hw a v (Or.inl hok) hwf hp, verdict_exact env orc hw a' v (Or.inl hok') hwf hp]
  rw [← (conforms_erase env).1 a v, ← (conforms_erase env).1 a' v, hsame]

theorem perm_any {α} (p : α → Bool) {l l' : List α} (h : l.Perm l') : l.any p = l'.any p := by
  induction h with
  | nil => rfl
  | cons x _ ih => simp [ih]
  | swap x y l => simp only [List.any_cons]; cases p x <;> cases p y <;> simp
  | trans _ _ ih1 ih2 => rw [ih1, ih2]
theorem perm_all {α} (p : α → Bool) {l l' : List α} (h : l.Perm l') : l.all p = l'.all p := by
  induction h with
  | nil => rfl
  | cons x _ ih => simp [ih]
  | swap x y l => simp only [List.all_cons]; cases p x <;> cases p y <;> simp
  | trans _ _ ih1 ih2 => rw [ih1, ih2]

theorem conformsAny_eq_any (env : Env) (ms : List Ann) (v : Val) :
    conformsAny env ms v = ms.any (fun m => conforms env m v) := by
  induction ms with
  | nil => simp [conformsAny]
  | cons a as ih => simp [conformsAny, ih]

/-- **C02 (order of Union members).** -/
theorem union_order_invariant (env : Env) (orc : Nat → Val → Raw) (hw : WfEnv env) (sp sp' : USpell) (ms ms' : List Ann) (v : Val)
    (hperm : ms.Perm ms') (hok : (Ann.union sp ms).okC env = true) (hok' : (Ann.union sp' ms').okC env = true)
    (hwf : v.wf env = true) (hp : v.plain = true) :
    checkType env orc (.union sp ms) v = checkType env orc (.union sp' ms') v := by
  rw [verdict_exact env orc hw _ v (Or.inl hok) hwf hp, verdict_exact env orc hw _ v (Or.inl hok') hwf hp]
  simp only [conforms, conformsAny_eq_any, perm_any _ hperm]

mutual
/-- **the same annotation up to the spelling of every node and the order of the members of every Union, at any depth**
    (`List[Union[int, str]]` ~ `list[str | int]`, `Dict[str, Optional[Tuple[A | B, ...]]]` ~ …, also inside `Type[..]`) -/
inductive UReorder : Ann → Ann → Prop
  | refl (a : Ann) : UReorder a a
  | union (sp sp' : USpell) (ms ms' ms'' : List Ann) : UReorderL ms ms' → ms'.Perm ms'' → UReorder (.union sp ms) (.union sp' ms'')
  | typeOf (sp sp' : Spell) (a a' : Ann) : UReorder a a' → UReorder (.typeOf sp a) (.typeOf sp' a')
  | seq (sp sp' : Spell) (o : SeqOrigin) (a a' : Ann) : UReorder a a' → UReorder (.seq sp o a) (.seq sp' o a')
  | map (sp sp' : Spell) (o : MapOrigin) (k k' w w' : Ann) : UReorder k k' → UReorder w w' → UReorder (.map sp o k w) (.map sp' o k' w')
  | tuple (sp sp' : Spell) (items items' : List Ann) : UReorderL items items' → UReorder (.tuple sp items) (.tuple sp' items')
  | tupleVar (sp sp' : Spell) (a a' : Ann) : UReorder a a' → UReorder (.tupleVar sp a) (.tupleVar sp' a')
inductive UReorderL : List Ann → List Ann → Prop
  | nil : UReorderL [] []
  | cons (a a' : Ann) (as as' : List Ann) : UReorder a a' → UReorderL as as' → UReorderL (a :: as) (a' :: as')
end

/-- the specification does not see spellings or the order of Union members, however deep -/
theorem conforms_ureorder (env : Env) :
    (∀ a a', UReorder a a' → (∀ v, conforms env a v = conforms env a' v) ∧ (∀ c, memberSpec env c a = memberSpec env c a') ∧
        (∀ c, subSpec env c a = subSpec env c a')) ∧
    (∀ as as', UReorderL as as' → (∀ xs, conformsZip env as xs = conformsZip env as' xs) ∧ (∀ v, conformsAny env as v = conformsAny env as' v) ∧
        (∀ c, as.any (memberSpec env c) = as'.any (memberSpec env c))) := by
  have key := @UReorder.rec
    (motive_1 := fun a a' _ => (∀ v, conforms env a v = conforms env a' v) ∧ (∀ c, memberSpec env c a = memberSpec env c a') ∧
        (∀ c, subSpec env c a = subSpec env c a'))
    (motive_2 := fun as as' _ => (∀ xs, conformsZip env as xs = conformsZip env as' xs) ∧ (∀ v, conformsAny env as v = conformsAny env as' v) ∧
        (∀ c, as.any (memberSpec env c) = as'.any (memberSpec env c)))
    (fun a => ⟨fun _ => rfl, fun _ => rfl, fun _ => rfl⟩)
    (fun sp sp' ms ms' ms'' _ hperm ih => by
      refine ⟨fun v => ?_, fun c => by simp [memberSpec], fun c => ?_⟩
      · simp only [conforms, ih.2.1 v, conformsAny_eq_any, perm_any _ hperm]
      · simp only [subSpec, ih.2.2 c, perm_any _ hperm])
    (fun sp sp' a a' _ ih => ⟨fun v => by simp only [conforms, ih.2.2], fun c => by simp [memberSpec], fun c => by simp [subSpec]⟩)
    (fun sp sp' o a a' _ ih => ⟨fun v => by simp only [conforms, ih.1], fun c => by simp [memberSpec], fun c => by simp [subSpec]⟩)
    (fun sp sp' o k k' w w' _ _ ihk ihw => ⟨fun v => by simp only [conforms, ihk.1, ihw.1], fun c => by simp [memberSpec], fun c => by simp [subSpec]⟩)
    (fun sp sp' items items' _ ih => ⟨fun v => by simp only [conforms, ih.1], fun c => by simp [memberSpec], fun c => by simp [subSpec]⟩)
    (fun sp sp' a a' _ ih => ⟨fun v => by simp only [conforms, ih.1], fun c => by simp [memberSpec], fun c => by simp [subSpec]⟩)
    ⟨fun _ => rfl, fun _ => rfl, fun _ => rfl⟩
    (fun a a' as as' _ _ ih ihl => by
      refine ⟨fun xs => ?_, fun v => by simp only [conformsAny, ih.1 v, ihl.2.1 v], fun c => by simp only [List.any_cons, ih.2.1 c, ihl.2.2 c]⟩
      cases xs with
      | nil => simp [conformsZip]
      | cons x xs => simp only [conformsZip, ih.1 x, ihl.1 xs])
  refine ⟨fun a a' h => key h, ?_⟩
  intro as
  induction as with
  | nil => intro as' h; cases h; exact ⟨fun _ => rfl, fun _ => rfl, fun _ => rfl⟩
  | cons a as ih =>
    intro as' h
    cases h with
    | cons _ a' _ as'' h1 h2 =>
      have p1 := key h1
      have p2 := ih as'' h2
      refine ⟨fun xs => ?_, fun v => by simp only [conformsAny, p1.1 v, p2.2.1 v], fun c => by simp only [List.any_cons, p1.2.1 c, p2.2.2 c]⟩
      cases xs with
      | nil => simp [conformsZip]
      | cons x xs => simp only [conformsZip, p1.1 x, p2.1 xs]

/-- **C02 (spelling and order of Union members, at any depth).**  Two annotations that differ only in how their nodes are spelled and
    in the order of the members of their Unions - anywhere inside, also under `Type[..]` - get the same verdict for every value. -/
theorem reorder_invariant (env : Env) (orc : Nat → Val → Raw) (hw : WfEnv env) (a a' : Ann) (v : Val) (h : UReorder a a')
    (hok : a.okC env = true) (hok' : a'.okC env = true) (hwf : v.wf env = true) (hp : v.plain = true) :
    checkType env orc a v = checkType env orc a' v := by
  rw [verdict_exact env orc hw a v (Or.inl hok) hwf hp, verdict_exact env orc hw a' v (Or.inl hok') hwf hp,
    ((conforms_ureorder env).1 a a' h).1 v]

-- non-vacuity: List[Union[int, str]] ~ list[str | int]; Dict[str, Optional[Tuple[int | str, ...]]] reordered two levels down
example : UReorder (.seq .typing .list (.union .union [.cls 2, .cls 3])) (.seq .pep585 .list (.union .pipe [.cls 3, .cls 2])) :=
  .seq _ _ _ _ _ (.union _ _ _ _ _ (.cons _ _ _ _ (.refl _) (.cons _ _ _ _ (.refl _) .nil)) (List.Perm.swap _ _ _))
example : checkType envC (fun _ _ => .raisedOther) (.seq .typing .list (.union .union [.cls 2, .cls 3])) (.coll 4 [.lit (.str [97]), .lit (.int 1)]) = .accept ∧
    checkType envC (fun _ _ => .raisedOther) (.seq .pep585 .list (.union .pipe [.cls 3, .cls 2])) (.coll 4 [.lit (.str [97]), .lit (.int 1)]) = .accept := by decide

/-- the same collection / mapping object up to the order in which it yields its elements / items -/
inductive TopPerm : Val → Val → Prop
  | coll (c : ClsId) (xs xs' : List Val) : xs.Perm xs' → TopPerm (.coll c xs) (.coll c xs')
  | mapping (c : ClsId) (kvs kvs' : List (Val × Val)) : kvs.Perm kvs' → TopPerm (.mapping c kvs) (.mapping c kvs')

/-- the spec does not depend on the order in which a collection yields its elements / a mapping its items -/
theorem conforms_perm (env : Env) :
    (∀ a v, ∀ v', TopPerm v v' → conforms env a v = conforms env a v') ∧
    (∀ (_ : List Ann) (_ : List Val), True) ∧
    (∀ ms v, ∀ v', TopPerm v v' → conformsAny env ms v = conformsAny env ms v') := by
  apply conforms.mutual_induct env
    (motive_1 := fun a v => ∀ v', TopPerm v v' → conforms env a v = conforms env a v')
    (motive_2 := fun _ _ => True)
    (motive_3 := fun ms v => ∀ v', TopPerm v v' → conformsAny env ms v = conformsAny env ms v')
  case case15 =>   -- sequence generics: `all` over the elements (for a mapping: over its keys)
    intro sp o a v _ v' h
    cases h with
    | coll c xs xs' hperm => simp only [conforms, Val.typeOf, Val.iter, perm_all _ hperm]
    | mapping c kvs kvs' hperm => simp only [conforms, Val.typeOf, Val.iter, perm_all _ (hperm.map _)]
  case case16 =>   -- mapping generics: `all` over the items
    intro sp o k w v _ _ v' h
    cases h with
    | coll c xs xs' hperm => simp [conforms, Val.items, Val.typeOf]
    | mapping c kvs kvs' hperm => simp only [conforms, Val.typeOf, Val.items, perm_all _ hperm]
  case case5 => intro sp ms v ih v' h; simpa [conforms] using ih v' h
  case case25 => intro a as v ih1 ih3 v' h; simp only [conformsAny, ih1 v' h, ih3 v' h]
  all_goals (intros; try trivial)
  all_goals (rename_i h; cases h <;> simp_all [conforms, conformsAny, Val.typeOf, Val.iter, Val.items, Val.tupleItems, Val.isNone])

/-- **C02 (iteration order of a set / list value).** -/
theorem iteration_order_invariant_coll (env : Env) (orc : Nat → Val → Raw) (hw : WfEnv env) (a : Ann) (c : ClsId) (xs xs' : List Val)
    (hperm : xs.Perm xs') (hok : a.okC env = true ∨ a = .none)
    (hwf : (Val.coll c xs).wf env = true) (hp : (Val.coll c xs).plain = true)
    (hwf' : (Val.coll c xs').wf env = true) (hp' : (Val.coll c xs').plain = true) :
    checkType env orc a (.coll c xs) = checkType env orc a (.coll c xs') := by
  rw [verdict_exact env orc hw _ _ hok hwf hp, verdict_exact env orc hw _ _ hok hwf' hp']
  rw [(conforms_perm env).1 a _ _ (TopPerm.coll c xs xs' hperm)]

/-- **C02 (iteration order of a dict value).** -/
theorem iteration_order_invariant_mapping (env : Env) (orc : Nat → Val → Raw) (hw : WfEnv env) (a : Ann) (c : ClsId)
    (kvs kvs' : List (Val × Val)) (hperm : kvs.Perm kvs') (hok : a.okC env = true ∨ a = .none)
    (hwf : (Val.mapping c kvs).wf env = true) (hp : (Val.mapping c kvs).plain = true)
    (hwf' : (Val.mapping c kvs').wf env = true) (hp' : (Val.mapping c kvs').plain = true) :
    checkType env orc a (.mapping c kvs) = checkType env orc a (.mapping c kvs') := by
  rw [verdict_exact env orc hw _ _ hok hwf hp, verdict_exact env orc hw _ _ hok hwf' hp']
  rw [(conforms_perm env).1 a _ _ (TopPerm.mapping c kvs kvs' hperm)]

/-! ### regions: negation witnesses on the class table `envC` (Lemmas/CheckerEnvs.lean) -/
/-- (was region `strAnnDeepSubclass`, repaired by 46bef98 / 9abf519) a top-level string annotation is complete without any
    guard: whatever conforms to it - the name resolves in the context and the value is an instance of that class, at any
    inheritance depth - is accepted, and the verdict is exactly the spec's -/
theorem strAnn_exact (env : Env) (orc : Nat → Val → Raw) (n : NameId) (v : Val) (hr : (env.ctx n).isSome = true) :
    checkType env orc (.strAnn n) v = if conforms env (.strAnn n) v then .accept else .reject := by
  obtain ⟨c, hc⟩ := Option.isSome_iff_exists.mp hr
  simp only [checkType, cfg_strBranch.1, ↓reduceIte, hc, conforms]
theorem strAnn_complete (env : Env) (orc : Nat → Val → Raw) (n : NameId) (v : Val) (h : conforms env (.strAnn n) v = true) :
    checkType env orc (.strAnn n) v = .accept := by
  simp only [conforms] at h
  cases hc : env.ctx n with
  | none => simp [hc] at h
  | some c => simp only [checkType, cfg_strBranch.1, ↓reduceIte, hc]; simp [hc] at h; simp [h]
/-- … e.g. an instance of a grandchild of P for the string annotation 'P' -/
example : conforms envC (.strAnn 7) (.inst 9) = true ∧ checkType envC (fun _ _ => .raisedOther) (.strAnn 7) (.inst 9) = .accept := by decide
/-- (was region `namedtupleVsPlainClass`, repaired: only a NamedTuple-class annotation takes the NamedTuple block) a NamedTuple
    instance is accepted for `object`, for `Tuple[int, str]` / `tuple[int, str]` and for its own class (`envN`: 9 = NT1) -/
theorem fixed_namedtupleVsPlainClass :
    checkType envN (fun _ _ => .raisedOther) (.cls 0) (.ntup 9 [20, 21] [.lit (.int 1), .lit (.str [97])]) = .accept ∧
    checkType envN (fun _ _ => .raisedOther) (.tuple .typing [.cls 2, .cls 3]) (.ntup 9 [20, 21] [.lit (.int 1), .lit (.str [97])]) = .accept ∧
    checkType envN (fun _ _ => .raisedOther) (.tuple .pep585 [.cls 2, .cls 3]) (.ntup 9 [20, 21] [.lit (.int 1), .lit (.str [97])]) = .accept ∧
    checkType envN (fun _ _ => .raisedOther) (.clsF 9 [20, 21] [.cls 2, .cls 3]) (.ntup 9 [20, 21] [.lit (.int 1), .lit (.str [97])]) = .accept := by decide
/-- region `namedtupleFieldMismatch` (what is left of it): an instance of the annotated NamedTuple class one of whose field values
    does not conform to its field annotation is rejected although isinstance holds (pinned by the maintainers' test
    `test_namedtuple_wrong_field_type`); the guard `v.hasNT = false` of the exactness theorems excludes it -/
theorem complete_fails_namedtupleFieldMismatch :
    conforms envN (.clsF 9 [20, 21] [.cls 2, .cls 3]) (.ntup 9 [20, 21] [.lit (.str [120]), .lit (.str [97])]) = true ∧
    checkType envN (fun _ _ => .raisedOther) (.clsF 9 [20, 21] [.cls 2, .cls 3]) (.ntup 9 [20, 21] [.lit (.str [120]), .lit (.str [97])]) = .reject ∧
    (Val.ntup 9 [20, 21] [.lit (.str [120]), .lit (.str [97])]).wf envN = true ∧ (Val.ntup 9 [20, 21] [.lit (.str [120]), .lit (.str [97])]).hasIter = false := by decide
/-- region `emptyFixedTuple`: `()` is rejected (internal error) for `Tuple[()]` -/
theorem complete_fails_emptyFixedTuple :
    conforms envC (.tuple .typing []) (.tup 5 []) = true ∧
    checkType envC (fun _ _ => .raisedOther) (.tuple .typing []) (.tup 5 []) = .pedErr := by decide
/-- (was region `typeOfUnionSubclass`, repaired by 570cf77) `Type[Union[..]]` over classes / Any is exact for every class
    table: a class object is accepted iff it is a subclass of some member -/
theorem typeOf_union_exact (env : Env) (orc : Nat → Val → Raw) (hw : WfEnv env) (sp : Spell) (usp : USpell) (ms : List Ann) (v : Val)
    (hms : ms.all classLike = true) (hwf : v.wf env = true) (hp : v.plain = true) :
    checkType env orc (.typeOf sp (.union usp ms)) v = if conforms env (.typeOf sp (.union usp ms)) v then .accept else .reject :=
  exact_checkType env orc hw _ v (Or.inl (by simpa [Ann.okC, typeArgOk] using hms)) hwf hp
/-- … e.g. `bool` for `Type[Union[int, str]]` -/
example : conforms envC (.typeOf .typing (.union .union [.cls 2, .cls 3])) (.clsObj 12) = true ∧
    checkType envC (fun _ _ => .raisedOther) (.typeOf .typing (.union .union [.cls 2, .cls 3])) (.clsObj 12) = .accept := by decide

/-- region `typeOfNonClass` (outside the vocabulary "Type[C]", recorded by the driver): under `Type[Union[..]]` a member that is a
    PEP 585 alias is compared with `issubclass(value, list[int])`, which raises TypeError and counts as False, while the typing
    spelling `List[int]` is compared through its origin class: `Type[Union[list[int], str]]` rejects the class `list` that
    `Type[Union[List[int], str]]` accepts (and that conforms: a class object conforms to a generic member by its origin class) -/
theorem complete_fails_typeOfPep585Member :
    checkType envC (fun _ _ => .raisedOther) (.typeOf .typing (.union .union [.seq .pep585 .list (.cls 2), .cls 3])) (.clsObj 4) = .reject ∧
    checkType envC (fun _ _ => .raisedOther) (.typeOf .typing (.union .union [.seq .typing .list (.cls 2), .cls 3])) (.clsObj 4) = .accept ∧
    conforms envC (.typeOf .typing (.union .union [.seq .pep585 .list (.cls 2), .cls 3])) (.clsObj 4) = true ∧
    (Ann.typeOf .typing (.union .union [.seq .pep585 .list (.cls 2), .cls 3])).hasTypeOfNonClass = true ∧
    (Val.clsObj 4).wf envC = true := by decide

theorem Complete_full_is_false : ¬ Complete_full := by
  intro h
  have w := complete_fails_emptyFixedTuple
  have := h envC (fun _ _ => .raisedOther) (.tuple .typing []) (.tup 5 []) envC_wf (by decide) (by decide) w.1
  rw [w.2] at this; cases this

-- non-vacuity: the guards are met by nested annotations in both spellings, and the verdicts agree
example : (Ann.seq .pep585 .list (.union .optional [.cls 2, .cls 0])).okC envC = true ∧
          (Ann.seq .typing .list (.union .pipe [.cls 2, .cls 0])).okC envC = true := by decide
example : (Ann.seq .pep585 .list (.union .optional [.cls 2, .cls 0])).erase = (Ann.seq .typing .list (.union .pipe [.cls 2, .cls 0])).erase := by simp [Ann.erase, Ann.erase.eraseL]
example : checkType envC (fun _ _ => .raisedOther) (.seq .pep585 .list (.union .optional [.cls 2, .cls 0])) (.coll 4 [.lit (.int 1), .lit .none]) = .accept := by decide
example : (Val.coll 4 [.lit (.int 1), .lit .none]).wf envC = true ∧ (Val.coll 4 [.lit (.int 1), .lit .none]).plain = true := by decide

end PedVerif.Checker

/-! ### iteration order at any depth

`TopPerm` re-orders the outermost collection / mapping.  `Reorder` is its closure under nesting: any finite composition of
re-orderings of a set / list / dict *anywhere inside* a value (an element of a collection, a key or a value of a mapping,
an item of a tuple or NamedTuple, at any depth).  The verdict does not depend on it. -/
namespace PedVerif.Checker

inductive Reorder : Val → Val → Prop
  | refl (v : Val) : Reorder v v
  | trans {u v w : Val} : Reorder u v → Reorder v w → Reorder u w
  | collPerm (c : ClsId) (xs ys : List Val) : xs.Perm ys → Reorder (.coll c xs) (.coll c ys)
  | mapPerm (c : ClsId) (kvs kvs' : List (Val × Val)) : kvs.Perm kvs' → Reorder (.mapping c kvs) (.mapping c kvs')
  | collAt (c : ClsId) (pre post : List Val) {x y : Val} : Reorder x y → Reorder (.coll c (pre ++ x :: post)) (.coll c (pre ++ y :: post))
  | tupAt (c : ClsId) (pre post : List Val) {x y : Val} : Reorder x y → Reorder (.tup c (pre ++ x :: post)) (.tup c (pre ++ y :: post))
  | ntupAt (c : ClsId) (ns : List NameId) (pre post : List Val) {x y : Val} :
      Reorder x y → Reorder (.ntup c ns (pre ++ x :: post)) (.ntup c ns (pre ++ y :: post))
  | keyAt (c : ClsId) (pre post : List (Val × Val)) (w : Val) {x y : Val} :
      Reorder x y → Reorder (.mapping c (pre ++ (x, w) :: post)) (.mapping c (pre ++ (y, w) :: post))
  | valAt (c : ClsId) (pre post : List (Val × Val)) (k : Val) {x y : Val} :
      Reorder x y → Reorder (.mapping c (pre ++ (k, x) :: post)) (.mapping c (pre ++ (k, y) :: post))

/-- what `conforms` reads from a value -/
def Val.litAny (v : Val) (ls : List Lit) : Bool := match v with | .lit l => ls.any (litEq l) | _ => false
def Val.clsSub (env : Env) (v : Val) (a : Ann) : Bool := match v with | .clsObj c => subSpec env c a | _ => false
def Val.allIter (env : Env) (v : Val) (a : Ann) : Bool :=
  match v.iter with | some xs => xs.all (fun x => conforms env a x) | Option.none => false
def Val.allItems (env : Env) (v : Val) (k w : Ann) : Bool :=
  match v.items with | some kvs => kvs.all (fun kv => conforms env k kv.1 && conforms env w kv.2) | Option.none => false
def Val.zipTuple (env : Env) (v : Val) (items : List Ann) : Bool :=
  match v.tupleItems with | some xs => conformsZip env items xs | Option.none => false
def Val.allTuple (env : Env) (v : Val) (a : Ann) : Bool :=
  match v.tupleItems with | some xs => xs.all (fun x => conforms env a x) | Option.none => false

theorem conforms_literal (env : Env) (ls : List Lit) (v : Val) : conforms env (.literal ls) v = v.litAny ls := by
  cases v <;> simp [conforms, Val.litAny]
theorem conforms_typeOf (env : Env) (sp : Spell) (a : Ann) (v : Val) : conforms env (.typeOf sp a) v = v.clsSub env a := by
  cases v <;> simp [conforms, Val.clsSub]
theorem conforms_seq (env : Env) (sp : Spell) (o : SeqOrigin) (a : Ann) (v : Val) :
    conforms env (.seq sp o a) v = (env.sub (v.typeOf env) (env.seqCls o) && v.allIter env a) := by
  simp only [conforms, Val.allIter]; cases v.iter <;> rfl
theorem conforms_map (env : Env) (sp : Spell) (o : MapOrigin) (k w : Ann) (v : Val) :
    conforms env (.map sp o k w) v = (env.sub (v.typeOf env) (env.mapCls o) && v.allItems env k w) := by
  simp only [conforms, Val.allItems]; cases v.items <;> rfl
theorem conforms_tuple (env : Env) (sp : Spell) (items : List Ann) (v : Val) :
    conforms env (.tuple sp items) v = (env.sub (v.typeOf env) env.tupleCls && v.zipTuple env items) := by
  simp only [conforms, Val.zipTuple]; cases v.tupleItems <;> rfl
theorem conforms_tupleVar (env : Env) (sp : Spell) (a : Ann) (v : Val) :
    conforms env (.tupleVar sp a) v = (env.sub (v.typeOf env) env.tupleCls && v.allTuple env a) := by
  simp only [conforms, Val.allTuple]; cases v.tupleItems <;> rfl

/-- everything `conforms` reads from a value, up to the conformance of its parts -/
structure ShallowEq (env : Env) (v v' : Val) : Prop where
  ty : v.typeOf env = v'.typeOf env
  isNone : v.isNone = v'.isNone
  lit : ∀ ls, v.litAny ls = v'.litAny ls
  clsObj : ∀ a, v.clsSub env a = v'.clsSub env a
  iter : ∀ a, v.allIter env a = v'.allIter env a
  items : ∀ k w, v.allItems env k w = v'.allItems env k w
  zipT : ∀ items, v.zipTuple env items = v'.zipTuple env items
  allT : ∀ a, v.allTuple env a = v'.allTuple env a

theorem conforms_of_shallowEq (env : Env) (v v' : Val) (h : ShallowEq env v v') :
    (∀ a, conforms env a v = conforms env a v') ∧ (∀ ms, conformsAny env ms v = conformsAny env ms v') := by
  -- members of a Union are checked against the same value: the induction over the annotation only threads through unions
  have hAny : ∀ ms : List Ann, (∀ m ∈ ms, conforms env m v = conforms env m v') → conformsAny env ms v = conformsAny env ms v' := by
    intro ms hm
    induction ms with
    | nil => rfl
    | cons m ms ih => simp only [conformsAny, hm m (by simp), ih (fun x hx => hm x (by simp [hx]))]
  have hA : ∀ a : Ann, conforms env a v = conforms env a v' := by
    intro a
    induction a using Ann.rec (motive_2 := fun ms => ∀ m ∈ ms, conforms env m v = conforms env m v') with
    | union sp ms ih => simp only [conforms]; exact hAny ms ih
    | nil => rename_i m hm; cases hm
    | cons a as iha ihas => rename_i m hm; rcases List.mem_cons.mp hm with rfl | hm; exact iha; exact ihas m hm
    | none => simp only [conforms, h.isNone]
    | cls c => simp only [conforms, h.ty]
    | clsF c ns as _ => simp only [conforms, h.ty]
    | any => simp only [conforms]
    | literal ls => rw [conforms_literal, conforms_literal, h.lit]
    | newType s => simp only [conforms, h.ty]
    | typeOf sp a _ => rw [conforms_typeOf, conforms_typeOf, h.clsObj]
    | fwd n => simp only [conforms, h.ty]
    | strAnn n => simp only [conforms, h.ty]
    | seq sp o a _ => rw [conforms_seq, conforms_seq, h.ty, h.iter]
    | map sp o k w _ _ => rw [conforms_map, conforms_map, h.ty, h.items]
    | tuple sp items _ => rw [conforms_tuple, conforms_tuple, h.ty, h.zipT]
    | tupleVar sp a _ => rw [conforms_tupleVar, conforms_tupleVar, h.ty, h.allT]
    | bare o => simp only [conforms]
    | special k => simp only [conforms]
  exact ⟨hA, fun ms => hAny ms (fun m _ => hA m)⟩

theorem all_at {α} (f : α → Bool) (pre post : List α) (x y : α) (h : f x = f y) :
    (pre ++ x :: post).all f = (pre ++ y :: post).all f := by
  simp only [List.all_append, List.all_cons, h]

theorem conformsZip_at (env : Env) {x y : Val} (h : ∀ a, conforms env a x = conforms env a y) (post : List Val) :
    ∀ (pre : List Val) (items : List Ann), conformsZip env items (pre ++ x :: post) = conformsZip env items (pre ++ y :: post)
  | [], [] => by simp [conformsZip]
  | [], a :: as => by simp [conformsZip, h a]
  | p :: pre, [] => by simp [conformsZip]
  | p :: pre, a :: as => by simp only [List.cons_append, conformsZip, conformsZip_at env h post pre as]

theorem ShallowEq.rfl' (env : Env) (v : Val) : ShallowEq env v v :=
  ⟨rfl, rfl, fun _ => rfl, fun _ => rfl, fun _ => rfl, fun _ _ => rfl, fun _ => rfl, fun _ => rfl⟩

/-- the spec does not depend on the iteration order of any set / list / dict inside the value, at any depth -/
theorem conforms_reorder (env : Env) {v v' : Val} (h : Reorder v v') : ∀ a, conforms env a v = conforms env a v' := by
  induction h with
  | refl v => intro a; rfl
  | trans _ _ ih1 ih2 => intro a; rw [ih1 a, ih2 a]
  | collPerm c xs ys hp => intro a; exact (conforms_perm env).1 a _ _ (TopPerm.coll c xs ys hp)
  | mapPerm c kvs kvs' hp => intro a; exact (conforms_perm env).1 a _ _ (TopPerm.mapping c kvs kvs' hp)
  | collAt c pre post _ ih =>
    apply (conforms_of_shallowEq env _ _ ?_).1
    refine ⟨rfl, rfl, fun _ => rfl, fun _ => rfl, fun a => ?_, fun _ _ => rfl, fun _ => rfl, fun _ => rfl⟩
    simp only [Val.allIter, Val.iter]; exact all_at _ pre post _ _ (ih a)
  | tupAt c pre post _ ih =>
    apply (conforms_of_shallowEq env _ _ ?_).1
    refine ⟨rfl, rfl, fun _ => rfl, fun _ => rfl, fun a => ?_, fun _ _ => rfl, fun items => ?_, fun a => ?_⟩
    · simp only [Val.allIter, Val.iter]; exact all_at _ pre post _ _ (ih a)
    · simp only [Val.zipTuple, Val.tupleItems]; exact conformsZip_at env ih post pre items
    · simp only [Val.allTuple, Val.tupleItems]; exact all_at _ pre post _ _ (ih a)
  | ntupAt c ns pre post _ ih =>
    apply (conforms_of_shallowEq env _ _ ?_).1
    refine ⟨rfl, rfl, fun _ => rfl, fun _ => rfl, fun a => ?_, fun _ _ => rfl, fun items => ?_, fun a => ?_⟩
    · simp only [Val.allIter, Val.iter]; exact all_at _ pre post _ _ (ih a)
    · simp only [Val.zipTuple, Val.tupleItems]; exact conformsZip_at env ih post pre items
    · simp only [Val.allTuple, Val.tupleItems]; exact all_at _ pre post _ _ (ih a)
  | keyAt c pre post w _ ih =>
    apply (conforms_of_shallowEq env _ _ ?_).1
    refine ⟨rfl, rfl, fun _ => rfl, fun _ => rfl, fun a => ?_, fun k w' => ?_, fun _ => rfl, fun _ => rfl⟩
    · simp only [Val.allIter, Val.iter, List.map_append, List.map_cons]; exact all_at _ _ _ _ _ (ih a)
    · simp only [Val.allItems, Val.items]; exact all_at _ pre post _ _ (by simp only [ih k])
  | valAt c pre post k _ ih =>
    apply (conforms_of_shallowEq env _ _ ?_).1
    refine ⟨rfl, rfl, fun _ => rfl, fun _ => rfl, fun a => ?_, fun k' w => ?_, fun _ => rfl, fun _ => rfl⟩
    · simp only [Val.allIter, Val.iter, List.map_append, List.map_cons]
    · simp only [Val.allItems, Val.items]; exact all_at _ pre post _ _ (by simp only [ih w])

/-- **C02 (iteration order, any depth).** Two values that differ only in the order in which sets / lists / dicts inside
    them (at any nesting depth) yield their elements get the same verdict. -/
theorem iteration_order_invariant_deep (env : Env) (orc : Nat → Val → Raw) (hw : WfEnv env) (a : Ann) (v v' : Val)
    (hre : Reorder v v') (hok : a.okC env = true ∨ a = .none)
    (hwf : v.wf env = true) (hp : v.plain = true) (hwf' : v'.wf env = true) (hp' : v'.plain = true) :
    checkType env orc a v = checkType env orc a v' := by
  rw [verdict_exact env orc hw _ _ hok hwf hp, verdict_exact env orc hw _ _ hok hwf' hp', conforms_reorder env hre a]

-- non-vacuity: a list of sets and a dict of lists, re-ordered two levels down
example : Reorder (.coll 4 [.coll 6 [.lit (.int 1), .lit (.int 2)], .coll 6 []]) (.coll 4 [.coll 6 [], .coll 6 [.lit (.int 2), .lit (.int 1)]]) :=
  .trans (.collAt 4 [] [.coll 6 []] (.collPerm 6 _ _ (List.Perm.swap _ _ _)))
         (.collPerm 4 _ _ (List.Perm.swap _ _ _))

end PedVerif.Checker
