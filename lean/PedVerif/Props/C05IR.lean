import PedVerif.Props.C05
import PedVerif.Props.CallLayerIR
/-! C05 restated about the translated code (see `Props/C03IR.lean`). -/
namespace PedVerif.CallIR
open PedVerif.Checker PedVerif.Call

/-- **C05 (positional calls are rejected), about the translated code.** -/
theorem ir_positional_rejected (env : Env) (orc : Nat → Val → Raw) (f : Fn) (t : Truth) (args : List Val) (kw : List (NameId × Val))
    (body : BodyOut) (w : World) (up : Val → Bool) (hP : (∀ v, up v = false) ∨ PedVerif.Gen.CallLayerIR.messagesUseSafeDescribe = true)
    (hrecv : PedVerif.Gen.CallTables.receiverMayBeKeyword = true → f.firstIsSelf = true → args.isEmpty = true → (lookup kw f.selfName).isSome = true)
    (hnd : (kw.map (·.1)).Nodup) (p0 : Param) (rest : List Param)
    (htruth : truthful f t = true) (hnovar : hasVarPos f = false) (hnoex : exempt f t = false)
    (hpos : args.length > t.implicit) (himp : t.implicit ≤ 1) (hplain : f.plain = p0 :: rest)
    (hnokw : lookup kw p0.name = none) (hreg : regionStripped f t args = false) :
    (runCallIR env orc f args kw body w up).bodyRan = false ∧
      ((runCallIR env orc f args kw body w up).caller = .pedCallWithArgs ∨ (runCallIR env orc f args kw body w up).caller = .pedTypeCheck) := by
  rw [ir_runCall_refines env orc f args kw body w up hP hrecv hnd]
  exact positional_rejected env orc f t args kw body p0 rest htruth hnovar hnoex hpos himp hplain hnokw hreg

example : (runCallIR envW (fun _ _ => .raisedOther) exFn [.lit (.int 5)] [] (.ret (.lit (.int 9))) exW).caller = .pedCallWithArgs ∧
    (runCallIR envW (fun _ _ => .raisedOther) exFn [.lit (.int 5)] [] (.ret (.lit (.int 9))) exW).bodyRan = false := by decide
end PedVerif.CallIR
