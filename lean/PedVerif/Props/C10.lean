import PedVerif.Model.TypeSafe
import PedVerif.Lemmas.CheckerNoTV
import PedVerif.Lemmas.CheckerEnvs
/-!
# C10 — type-safe frozen dataclass: instances exist only with conforming fields

For every field list (any length, any order), every class table and all field values: through each of the three
construction paths an instance is obtained **iff** every field value conforms; otherwise PedanticTypeCheckException and no
instance; `validate_types()` raises iff some field does not conform; a user `__post_init__` runs first.  The "iff" is the
exactness theorem of the checker (C02) lifted through the loop over the fields; the soundness direction alone needs only
C01's guards.  Loop shape, hook order and the three paths are re-read from the source on every run (`Gen/TypeSafe.lean`).
-/
namespace PedVerif.TypeSafe
open PedVerif.Checker PedVerif.Gen.TypeSafe

theorem cfg_validate : validateOverAllFields = true ∧ validateLeavesLoopEarly = false ∧ validateInTry = false ∧
    validateUsesFieldValue = true ∧ validateUsesFieldType = true ∧ validateFreshTypeVars = true ∧ validatePassesContext = true ∧
    contextHasGlobalsAndOwnClass = true := by decide
theorem cfg_postInit : postInitOrder = ["old", "validate"] ∧ postInitInstalledBeforeDataclass = true ∧ postInitOnlyWhenTypeSafe = true := by decide
theorem cfg_paths : copyWithIsReplace = true ∧ deepCopyCallsConstructor = true ∧ shortcutIsTypeSafe = true ∧
    methodsAdded = ["copy_with", "deep_copy_with", "validate_types"] := by decide

/-- completeness-side guards: annotations in the vocabulary of C02, well-formed plain values -/
def FieldsOk (env : Env) (fvs : List (Field × Val)) : Prop :=
  ∀ fv ∈ fvs, (fv.1.ann.okC env = true ∨ fv.1.ann = .none) ∧ fv.2.wf env = true ∧ fv.2.plain = true
/-- soundness-side guards (C01) -/
def FieldsSound (env : Env) (fvs : List (Field × Val)) : Prop :=
  ∀ fv ∈ fvs, fv.1.ann.noSpecial = true ∧ fv.2.wf env = true ∧ fv.2.iterFree = true ∧ fv.1.ann.strAnnOk env fv.2 = true

theorem validateTypes_none_iff (env : Env) (orc : Nat → Val → Raw) (hw : WfEnv env) :
    ∀ (fvs : List (Field × Val)), FieldsOk env fvs → (validateTypes env orc fvs = none ↔ allConform env fvs = true) := by
  intro fvs
  induction fvs with
  | nil => intro _; simp [validateTypes, allConform]
  | cons fv rest ih =>
    intro hok
    obtain ⟨f, v⟩ := fv
    have h0 := hok (f, v) (by simp)
    have hrest : FieldsOk env rest := fun x hx => hok x (by simp [hx])
    have hex := exact_checkType env orc hw f.ann v h0.1 h0.2.1 h0.2.2
    simp only [validateTypes, hex, cfg_validate, allConform, List.all_cons]
    by_cases hc : conforms env f.ann v = true
    · simp only [hc, ↓reduceIte, Bool.false_eq_true, Bool.true_and]
      exact ih hrest
    · simp [hc]

/-- every failure of the validation is PedanticTypeCheckException (TypeVar-free annotations; any oracle that does not raise
    a TypeVar mismatch) -/
theorem validateTypes_some (env : Env) (orc : Nat → Val → Raw) (horc : ∀ k v, orc k v ≠ .raisedTV) :
    ∀ (fvs : List (Field × Val)) (o : Outcome), validateTypes env orc fvs = some o → o = .pedTypeCheck := by
  intro fvs
  induction fvs with
  | nil => intro o h; simp [validateTypes] at h
  | cons fv rest ih =>
    intro o h
    obtain ⟨f, v⟩ := fv
    have h1 := checkType_ne_escape env orc f.ann v
    have h2 := checkType_ne_tv env orc horc f.ann v
    simp only [validateTypes, cfg_validate] at h
    cases hc : checkType env orc f.ann v <;> simp_all

/-- the loop never answers "instance": it either passes (`none`) or names an exception -/
theorem validateTypes_ne_instance (env : Env) (orc : Nat → Val → Raw) :
    ∀ (l : List (Field × Val)), validateTypes env orc l ≠ some .instance := by
  intro l
  induction l with
  | nil => simp [validateTypes]
  | cons x xs ihx =>
    obtain ⟨f, v⟩ := x
    simp only [validateTypes, cfg_validate]
    cases checkType env orc f.ann v <;> simp [ihx]

/-- **C10.** Through every construction path: an instance is obtained iff every field value conforms; otherwise the
    caller gets PedanticTypeCheckException and no instance. -/
theorem instance_iff_fields_conform (env : Env) (orc : Nat → Val → Raw) (horc : ∀ k v, orc k v ≠ .raisedTV) (hw : WfEnv env)
    (up : UserPost) (hup : ∀ e, up ≠ .raises e) (p : Path) (fvs : List (Field × Val)) (hok : FieldsOk env fvs) :
    ((construct env orc true up p fvs).2 = .instance ↔ allConform env fvs = true) ∧
    ((construct env orc true up p fvs).2 ≠ .instance → (construct env orc true up p fvs).2 = .pedTypeCheck) := by
  have hv := validateTypes_none_iff env orc hw fvs hok
  have key : (postInit env orc true up fvs).2 = .instance ↔ validateTypes env orc fvs = none := by
    simp only [postInit, cfg_postInit, Bool.and_self, Bool.not_true, Bool.false_eq_true, ↓reduceIte, beq_self_eq_true]
    cases up with
    | raises e => exact absurd rfl (hup e)
    | absent =>
      cases h : validateTypes env orc fvs with
      | none => simp
      | some o => simp; intro ho; subst ho; exact validateTypes_ne_instance env orc fvs h
    | runs =>
      cases h : validateTypes env orc fvs with
      | none => simp
      | some o => simp; intro ho; subst ho; exact validateTypes_ne_instance env orc fvs h
  have key2 : (postInit env orc true up fvs).2 ≠ .instance → (postInit env orc true up fvs).2 = .pedTypeCheck := by
    simp only [postInit, cfg_postInit, Bool.and_self, Bool.not_true, Bool.false_eq_true, ↓reduceIte, beq_self_eq_true]
    cases up with
    | raises e => exact absurd rfl (hup e)
    | absent => cases h : validateTypes env orc fvs with
      | none => simp
      | some o => simp [validateTypes_some env orc horc fvs o h]
    | runs => cases h : validateTypes env orc fvs with
      | none => simp
      | some o => simp [validateTypes_some env orc horc fvs o h]
  cases p <;> simp only [construct, cfg_paths, ↓reduceIte] <;> exact ⟨key.trans hv, key2⟩

/-- soundness alone, under C01's weaker guards (any annotation without unsupported nodes, incl. bare generics and any spelling) -/
theorem instance_fields_conform (env : Env) (orc : Nat → Val → Raw) (hw : WfEnv env) :
    ∀ (fvs : List (Field × Val)), FieldsSound env fvs → validateTypes env orc fvs = none → allConform env fvs = true := by
  intro fvs
  induction fvs with
  | nil => intro _ _; simp [allConform]
  | cons fv rest ih =>
    intro hok h
    obtain ⟨f, v⟩ := fv
    have h0 := hok (f, v) (by simp)
    simp only [validateTypes, cfg_validate] at h
    cases hc : checkType env orc f.ann v <;> simp [hc] at h
    have := sound_checkType env orc hw f.ann v h0.2.2.2 h0.1 h0.2.1 h0.2.2.1 hc
    simp only [allConform, List.all_cons, this, Bool.true_and]
    exact ih (fun x hx => hok x (by simp [hx])) h

/-- `validate_types()` raises iff some field currently does not conform -/
theorem validate_types_iff (env : Env) (orc : Nat → Val → Raw) (hw : WfEnv env) (fvs : List (Field × Val)) (hok : FieldsOk env fvs) :
    validateCall env orc fvs = .instance ↔ allConform env fvs = true := by
  rw [← validateTypes_none_iff env orc hw fvs hok]
  simp only [validateCall]
  cases h : validateTypes env orc fvs with
  | none => simp
  | some o =>
    simp only [reduceCtorEq, iff_false]
    intro ho; subst ho
    exact validateTypes_ne_instance env orc fvs h

/-- a user-defined `__post_init__` still runs, before the check -/
theorem post_init_runs_first (env : Env) (orc : Nat → Val → Raw) (p : Path) (fvs : List (Field × Val)) :
    (construct env orc true .runs p fvs).1 = [.post, .validate] := by
  cases p <;> simp only [construct, cfg_paths, postInit, cfg_postInit, Bool.and_self, Bool.not_true, Bool.false_eq_true, ↓reduceIte,
    beq_self_eq_true] <;> (cases validateTypes env orc fvs <;> rfl)

/-- … and if it raises, its exception reaches the caller and no instance exists -/
theorem post_init_exception (env : Env) (orc : Nat → Val → Raw) (p : Path) (fvs : List (Field × Val)) (e : Nat) :
    (construct env orc true (.raises e) p fvs).2 = .postInitExc e := by
  cases p <;> simp [construct, cfg_paths, postInit, cfg_postInit]

/-- the check stops at nothing: one bad field at ANY position of an otherwise conforming instance is enough -/
theorem one_bad_field (env : Env) (orc : Nat → Val → Raw) (horc : ∀ k v, orc k v ≠ .raisedTV) (hw : WfEnv env) (p : Path)
    (pre post : List (Field × Val)) (f : Field) (v : Val) (hok : FieldsOk env (pre ++ (f, v) :: post))
    (hbad : conforms env f.ann v = false) :
    (construct env orc true .absent p (pre ++ (f, v) :: post)).2 = .pedTypeCheck := by
  have h := instance_iff_fields_conform env orc horc hw .absent (by intro e; simp) p _ hok
  apply h.2
  intro hi
  have := h.1.1 hi
  simp [allConform, hbad] at this

/-- without `type_safe` nothing is validated (the gate is the decorator argument) -/
theorem not_type_safe_no_check (env : Env) (orc : Nat → Val → Raw) (p : Path) (fvs : List (Field × Val)) :
    (construct env orc false .absent p fvs) = ([], .instance) := by
  cases p <;> simp [construct, cfg_paths, postInit]

/-! ## the three paths resolve forward references in the frame of *their caller* -/

theorem cfg_context : callerStartDepth = 2 ∧ callerWalkStopsAtLastFrame = true ∧
    callerSkipTests = ["code_in_skip", "module_is_dataclasses", "holds_instance"] ∧ callerSkipCodes = ["copy_with", "deep_copy_with"] ∧
    callerInstanceIsSelf = true ∧ postInitPassesCallerContext = true ∧ callerContextMerge = ["globals", "locals"] ∧
    validateContextDepth = 2 ∧ validateContextOnlyWhenNone = true ∧
    contextMergeOrder = ["caller", "globals", "own"] ∧ getContextMerge = ["globals", "locals"] := by decide

theorem internal_of_holds (f : Frame) (h : f.holdsInstance = true) : f.internal = true := by
  simp [Frame.internal, cfg_context, h]

/-- the walk passes every internal frame and stops at the first one that is not -/
theorem walk_skips (xs : List Frame) (c : Frame) (outer : List Frame) (i : Nat) (hx : ∀ f ∈ xs, f.internal = true)
    (hc : c.internal = false) : walk (xs ++ c :: outer) i = i + xs.length := by
  induction xs generalizing i with
  | nil => cases outer <;> simp [walk, hc]
  | cons x xs ih =>
    have hx0 : x.internal = true := hx x (by simp)
    cases hrest : xs ++ c :: outer with
    | nil => simp at hrest
    | cons y r =>
      have := ih (i + 1) (fun f hf => hx f (by simp [hf]))
      rw [hrest] at this
      simp only [List.cons_append, hrest, walk, hx0, ↓reduceIte, this, List.length_cons]
      omega

theorem pathFrames_internal (p : Path) : ∀ f ∈ pathFrames p, f.internal = true := by
  have hr : replaceFrames = ["replace"] := by decide
  cases p <;> simp [pathFrames, hr, Frame.internal, cfg_context]

/-- **the frame is the caller's** - however many wrappers, user `__post_init__` methods and `__init__` frames work on the
    instance (any `chain`), on every path, whatever called the caller -/
theorem caller_frame_selected (p : Path) (chain : List Frame) (caller : Frame) (outer : List Frame)
    (hchain : ∀ f ∈ chain, f.holdsInstance = true) (hcaller : caller.internal = false) :
    seesCaller p chain caller outer = true := by
  have hw := walk_skips (chain ++ pathFrames p) caller outer 1
    (by intro f hf
        rcases List.mem_append.1 hf with h | h
        · exact internal_of_holds f (hchain f h)
        · exact pathFrames_internal p f h) hcaller
  simp only [seesCaller, selectFrame, stackOf, callerIndex, cfg_context, List.cons_append, List.nil_append, List.drop_succ_cons,
    List.drop_zero, Nat.add_one_sub_one, beq_iff_eq]
  simp only [List.append_assoc, List.singleton_append] at hw ⊢
  rw [hw]; simp [List.length_append]; omega

/-- an ordinary function - not one of the library's, not in `dataclasses`, not holding the instance - is not internal -/
theorem ordinary_caller_not_internal (n : String) : ({ name := n } : Frame).internal = false := by
  simp [Frame.internal, cfg_context]

theorem user_validate_sees_caller : userValidateSeesCaller = true := by decide

/-- … so the context is the one of the call site: module names first, then the caller's -/
theorem withCaller_eq_atCallSite (env : Env) (locals : List (NameId × ClsId)) : env.withCaller locals true = env.atCallSite locals := by
  simp [Env.withCaller, Env.atCallSite, cfg_context]

/-- **C10 with the frame made explicit.**  For a dataclass whose annotations refer to names of the calling function (a class
    defined inside a function, forward references to function-local classes), whatever the depth of the decorated hierarchy:
    through every path an instance is obtained iff every field value conforms *at the call site*. -/
theorem instance_iff_fields_conform_at_call_site (env : Env) (locals : List (NameId × ClsId)) (chains : List (List Frame))
    (caller : Frame) (outer : List Frame) (hchains : ∀ ch ∈ chains, ∀ f ∈ ch, f.holdsInstance = true)
    (hcaller : caller.internal = false) (orc : Nat → Val → Raw) (horc : ∀ k v, orc k v ≠ .raisedTV)
    (hw : WfEnv (env.atCallSite locals)) (up : UserPost) (hup : ∀ e, up ≠ .raises e) (p : Path) (fvs : List (Field × Val))
    (hok : FieldsOk (env.atCallSite locals) fvs) :
    ((constructIn env locals chains caller outer orc true up p fvs).2 = .instance ↔ allConform (env.atCallSite locals) fvs = true) ∧
    ((constructIn env locals chains caller outer orc true up p fvs).2 ≠ .instance →
      (constructIn env locals chains caller outer orc true up p fvs).2 = .pedTypeCheck) := by
  have hall : (chains.all fun ch => seesCaller p ch caller outer) = true := by
    rw [List.all_eq_true]; intro ch hch; exact caller_frame_selected p ch caller outer (hchains ch hch) hcaller
  unfold constructIn
  rw [hall, withCaller_eq_atCallSite]
  exact instance_iff_fields_conform _ orc horc hw up hup p fvs hok

theorem validate_types_iff_at_call_site (env : Env) (locals : List (NameId × ClsId)) (orc : Nat → Val → Raw)
    (hw : WfEnv (env.atCallSite locals)) (fvs : List (Field × Val)) (hok : FieldsOk (env.atCallSite locals) fvs) :
    validateCallIn env locals orc fvs = .instance ↔ allConform (env.atCallSite locals) fvs = true := by
  unfold validateCallIn
  rw [user_validate_sees_caller, withCaller_eq_atCallSite]
  exact validate_types_iff _ orc hw fvs hok

-- non-vacuity: a decorated subclass inheriting the wrapped __post_init__ (two wrapper frames + __init__), copy_with, called from `f`
example : seesCaller .copyWith [{ name := "new_post_init", code := "new_post_init", holdsInstance := true }, { name := "__init__", holdsInstance := true }]
    { name := "f" } [{ name := "<module>" }] = true := by decide
-- the pre-repair frame arithmetic (depth 3, one bump by name) picked `replace` here: with only the name tests the walk stops early
example : walk [({ name := "replace" } : Frame), { name := "copy_with" }, { name := "f" }] 2 = 2 := by decide

-- non-vacuity
example : (construct envW (fun _ _ => .raisedOther) true .runs .copyWith
    [(⟨1, .cls 2⟩, .lit (.int 1)), (⟨2, .seq .typing .list (.cls 3)⟩, .coll 4 [.lit (.str [97])])]) = ([.post, .validate], .instance) := by decide
example : (construct envW (fun _ _ => .raisedOther) true .absent .constructor
    [(⟨1, .cls 2⟩, .lit (.int 1)), (⟨2, .seq .typing .list (.cls 3)⟩, .coll 4 [.lit (.int 5)])]).2 = .pedTypeCheck := by decide

end PedVerif.TypeSafe
