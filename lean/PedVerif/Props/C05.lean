import PedVerif.Lemmas.CallLayer3
import PedVerif.Lemmas.CheckerEnvs
/-!
# C05 — keyword-only calling discipline of @pedantic and @require_kwargs

`runCall` is the model of the wrappers of `pedantic` / `require_kwargs` (`FunctionCall.assert_uses_kwargs`,
`args_without_self`, `DecoratedFunction.should_have_kwargs` are *translated* from the source on every run, the source-text
predicates are computed from the source string with the regenerated needles).

Full statement `Positional_full`; proved as `positional_rejected` under two guards: `truthful` (each source-text flag
equals the fact it stands for - its complement are the regions `bodyMentionsStarArgs` / `bodyMentionsSetter`) and
`regionStripped = false` (the library strips the first positional argument as "self" although no implicit argument is
present - region `strippedPositionalIsDeclaredDefaulted`).  Negation witnesses below.
-/
namespace PedVerif.Call
open PedVerif.Checker PedVerif.Gen.CallTables

/-- under truthful flags `should_have_kwargs` is exactly "no *args parameter and not exempt" -/
theorem shk_of_truthful (f : Fn) (t : Truth) (ht : truthful f t = true) :
    f.shouldHaveKwargs = (!hasVarPos f && !exempt f t) := by
  simp only [truthful, Bool.and_eq_true, beq_iff_eq] at ht
  obtain ⟨⟨⟨h1, _⟩, h3⟩, _⟩ := ht
  simp only [Fn.shouldHaveKwargs, cfg_shk, exempt, h1, h3]
  cases t.realSetter <;> cases hasVarPos f <;> cases f.startsDunder <;> cases f.endsDunder <;>
    cases requireKwargsDunders.contains f.name <;> rfl

/-- the property as stated -/
def Positional_full : Prop :=
  ∀ (env : Env) (orc : Nat → Val → Raw) (f : Fn) (t : Truth) (args : List Val) (kw : List (NameId × Val)) (body : BodyOut),
    hasVarPos f = false → exempt f t = false → args.length > t.implicit →
    (runCall env orc f args kw body).bodyRan = false ∧
      ((runCall env orc f args kw body).caller = .pedCallWithArgs ∨ (runCall env orc f args kw body).caller = .pedTypeCheck)

/-- **C05.** A callable without `*args` that is not exempt, called with at least one declared parameter passed
    positionally: a PedanticException is raised and the body does not run - whatever the argument values are. -/
theorem positional_rejected (env : Env) (orc : Nat → Val → Raw) (f : Fn) (t : Truth) (args : List Val) (kw : List (NameId × Val))
    (body : BodyOut) (p0 : Param) (rest : List Param)
    (htruth : truthful f t = true) (hnovar : hasVarPos f = false) (hnoex : exempt f t = false)
    (hpos : args.length > t.implicit) (himp : t.implicit ≤ 1)
    (hplain : f.plain = p0 :: rest)                       -- the declared parameter that was passed positionally
    (hnokw : lookup kw p0.name = none)                     -- Python forbids passing it again by keyword
    (hreg : regionStripped f t args = false) :
    (runCall env orc f args kw body).bodyRan = false ∧
      ((runCall env orc f args kw body).caller = .pedCallWithArgs ∨ (runCall env orc f args kw body).caller = .pedTypeCheck) := by
  have hs : f.shouldHaveKwargs = true := by rw [shk_of_truthful f t htruth]; simp [hnovar, hnoex]
  have hne : args ≠ [] := by intro h; simp [h] at hpos
  have hnemp : args.isEmpty = false := by cases args <;> simp_all
  unfold runCall
  simp only [hnemp, Bool.and_false, Bool.false_eq_true, ↓reduceIte, hs, Bool.true_and]
  by_cases hawe : (f.argsWithoutSelf args).isEmpty = true
  · -- everything was stripped: exactly one positional and no implicit argument
    simp only [hawe, Bool.not_true, Bool.false_eq_true, ↓reduceIte]
    rw [argsWithoutSelf_eq] at hawe
    have hstrip : f.strips = true := by
      cases h : f.strips
      · simp [h] at hawe; exact absurd hawe hne
      · rfl
    simp only [hstrip, ↓reduceIte, List.isEmpty_iff, List.drop_eq_nil_iff] at hawe
    have hlen : args.length = 1 := by omega
    have himp0 : t.implicit = 0 := by omega
    simp only [regionStripped, hstrip, himp0, hlen, hplain, List.head?_cons, Bool.true_and, beq_self_eq_true,
      Bool.or_eq_false_iff, Option.isSome] at hreg
    have hmode : f.mode = .pedantic := by
      cases hm : f.mode <;> simp_all
    have hd : p0.dflt = none := by cases h : p0.dflt <;> simp_all
    simp only [hmode, cfg_argsBeforeBody, ↓reduceIte, checkArguments_eq, hplain, checkParams, hd, hs, hnokw]
    cases p0.ann <;> simp [orElse]
  · simp [hawe]

/-- exempt callables (operator methods outside the documented list, property setters) stay positionally callable: no
    PedanticCallWithArgsException is ever raised for them, whatever the call looks like -/
theorem exempt_callable (env : Env) (orc : Nat → Val → Raw) (f : Fn) (t : Truth) (args : List Val) (kw : List (NameId × Val))
    (body : BodyOut) (htruth : truthful f t = true) (hex : exempt f t = true) :
    (runCall env orc f args kw body).caller ≠ .pedCallWithArgs := by
  have hs : f.shouldHaveKwargs = false := by rw [shk_of_truthful f t htruth]; simp [hex]
  intro h
  have := (callWithArgs_iff env orc f args kw body).1 h
  simp [hs] at this

/-- the implicit self / cls never counts as positional: a call whose only positional argument is the implicit one is
    never rejected by the discipline, whenever the library recognises the callable as a method (`strips`) -/
theorem self_not_counted (env : Env) (orc : Nat → Val → Raw) (f : Fn) (inst : Val) (kw : List (NameId × Val)) (body : BodyOut)
    (hstrip : f.strips = true) :
    (runCall env orc f [inst] kw body).caller ≠ .pedCallWithArgs := by
  intro h
  have := (callWithArgs_iff env orc f [inst] kw body).1 h
  rw [argsWithoutSelf_eq] at this
  simp [hstrip] at this

/-- … and a call without any positional argument never is -/
theorem keyword_call_not_rejected (env : Env) (orc : Nat → Val → Raw) (f : Fn) (kw : List (NameId × Val)) (body : BodyOut) :
    (runCall env orc f [] kw body).caller ≠ .pedCallWithArgs := by
  intro h
  have := (callWithArgs_iff env orc f [] kw body).1 h
  rw [argsWithoutSelf_eq] at this
  simp at this

/-- the documented list is the code's list: exactly the listed operator methods require keywords among dunder names -/
theorem dunder_requires_kwargs_iff_listed (f : Fn) (hd : f.startsDunder = true ∧ f.endsDunder = true)
    (hs : f.isSetter = false) (hw : f.wantsArgs = false) :
    f.shouldHaveKwargs = requireKwargsDunders.contains f.name := by
  simp [Fn.shouldHaveKwargs, cfg_shk, hd.1, hd.2, hs, hw]

/-! ### negation witnesses -/
def intAnn : Ann := .cls 2
/-- `@pedantic_class class K: @staticmethod def s(x: int = 7) -> int` reached through the class: `K.s(5)` -/
def witnessStatic : Fn :=
  { name := "s", flags := flagsOfSource "s" "    @staticmethod\n    def s(x: int = 7) -> int:\n        return x\n", qualDotted := true,
    params := [{ name := 1, kind := .posOrKw, ann := some intAnn, dflt := some (.lit (.int 7)) }], selfName := 0,
    firstIsSelf := false, isBound := false, retAnn := some intAnn, genRet := .notGenType, flavour := .sync, mode := .pedantic }
/-- region `strippedPositionalIsDeclaredDefaulted`: the positional 5 is stripped as if it were `self`, the default is
    checked instead, the body runs (with the default) -/
theorem positional_fails_strippedDefaulted :
    (runCall envW (fun _ _ => .raisedOther) witnessStatic [.lit (.int 5)] [] (.ret (.lit (.int 9)))).caller = .ret ∧
    (runCall envW (fun _ _ => .raisedOther) witnessStatic [.lit (.int 5)] [] (.ret (.lit (.int 9)))).bodyRan = true ∧
    truthful witnessStatic ⟨true, false, false, 0⟩ = true ∧ hasVarPos witnessStatic = false ∧ exempt witnessStatic ⟨true, false, false, 0⟩ = false ∧
    regionStripped witnessStatic ⟨true, false, false, 0⟩ [.lit (.int 5)] = true := by decide

/-- `@pedantic def f(a: int) -> int` whose body has a comment mentioning `*args`: `f(5)` is accepted -/
def witnessComment : Fn :=
  { name := "f", flags := flagsOfSource "f" "@pedantic\ndef f(a: int) -> int:\n    # note: *args\n    return a\n", qualDotted := false,
    params := [{ name := 1, kind := .posOrKw, ann := some intAnn, dflt := none }], selfName := 0,
    firstIsSelf := false, isBound := false, retAnn := some intAnn, genRet := .notGenType, flavour := .sync, mode := .pedantic }
/-- region `bodyMentionsStarArgs`: the text `*args` in a comment switches the discipline off -/
theorem positional_fails_bodyMentionsStarArgs :
    (runCall envW (fun _ _ => .raisedOther) witnessComment [.lit (.int 5)] [] (.ret (.lit (.int 9)))).caller = .ret ∧
    truthful witnessComment ⟨false, false, true, 0⟩ = false ∧ hasVarPos witnessComment = false := by decide

theorem Positional_full_is_false : ¬ Positional_full := by
  intro h
  have w := positional_fails_bodyMentionsStarArgs
  have := (h envW (fun _ _ => .raisedOther) witnessComment ⟨false, false, true, 0⟩ [.lit (.int 5)] [] (.ret (.lit (.int 9)))
    w.2.2 (by decide) (by decide)).2
  rw [w.1] at this
  simp at this

-- non-vacuity: a truthful plain function, positional call rejected
def plainFn : Fn := { witnessComment with flags := flagsOfSource "f" "@pedantic\ndef f(a: int) -> int:\n    return a\n" }
example : truthful plainFn ⟨false, false, true, 0⟩ = true ∧ regionStripped plainFn ⟨false, false, true, 0⟩ [.lit (.int 5)] = false ∧
    (runCall envW (fun _ _ => .raisedOther) plainFn [.lit (.int 5)] [] (.ret (.lit (.int 9)))).caller = .pedCallWithArgs := by decide

end PedVerif.Call
