import PedVerif.Lemmas.CallLayer3
import PedVerif.Lemmas.CheckerEnvs
/-!
# C05 — keyword-only calling discipline of @pedantic and @require_kwargs

`runCall` is the model of the wrappers of `pedantic` / `require_kwargs` (`FunctionCall.assert_uses_kwargs`,
`args_without_self`, `DecoratedFunction.should_have_kwargs` are *translated* from the source on every run, the source-text
predicates are computed from the source string with the regenerated needles).

Full statement `Positional_full`; proved as `positional_rejected` under two guards: `truthful` (each source-text flag
equals the fact it stands for - its complement are the regions `bodyMentionsStarArgs` / `bodyMentionsSetter`) and
`regionStripped = false` (the library strips the first positional argument as "self" although no implicit argument is
present - region `strippedPositionalIsDeclaredDefaulted`).  Negation witnesses below.
-/
namespace PedVerif.Call
open PedVerif.Checker PedVerif.Gen.CallTables

/-- **the documented list is the code's list**: the list the specification transcribes (`Spec.documentedKwargsDunders`, which `exempt` reads)
    equals the list the translator reads from the source - an entry deleted from or added to `FUNCTIONS_THAT_REQUIRE_KWARGS` breaks this -/
theorem documented_list_is_code_list : requireKwargsDunders = documentedKwargsDunders := by decide

/-- under truthful flags `should_have_kwargs` is exactly "no *args parameter and not exempt" -/
theorem shk_of_truthful (f : Fn) (t : Truth) (ht : truthful f t = true) :
    f.shouldHaveKwargs = (!hasVarPos f && !exempt f t) := by
  simp only [truthful, Bool.and_eq_true, beq_iff_eq] at ht
  obtain ⟨⟨⟨h1, _⟩, h3⟩, _⟩ := ht
  simp only [Fn.shouldHaveKwargs, cfg_shk, exempt, h1, h3, ← documented_list_is_code_list]
  cases t.realSetter <;> cases hasVarPos f <;> cases f.startsDunder <;> cases f.endsDunder <;>
    cases requireKwargsDunders.contains f.name <;> rfl

/-- the property as stated -/
def Positional_full : Prop :=
  ∀ (env : Env) (orc : Nat → Val → Raw) (f : Fn) (t : Truth) (args : List Val) (kw : List (NameId × Val)) (body : BodyOut),
    hasVarPos f = false → exempt f t = false → args.length > t.implicit →
    (runCall env orc f args kw body).bodyRan = false ∧
      ((runCall env orc f args kw body).caller = .pedCallWithArgs ∨ (runCall env orc f args kw body).caller = .pedTypeCheck)

/-- **C05.** A callable without `*args` that is not exempt, called with at least one declared parameter passed
    positionally: a PedanticException is raised and the body does not run - whatever the argument values are. -/
theorem positional_rejected (env : Env) (orc : Nat → Val → Raw) (f : Fn) (t : Truth) (args : List Val) (kw : List (NameId × Val))
    (body : BodyOut) (p0 : Param) (rest : List Param)
    (htruth : truthful f t = true) (hnovar : hasVarPos f = false) (hnoex : exempt f t = false)
    (hpos : args.length > t.implicit) (himp : t.implicit ≤ 1)
    (hplain : f.plain = p0 :: rest)                       -- the declared parameter that was passed positionally
    (hnokw : lookup kw p0.name = none)                     -- Python forbids passing it again by keyword
    (hreg : regionStripped f t args = false) :
    (runCall env orc f args kw body).bodyRan = false ∧
      ((runCall env orc f args kw body).caller = .pedCallWithArgs ∨ (runCall env orc f args kw body).caller = .pedTypeCheck) := by
  have hs : f.shouldHaveKwargs = true := by rw [shk_of_truthful f t htruth]; simp [hnovar, hnoex]
  have hne : args ≠ [] := by intro h; simp [h] at hpos
  have hnemp : args.isEmpty = false := by cases args <;> simp_all
  unfold runCall
  simp only [Fn.initFails, hnemp, Bool.and_false, Bool.false_and, Bool.false_eq_true, ↓reduceIte, hs, Bool.true_and]
  by_cases hawe : (f.argsWithoutSelf args).isEmpty = true
  · -- everything was stripped: exactly one positional and no implicit argument
    simp only [hawe, Bool.not_true, Bool.false_eq_true, ↓reduceIte]
    rw [argsWithoutSelf_eq] at hawe
    have hstrip : f.strips = true := by
      cases h : f.strips
      · simp [h] at hawe; exact absurd hawe hne
      · rfl
    simp only [hstrip, ↓reduceIte, List.isEmpty_iff, List.drop_eq_nil_iff] at hawe
    have hlen : args.length = 1 := by omega
    have himp0 : t.implicit = 0 := by omega
    simp only [regionStripped, hstrip, himp0, hlen, hplain, List.head?_cons, Bool.true_and, beq_self_eq_true,
      Bool.or_eq_false_iff, Option.isSome] at hreg
    have hmode : f.mode = .pedantic := by
      cases hm : f.mode <;> simp_all
    have hd : p0.dflt = none := by cases h : p0.dflt <;> simp_all
    simp only [hmode, cfg_argsBeforeBody, ↓reduceIte, checkArguments_eq, hplain, checkParams, hd, hs, hnokw]
    cases p0.ann <;> simp [orElse]
  · simp [hawe]

/-- exempt callables (operator methods outside the documented list, property setters) stay positionally callable: no
    PedanticCallWithArgsException is ever raised for them, whatever the call looks like -/
theorem exempt_callable (env : Env) (orc : Nat → Val → Raw) (f : Fn) (t : Truth) (args : List Val) (kw : List (NameId × Val))
    (body : BodyOut) (htruth : truthful f t = true) (hex : exempt f t = true) :
    (runCall env orc f args kw body).caller ≠ .pedCallWithArgs := by
  have hs : f.shouldHaveKwargs = false := by rw [shk_of_truthful f t htruth]; simp [hex]
  intro h
  have := (callWithArgs_iff env orc f args kw body).1 h
  simp [hs] at this

/-- the implicit self / cls never counts as positional, stated over the harness truth: a call whose only positional argument is the implicit
    receiver (`t.implicit = 1`) is never rejected by the discipline - outside the region `receiverNotNamedSelf` (the library recognises the
    receiver by the NAME `self` of the first parameter, by the decorator text `@staticmethod`, or by a second decorator line) -/
theorem self_not_counted (env : Env) (orc : Nat → Val → Raw) (f : Fn) (t : Truth) (inst : Val) (kw : List (NameId × Val)) (body : BodyOut)
    (himp : t.implicit = 1) (hreg : regionReceiverNotNamedSelf f t [inst] = false) :
    (runCall env orc f [inst] kw body).caller ≠ .pedCallWithArgs := by
  have hstrip : f.strips = true := by simpa [regionReceiverNotNamedSelf, himp] using hreg
  intro h
  have := (callWithArgs_iff env orc f [inst] kw body).1 h
  rw [argsWithoutSelf_eq] at this
  simp [hstrip] at this

/-- the statement without the region: every keyword call (nothing positional beyond the implicit receiver) of a truthful callable is accepted by
    the discipline -/
def KeywordCallAccepted_full : Prop :=
  ∀ (env : Env) (orc : Nat → Val → Raw) (f : Fn) (t : Truth) (args : List Val) (kw : List (NameId × Val)) (body : BodyOut),
    truthful f t = true → keywordCall t args = true → (runCall env orc f args kw body).caller ≠ .pedCallWithArgs
/-- `class K: @pedantic def m(this, a: int) -> int` - a method whose receiver is not called `self` -/
def witnessThis : Fn :=
  { name := "m", flags := flagsOfSource "m" "    @pedantic\n    def m(this, a: int) -> int:\n        return a\n", qualDotted := true,
    params := [{ name := 5, kind := .posOrKw, ann := none, dflt := none }, { name := 1, kind := .posOrKw, ann := some (.cls 2), dflt := none }],
    selfName := 0, firstIsSelf := false, isBound := false, retAnn := some (.cls 2), genRet := .notGenType, flavour := .sync, mode := .pedantic }
/-- **region `receiverNotNamedSelf`** (finding of the same name): `obj.m(a=1)` - a keyword call, all flags truthful - is rejected with
    PedanticCallWithArgsException: the receiver `obj` is counted as a positional argument -/
theorem receiver_not_named_self_rejected :
    truthful witnessThis ⟨false, false, true, 1⟩ = true ∧ keywordCall ⟨false, false, true, 1⟩ [.inst 7] = true ∧
    regionReceiverNotNamedSelf witnessThis ⟨false, false, true, 1⟩ [.inst 7] = true ∧
    (runCall envW (fun _ _ => .raisedOther) witnessThis [.inst 7] [(1, .lit (.int 1))] (.ret (.lit (.int 1)))).caller = .pedCallWithArgs := by decide
theorem KeywordCallAccepted_full_is_false : ¬ KeywordCallAccepted_full := by
  intro h
  have w := receiver_not_named_self_rejected
  exact h envW (fun _ _ => .raisedOther) witnessThis ⟨false, false, true, 1⟩ [.inst 7] [(1, .lit (.int 1))] (.ret (.lit (.int 1))) w.1 w.2.1 w.2.2.2

/-- the documented list is the code's list: exactly the listed operator methods require keywords among dunder names -/
theorem dunder_requires_kwargs_iff_listed (f : Fn) (hd : f.startsDunder = true ∧ f.endsDunder = true)
    (hs : f.isSetter = false) (hw : f.wantsArgs = false) :
    f.shouldHaveKwargs = requireKwargsDunders.contains f.name := by
  simp [Fn.shouldHaveKwargs, cfg_shk, hd.1, hd.2, hs, hw]

/-! ### negation witnesses -/
def intAnn : Ann := .cls 2
/-- `@pedantic_class class K: @staticmethod def s(x: int = 7) -> int` reached through the class: `K.s(5)` -/
def witnessStatic : Fn :=
  { name := "s", flags := flagsOfSource "s" "    @staticmethod\n    def s(x: int = 7) -> int:\n        return x\n", qualDotted := true,
    params := [{ name := 1, kind := .posOrKw, ann := some intAnn, dflt := some (.lit (.int 7)) }], selfName := 0,
    firstIsSelf := false, isBound := false, retAnn := some intAnn, genRet := .notGenType, flavour := .sync, mode := .pedantic }
/-- region `strippedPositionalIsDeclaredDefaulted`: the positional 5 is stripped as if it were `self`, the default is
    checked instead, the body runs (with the default) -/
theorem positional_fails_strippedDefaulted :
    (runCall envW (fun _ _ => .raisedOther) witnessStatic [.lit (.int 5)] [] (.ret (.lit (.int 9)))).caller = .ret ∧
    (runCall envW (fun _ _ => .raisedOther) witnessStatic [.lit (.int 5)] [] (.ret (.lit (.int 9)))).bodyRan = true ∧
    truthful witnessStatic ⟨true, false, false, 0⟩ = true ∧ hasVarPos witnessStatic = false ∧ exempt witnessStatic ⟨true, false, false, 0⟩ = false ∧
    regionStripped witnessStatic ⟨true, false, false, 0⟩ [.lit (.int 5)] = true := by decide

/-- `@pedantic def f(a: int) -> int` whose body has a comment mentioning `*args`: `f(5)` is accepted -/
def witnessComment : Fn :=
  { name := "f", flags := flagsOfSource "f" "@pedantic\ndef f(a: int) -> int:\n    # note: *args\n    return a\n", qualDotted := false,
    params := [{ name := 1, kind := .posOrKw, ann := some intAnn, dflt := none }], selfName := 0,
    firstIsSelf := false, isBound := false, retAnn := some intAnn, genRet := .notGenType, flavour := .sync, mode := .pedantic }
/-- region `bodyMentionsStarArgs`: the text `*args` in a comment switches the discipline off -/
theorem positional_fails_bodyMentionsStarArgs :
    (runCall envW (fun _ _ => .raisedOther) witnessComment [.lit (.int 5)] [] (.ret (.lit (.int 9)))).caller = .ret ∧
    truthful witnessComment ⟨false, false, true, 0⟩ = false ∧ hasVarPos witnessComment = false := by decide

theorem Positional_full_is_false : ¬ Positional_full := by
  intro h
  have w := positional_fails_bodyMentionsStarArgs
  have := (h envW (fun _ _ => .raisedOther) witnessComment ⟨false, false, true, 0⟩ [.lit (.int 5)] [] (.ret (.lit (.int 9)))
    w.2.2 (by decide) (by decide)).2
  rw [w.1] at this
  simp at this

-- non-vacuity: a truthful plain function, positional call rejected
def plainFn : Fn := { witnessComment with flags := flagsOfSource "f" "@pedantic\ndef f(a: int) -> int:\n    return a\n" }
example : truthful plainFn ⟨false, false, true, 0⟩ = true ∧ regionStripped plainFn ⟨false, false, true, 0⟩ [.lit (.int 5)] = false ∧
    (runCall envW (fun _ _ => .raisedOther) plainFn [.lit (.int 5)] [] (.ret (.lit (.int 9)))).caller = .pedCallWithArgs := by decide

end PedVerif.Call
