import PedVerif.Props.C06
import PedVerif.Props.CallLayerIR
/-! C06 (call level) restated about the translated code (see `Props/C03IR.lean`). -/
namespace PedVerif.CallIR
open PedVerif.Checker PedVerif.Call

/-- **C06 (an incomplete parameter annotation), about the translated code.** -/
theorem ir_incomplete_param_never_returns (env : Env) (orc) (f : Fn) (args : List Val) (kw : List (NameId × Val)) (body : BodyOut) (w : World) (up : Val → Bool) (hP : (∀ v, up v = false) ∨ PedVerif.Gen.CallLayerIR.messagesUseSafeDescribe = true)
    (hrecv : PedVerif.Gen.CallTables.receiverMayBeKeyword = true → f.firstIsSelf = true → args.isEmpty = true → (lookup kw f.selfName).isSome = true)
    (hnd : (kw.map (·.1)).Nodup) (hmode : f.mode = .pedantic) (hinc : incompleteParam f = true) :
    (runCallIR env orc f args kw body w up).bodyRan = false ∧ (runCallIR env orc f args kw body w up).caller ≠ .ret ∧
    (runCallIR env orc f args kw body w up).caller ≠ .retGen := by
  rw [ir_runCall_refines env orc f args kw body w up hP hrecv hnd]; exact incomplete_param_never_returns env orc f args kw body hmode hinc

/-- **C06 (an incomplete return annotation), about the translated code.** -/
theorem ir_incomplete_return_never_returns (env : Env) (orc) (f : Fn) (args : List Val) (kw : List (NameId × Val)) (body : BodyOut) (w : World) (up : Val → Bool) (hP : (∀ v, up v = false) ∨ PedVerif.Gen.CallLayerIR.messagesUseSafeDescribe = true)
    (hrecv : PedVerif.Gen.CallTables.receiverMayBeKeyword = true → f.firstIsSelf = true → args.isEmpty = true → (lookup kw f.selfName).isSome = true)
    (hnd : (kw.map (·.1)).Nodup) (hmode : f.mode = .pedantic) (hfl : f.flavour ≠ .generator) (hinc : incompleteReturn f = true) :
    (runCallIR env orc f args kw body w up).caller ≠ .ret := by
  rw [ir_runCall_refines env orc f args kw body w up hP hrecv hnd]; exact incomplete_return_never_returns env orc f args kw body hmode hfl hinc

example : incompleteParam { exFn with params := [{ name := 1, kind := .posOrKw, ann := none, dflt := none }] } = true ∧
    (runCallIR envW (fun _ _ => .raisedOther) { exFn with params := [{ name := 1, kind := .posOrKw, ann := none, dflt := none }] } []
      [(1, .lit (.int 1))] (.ret (.lit (.int 1))) exW).caller = .pedTypeCheck := by decide
end PedVerif.CallIR
