import PedVerif.Props.C12
/-!
# C13 — @validate binds by name: call style, return_as mode, sources are interchangeable

Property theorems about the model `PedVerif.Validate` (shared with C12; the helper lemmas of `Props/C12.lean` are reused).
The hand-over to the decorated function — the dispatch of `wrapper` / `async_wrapper`, the `is not None` filter of
KWARGS_WITHOUT_NONE, `_split_by_signature` — is regenerated from the source (`PedVerif.Gen.Validate`); the theorems
are about those generated definitions.
-/
set_option linter.unusedSimpArgs false
namespace PedVerif.Validate
open PedVerif.Gen.Validate

theorem find?_of_nodup : ∀ (l : List SParam) (s : SParam), (l.map (·.name)).Nodup → s ∈ l →
    l.find? (·.name == s.name) = some s := by
  intro l
  induction l with
  | nil => intro s _ h; cases h
  | cons a l ih =>
    intro s hnd hs
    simp only [List.map_cons, List.nodup_cons] at hnd
    simp only [List.mem_cons] at hs
    simp only [List.find?_cons]
    rcases hs with rfl | hs
    · simp
    · have : (a.name == s.name) = false := by
        cases hx : (a.name == s.name) with
        | false => rfl
        | true =>
          exfalso; apply hnd.1
          have : a.name = s.name := by simpa using hx
          rw [this]; exact List.mem_map.mpr ⟨s, hs, rfl⟩
      simp only [this]
      exact ih s hnd.2 hs

theorem default?_of_mem (sig : Sig) (s : SParam) (hnd : (sig.named.map (·.name)).Nodup) (hs : s ∈ sig.named) :
    sig.default? s.name = s.dflt := by
  simp [Sig.default?, find?_of_nodup sig.named s hnd hs]

/-- the specification's per-parameter rule is the by-name rule at that parameter's name -/
theorem byNameOne_eq_at (c : Cfg) (args : List PV) (kw : List (Name × PV)) (s : SParam) (hs : s ∈ c.sig.named)
    (hsig : (c.sig.named.map (·.name)).Nodup) : byNameOne c args kw s = byNameAt c args kw s.name := by
  unfold byNameOne byNameAt
  simp only [← validate_is_chain_fold, ← isRequired_eq, specFindP_eq]
  cases hf : findP c.ps s.name with
  | none => rfl
  | some p =>
    simp only
    cases (if c.ignoreInput = true then none else callerInput c.sig args kw s.name) with
    | some v => rfl
    | none =>
      simp only [absentRule, findP_name _ _ _ hf, default?_of_mem c.sig s hsig hs]
      rfl

/-- **C13 (main statement).** For every function without `*args`, every Parameter configuration (distinct names),
    `strict` and `ignore_input` on or off, sync or async, **every `return_as` mode**, and every call — any split into a
    positional prefix and keywords, the keywords in any order, values omitted or None —: whenever the body runs, the
    binding it observes is the by-name binding `byName` of the specification (caller value unless `ignore_input`, else
    external value, else Parameter default, else signature default; KWARGS_WITHOUT_NONE additionally omits None values
    so that signature defaults apply), and nothing lands in `*args`.  Plain functions and methods alike, whatever the
    parameters and the keywords of the call are named: the receiver of a method is recognised by the signature (first parameter
    called `self`), so a keyword or an ordinary parameter called `self` is bound by name like every other.  (Before the repair
    of `selfKeywordBypassesGate` this needed the guard `selfIsReceiver`.) -/
theorem binding_is_by_name (c : Cfg) (isAsync : Bool) (m : Mode) (args : List PV) (kw : List (Name × PV)) (b : Binding)
    (hva : c.sig.varArgs = false)
    (hkw : (kw.map (·.1)).Nodup) (hsig : (c.sig.named.map (·.name)).Nodup) (hps : (c.ps.map (·.name)).Nodup)
    (hrun : runValidate c isAsync m args kw = .ok b) :
    byName c m args kw = .ok b.named ∧ b.extras = [] := by
  simp only [runValidate, bind, Except.bind] at hrun
  cases hw : wrapperContent c args kw with
  | error e => rw [hw] at hrun; cases hrun
  | ok res =>
    rw [hw] at hrun
    simp only at hrun
    have hnd := wrapperContent_keysNodup c args kw res hw
    have hg := res_get' c args kw res hva hkw (posNames_nodup c.sig hsig) hps hw
    have hrun := dispatch_ok_bindDict c.sig isAsync m res b hva hrun
    generalize hd : (if m = .kwWithoutNone then withoutNone res else res) = d at hrun
    unfold bindDict at hrun
    by_cases hbad : d.any (notParam c.sig) = true
    · rw [if_pos hbad] at hrun; cases hrun
    · rw [if_neg hbad] at hrun
      simp only [bind, Except.bind] at hrun
      cases hm : c.sig.named.mapM (bindOne d) with
      | error e => rw [hm] at hrun; cases hrun
      | ok named =>
        rw [hm] at hrun
        simp only [pure, Except.pure, Except.ok.injEq] at hrun
        subst hrun
        refine ⟨?_, rfl⟩
        unfold byName
        rw [← hm]
        apply mapM_congr
        intro s hs
        simp only [byNameBind, byNameOne_eq_at c args kw s hs hsig, hg s.name, bind, Except.bind, bindOne, ← hd]
        cases m with
        | args =>
          simp only [reduceCtorEq, ↓reduceIte, Bool.false_and, Bool.false_eq_true, beq_iff_eq]
          cases res.get? s.name with
          | some v => rfl
          | none => cases s.dflt <;> rfl
        | kwWithNone =>
          simp only [reduceCtorEq, ↓reduceIte, Bool.false_and, Bool.false_eq_true, beq_iff_eq]
          cases res.get? s.name with
          | some v => rfl
          | none => cases s.dflt <;> rfl
        | kwWithoutNone =>
          simp only [↓reduceIte, withoutNone, filterVal_get (fun v => !v.isNone) res s.name hnd, beq_self_eq_true, Bool.true_and]
          cases hr : res.get? s.name with
          | none => simp only [reduceCtorEq, beq_iff_eq, ↓reduceIte]; cases s.dflt <;> rfl
          | some v =>
            cases v with
            | none => simp only [PV.isNone, beq_self_eq_true, ↓reduceIte, Bool.not_true, Bool.false_eq_true]; cases s.dflt <;> rfl
            | obj i =>
              have : (some (PV.obj i) == some PV.none) = false := by simp
              simp only [PV.isNone, this, Bool.false_eq_true, ↓reduceIte, Bool.not_false]; rfl


/-! ## Corollaries -/

/-- **C13 (modes).** ARGS and KWARGS_WITH_NONE are interchangeable for every function without `*args`: same outcome —
    the same binding observed by the body, or the same exception — for every configuration and every call. No further
    hypothesis. -/
theorem mode_independent (c : Cfg) (a : Bool) (args : List PV) (kw : List (Name × PV)) (hva : c.sig.varArgs = false) :
    runValidate c a .args args kw = runValidate c a .kwWithNone args kw := by
  simp only [runValidate]
  congr 1
  funext res
  rw [dispatch_unfold, dispatch_unfold]
  simp only
  rw [callWith_split_eq c.sig _ res hva, callWith_kw_eq]

/-- **C13 (modes).** KWARGS_WITHOUT_NONE is KWARGS_WITH_NONE applied to the dict without its None entries (so that
    Python's signature defaults apply to them) — any signature, no hypothesis. -/
theorem mode_without_none (sig : Sig) (a : Bool) (res : Assoc) :
    dispatch sig a .kwWithoutNone res = dispatch sig a .kwWithNone (withoutNone res) := by
  rw [dispatch_unfold, dispatch_unfold]

/-- `async_wrapper` hands over exactly like `wrapper` -/
theorem async_same_as_sync (c : Cfg) (m : Mode) (args : List PV) (kw : List (Name × PV)) :
    runValidate c true m args kw = runValidate c false m args kw := by
  simp only [runValidate, dispatch_unfold]

/-- the per-parameter by-name rule, when it binds at all, does not depend on the *style* of the call: two calls that supply the
    same value for the name yield the same result (under `strict` the one exception is the receiver of a method, which needs no
    declared Parameter when bound positionally and is an argument like every other when passed by keyword — then one of the two
    calls is refused) -/
theorem byNameOne_ok_congr (c : Cfg) (args1 args2 : List PV) (kw1 kw2 : List (Name × PV)) (s : SParam)
    (h : callerInput c.sig args1 kw1 s.name = callerInput c.sig args2 kw2 s.name) (r1 r2 : Option PV)
    (h1 : byNameOne c args1 kw1 s = .ok r1) (h2 : byNameOne c args2 kw2 s = .ok r2) : r1 = r2 := by
  unfold byNameOne at h1 h2
  rw [h] at h1
  simp only [specFindP_eq] at h1 h2
  cases hf : findP c.ps s.name with
  | some p => rw [hf] at h1 h2; rw [h1] at h2; exact Except.ok.inj h2
  | none =>
    rw [hf] at h1 h2
    simp only at h1 h2
    cases hin : (if c.ignoreInput = true then none else callerInput c.sig args2 kw2 s.name) with
    | none => rw [hin] at h1 h2; simp only [Except.ok.injEq] at h1 h2; rw [← h1, ← h2]
    | some v =>
      rw [hin] at h1 h2
      simp only at h1 h2
      split at h1
      · cases h1
      · split at h2
        · cases h2
        · simp only [Except.ok.injEq] at h1 h2; rw [← h1, ← h2]

theorem mapM_ok_unique {α β ε : Type} (f g : α → Except ε β) : ∀ (l : List α) (a b : List β),
    (∀ s ∈ l, ∀ x y, f s = .ok x → g s = .ok y → x = y) → l.mapM f = .ok a → l.mapM g = .ok b → a = b := by
  intro l
  induction l with
  | nil =>
    intro a b _ ha hb
    simp only [List.mapM_nil, pure, Except.pure, Except.ok.injEq] at ha hb
    rw [← ha, ← hb]
  | cons s l ih =>
    intro a b hp ha hb
    simp only [List.mapM_cons, bind, Except.bind] at ha hb
    cases hfs : f s with
    | error e => rw [hfs] at ha; cases ha
    | ok x =>
      cases hgs : g s with
      | error e => rw [hgs] at hb; cases hb
      | ok y =>
        rw [hfs] at ha; rw [hgs] at hb
        simp only at ha hb
        cases hlf : l.mapM f with
        | error e => rw [hlf] at ha; cases ha
        | ok xs =>
          cases hlg : l.mapM g with
          | error e => rw [hlg] at hb; cases hb
          | ok ys =>
            rw [hlf] at ha; rw [hlg] at hb
            simp only [pure, Except.pure, Except.ok.injEq] at ha hb
            have e1 : x = y := hp s (by simp) x y hfs hgs
            have e2 : xs = ys := ih xs ys (fun s' hs' => hp s' (by simp [hs'])) hlf hlg
            rw [← ha, ← hb, e1, e2]

/-- two calls that supply the same value for every name have the same by-name binding — whenever both have one -/
theorem byName_ok_congr (c : Cfg) (m : Mode) (args1 args2 : List PV) (kw1 kw2 : List (Name × PV)) (n1 n2 : Assoc)
    (h : ∀ n, callerInput c.sig args1 kw1 n = callerInput c.sig args2 kw2 n)
    (h1 : byName c m args1 kw1 = .ok n1) (h2 : byName c m args2 kw2 = .ok n2) : n1 = n2 := by
  unfold byName at h1 h2
  refine mapM_ok_unique _ _ c.sig.named n1 n2 ?_ h1 h2
  intro s _ x y hx hy
  simp only [byNameBind, bind, Except.bind] at hx hy
  cases ho1 : byNameOne c args1 kw1 s with
  | error e => rw [ho1] at hx; cases hx
  | ok r1 =>
    cases ho2 : byNameOne c args2 kw2 s with
    | error e => rw [ho2] at hy; cases hy
    | ok r2 =>
      have := byNameOne_ok_congr c args1 args2 kw1 kw2 s (h s.name) r1 r2 ho1 ho2
      subst this
      rw [ho1] at hx; rw [ho2] at hy
      rw [hx] at hy
      exact Except.ok.inj hy

/-- **C13 (call style).** Two calls that supply the same value for every name — whatever the split into positional
    prefix and keywords, whatever the keyword order — make the body observe the same binding. -/
theorem call_style_independent (c : Cfg) (a1 a2 : Bool) (m : Mode) (args1 args2 : List PV) (kw1 kw2 : List (Name × PV))
    (b1 b2 : Binding)
    (hva : c.sig.varArgs = false) (hsig : (c.sig.named.map (·.name)).Nodup) (hps : (c.ps.map (·.name)).Nodup)
    (hkw1 : (kw1.map (·.1)).Nodup) (hkw2 : (kw2.map (·.1)).Nodup)
    (hsame : ∀ n, callerInput c.sig args1 kw1 n = callerInput c.sig args2 kw2 n)
    (h1 : runValidate c a1 m args1 kw1 = .ok b1) (h2 : runValidate c a2 m args2 kw2 = .ok b2) :
    b1 = b2 := by
  obtain ⟨n1, e1⟩ := binding_is_by_name c a1 m args1 kw1 b1 hva hkw1 hsig hps h1
  obtain ⟨n2, e2⟩ := binding_is_by_name c a2 m args2 kw2 b2 hva hkw2 hsig hps h2
  have hn := byName_ok_congr c m args1 args2 kw1 kw2 _ _ hsame n1 n2
  cases b1; cases b2
  simp only at hn e1 e2
  simp [hn, e1, e2]

/-- **C13 (sources).** An external source supplies the value only when the caller did not pass one: a caller value for
    a declared parameter is what goes through the chain and is filed (whatever the source holds); … -/
theorem caller_value_wins (c : Cfg) (args : List PV) (kw : List (Name × PV)) (res : Assoc) (n : Name) (p : VParam) (v : PV)
    (hva : c.sig.varArgs = false) (hkw : (kw.map (·.1)).Nodup) (hpos : c.sig.posNames.Nodup) (hps : (c.ps.map (·.name)).Nodup)
    (hi : c.ignoreInput = false) (hp : findP c.ps n = some p) (hin : callerInput c.sig args kw n = some v)
    (h : wrapperContent c args kw = .ok res) :
    ∃ w, p.validate v = .ok w ∧ res.get? n = some w := by
  have hg := res_get' c args kw res hva hkw hpos hps h n
  simp only [byNameAt, hi, Bool.false_eq_true, ↓reduceIte, hp, hin] at hg
  cases hv : p.validate v with
  | error e => simp [hv, Except.map] at hg
  | ok w => simp only [hv, Except.map, Except.ok.injEq] at hg; exact ⟨w, rfl, hg.symm⟩

/-- … and when the caller passed nothing for the name (or `ignore_input`), the external value is what goes through the
    chain and is filed. -/
theorem external_only_when_absent (c : Cfg) (args : List PV) (kw : List (Name × PV)) (res : Assoc) (n : Name) (p : VParam) (e : PV)
    (hva : c.sig.varArgs = false) (hkw : (kw.map (·.1)).Nodup) (hpos : c.sig.posNames.Nodup) (hps : (c.ps.map (·.name)).Nodup)
    (hp : findP c.ps n = some p) (hin : c.ignoreInput = true ∨ callerInput c.sig args kw n = none) (hext : p.ext = some e)
    (h : wrapperContent c args kw = .ok res) :
    ∃ w, p.validate e = .ok w ∧ res.get? n = some w := by
  have hg := res_get' c args kw res hva hkw hpos hps h n
  have hinp : (if c.ignoreInput = true then none else callerInput c.sig args kw n) = none := by
    rcases hin with h | h <;> simp [h]
  simp only [byNameAt, hp, hinp, absentRule, hext] at hg
  cases hv : p.validate e with
  | error e' => simp [hv, Except.map] at hg
  | ok w => simp only [hv, Except.map, Except.ok.injEq] at hg; exact ⟨w, rfl, hg.symm⟩

/-- **C13 (`ignore_input`).** With `ignore_input=True` whatever the caller passes is ignored: same outcome as the call
    without arguments — any signature, any mode. -/
theorem ignore_input_ignores (c : Cfg) (a : Bool) (m : Mode) (args : List PV) (kw : List (Name × PV))
    (hi : c.ignoreInput = true) : runValidate c a m args kw = runValidate c a m [] [] := by
  simp only [runValidate, wrapperContent_eq_seq, wrapperSeq, hi, ↓reduceIte]

/-! ## The converse: a clean call whose by-name binding exists does run, with exactly that binding -/

theorem mapM_ok_each {α β ε : Type} (f : α → Except ε β) : ∀ (l : List α) (b : List β), l.mapM f = .ok b →
    ∀ a ∈ l, ∃ y, f a = .ok y := by
  intro l
  induction l with
  | nil => intro b _ a ha; cases ha
  | cons x l ih =>
    intro b h a ha
    simp only [List.mapM_cons, bind, Except.bind] at h
    cases hfx : f x with
    | error e => rw [hfx] at h; cases h
    | ok y =>
      rw [hfx] at h
      simp only at h
      cases hl : l.mapM f with
      | error e => rw [hl] at h; cases h
      | ok ys =>
        simp only [List.mem_cons] at ha
        rcases ha with rfl | ha
        · exact ⟨y, hfx⟩
        · exact ih ys hl a ha

theorem lookupKV_of_mem : ∀ (l : List (Name × PV)) (k : Name) (v : PV), keysNodup l → (k, v) ∈ l → lookupKV l k = some v := by
  intro l
  induction l with
  | nil => intro k v _ h; cases h
  | cons kv r ih =>
    intro k v hnd h
    obtain ⟨k', v'⟩ := kv
    obtain ⟨hk', hr⟩ := hnd
    simp only [List.mem_cons, Prod.mk.injEq] at h
    simp only [lookupKV]
    rcases h with ⟨rfl, rfl⟩ | h
    · simp
    · have := ih k v hr h
      by_cases he : (k' == k) = true
      · have : k' = k := by simpa using he
        subst this; rw [hk'] at this; cases this
      · simp only [he, Bool.false_eq_true, ↓reduceIte]; exact this

theorem gateOut_ok_of_all_ok (c : Cfg) : ∀ (items : List Item) (res : Assoc),
    (∀ it ∈ items, ∃ r, itemOut c it = .ok r) → ∃ res', gateOut c items res = specFlask c res' := by
  intro items
  induction items with
  | nil => intro res _; exact ⟨res, rfl⟩
  | cons it tl ih =>
    intro res h
    obtain ⟨r, hr⟩ := h it (by simp)
    have htl : ∀ i ∈ tl, ∃ r, itemOut c i = .ok r := fun i hi => h i (by simp [hi])
    simp only [gateOut, hr]
    cases r with
    | none => exact ih res htl
    | some nv => obtain ⟨n, v⟩ := nv; exact ih _ htl

/-- the call is one Python itself would accept for the undecorated function as far as names go: no surplus positional, every
    keyword names a parameter of the function, no name is passed twice, every declared Parameter names a parameter -/
def CleanCall (c : Cfg) (args : List PV) (kw : List (Name × PV)) : Prop :=
  args.length ≤ c.sig.pos.length ∧
  (∀ kv ∈ kw, kv.1 ∈ c.sig.named.map (·.name)) ∧
  (∀ kv ∈ kw, kv.1 ∉ c.sig.posNames.take args.length) ∧
  (∀ p ∈ c.ps, p.name ∈ c.sig.named.map (·.name))

theorem named_of_name (sig : Sig) (n : Name) (h : n ∈ sig.named.map (·.name)) : ∃ s ∈ sig.named, s.name = n := by
  simp only [List.mem_map] at h
  obtain ⟨s, hs, rfl⟩ := h
  exact ⟨s, hs, rfl⟩

theorem zip_lookup_none (l : List Name) (args : List PV) (k : Name) (h : k ∉ l.take args.length) : lookupKV (l.zip args) k = none := by
  apply lookupKV_none_of_not_mem
  intro hm
  simp only [List.mem_map] at hm
  obtain ⟨kv, hkv, rfl⟩ := hm
  have := zip_any_key l args kv.1
  have hany : (l.zip args).any (fun x => x.1 == kv.1) = true := List.any_eq_true.mpr ⟨kv, hkv, by simp⟩
  rw [hany] at this
  exact h (by simpa using this.symm)

theorem findP_of_mem_nodup : ∀ (ps : List VParam) (p : VParam), (ps.map (·.name)).Nodup → p ∈ ps → findP ps p.name = some p := by
  intro ps
  induction ps with
  | nil => intro p _ h; cases h
  | cons q r ih =>
    intro p hnd hp
    simp only [List.map_cons, List.nodup_cons] at hnd
    simp only [List.mem_cons] at hp
    simp only [findP]
    rcases hp with rfl | hp
    · rw [findP_none_of_not_mem r _ hnd.1]; simp
    · rw [ih p hnd.2 hp]

/-- every item of a clean call whose by-name binding exists is accepted -/
theorem items_ok_of_byName_ok (c : Cfg) (m : Mode) (args : List PV) (kw : List (Name × PV)) (n : Assoc)
    (hva : c.sig.varArgs = false) (hkw : (kw.map (·.1)).Nodup) (hsig : (c.sig.named.map (·.name)).Nodup) (hps : (c.ps.map (·.name)).Nodup)
    (hclean : CleanCall c args kw) (h : byName c m args kw = .ok n) :
    ∀ it ∈ gateItems c args kw, ∃ r, itemOut c it = .ok r := by
  obtain ⟨hlen, hkwn, hdis, hpsn⟩ := hclean
  have hone : ∀ s ∈ c.sig.named, ∃ r, byNameOne c args kw s = .ok r := by
    intro s hs
    obtain ⟨x, hx⟩ := mapM_ok_each _ _ _ h s hs
    simp only [byNameBind, bind, Except.bind] at hx
    cases ho : byNameOne c args kw s with
    | error e => rw [ho] at hx; cases hx
    | ok r => exact ⟨r, rfl⟩
  have hz : zipped c args kw = [] := by simp [zipped, surplusArgs, hva]
  have habsent : ∀ p ∈ c.ps, (c.ignoreInput = true ∨ supplied c.sig args kw p.name = false) → ∃ r, itemOut c (.absent p) = .ok r := by
    intro p hp hsup
    obtain ⟨s, hs, hsn⟩ := named_of_name c.sig p.name (hpsn p hp)
    obtain ⟨r, hr⟩ := hone s hs
    have hfp : findP c.ps s.name = some p := by rw [hsn]; exact findP_of_mem_nodup c.ps p hps hp
    have hinp : (if c.ignoreInput = true then none else callerInput c.sig args kw s.name) = none := by
      rcases hsup with hi | hsu
      · simp [hi]
      · by_cases hi : c.ignoreInput = true
        · simp [hi]
        · simp only [hi, Bool.false_eq_true, ↓reduceIte, callerInput_eq, hsn]
          simp only [supplied, Bool.or_eq_false_iff] at hsu
          have h1 : lookupKV (c.sig.posNames.zip args) p.name = none :=
            zip_lookup_none _ _ _ (by simpa using hsu.2)
          have h2 : lookupKV kw p.name = none := by
            apply lookupKV_none_of_not_mem
            intro hm
            simp only [List.mem_map] at hm
            obtain ⟨kv, hkv, hk⟩ := hm
            have : kw.any (fun kv => kv.1 == p.name) = true := List.any_eq_true.mpr ⟨kv, hkv, by simp [hk]⟩
            rw [this] at hsu; exact absurd hsu.1 (by simp)
          simp [h1, h2]
    unfold byNameOne at hr
    simp only [specFindP_eq, hfp, hinp] at hr
    simp only [itemOut, specDefault_eq, default?_of_mem c.sig s hsig hs ▸ (by rw [hsn] : c.sig.default? p.name = c.sig.default? s.name)]
    cases he : p.ext with
    | some v =>
      rw [he] at hr
      simp only at hr ⊢
      cases hv : specValidate p v with
      | error e => rw [hv] at hr; cases hr
      | ok w => exact ⟨_, rfl⟩
    | none =>
      rw [he] at hr
      simp only at hr ⊢
      split at hr
      · cases hr
      · rename_i hreq
        rw [if_neg hreq]
        cases hd : p.dflt with
        | some d => exact ⟨_, rfl⟩
        | none =>
          rw [hd] at hr
          simp only at hr ⊢
          cases hsd : s.dflt with
          | some d => exact ⟨_, rfl⟩
          | none => rw [hsd] at hr; cases hr
  intro it hit
  unfold gateItems at hit
  by_cases hi : c.ignoreInput = true
  · simp only [hi, ↓reduceIte, List.mem_map] at hit
    obtain ⟨p, hp, rfl⟩ := hit
    exact habsent p hp (Or.inl hi)
  · have hi' : c.ignoreInput = false := by simpa using hi
    have hnot : ¬ args.length > c.sig.pos.length := by omega
    simp only [hi', Bool.false_eq_true, ↓reduceIte, hnot, decide_false, Bool.false_and, List.nil_append, hva, hz, List.map_nil,
      List.contains_nil, Bool.not_false, List.mem_append, List.mem_map, surplusArgs, List.length_nil, Nat.not_lt_zero,
      Bool.and_false, List.not_mem_nil, or_false, false_or, List.append_nil, gt_iff_lt] at hit
    rcases hit with (⟨kv, hkv, rfl⟩ | ⟨kv, hkv, rfl⟩) | ⟨p, hp, rfl⟩
    · -- a keyword
      obtain ⟨k, v⟩ := kv
      obtain ⟨s, hs, hsn⟩ := named_of_name c.sig k (hkwn _ hkv)
      subst hsn
      obtain ⟨r, hr⟩ := hone s hs
      have hin : callerInput c.sig args kw s.name = some v := by
        rw [callerInput_eq, zip_lookup_none _ _ _ (hdis _ hkv), lookupKV_of_mem kw s.name v (keysNodup_of_nodup kw hkw) hkv]
      have hpp : passedPositionally c.sig args s.name = false := by
        rw [passedPositionally_eq, zip_lookup_none _ _ _ (hdis _ hkv)]; rfl
      unfold byNameOne at hr
      simp only [specFindP_eq, hi', Bool.false_eq_true, ↓reduceIte, hin] at hr
      simp only [itemOut, specFindP_eq]
      cases hf : findP c.ps s.name with
      | some p =>
        rw [hf] at hr
        simp only at hr ⊢
        cases hv : specValidate p v with
        | error e => rw [hv] at hr; cases hr
        | ok w => exact ⟨_, rfl⟩
      | none =>
        rw [hf] at hr
        simp only [strictRefuses, hpp, Bool.and_false, Bool.not_false, Bool.and_true] at hr ⊢
        cases hst : c.strict with
        | true => rw [hst] at hr; cases hr
        | false => exact ⟨_, rfl⟩
    · -- a positional
      obtain ⟨k, v⟩ := kv
      have hkpos : k ∈ c.sig.posNames := (List.of_mem_zip hkv).1
      have hknamed : k ∈ c.sig.named.map (·.name) := by
        simp only [Sig.posNames, List.mem_map] at hkpos
        obtain ⟨s0, hs0, rfl⟩ := hkpos
        simp only [Sig.named, List.map_append, List.mem_append, List.mem_map]
        exact Or.inl ⟨s0, hs0, rfl⟩
      obtain ⟨s, hs, hsn⟩ := named_of_name c.sig k hknamed
      subst hsn
      obtain ⟨r, hr⟩ := hone s hs
      have hlk : lookupKV (c.sig.posNames.zip args) s.name = some v :=
        lookupKV_of_mem _ s.name v (keysNodup_zip _ args (posNames_nodup c.sig hsig)) hkv
      have hin : callerInput c.sig args kw s.name = some v := by rw [callerInput_eq, hlk]
      have hpp : passedPositionally c.sig args s.name = true := by rw [passedPositionally_eq, hlk]; rfl
      unfold byNameOne at hr
      simp only [specFindP_eq, hi', Bool.false_eq_true, ↓reduceIte, hin] at hr
      simp only [itemOut, specFindP_eq]
      cases hf : findP c.ps s.name with
      | some p =>
        rw [hf] at hr
        simp only at hr ⊢
        cases hv : specValidate p v with
        | error e => rw [hv] at hr; cases hr
        | ok w => exact ⟨_, rfl⟩
      | none =>
        rw [hf] at hr
        simp only [strictRefuses, hpp, Bool.and_true] at hr
        simp only
        have hb : (c.strict && some s.name != specReceiver c.sig) = (c.strict && !(some s.name == specReceiver c.sig)) := rfl
        rw [hb]
        cases hst : (c.strict && !(some s.name == specReceiver c.sig)) with
        | true => rw [hst] at hr; cases hr
        | false => exact ⟨_, rfl⟩
    · -- a declared parameter the caller did not supply
      have hp' := List.mem_filter.mp (List.mem_filter.mp hp).1
      exact habsent p hp'.1 (Or.inr (by simpa using hp'.2))

/-- after a successful `_wrapper_content` the by-name binding of the specification is Python's binding of the dict by name -/
theorem byName_eq_bindOnes (c : Cfg) (m : Mode) (args : List PV) (kw : List (Name × PV)) (res : Assoc)
    (hva : c.sig.varArgs = false)
    (hkw : (kw.map (·.1)).Nodup) (hsig : (c.sig.named.map (·.name)).Nodup) (hps : (c.ps.map (·.name)).Nodup)
    (hw : wrapperContent c args kw = .ok res) :
    byName c m args kw = c.sig.named.mapM (bindOne (if m = .kwWithoutNone then withoutNone res else res)) := by
  have hnd := wrapperContent_keysNodup c args kw res hw
  have hg := res_get' c args kw res hva hkw (posNames_nodup c.sig hsig) hps hw
  unfold byName
  apply mapM_congr
  intro s hs
  simp only [byNameBind, byNameOne_eq_at c args kw s hs hsig, hg s.name, bind, Except.bind, bindOne]
  cases m with
  | args =>
    simp only [reduceCtorEq, ↓reduceIte, Bool.false_and, Bool.false_eq_true, beq_iff_eq]
    cases res.get? s.name with
    | some v => rfl
    | none => cases s.dflt <;> rfl
  | kwWithNone =>
    simp only [reduceCtorEq, ↓reduceIte, Bool.false_and, Bool.false_eq_true, beq_iff_eq]
    cases res.get? s.name with
    | some v => rfl
    | none => cases s.dflt <;> rfl
  | kwWithoutNone =>
    simp only [↓reduceIte, withoutNone, filterVal_get (fun v => !v.isNone) res s.name hnd, beq_self_eq_true, Bool.true_and]
    cases hr : res.get? s.name with
    | none => simp only [reduceCtorEq, beq_iff_eq, ↓reduceIte]; cases s.dflt <;> rfl
    | some v =>
      cases v with
      | none => simp only [PV.isNone, beq_self_eq_true, ↓reduceIte, Bool.not_true, Bool.false_eq_true]; cases s.dflt <;> rfl
      | obj i =>
        have : (some (PV.obj i) == some PV.none) = false := by simp
        simp only [PV.isNone, this, Bool.false_eq_true, ↓reduceIte, Bool.not_false]; rfl

theorem mem_get?_isSome : ∀ (d : Assoc) (k : Name) (v : PV), (k, v) ∈ d → (d.get? k).isSome = true := by
  intro d
  induction d with
  | nil => intro k v h; cases h
  | cons kv r ih =>
    intro k v h
    obtain ⟨k', v'⟩ := kv
    simp only [Assoc.get?]
    by_cases he : (k' == k) = true
    · simp [he]
    · simp only [he, Bool.false_eq_true, ↓reduceIte]
      simp only [List.mem_cons, Prod.mk.injEq] at h
      rcases h with ⟨rfl, _⟩ | h
      · simp at he
      · exact ih k v h

/-- **C13 (converse: the body does run).** For a function without `*args` (whose first parameter, if called `self`, is
    positional), distinct names, and a *clean* call — no surplus positional, every keyword and every declared Parameter names a
    parameter of the function, no name passed twice — that the trailing Flask block lets through: if the by-name specification
    binds (`byName … = .ok n`), the call **runs the body with exactly that binding** and nothing in `*args` — in every mode, sync
    and async.  Together with `binding_is_by_name`: for clean calls the body runs iff the by-name binding exists, and observes it. -/
theorem binding_is_by_name_converse (c : Cfg) (isAsync : Bool) (m : Mode) (args : List PV) (kw : List (Name × PV)) (n : Assoc)
    (hva : c.sig.varArgs = false) (hrecv : receiverIsPositional c.sig = true)
    (hkw : (kw.map (·.1)).Nodup) (hsig : (c.sig.named.map (·.name)).Nodup) (hps : (c.ps.map (·.name)).Nodup)
    (hclean : CleanCall c args kw) (hflask : ∀ res, specFlask c res = .ok res)
    (h : byName c m args kw = .ok n) :
    runValidate c isAsync m args kw = .ok ⟨n, []⟩ := by
  -- `_wrapper_content` succeeds
  obtain ⟨res, hres⟩ := gateOut_ok_of_all_ok c (gateItems c args kw) []
    (items_ok_of_byName_ok c m args kw n hva hkw hsig hps hclean h)
  have hw : wrapperContent c args kw = .ok res := by
    rw [gate_spec c args kw hva]; simp only [gate]; rw [hres, hflask]
  -- the hand-over is by name
  have hbind := byName_eq_bindOnes c m args kw res hva hkw hsig hps hw
  have hg := res_get' c args kw res hva hkw (posNames_nodup c.sig hsig) hps hw
  simp only [runValidate, hw, bind, Except.bind]
  rw [dispatch_eq_bindDict c.sig isAsync m res hva hrecv]
  generalize hd : (if m = .kwWithoutNone then withoutNone res else res) = d at hbind ⊢
  have hsub : ∀ e ∈ d, e ∈ res := by
    intro e he; rw [← hd] at he
    split at he
    · exact (List.mem_filter.mp he).1
    · exact he
  unfold bindDict
  -- every key of the dict is a parameter of the function
  have hnobad : d.any (notParam c.sig) = false := by
    rw [Bool.eq_false_iff]
    intro hany
    obtain ⟨kv, hkv, hbad⟩ := List.any_eq_true.mp hany
    obtain ⟨k, v⟩ := kv
    have hsome := mem_get?_isSome res k v (hsub _ hkv)
    have hnotnamed : k ∉ c.sig.named.map (·.name) := by
      intro hm
      obtain ⟨s, hs, hsn⟩ := named_of_name c.sig k hm
      simp only [notParam, Bool.not_eq_true', List.any_eq_false] at hbad
      exact hbad s hs (by simp [hsn])
    have hat := hg k
    obtain ⟨hlen, hkwn, hdis, hpsn⟩ := hclean
    have hfp : findP c.ps k = none := findP_none_of_not_mem c.ps k (by
      intro hm
      simp only [List.mem_map] at hm
      obtain ⟨p, hp, rfl⟩ := hm
      exact hnotnamed (hpsn p hp))
    have hci : callerInput c.sig args kw k = none := by
      rw [callerInput_eq, zip_lookup_none, lookupKV_none_of_not_mem]
      · intro hm
        simp only [List.mem_map] at hm
        obtain ⟨kv, hkv', rfl⟩ := hm
        exact hnotnamed (hkwn kv hkv')
      · intro hm
        have := List.mem_of_mem_take hm
        simp only [Sig.posNames, List.mem_map] at this
        obtain ⟨s0, hs0, rfl⟩ := this
        exact hnotnamed (by simp only [Sig.named, List.map_append, List.mem_append, List.mem_map]; exact Or.inl ⟨s0, hs0, rfl⟩)
    simp only [byNameAt, hfp, hci, ite_self, Except.ok.injEq] at hat
    rw [← hat] at hsome; cases hsome
  rw [if_neg (by simp [hnobad])]
  rw [← hbind, h]
  rfl

/-- the other direction of the exception clause: when the by-name specification raises, the body does not run -/
theorem byName_error_blocks_body (c : Cfg) (isAsync : Bool) (m : Mode) (args : List PV) (kw : List (Name × PV)) (e : VExc)
    (hva : c.sig.varArgs = false)
    (hkw : (kw.map (·.1)).Nodup) (hsig : (c.sig.named.map (·.name)).Nodup) (hps : (c.ps.map (·.name)).Nodup)
    (h : byName c m args kw = .error e) :
    ∃ e', runValidate c isAsync m args kw = .error e' := by
  cases hr : runValidate c isAsync m args kw with
  | error e' => exact ⟨e', rfl⟩
  | ok b =>
    have := (binding_is_by_name c isAsync m args kw b hva hkw hsig hps hr).1
    rw [h] at this; cases this

/-- the by-name rule of two calls that supply the same values agrees when the receiver is passed in the same style (the one
    route-dependent clause: under `strict` the receiver needs no Parameter only when bound positionally) -/
theorem byName_congr (c : Cfg) (m : Mode) (args1 args2 : List PV) (kw1 kw2 : List (Name × PV))
    (h : ∀ n, callerInput c.sig args1 kw1 n = callerInput c.sig args2 kw2 n)
    (hstyle : c.strict = true → passedPositionally c.sig args1 selfName = passedPositionally c.sig args2 selfName) :
    byName c m args1 kw1 = byName c m args2 kw2 := by
  unfold byName
  apply mapM_congr
  intro s _
  have hsr : strictRefuses c args1 s.name = strictRefuses c args2 s.name := by
    unfold strictRefuses
    cases hs : c.strict with
    | false => rfl
    | true =>
      simp only [Bool.true_and]
      rcases specReceiver_cases c.sig with hr | hr
      · simp [hr]
      · rw [hr]
        by_cases hn : s.name = selfName
        · rw [hn, hstyle hs]
        · have : (some s.name == some selfName) = false := by simpa using hn
          simp [this]
  simp only [byNameBind, byNameOne, h s.name, hsr]

/-- **C13 (call style, as an equation of outcomes for clean calls).** Two clean calls that supply the same value for every name
    (the receiver in the same style when `strict`): if one runs the body, so does the other — with the same binding. -/
theorem call_style_independent_runs (c : Cfg) (a1 a2 : Bool) (m : Mode) (args1 args2 : List PV) (kw1 kw2 : List (Name × PV))
    (b : Binding)
    (hva : c.sig.varArgs = false) (hrecv : receiverIsPositional c.sig = true)
    (hsig : (c.sig.named.map (·.name)).Nodup) (hps : (c.ps.map (·.name)).Nodup)
    (hkw1 : (kw1.map (·.1)).Nodup) (hkw2 : (kw2.map (·.1)).Nodup)
    (hclean2 : CleanCall c args2 kw2) (hflask : ∀ res, specFlask c res = .ok res)
    (hsame : ∀ n, callerInput c.sig args1 kw1 n = callerInput c.sig args2 kw2 n)
    (hstyle : c.strict = true → passedPositionally c.sig args1 selfName = passedPositionally c.sig args2 selfName)
    (h1 : runValidate c a1 m args1 kw1 = .ok b) :
    runValidate c a2 m args2 kw2 = .ok b := by
  obtain ⟨hn, he⟩ := binding_is_by_name c a1 m args1 kw1 b hva hkw1 hsig hps h1
  rw [byName_congr c m args1 args2 kw1 kw2 hsame hstyle] at hn
  have := binding_is_by_name_converse c a2 m args2 kw2 b.named hva hrecv hkw2 hsig hps hclean2 hflask hn
  rw [this]; cases b; simp only at he; rw [he]

/-- the facts the translator reads about `await`: every call of `func` in `async_wrapper` is awaited, none in `wrapper`;
    both wrappers are the same program -/
theorem dispatch_source_shape : awaitsOk = true ∧ asyncWrapperProg = wrapperProg := by decide


/-! ## Non-vacuity: concrete instances -/

/-- a recording validator: `v ↦ 8·v + 1`, None passes -/
def exStep : Step := fun v => match v with | .obj i => .ok (.obj (i * 8 + 1)) | .none => .ok .none

/-- `@validate(Parameter('b', validators=[V]), Parameter('a', validators=[V]))  def f(a, b=<obj 50>)` (names: a = 2, b = 3) -/
def exCfg : Cfg :=
  { ps := [⟨3, true, none, none, none, [exStep], false, by decide⟩, ⟨2, true, none, none, none, [exStep], false, by decide⟩],
    sig := { pos := [⟨2, none⟩, ⟨3, some (.obj 50)⟩], varArgs := false, kwOnly := [] }, strict := true, ignoreInput := false, req := .noContext }

-- f(100, b=101), f(b=101, a=100), f(100, 101) in ARGS mode (the region of the former defect) and in the keyword modes
example : runValidate exCfg false .args [.obj 100] [(3, .obj 101)] = .ok ⟨[(2, .obj 801), (3, .obj 809)], []⟩ := by rfl
example : runValidate exCfg false .args [] [(3, .obj 101), (2, .obj 100)] = .ok ⟨[(2, .obj 801), (3, .obj 809)], []⟩ := by rfl
example : runValidate exCfg true .args [.obj 100, .obj 101] [] = .ok ⟨[(2, .obj 801), (3, .obj 809)], []⟩ := by rfl
example : runValidate exCfg false .kwWithoutNone [] [(2, .obj 100), (3, .obj 101)] = .ok ⟨[(2, .obj 801), (3, .obj 809)], []⟩ := by rfl
-- the hypotheses of the main theorem are satisfiable, and its conclusion is the by-name binding
example : byName exCfg .args [.obj 100] [(3, .obj 101)] = .ok [(2, .obj 801), (3, .obj 809)] :=
  (binding_is_by_name exCfg false .args [.obj 100] [(3, .obj 101)] ⟨[(2, .obj 801), (3, .obj 809)], []⟩ rfl (by decide) (by decide)
    (by decide) rfl).1

/-- `b` not required, falsy non-None value `obj 1` (Python `0`) under KWARGS_WITHOUT_NONE: it is *kept* (the filter is
    `is not None`, not truthiness), while None is dropped and the signature default applies -/
def exCfg2 : Cfg :=
  { exCfg with ps := [⟨3, false, none, none, none, [], false, by decide⟩, ⟨2, true, none, none, none, [], false, by decide⟩] }
example : runValidate exCfg2 false .kwWithoutNone [.obj 100] [(3, .obj 1)] = .ok ⟨[(2, .obj 100), (3, .obj 1)], []⟩ := by rfl
example : runValidate exCfg2 false .kwWithoutNone [.obj 100] [(3, .none)] = .ok ⟨[(2, .obj 100), (3, .obj 50)], []⟩ := by rfl
example : runValidate exCfg2 false .kwWithNone [.obj 100] [(3, .none)] = .ok ⟨[(2, .obj 100), (3, .none)], []⟩ := by rfl

/-- **the region of the former finding `selfKeywordBypassesGate`, repaired**: a *plain function*
    `def f(a=<obj 60>, b=<obj 50>)` with `@validate(Parameter('b', required=False), strict=False)`, called `f(self=5)`: the
    function has no receiver, the surplus keyword `self` is passed by name like every other undeclared keyword and Python
    refuses it — the body does not run.  (Before the repair it was popped and passed positionally: the body saw `a = 5`, whereas
    by name `a` keeps its default.) -/
def exCfgSelf : Cfg :=
  { ps := [⟨3, false, none, none, none, [], false, by decide⟩],
    sig := { pos := [⟨2, some (.obj 60)⟩, ⟨3, some (.obj 50)⟩], varArgs := false, kwOnly := [] }, strict := false, ignoreInput := false, req := .noContext }
example : runValidate exCfgSelf false .kwWithNone [] [(selfName, .obj 5)] = .error .bodyTypeError := by rfl
example : runValidate exCfgSelf true .args [] [(selfName, .obj 5)] = .error .bodyTypeError := by rfl

/-- a method `def f(self, a, b=<obj 50>)`: the receiver positionally or by keyword, the other arguments in any style — the
    same by-name binding -/
def exCfgMethod : Cfg :=
  { exCfg with sig := { pos := [⟨selfName, none⟩, ⟨2, none⟩, ⟨3, some (.obj 50)⟩], varArgs := false, kwOnly := [] }, strict := false }
example : runValidate exCfgMethod false .args [.obj 90, .obj 100] [(3, .obj 101)]
    = .ok ⟨[(selfName, .obj 90), (2, .obj 801), (3, .obj 809)], []⟩ := by rfl
example : runValidate exCfgMethod false .kwWithoutNone [] [(3, .obj 101), (selfName, .obj 90), (2, .obj 100)]
    = .ok ⟨[(selfName, .obj 90), (2, .obj 801), (3, .obj 809)], []⟩ := by rfl
example : byName exCfgMethod .args [.obj 90, .obj 100] [(3, .obj 101)] = .ok [(selfName, .obj 90), (2, .obj 801), (3, .obj 809)] := by rfl
-- an ordinary parameter called `self` in a non-first position: bound by name in every style and mode
def exCfgSelfLast : Cfg :=
  { exCfg with sig := { pos := [⟨2, none⟩, ⟨3, some (.obj 50)⟩, ⟨selfName, some (.obj 60)⟩], varArgs := false, kwOnly := [] }, strict := false }
example : runValidate exCfgSelfLast false .args [.obj 100, .obj 101, .obj 5] []
    = .ok ⟨[(2, .obj 801), (3, .obj 809), (selfName, .obj 5)], []⟩ := by rfl
example : runValidate exCfgSelfLast false .kwWithNone [.obj 100] [(selfName, .obj 5), (3, .obj 101)]
    = .ok ⟨[(2, .obj 801), (3, .obj 809), (selfName, .obj 5)], []⟩ := by rfl

/-! ### the converse: instances and why its hypotheses are there -/

-- the hypotheses of `binding_is_by_name_converse` are satisfiable: `f(100, b=101)` runs with the by-name binding
example : runValidate exCfg true .kwWithNone [.obj 100] [(3, .obj 101)] = .ok ⟨[(2, .obj 801), (3, .obj 809)], []⟩ :=
  binding_is_by_name_converse exCfg true .kwWithNone [.obj 100] [(3, .obj 101)] _ rfl (by decide) (by decide) (by decide) (by decide)
    ⟨by decide, by decide, by decide, by decide⟩ (fun _ => rfl) (by rfl)

/-- **why `hflask`**: `@validate(strict=True)` without any Parameter, outside a request context: the by-name specification binds
    (nothing), but the trailing Flask block touches the request proxy — `RuntimeError`, the body does not run -/
example : byName { exCfg with ps := [], sig := { pos := [], varArgs := false, kwOnly := [] } } .args [] [] = .ok [] ∧
    runValidate { exCfg with ps := [], sig := { pos := [], varArgs := false, kwOnly := [] } } false .args [] []
      = .error .flaskOutsideContext := ⟨rfl, rfl⟩

/-- **why `receiverIsPositional`** (witness for the complement): `def f(*, self)` non-strict, `f(self=5)`: by name `self` is 5, but
    the first parameter being called `self` makes it the receiver, which is handed over positionally — Python refuses -/
theorem converse_needs_receiverIsPositional :
    let c : Cfg := { ps := [], sig := { pos := [], varArgs := false, kwOnly := [⟨selfName, none⟩] }, strict := false,
                     ignoreInput := false, req := .notJson }
    receiverIsPositional c.sig = false ∧ byName c .kwWithNone [] [(selfName, .obj 5)] = .ok [(selfName, .obj 5)] ∧
    (runValidate c false .kwWithNone [] [(selfName, .obj 5)] : Outcome) = .error .bodyTypeError := by decide

/-- **why `hps`** (distinct Parameter names; witness for the complement): `@validate(Parameter('a'), Parameter('a', required=False,
    default=<obj 70>))  def f(a=<obj 60>)`, called `f()`: `parameter_dict` keeps the *last* declaration — by name `a` is its default
    70 — but the third loop walks over *both* declarations and the first one, required and missing, raises -/
theorem converse_needs_distinct_parameter_names :
    let c : Cfg := { ps := [⟨2, true, none, none, none, [], false, by decide⟩, ⟨2, false, some (.obj 70), none, none, [], false, by decide⟩],
                     sig := { pos := [⟨2, some (.obj 60)⟩], varArgs := false, kwOnly := [] }, strict := false, ignoreInput := false,
                     req := .notJson }
    byName c .args [] [] = .ok [(2, .obj 70)] ∧ (runValidate c false .args [] [] : Outcome) = .error (.parameter 2 .required) := by
  decide

/-- an external source, a conversion, `ignore_input=True` and a JSON request, next to the theorems: `b` comes from its source (`obj
    300` → conversion → `obj 301` → validator → `obj 2409`), caller input is ignored, the JSON body has only declared keys -/
def exCfgSources : Cfg :=
  { ps := [⟨3, true, none, some (.obj 300), some (fun v => if v = .obj 300 then .ok (.obj 301) else .error (.rejected emptyName)),
            [exStep], true, by decide⟩,
           ⟨2, false, some (.obj 70), none, none, [exStep], true, by decide⟩],
    sig := { pos := [⟨2, none⟩, ⟨3, some (.obj 50)⟩], varArgs := false, kwOnly := [] }, strict := true, ignoreInput := true,
    req := .json [3] }
example : runValidate exCfgSources false .args [.obj 100] [(3, .obj 101)] = .ok ⟨[(2, .obj 70), (3, .obj 2409)], []⟩ := by rfl
example : byName exCfgSources .args [.obj 100] [(3, .obj 101)] = .ok [(2, .obj 70), (3, .obj 2409)] :=
  (binding_is_by_name exCfgSources false .args [.obj 100] [(3, .obj 101)] _ rfl (by decide) (by decide) (by decide) rfl).1
example : runValidate exCfgSources false .args [.obj 100] [(3, .obj 101)] = runValidate exCfgSources false .args [] [] :=
  ignore_input_ignores exCfgSources false .args _ _ rfl
-- `external_only_when_absent`: the external value is what goes through the chain and is filed
example : ∃ w, (exCfgSources.ps)[0].validate (.obj 300) = .ok w ∧ Assoc.get? [(3, .obj 2409), (2, .obj 70)] 3 = some w :=
  external_only_when_absent exCfgSources [.obj 100] [(3, .obj 101)] _ 3 _ (.obj 300) rfl (by decide) (by decide) (by decide) rfl
    (Or.inl rfl) rfl (by rfl)
-- a JSON key without declared Parameter under strict: TooManyArguments (the trailing block)
example : runValidate { exCfgSources with req := .json [3, 6] } false .args [] [] = .error .tooMany := by rfl

end PedVerif.Validate
