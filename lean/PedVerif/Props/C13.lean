import PedVerif.Props.C12
/-!
# C13 — @validate binds by name: call style, return_as mode, sources are interchangeable

Property theorems about the model `PedVerif.Validate` (shared with C12; the helper lemmas of `Props/C12.lean` are reused).
The hand-over to the decorated function — the dispatch of `wrapper` / `async_wrapper`, the `is not None` filter of
KWARGS_WITHOUT_NONE, `_split_by_signature` — is regenerated from the source (`PedVerif.Gen.Validate`); the theorems
are about those generated definitions.
-/
set_option linter.unusedSimpArgs false
namespace PedVerif.Validate
open PedVerif.Gen.Validate

theorem find?_of_nodup : ∀ (l : List SParam) (s : SParam), (l.map (·.name)).Nodup → s ∈ l →
    l.find? (·.name == s.name) = some s := by
  intro l
  induction l with
  | nil => intro s _ h; cases h
  | cons a l ih =>
    intro s hnd hs
    simp only [List.map_cons, List.nodup_cons] at hnd
    simp only [List.mem_cons] at hs
    simp only [List.find?_cons]
    rcases hs with rfl | hs
    · simp
    · have : (a.name == s.name) = false := by
        cases hx : (a.name == s.name) with
        | false => rfl
        | true =>
          exfalso; apply hnd.1
          have : a.name = s.name := by simpa using hx
          rw [this]; exact List.mem_map.mpr ⟨s, hs, rfl⟩
      simp only [this]
      exact ih s hnd.2 hs

theorem default?_of_mem (sig : Sig) (s : SParam) (hnd : (sig.named.map (·.name)).Nodup) (hs : s ∈ sig.named) :
    sig.default? s.name = s.dflt := by
  simp [Sig.default?, find?_of_nodup sig.named s hnd hs]

/-- the specification's per-parameter rule is the by-name rule at that parameter's name -/
theorem byNameOne_eq_at (c : Cfg) (args : List PV) (kw : List (Name × PV)) (s : SParam) (hs : s ∈ c.sig.named)
    (hsig : (c.sig.named.map (·.name)).Nodup) : byNameOne c args kw s = byNameAt c args kw s.name := by
  unfold byNameOne byNameAt
  simp only [← validate_is_chain_fold, ← isRequired_eq]
  cases hf : findP c.ps s.name with
  | none => rfl
  | some p =>
    simp only
    cases (if c.ignoreInput = true then none else callerInput c.sig args kw s.name) with
    | some v => rfl
    | none =>
      simp only [absentRule, findP_name _ _ _ hf, default?_of_mem c.sig s hsig hs]
      rfl

/-- **C13 (main statement).** For every function without `*args`, every Parameter configuration (distinct names),
    `strict` and `ignore_input` on or off, sync or async, **every `return_as` mode**, and every call — any split into a
    positional prefix and keywords, the keywords in any order, values omitted or None —: whenever the body runs, the
    binding it observes is the by-name binding `byName` of the specification (caller value unless `ignore_input`, else
    external value, else Parameter default, else signature default; KWARGS_WITHOUT_NONE additionally omits None values
    so that signature defaults apply), and nothing lands in `*args`.  Plain functions and methods alike, whatever the
    parameters and the keywords of the call are named: the receiver of a method is recognised by the signature (first parameter
    called `self`), so a keyword or an ordinary parameter called `self` is bound by name like every other.  (Before the repair
    of `selfKeywordBypassesGate` this needed the guard `selfIsReceiver`.) -/
theorem binding_is_by_name (c : Cfg) (isAsync : Bool) (m : Mode) (args : List PV) (kw : List (Name × PV)) (b : Binding)
    (hva : c.sig.varArgs = false)
    (hkw : (kw.map (·.1)).Nodup) (hsig : (c.sig.named.map (·.name)).Nodup) (hps : (c.ps.map (·.name)).Nodup)
    (hrun : runValidate c isAsync m args kw = .ok b) :
    byName c m args kw = .ok b.named ∧ b.extras = [] := by
  simp only [runValidate, bind, Except.bind] at hrun
  cases hw : wrapperContent c args kw with
  | error e => rw [hw] at hrun; cases hrun
  | ok res =>
    rw [hw] at hrun
    simp only at hrun
    have hnd := wrapperContent_keysNodup c args kw res hw
    have hg := res_get' c args kw res hva hkw (posNames_nodup c.sig hsig) hps hw
    have hrun := dispatch_ok_bindDict c.sig isAsync m res b hva hrun
    generalize hd : (if m = .kwWithoutNone then withoutNone res else res) = d at hrun
    unfold bindDict at hrun
    by_cases hbad : d.any (notParam c.sig) = true
    · rw [if_pos hbad] at hrun; cases hrun
    · rw [if_neg hbad] at hrun
      simp only [bind, Except.bind] at hrun
      cases hm : c.sig.named.mapM (bindOne d) with
      | error e => rw [hm] at hrun; cases hrun
      | ok named =>
        rw [hm] at hrun
        simp only [pure, Except.pure, Except.ok.injEq] at hrun
        subst hrun
        refine ⟨?_, rfl⟩
        unfold byName
        rw [← hm]
        apply mapM_congr
        intro s hs
        simp only [byNameBind, byNameOne_eq_at c args kw s hs hsig, hg s.name, bind, Except.bind, bindOne, ← hd]
        cases m with
        | args =>
          simp only [reduceCtorEq, ↓reduceIte, Bool.false_and, Bool.false_eq_true, beq_iff_eq]
          cases res.get? s.name with
          | some v => rfl
          | none => cases s.dflt <;> rfl
        | kwWithNone =>
          simp only [reduceCtorEq, ↓reduceIte, Bool.false_and, Bool.false_eq_true, beq_iff_eq]
          cases res.get? s.name with
          | some v => rfl
          | none => cases s.dflt <;> rfl
        | kwWithoutNone =>
          simp only [↓reduceIte, withoutNone, filterVal_get (fun v => !v.isNone) res s.name hnd, beq_self_eq_true, Bool.true_and]
          cases hr : res.get? s.name with
          | none => simp only [reduceCtorEq, beq_iff_eq, ↓reduceIte]; cases s.dflt <;> rfl
          | some v =>
            cases v with
            | none => simp only [PV.isNone, beq_self_eq_true, ↓reduceIte, Bool.not_true, Bool.false_eq_true]; cases s.dflt <;> rfl
            | obj i =>
              have : (some (PV.obj i) == some PV.none) = false := by simp
              simp only [PV.isNone, this, Bool.false_eq_true, ↓reduceIte, Bool.not_false]; rfl


/-! ## Corollaries -/

/-- **C13 (modes).** ARGS and KWARGS_WITH_NONE are interchangeable for every function without `*args`: same outcome —
    the same binding observed by the body, or the same exception — for every configuration and every call. No further
    hypothesis. -/
theorem mode_independent (c : Cfg) (a : Bool) (args : List PV) (kw : List (Name × PV)) (hva : c.sig.varArgs = false) :
    runValidate c a .args args kw = runValidate c a .kwWithNone args kw := by
  simp only [runValidate]
  congr 1
  funext res
  rw [dispatch_unfold, dispatch_unfold]
  simp only
  rw [callWith_split_eq c.sig _ res hva, callWith_kw_eq]

/-- **C13 (modes).** KWARGS_WITHOUT_NONE is KWARGS_WITH_NONE applied to the dict without its None entries (so that
    Python's signature defaults apply to them) — any signature, no hypothesis. -/
theorem mode_without_none (sig : Sig) (a : Bool) (res : Assoc) :
    dispatch sig a .kwWithoutNone res = dispatch sig a .kwWithNone (withoutNone res) := by
  rw [dispatch_unfold, dispatch_unfold]

/-- `async_wrapper` hands over exactly like `wrapper` -/
theorem async_same_as_sync (c : Cfg) (m : Mode) (args : List PV) (kw : List (Name × PV)) :
    runValidate c true m args kw = runValidate c false m args kw := by
  simp only [runValidate, dispatch_unfold]

/-- the per-parameter by-name rule, when it binds at all, does not depend on the *style* of the call: two calls that supply the
    same value for the name yield the same result (under `strict` the one exception is the receiver of a method, which needs no
    declared Parameter when bound positionally and is an argument like every other when passed by keyword — then one of the two
    calls is refused) -/
theorem byNameOne_ok_congr (c : Cfg) (args1 args2 : List PV) (kw1 kw2 : List (Name × PV)) (s : SParam)
    (h : callerInput c.sig args1 kw1 s.name = callerInput c.sig args2 kw2 s.name) (r1 r2 : Option PV)
    (h1 : byNameOne c args1 kw1 s = .ok r1) (h2 : byNameOne c args2 kw2 s = .ok r2) : r1 = r2 := by
  unfold byNameOne at h1 h2
  rw [h] at h1
  cases hf : findP c.ps s.name with
  | some p => rw [hf] at h1 h2; rw [h1] at h2; exact Except.ok.inj h2
  | none =>
    rw [hf] at h1 h2
    simp only at h1 h2
    cases hin : (if c.ignoreInput = true then none else callerInput c.sig args2 kw2 s.name) with
    | none => rw [hin] at h1 h2; simp only [Except.ok.injEq] at h1 h2; rw [← h1, ← h2]
    | some v =>
      rw [hin] at h1 h2
      simp only at h1 h2
      split at h1
      · cases h1
      · split at h2
        · cases h2
        · simp only [Except.ok.injEq] at h1 h2; rw [← h1, ← h2]

theorem mapM_ok_unique {α β ε : Type} (f g : α → Except ε β) : ∀ (l : List α) (a b : List β),
    (∀ s ∈ l, ∀ x y, f s = .ok x → g s = .ok y → x = y) → l.mapM f = .ok a → l.mapM g = .ok b → a = b := by
  intro l
  induction l with
  | nil =>
    intro a b _ ha hb
    simp only [List.mapM_nil, pure, Except.pure, Except.ok.injEq] at ha hb
    rw [← ha, ← hb]
  | cons s l ih =>
    intro a b hp ha hb
    simp only [List.mapM_cons, bind, Except.bind] at ha hb
    cases hfs : f s with
    | error e => rw [hfs] at ha; cases ha
    | ok x =>
      cases hgs : g s with
      | error e => rw [hgs] at hb; cases hb
      | ok y =>
        rw [hfs] at ha; rw [hgs] at hb
        simp only at ha hb
        cases hlf : l.mapM f with
        | error e => rw [hlf] at ha; cases ha
        | ok xs =>
          cases hlg : l.mapM g with
          | error e => rw [hlg] at hb; cases hb
          | ok ys =>
            rw [hlf] at ha; rw [hlg] at hb
            simp only [pure, Except.pure, Except.ok.injEq] at ha hb
            have e1 : x = y := hp s (by simp) x y hfs hgs
            have e2 : xs = ys := ih xs ys (fun s' hs' => hp s' (by simp [hs'])) hlf hlg
            rw [← ha, ← hb, e1, e2]

/-- two calls that supply the same value for every name have the same by-name binding — whenever both have one -/
theorem byName_ok_congr (c : Cfg) (m : Mode) (args1 args2 : List PV) (kw1 kw2 : List (Name × PV)) (n1 n2 : Assoc)
    (h : ∀ n, callerInput c.sig args1 kw1 n = callerInput c.sig args2 kw2 n)
    (h1 : byName c m args1 kw1 = .ok n1) (h2 : byName c m args2 kw2 = .ok n2) : n1 = n2 := by
  unfold byName at h1 h2
  refine mapM_ok_unique _ _ c.sig.named n1 n2 ?_ h1 h2
  intro s _ x y hx hy
  simp only [byNameBind, bind, Except.bind] at hx hy
  cases ho1 : byNameOne c args1 kw1 s with
  | error e => rw [ho1] at hx; cases hx
  | ok r1 =>
    cases ho2 : byNameOne c args2 kw2 s with
    | error e => rw [ho2] at hy; cases hy
    | ok r2 =>
      have := byNameOne_ok_congr c args1 args2 kw1 kw2 s (h s.name) r1 r2 ho1 ho2
      subst this
      rw [ho1] at hx; rw [ho2] at hy
      rw [hx] at hy
      exact Except.ok.inj hy

/-- **C13 (call style).** Two calls that supply the same value for every name — whatever the split into positional
    prefix and keywords, whatever the keyword order — make the body observe the same binding. -/
theorem call_style_independent (c : Cfg) (a1 a2 : Bool) (m : Mode) (args1 args2 : List PV) (kw1 kw2 : List (Name × PV))
    (b1 b2 : Binding)
    (hva : c.sig.varArgs = false) (hsig : (c.sig.named.map (·.name)).Nodup) (hps : (c.ps.map (·.name)).Nodup)
    (hkw1 : (kw1.map (·.1)).Nodup) (hkw2 : (kw2.map (·.1)).Nodup)
    (hsame : ∀ n, callerInput c.sig args1 kw1 n = callerInput c.sig args2 kw2 n)
    (h1 : runValidate c a1 m args1 kw1 = .ok b1) (h2 : runValidate c a2 m args2 kw2 = .ok b2) :
    b1 = b2 := by
  obtain ⟨n1, e1⟩ := binding_is_by_name c a1 m args1 kw1 b1 hva hkw1 hsig hps h1
  obtain ⟨n2, e2⟩ := binding_is_by_name c a2 m args2 kw2 b2 hva hkw2 hsig hps h2
  have hn := byName_ok_congr c m args1 args2 kw1 kw2 _ _ hsame n1 n2
  cases b1; cases b2
  simp only at hn e1 e2
  simp [hn, e1, e2]

/-- **C13 (sources).** An external source supplies the value only when the caller did not pass one: a caller value for
    a declared parameter is what goes through the chain and is filed (whatever the source holds); … -/
theorem caller_value_wins (c : Cfg) (args : List PV) (kw : List (Name × PV)) (res : Assoc) (n : Name) (p : VParam) (v : PV)
    (hva : c.sig.varArgs = false) (hkw : (kw.map (·.1)).Nodup) (hpos : c.sig.posNames.Nodup) (hps : (c.ps.map (·.name)).Nodup)
    (hi : c.ignoreInput = false) (hp : findP c.ps n = some p) (hin : callerInput c.sig args kw n = some v)
    (h : wrapperContent c args kw = .ok res) :
    ∃ w, p.validate v = .ok w ∧ res.get? n = some w := by
  have hg := res_get' c args kw res hva hkw hpos hps h n
  simp only [byNameAt, hi, Bool.false_eq_true, ↓reduceIte, hp, hin] at hg
  cases hv : p.validate v with
  | error e => simp [hv, Except.map] at hg
  | ok w => simp only [hv, Except.map, Except.ok.injEq] at hg; exact ⟨w, rfl, hg.symm⟩

/-- … and when the caller passed nothing for the name (or `ignore_input`), the external value is what goes through the
    chain and is filed. -/
theorem external_only_when_absent (c : Cfg) (args : List PV) (kw : List (Name × PV)) (res : Assoc) (n : Name) (p : VParam) (e : PV)
    (hva : c.sig.varArgs = false) (hkw : (kw.map (·.1)).Nodup) (hpos : c.sig.posNames.Nodup) (hps : (c.ps.map (·.name)).Nodup)
    (hp : findP c.ps n = some p) (hin : c.ignoreInput = true ∨ callerInput c.sig args kw n = none) (hext : p.ext = some e)
    (h : wrapperContent c args kw = .ok res) :
    ∃ w, p.validate e = .ok w ∧ res.get? n = some w := by
  have hg := res_get' c args kw res hva hkw hpos hps h n
  have hinp : (if c.ignoreInput = true then none else callerInput c.sig args kw n) = none := by
    rcases hin with h | h <;> simp [h]
  simp only [byNameAt, hp, hinp, absentRule, hext] at hg
  cases hv : p.validate e with
  | error e' => simp [hv, Except.map] at hg
  | ok w => simp only [hv, Except.map, Except.ok.injEq] at hg; exact ⟨w, rfl, hg.symm⟩

/-- **C13 (`ignore_input`).** With `ignore_input=True` whatever the caller passes is ignored: same outcome as the call
    without arguments — any signature, any mode. -/
theorem ignore_input_ignores (c : Cfg) (a : Bool) (m : Mode) (args : List PV) (kw : List (Name × PV))
    (hi : c.ignoreInput = true) : runValidate c a m args kw = runValidate c a m [] [] := by
  simp only [runValidate, wrapperContent_eq_seq, wrapperSeq, hi, ↓reduceIte]

/-- the facts the translator reads about `await`: every call of `func` in `async_wrapper` is awaited, none in `wrapper`;
    both wrappers are the same program -/
theorem dispatch_source_shape : awaitsOk = true ∧ asyncWrapperProg = wrapperProg := by decide


/-! ## Non-vacuity: concrete instances -/

/-- a recording validator: `v ↦ 8·v + 1`, None passes -/
def exStep : Step := fun v => match v with | .obj i => .ok (.obj (i * 8 + 1)) | .none => .ok .none

/-- `@validate(Parameter('b', validators=[V]), Parameter('a', validators=[V]))  def f(a, b=<obj 50>)` (names: a = 2, b = 3) -/
def exCfg : Cfg :=
  { ps := [⟨3, true, none, none, none, [exStep], false, by decide⟩, ⟨2, true, none, none, none, [exStep], false, by decide⟩],
    sig := { pos := [⟨2, none⟩, ⟨3, some (.obj 50)⟩], varArgs := false, kwOnly := [] }, strict := true, ignoreInput := false, req := .noContext }

-- f(100, b=101), f(b=101, a=100), f(100, 101) in ARGS mode (the region of the former defect) and in the keyword modes
example : runValidate exCfg false .args [.obj 100] [(3, .obj 101)] = .ok ⟨[(2, .obj 801), (3, .obj 809)], []⟩ := by rfl
example : runValidate exCfg false .args [] [(3, .obj 101), (2, .obj 100)] = .ok ⟨[(2, .obj 801), (3, .obj 809)], []⟩ := by rfl
example : runValidate exCfg true .args [.obj 100, .obj 101] [] = .ok ⟨[(2, .obj 801), (3, .obj 809)], []⟩ := by rfl
example : runValidate exCfg false .kwWithoutNone [] [(2, .obj 100), (3, .obj 101)] = .ok ⟨[(2, .obj 801), (3, .obj 809)], []⟩ := by rfl
-- the hypotheses of the main theorem are satisfiable, and its conclusion is the by-name binding
example : byName exCfg .args [.obj 100] [(3, .obj 101)] = .ok [(2, .obj 801), (3, .obj 809)] :=
  (binding_is_by_name exCfg false .args [.obj 100] [(3, .obj 101)] ⟨[(2, .obj 801), (3, .obj 809)], []⟩ rfl (by decide) (by decide)
    (by decide) rfl).1

/-- `b` not required, falsy non-None value `obj 1` (Python `0`) under KWARGS_WITHOUT_NONE: it is *kept* (the filter is
    `is not None`, not truthiness), while None is dropped and the signature default applies -/
def exCfg2 : Cfg :=
  { exCfg with ps := [⟨3, false, none, none, none, [], false, by decide⟩, ⟨2, true, none, none, none, [], false, by decide⟩] }
example : runValidate exCfg2 false .kwWithoutNone [.obj 100] [(3, .obj 1)] = .ok ⟨[(2, .obj 100), (3, .obj 1)], []⟩ := by rfl
example : runValidate exCfg2 false .kwWithoutNone [.obj 100] [(3, .none)] = .ok ⟨[(2, .obj 100), (3, .obj 50)], []⟩ := by rfl
example : runValidate exCfg2 false .kwWithNone [.obj 100] [(3, .none)] = .ok ⟨[(2, .obj 100), (3, .none)], []⟩ := by rfl

/-- **the region of the former finding `selfKeywordBypassesGate`, repaired**: a *plain function*
    `def f(a=<obj 60>, b=<obj 50>)` with `@validate(Parameter('b', required=False), strict=False)`, called `f(self=5)`: the
    function has no receiver, the surplus keyword `self` is passed by name like every other undeclared keyword and Python
    refuses it — the body does not run.  (Before the repair it was popped and passed positionally: the body saw `a = 5`, whereas
    by name `a` keeps its default.) -/
def exCfgSelf : Cfg :=
  { ps := [⟨3, false, none, none, none, [], false, by decide⟩],
    sig := { pos := [⟨2, some (.obj 60)⟩, ⟨3, some (.obj 50)⟩], varArgs := false, kwOnly := [] }, strict := false, ignoreInput := false, req := .noContext }
example : runValidate exCfgSelf false .kwWithNone [] [(selfName, .obj 5)] = .error .bodyTypeError := by rfl
example : runValidate exCfgSelf true .args [] [(selfName, .obj 5)] = .error .bodyTypeError := by rfl

/-- a method `def f(self, a, b=<obj 50>)`: the receiver positionally or by keyword, the other arguments in any style — the
    same by-name binding -/
def exCfgMethod : Cfg :=
  { exCfg with sig := { pos := [⟨selfName, none⟩, ⟨2, none⟩, ⟨3, some (.obj 50)⟩], varArgs := false, kwOnly := [] }, strict := false }
example : runValidate exCfgMethod false .args [.obj 90, .obj 100] [(3, .obj 101)]
    = .ok ⟨[(selfName, .obj 90), (2, .obj 801), (3, .obj 809)], []⟩ := by rfl
example : runValidate exCfgMethod false .kwWithoutNone [] [(3, .obj 101), (selfName, .obj 90), (2, .obj 100)]
    = .ok ⟨[(selfName, .obj 90), (2, .obj 801), (3, .obj 809)], []⟩ := by rfl
example : byName exCfgMethod .args [.obj 90, .obj 100] [(3, .obj 101)] = .ok [(selfName, .obj 90), (2, .obj 801), (3, .obj 809)] := by rfl
-- an ordinary parameter called `self` in a non-first position: bound by name in every style and mode
def exCfgSelfLast : Cfg :=
  { exCfg with sig := { pos := [⟨2, none⟩, ⟨3, some (.obj 50)⟩, ⟨selfName, some (.obj 60)⟩], varArgs := false, kwOnly := [] }, strict := false }
example : runValidate exCfgSelfLast false .args [.obj 100, .obj 101, .obj 5] []
    = .ok ⟨[(2, .obj 801), (3, .obj 809), (selfName, .obj 5)], []⟩ := by rfl
example : runValidate exCfgSelfLast false .kwWithNone [.obj 100] [(selfName, .obj 5), (3, .obj 101)]
    = .ok ⟨[(2, .obj 801), (3, .obj 809), (selfName, .obj 5)], []⟩ := by rfl

end PedVerif.Validate
