import PedVerif.Props.C03
import PedVerif.Props.CallLayerIR
/-!
C03 restated about the *translated code*: `runCallIR` is the interpretation (`Model/CallLayerIR.lean`) of the statement-by-statement
translation of `pedantic.wrapper` / `async_wrapper` and of everything in `FunctionCall` / `DecoratedFunction` they call
(`Gen/CallLayerIR.lean`, regenerated from the source on every run).  `hnd`: keyword names are pairwise distinct (Python guarantees it).
-/
namespace PedVerif.CallIR
open PedVerif.Checker PedVerif.Call

/-- **C03 (arguments), about the translated code.** -/
theorem ir_args_guard (env : Env) (orc : Nat → Val → Raw) (horc : ∀ k v, orc k v ≠ .raisedTV) (f : Fn) (args : List Val)
    (kw : List (NameId × Val)) (body : BodyOut) (w : World) (up : Val → Bool) (hP : (∀ v, up v = false) ∨ PedVerif.Gen.CallLayerIR.messagesUseSafeDescribe = true)
    (hrecv : PedVerif.Gen.CallTables.receiverMayBeKeyword = true → f.firstIsSelf = true → args.isEmpty = true → (lookup kw f.selfName).isSome = true)
    (hnd : (kw.map (·.1)).Nodup) (ctx : SoundCtx env f args kw)
    (hmode : f.mode = .pedantic) (hinit : f.initFails args = false)
    (hkw : (f.shouldHaveKwargs && !(f.argsWithoutSelf args).isEmpty) = false) (hc : f.clazzFails args = false)
    (hbad : anyNonConforming env f args kw = true) :
    runCallIR env orc f args kw body w up = ⟨.pedTypeCheck, false, [], []⟩ := by
  rw [ir_runCall_refines env orc f args kw body w up hP hrecv hnd]; exact args_guard env orc horc f args kw body ctx hmode hinit hkw hc hbad

/-- **C03 (result), about the translated code.** -/
theorem ir_result_guard (env : Env) (orc : Nat → Val → Raw) (f : Fn) (args : List Val) (kw : List (NameId × Val)) (r : Val) (w : World) (up : Val → Bool) (hP : (∀ v, up v = false) ∨ PedVerif.Gen.CallLayerIR.messagesUseSafeDescribe = true)
    (hrecv : PedVerif.Gen.CallTables.receiverMayBeKeyword = true → f.firstIsSelf = true → args.isEmpty = true → (lookup kw f.selfName).isSome = true)
    (hnd : (kw.map (·.1)).Nodup) (hw : WfEnv env) (hmode : f.mode = .pedantic) (hfl : f.flavour ≠ .generator)
    (a : Ann) (ha : f.retAnn = some a) (hs : a.strAnnOk env r = true) (hns : a.noSpecial = true) (hr : r.wf env = true ∧ r.iterFree = true)
    (hret : (runCallIR env orc f args kw (.ret r) w up).caller = .ret) : conforms env a r = true := by
  rw [ir_runCall_refines env orc f args kw _ w up hP hrecv hnd] at hret; exact result_guard env orc f args kw r hw hmode hfl a ha hs hns hr hret

/-- **C03 (positional prefix), about the translated code.** -/
theorem ir_positional_prefix_guard (env : Env) (orc : Nat → Val → Raw) (horc : ∀ k v, orc k v ≠ .raisedTV) (f : Fn) (args : List Val)
    (kw : List (NameId × Val)) (body : BodyOut) (w : World) (up : Val → Bool) (hP : (∀ v, up v = false) ∨ PedVerif.Gen.CallLayerIR.messagesUseSafeDescribe = true)
    (hrecv : PedVerif.Gen.CallTables.receiverMayBeKeyword = true → f.firstIsSelf = true → args.isEmpty = true → (lookup kw f.selfName).isSome = true)
    (hnd : (kw.map (·.1)).Nodup) (ctx : SoundCtx env f args kw) (hmode : f.mode = .pedantic)
    (hshk : f.shouldHaveKwargs = false) (hinit : f.initFails args = false) (hc : f.clazzFails args = false)
    (k : Nat) (hpre : ∀ p ∈ f.plain.take k, p.dflt = none ∧ lookup kw p.name = none)
    (i : Nat) (hi : i < k) (p : Param) (v : Val) (a : Ann) (hp : f.plain[i]? = some p)
    (hv : args[(if f.firstIsSelf then 1 else 0) + i]? = some v) (ha : p.ann = some a) (hbad : conforms env a v = false) :
    runCallIR env orc f args kw body w up = ⟨.pedTypeCheck, false, [], []⟩ := by
  rw [ir_runCall_refines env orc f args kw body w up hP hrecv hnd]
  exact positional_prefix_guard env orc horc f args kw body ctx hmode hshk hinit hc k hpre i hi p v a hp hv ha hbad

-- non-vacuity: `g(a=1)` for `def g(a: int, b: str = 5)` has a non-conforming supplied value (the declared default), and the translated code rejects it
example : anyNonConforming envW exFn [] [(1, .lit (.int 1))] = true ∧
    (runCallIR envW (fun _ _ => .raisedOther) exFn [] [(1, .lit (.int 1))] (.ret (.lit (.int 1))) exW).caller = .pedTypeCheck ∧
    (runCallIR envW (fun _ _ => .raisedOther) exFn [] [(1, .lit (.int 1))] (.ret (.lit (.int 1))) exW).bodyRan = false := by decide
end PedVerif.CallIR
