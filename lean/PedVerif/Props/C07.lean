import PedVerif.Lemmas.TypeVars
/-!
C07 — TypeVars bind consistently within a call and per generic instance, never across.

All theorems are about the model in `Model/TypeVars.lean`, whose decisions come from the generated
`Gen/TypeVars.lean`; the specification they refer to is `Spec/TypeVars.lean`.

Property sentence → theorem
* "within one call ... values of one identical runtime class are accepted"          → `same_class_accepted` (via `walk_refines`, `plain_call_refines`)
* "values of unrelated classes raise PedanticTypeVarMismatchException"              → `unrelated_rejected`; region of the open finding: `mismatch_in_optional_is_typecheck`
* "TypeVar constraints and bounds are honoured"                                     → `constraints_honoured`, `bound_honoured` (every store kind, every state), `nonconforming_rejected`
* "for an instance created as Cls[X](...) ... in any order and any number ... iff it conforms to X"
                                                                                    → `instance_history_independent`, `history_step_alone`, `instance_iff_conforms`, `instance_T_iff_conforms`, `instance_call_iff_conforms`
* "bindings made during one call never influence a later call of a plain function"  → `plain_calls_independent`
* "... nor calls on another instance"                                               → `no_cross_instance`
* the whole property as one statement: `C07_full` (refuted: `C07_full_false`), `C07_partial` under `Guard`
* open regions, witnesses: `methodLevelTypeVar_leaks`, `methodLevelTypeVar_bound_forever`, `nonGeneric_resets_params`, `nonGeneric_resets_result`, `mismatch_in_optional_witness`
-/
namespace PedVerif.TypeVars
open PedVerif.Gen.TypeVars

/-! ## Histories: per generic instance, across instances, plain calls -/

theorem merge_agree (g : TVMap) : ∀ (S : List TVId) (a₁ a₂ : TVMap), AgreeOn S a₁ a₂ →
    AgreeOn (S ++ keys g) (g.foldl (fun acc kv => acc.set kv.1 kv.2) a₁) (g.foldl (fun acc kv => acc.set kv.1 kv.2) a₂) := by
  induction g with
  | nil => intro S a₁ a₂ h; simpa [keys] using h
  | cons kv rest ih =>
    intro S a₁ a₂ h
    simp only [List.foldl_cons]
    have hstep : AgreeOn (S ++ [kv.1]) (a₁.set kv.1 kv.2) (a₂.set kv.1 kv.2) := by
      intro t ht
      rw [get?_set, get?_set]
      split
      · rfl
      · rename_i hne
        simp only [List.mem_append, List.mem_singleton] at ht
        rcases ht with ht | ht
        · exact h t ht
        · exact absurd ht hne
    have := ih (S ++ [kv.1]) _ _ hstep
    intro t ht
    apply this t
    simp only [keys, List.map_cons, List.mem_append, List.mem_cons, List.not_mem_nil, or_false] at ht ⊢
    rcases ht with ht | ht | ht
    · exact Or.inl (Or.inl ht)
    · exact Or.inl (Or.inr ht)
    · exact Or.inr ht

/-- `{**fifo, **generics}` forgets what `fifo` said about the class parameters -/
theorem merge_indep (g a₁ a₂ : TVMap) : AgreeOn (keys g) (a₁.merge g) (a₂.merge g) := by
  have := merge_agree g [] a₁ a₂ (by intro t ht; simp at ht)
  simpa [TVMap.merge] using this

/-- the dict the accessor installs agrees on the class parameters whatever earlier calls left on the instance
    (needs: the generics are merged after the stored dict) -/
theorem rebuild_indep (g fifo₁ fifo₂ : TVMap) : AgreeOn (keys g) (rebuild fifo₁ g) (rebuild fifo₂ g) := by
  simp only [rebuild, genericMergeOrder, List.foldl_cons, List.foldl_nil, srcMap]
  have h := merge_indep g (TVMap.merge [] fifo₁) (TVMap.merge [] fifo₂)
  intro t ht
  have := h t ht
  simpa [TVMap.merge] using this

def checksIn (ks : List TVId) (checks : List (A × Val)) : Prop := ∀ c ∈ checks, tvsIn ks c.1 = true

/-- one check on a generic instance: the verdict does not depend on the stored attribute nor on the per-call map -/
theorem oneCheck_indep (env : Env) (g : TVMap) (cm₁ cm₂ attr₁ attr₂ : TVMap) (a : A) (v : Val)
    (ha : tvsIn (keys g) a = true) :
    (oneCheck env (.genericInstance g) cm₁ attr₁ a v).1 = (oneCheck env (.genericInstance g) cm₂ attr₂ a v).1 := by
  have hf := isInst_frame env (keys g) a ha v (rebuild attr₁ g) (rebuild attr₂ g) (rebuild_indep g attr₁ attr₂)
  simp only [oneCheck, accessMap, usesAttr, instanceAccessorSwitch, ↓reduceIte]
  rw [hf.1]

theorem runChecks_indep (env : Env) (g : TVMap) : ∀ (checks : List (A × Val)) (cm₁ cm₂ attr₁ attr₂ : TVMap),
    checksIn (keys g) checks →
    (runChecks env (.genericInstance g) checks cm₁ attr₁).1 = (runChecks env (.genericInstance g) checks cm₂ attr₂).1 := by
  intro checks
  induction checks with
  | nil => intros; rfl
  | cons c rest ih =>
    intro cm₁ cm₂ attr₁ attr₂ hall
    obtain ⟨a, v⟩ := c
    have h1 := oneCheck_indep env g cm₁ cm₂ attr₁ attr₂ a v (hall (a, v) (by simp))
    simp only [runChecks]
    rcases e1 : oneCheck env (.genericInstance g) cm₁ attr₁ a v with ⟨o1, c1, f1⟩
    rcases e2 : oneCheck env (.genericInstance g) cm₂ attr₂ a v with ⟨o2, c2, f2⟩
    rw [e1, e2] at h1
    simp only at h1
    subst h1
    cases o1 with
    | some o => rfl
    | none => exact ih c1 c2 f1 f2 (fun c hc => hall c (by simp [hc]))

/-- a method call on an instance `Cls[X]()` that mentions only class parameters (the claim excludes `__init__`, where
    `g = []`: then `checksIn []` only admits TypeVar-free annotations) -/
def ClassParamCall (c : Call) : Prop :=
  ∃ g, c.kind = .genericInstance g ∧ checksIn (keys g) c.checks

/-- whatever happened before — on this instance, on other instances, in plain functions — the outcome of such a call
    is the outcome of the same call made alone on a fresh instance -/
theorem call_alone (env : Env) (c : Call) (hc : ClassParamCall c) (s s' : Stores) :
    (runCall env c s).1 = (runCall env c s').1 := by
  obtain ⟨g, hk, hin⟩ := hc
  unfold runCall
  rw [hk]
  cases c.scanFails with
  | true => rfl
  | false => exact runChecks_indep env g c.checks _ _ _ _ hin

/-- **C07, per generic instance (histories)**: for EVERY finite history of such calls, over any number of instances and
    from any initial stores, the outcome of call i equals the outcome of that call made alone on a fresh instance -/
theorem instance_history_independent (env : Env) : ∀ (h : List Call) (s : Stores), (∀ c ∈ h, ClassParamCall c) →
    runHistory env h s = h.map (fun c => (runCall env c Stores.empty).1) := by
  intro h
  induction h with
  | nil => intros; rfl
  | cons c rest ih =>
    intro s hall
    simp only [runHistory, List.map_cons]
    rw [call_alone env c (hall c (by simp)) s Stores.empty, ih _ (fun c hc => hall c (by simp [hc]))]

/-- ... and the same for a single such call inside an ARBITRARY history (other calls may leak, reset, fail) -/
theorem history_step_alone (env : Env) : ∀ (pre : List Call) (c : Call) (post : List Call) (s : Stores), ClassParamCall c →
    (runHistory env (pre ++ c :: post) s)[pre.length]? = some (runCall env c Stores.empty).1 := by
  intro pre
  induction pre with
  | nil => intro c post s hc; simp [runHistory, call_alone env c hc s Stores.empty]
  | cons p pre ih => intro c post s hc; simp only [List.cons_append, runHistory, List.length_cons, List.getElem?_cons_succ]; exact ih c post _ hc

example : ClassParamCall ⟨0, 0, .genericInstance [(0, .cls 7)], false, [(.listOf (.tv 0), .list [.inst 7]), (.union [.tv 0, .cls 1], .inst 1)]⟩ :=
  ⟨_, rfl, by intro c hc; simp at hc; rcases hc with rfl | rfl <;> decide⟩

/-! ### never across instances -/

theorem Table.get_put_self (s : Table) (k : Nat) (m : TVMap) : (s.put k m).get k = m := by
  induction s with
  | nil => simp [Table.put, Table.get]
  | cons kv r ih =>
    obtain ⟨k', x⟩ := kv
    simp only [Table.put]
    by_cases h : k' = k
    · subst h; simp [Table.get]
    · have : (k' == k) = false := by simp [h]
      simp [this, Table.get, ih]

theorem Table.get_put_ne (s : Table) {k j : Nat} (m : TVMap) (h : j ≠ k) : (s.put k m).get j = s.get j := by
  induction s with
  | nil =>
    have : (k == j) = false := by simp; exact fun h' => h h'.symm
    simp [Table.put, Table.get, this]
  | cons kv r ih =>
    obtain ⟨k', x⟩ := kv
    simp only [Table.put]
    by_cases h' : k' = k
    · subst h'
      have : (k' == j) = false := by simp; exact fun h'' => h h''.symm
      simp [Table.get, this]
    · have h1 : (k' == k) = false := by simp [h']
      simp only [h1, Bool.false_eq_true, ↓reduceIte, Table.get]
      split
      · rfl
      · exact ih

/-- a call reads nothing but the attribute of its own instance ... -/
theorem runCall_reads_own (env : Env) (c : Call) (s s' : Stores) (h : s.attrs.get c.inst = s'.attrs.get c.inst) :
    (runCall env c s).1 = (runCall env c s').1 ∧ (runCall env c s).2.attrs.get c.inst = (runCall env c s').2.attrs.get c.inst := by
  unfold runCall
  simp only [attrKey, storeOnInstance, perCallFreshMap, ↓reduceIte]
  split
  · exact ⟨rfl, h⟩
  · rw [h]
    refine ⟨rfl, ?_⟩
    split
    · simp [Table.get_put_self]
    · exact h

/-- ... and writes nothing but that attribute -/
theorem runCall_writes_own (env : Env) (c : Call) (s : Stores) (j : Nat) (hj : j ≠ c.inst) :
    (runCall env c s).2.attrs.get j = s.attrs.get j := by
  unfold runCall
  simp only [attrKey, storeOnInstance, perCallFreshMap, ↓reduceIte]
  split
  · rfl
  · simp only
    split
    · exact Table.get_put_ne _ _ hj
    · rfl

/-- the outcomes of the calls made on instance `i` -/
def outcomesOn (i : Nat) : List Call → List Out → List Out
  | c :: cs, o :: os => if c.inst == i then o :: outcomesOn i cs os else outcomesOn i cs os
  | _, _ => []

theorem no_cross_instance_aux (env : Env) (i : Nat) : ∀ (h : List Call) (s s' : Stores), s.attrs.get i = s'.attrs.get i →
    outcomesOn i h (runHistory env h s) = runHistory env (h.filter (fun c => c.inst == i)) s' := by
  intro h
  induction h with
  | nil => intros; rfl
  | cons c rest ih =>
    intro s s' hs
    simp only [runHistory, outcomesOn, List.filter_cons]
    by_cases hc : c.inst = i
    · subst hc
      have := runCall_reads_own env c s s' hs
      simp only [beq_self_eq_true, ↓reduceIte, runHistory]
      rw [this.1, ih _ _ this.2]
    · have hb : (c.inst == i) = false := by simp [hc]
      simp only [hb, Bool.false_eq_true, ↓reduceIte]
      apply ih
      rw [runCall_writes_own env c s i (fun h => hc h.symm)]
      exact hs

/-- **C07, never across instances**: in every history the outcomes of the calls on one instance are what they are when
    all calls on other instances (and all plain calls made under another identity) are removed -/
theorem no_cross_instance (env : Env) (i : Nat) (h : List Call) (s : Stores) :
    outcomesOn i h (runHistory env h s) = runHistory env (h.filter (fun c => c.inst == i)) s :=
  no_cross_instance_aux env i h s s rfl

/-! ### plain functions, static and class methods, directly decorated methods: a fresh map per call -/

theorem runChecks_perCall_attr (env : Env) : ∀ (checks : List (A × Val)) (cm attr attr' : TVMap),
    (runChecks env .perCall checks cm attr).1 = (runChecks env .perCall checks cm attr').1 := by
  intro checks
  induction checks with
  | nil => intros; rfl
  | cons c rest ih =>
    intro cm attr attr'
    obtain ⟨a, v⟩ := c
    simp only [runChecks, oneCheck, accessMap, usesAttr, Bool.false_eq_true, ↓reduceIte]
    cases failure (isInst env a v cm).1 with
    | some o => rfl
    | none => exact ih _ _ _

/-- **C07, plain calls**: bindings made during one call of a plain function / static / class method / directly decorated
    method never reach a later call — the outcome of a call does not depend on the stores -/
theorem plain_call_alone (env : Env) (c : Call) (hk : c.kind = .perCall) (s s' : Stores) :
    (runCall env c s).1 = (runCall env c s').1 := by
  unfold runCall
  rw [hk]
  simp only [perCallFreshMap, ↓reduceIte]
  exact runChecks_perCall_attr env c.checks [] _ _

theorem plain_calls_independent (env : Env) : ∀ (h : List Call) (s : Stores), (∀ c ∈ h, c.kind = .perCall) →
    runHistory env h s = h.map (fun c => (runCall env c Stores.empty).1) := by
  intro h
  induction h with
  | nil => intros; rfl
  | cons c rest ih =>
    intro s hall
    simp only [runHistory, List.map_cons]
    rw [plain_call_alone env c (hall c (by simp)) s Stores.empty, ih _ (fun c hc => hall c (by simp [hc]))]

/-! ## Within one call: constraints and bounds are honoured at every nesting, in every store -/

theorem tvBranch_constraints (env : Env) (t : TVId) (v : Val) (h : violatesConstraints env t (v.typeOf env) = true) (m : TVMap) :
    tvBranch env t v m = (.ok false, m) := by
  rw [tvBranch_eq, tvSem_of_pre env t v m (by rw [tvPre_constraints env t v h]; simp), tvPre_constraints env t v h]

theorem tvBranch_bound (env : Env) (t : TVId) (v : Val) (h : violatesBound env t (v.typeOf env) = true) (m : TVMap) :
    (tvBranch env t v m).1 ≠ .ok true := by
  rw [tvBranch_eq, tvSem_of_pre env t v m (tvPre_bound env t v h)]
  exact tvPre_bound env t v h

theorem failure_none (r : R) : failure r = none ↔ r = .ok true := by
  cases r with
  | ok b => cases b <;> simp [failure]
  | _ => simp [failure]

theorem oneCheck_fst (env : Env) (k : StoreKind) (cm attr : TVMap) (a : A) (v : Val) :
    (oneCheck env k cm attr a v).1 = failure (isInst env a v (accessMap k cm attr)).1 := by
  unfold oneCheck
  split <;> rfl

theorem failure_ne_ok (r : R) (o : Out) (h : failure r = some o) : o ≠ .ok := by
  intro hok
  subst hok
  cases r with
  | ok b => cases b <;> simp [failure] at h
  | raisedTV => simp [failure] at h
  | raisedPed => simp [failure] at h
  | raisedOther => simp only [failure] at h; split at h <;> simp at h

/-- a check that cannot succeed makes the call fail, in every store kind and from every state of the stores -/
theorem runChecks_not_ok (env : Env) (k : StoreKind) : ∀ (checks : List (A × Val)),
    (∃ av ∈ checks, ∀ m, (isInst env av.1 av.2 m).1 ≠ .ok true) → ∀ cm attr, (runChecks env k checks cm attr).1 ≠ .ok := by
  intro checks
  induction checks with
  | nil => intro ⟨_, h, _⟩; simp at h
  | cons c rest ih =>
    obtain ⟨a, v⟩ := c
    intro ⟨av, hav, hbad⟩ cm attr
    simp only [runChecks]
    have hfst := oneCheck_fst env k cm attr a v
    rcases ho : oneCheck env k cm attr a v with ⟨o, cm', attr'⟩
    rw [ho] at hfst
    simp only at hfst
    cases o with
    | some o => exact failure_ne_ok _ o hfst.symm
    | none =>
      simp only
      simp only [List.mem_cons] at hav
      rcases hav with rfl | hav
      · exact absurd ((failure_none _).mp hfst.symm) (hbad _)
      · exact ih ⟨av, hav, hbad⟩ cm' attr'

theorem runCall_not_ok (env : Env) (c : Call)
    (h : ∃ av ∈ c.checks, ∀ m, (isInst env av.1 av.2 m).1 ≠ .ok true) (s : Stores) : (runCall env c s).1 ≠ .ok := by
  unfold runCall
  split
  · simp only [instanceAccessorSwitch, ↓reduceIte]; simp
  · exact runChecks_not_ok env c.kind c.checks h _ _

/-- **C07, constraints are honoured**: if a value — at any depth of List / Dict / Tuple / Optional nesting, in a parameter
    or in the result — stands at a constrained TypeVar and its runtime class is none of the constraints, the call is not
    accepted: in every store kind, whatever was bound before -/
theorem constraints_honoured (env : Env) (hn : NoneOnly env) (c : Call)
    (h : ∃ av ∈ c.checks, meets env (violatesConstraints env) av.1 av.2 = true) (s : Stores) : (runCall env c s).1 ≠ .ok := by
  obtain ⟨av, hav, hm⟩ := h
  refine runCall_not_ok env c ⟨av, hav, ?_⟩ s
  exact meets_not_true env hn _ (fun t v hb m => by rw [tvBranch_constraints env t v hb m]; simp) av.1 av.2 hm

/-- **C07, bounds are honoured** (same shape; the bound may be spelled as a forward reference) -/
theorem bound_honoured (env : Env) (hn : NoneOnly env) (c : Call)
    (h : ∃ av ∈ c.checks, meets env (violatesBound env) av.1 av.2 = true) (s : Stores) : (runCall env c s).1 ≠ .ok := by
  obtain ⟨av, hav, hm⟩ := h
  refine runCall_not_ok env c ⟨av, hav, ?_⟩ s
  exact meets_not_true env hn _ (fun t v hb m => tvBranch_bound env t v hb m) av.1 av.2 hm

/-! ## Per generic instance: a value at a class parameter is accepted iff it conforms to `X` -/

/-- the class parameters of `Cls[X, ...]`: plain TypeVars, each bound to a TypeVar-free annotation of the vocabulary -/
def GoodGenerics (env : Env) (g : TVMap) : Prop :=
  ∀ t X, (t, X) ∈ g → frag env X = true ∧ Spec.closed X = true ∧
    (env.tv t).constraints = [] ∧ (env.tv t).bound = none ∧ (env.tv t).variance ≠ .contra

/-- the dict binds every class parameter to its `X` -/
def BoundAs (g m : TVMap) : Prop := ∀ t ∈ keys g, m.get? t = g.get? t

/-- a value at a class parameter: accepted iff it conforms to `X`, PedanticTypeVarMismatchException otherwise -/
theorem tv_generic (env : Env) (g m : TVMap) (hg : GoodGenerics env g) (t : TVId) (X : TBind) (hX : g.get? t = some X)
    (hm : m.get? t = some X) (v : Val) :
    tvBranch env t v m = (if Spec.conforms env X v then .ok true else .raisedTV, m) := by
  obtain ⟨hf, hc, hcs, hb, hvar⟩ := hg t X (get?_mem g t X hX)
  have hv : ((env.tv t).variance == Variance.contra) = false := by simp [hvar]
  rw [tvBranch_eq]
  simp only [tvSem, tvPre, hcs, hb, hm, tvCmp, hv, List.isEmpty_nil, Bool.not_true, Bool.false_and, Bool.false_eq_true, ↓reduceIte]
  have hci := closedInst_conforms env X hf hc v
  cases X with
  | cls c =>
    simp only [Spec.conforms]
    by_cases hs : env.sub (v.typeOf env) c = true
    · simp [hs]
    · have hs' : env.sub (v.typeOf env) c = false := by simpa using hs
      simp [hs']
  | any => simp [Spec.conforms]
  | tv t' => simp [Spec.closed] at hc
  | listOf a => simp only [hci]; by_cases hs : Spec.conforms env (.listOf a) v = true <;> simp [hs]
  | dictOf k w => simp only [hci]; by_cases hs : Spec.conforms env (.dictOf k w) v = true <;> simp [hs]
  | tupleOf items => simp only [hci]; by_cases hs : Spec.conforms env (.tupleOf items) v = true <;> simp [hs]
  | tupleVar a => simp only [hci]; by_cases hs : Spec.conforms env (.tupleVar a) v = true <;> simp [hs]
  | union ms => simp only [hci]; by_cases hs : Spec.conforms env (.union ms) v = true <;> simp [hs]
  | typeOf a => simp [frag] at hf

theorem allWith_fixed (F : Val → TVMap → R × TVMap) (gx : Val → Bool) (m : TVMap)
    (h : ∀ x, ∃ r, F x m = (r, m) ∧ (r = .ok true ↔ gx x = true)) :
    ∀ xs, ∃ r, allWith F xs m = (r, m) ∧ (r = .ok true ↔ xs.all gx = true) := by
  intro xs
  induction xs with
  | nil => exact ⟨.ok true, rfl, by simp⟩
  | cons x xs ih =>
    obtain ⟨r, hr, hiff⟩ := h x
    simp only [allWith, hr, List.all_cons, Bool.and_eq_true]
    cases r with
    | ok b =>
      cases b with
      | true =>
        obtain ⟨r', hr', hiff'⟩ := ih
        exact ⟨r', hr', by rw [hiff']; simp [hiff.mp rfl]⟩
      | false =>
        refine ⟨.ok false, rfl, ?_⟩
        have : gx x ≠ true := fun hh => by have := hiff.mpr hh; simp at this
        simp [this]
    | raisedTV =>
      refine ⟨.raisedTV, rfl, ?_⟩
      have : gx x ≠ true := fun hh => by have := hiff.mpr hh; simp at this
      simp [this]
    | raisedPed =>
      refine ⟨.raisedPed, rfl, ?_⟩
      have : gx x ≠ true := fun hh => by have := hiff.mpr hh; simp at this
      simp [this]
    | raisedOther =>
      refine ⟨.raisedOther, rfl, ?_⟩
      have : gx x ≠ true := fun hh => by have := hiff.mpr hh; simp at this
      simp [this]

theorem not_true_of_iff {r : R} {b : Bool} (h : r = .ok true ↔ b = true) (hb : b = false) : r ≠ .ok true := by
  intro hr; have := h.mp hr; simp [hb] at this

theorem pairsWith_fixed (Fk Fw : Val → TVMap → R × TVMap) (gk gw : Val → Bool) (m : TVMap)
    (hk : ∀ x, ∃ r, Fk x m = (r, m) ∧ (r = .ok true ↔ gk x = true)) (hw : ∀ x, ∃ r, Fw x m = (r, m) ∧ (r = .ok true ↔ gw x = true)) :
    ∀ kvs, ∃ r, pairsWith Fk Fw kvs m = (r, m) ∧ (r = .ok true ↔ kvs.all (fun kv => gk kv.1 && gw kv.2) = true) := by
  intro kvs
  induction kvs with
  | nil => exact ⟨.ok true, rfl, by simp⟩
  | cons kv rest ih =>
    obtain ⟨x, y⟩ := kv
    obtain ⟨r, hr, hiff⟩ := hk x
    obtain ⟨r2, hr2, hiff2⟩ := hw y
    simp only [pairsWith, hr, List.all_cons, Bool.and_eq_true]
    by_cases h1 : r = .ok true
    · subst h1
      simp only [hr2]
      by_cases h2 : r2 = .ok true
      · subst h2
        obtain ⟨r', hr', hiff'⟩ := ih
        exact ⟨r', hr', by rw [hiff']; simp [hiff.mp rfl, hiff2.mp rfl]⟩
      · have hg : gw y ≠ true := fun hh => h2 (hiff2.mpr hh)
        refine ⟨r2, ?_, by simp [h2, hg]⟩
        cases r2 with
        | ok b => cases b with | true => exact absurd rfl h2 | false => rfl
        | _ => rfl
    · have hg : gk x ≠ true := fun hh => h1 (hiff.mpr hh)
      refine ⟨r, ?_, by simp [h1, hg]⟩
      cases r with
      | ok b => cases b with | true => exact absurd rfl h1 | false => rfl
      | _ => rfl

theorem subst_closed (g : TVMap) : ∀ a, Spec.closed a = true → Spec.subst g a = a := by
  apply A.ind (P := fun a => Spec.closed a = true → Spec.subst g a = a)
    (PL := fun l => Spec.closedL l = true → Spec.substL g l = l)
  · intro c _; rfl
  · intro _; rfl
  · intro t h; simp [Spec.closed] at h
  · intro a ih h; simp only [Spec.subst]; rw [ih (by simpa [Spec.closed] using h)]
  · intro k w ihk ihw h
    simp only [Spec.closed, Bool.and_eq_true] at h
    simp only [Spec.subst]; rw [ihk h.1, ihw h.2]
  · intro items ih h; simp only [Spec.subst]; rw [ih (by simpa [Spec.closed] using h)]
  · intro a ih h; simp only [Spec.subst]; rw [ih (by simpa [Spec.closed] using h)]
  · intro ms ih h; simp only [Spec.subst]; rw [ih (by simpa [Spec.closed] using h)]
  · intro a _ _; rfl
  · intro _; rfl
  · intro a as iha ihas h
    simp only [Spec.closedL, Bool.and_eq_true] at h
    simp only [Spec.substL]; rw [iha h.1, ihas h.2]

/-- `Optional[T]`, `T` a class parameter bound to `X` -/
theorem optional_generic_tv (env : Env) (wf : EnvWF env) (t : TVId) (v : Val) (m : TVMap) (c : Bool)
    (hm : (m.get? t).isSome = true) (htv : tvBranch env t v m = (if c then .ok true else .raisedTV, m)) :
    ∃ r, isInst env (.union [.tv t, .cls env.noneCls]) v m = (r, m) ∧ (r = .ok true ↔ (c || env.sub (v.typeOf env) env.noneCls) = true) := by
  simp only [isInst, membersInst, A.isTV, ↓reduceIte, Bool.false_eq_true, clsAnn, wf.noneNotBare, Bool.or_false, tvMembers]
  cases hs : env.sub (v.typeOf env) env.noneCls with
  | true => exact ⟨.ok true, rfl, by simp⟩
  | false =>
    simp only [unionTVs, List.filter_cons, hm, ↓reduceIte, List.filter_nil, List.contains_cons, beq_self_eq_true, List.contains_nil,
      Bool.or_false, Bool.not_true, Bool.false_eq_true, tryBounded, htv]
    cases c with
    | true => exact ⟨.ok true, rfl, by simp⟩
    | false =>
      refine ⟨.ok false, ?_, by simp⟩
      simp [swallows, unionSwallows, unionNoUnboundRejects]

/-- `Optional[x]`, `x` a container annotation -/
theorem optional_generic_nontv (env : Env) (wf : EnvWF env) (x : A) (hf : frag env x = true) (hc : Spec.closed x = false)
    (hu : x.isUnion = false) (ht : x.isTV = false) (v : Val) (m : TVMap) (r : R) (c : Bool)
    (hx : isInst env x v m = (r, m)) (hiff : r = .ok true ↔ c = true) :
    ∃ r', isInst env (.union [x, .cls env.noneCls]) v m = (r', m) ∧ (r' = .ok true ↔ (c || env.sub (v.typeOf env) env.noneCls) = true) := by
  have htvm : tvMembers [x, .cls env.noneCls] = [] := by cases x <;> simp_all [tvMembers, A.isTV]
  by_cases hn : v.typeOf env = env.noneCls
  · have hx' := container_on_none env wf x hf hc hu ht v hn m
    have hs : env.sub (v.typeOf env) env.noneCls = true := by rw [sub_none env wf]; simp [hn]
    refine ⟨.ok true, ?_, by simp [hs]⟩
    simp [isInst, membersInst, ht, isTV_cls, hx', clsAnn, wf.noneNotBare, hs]
  · have hs : env.sub (v.typeOf env) env.noneCls = false := wf.noneOnly _ hn
    simp only [isInst, membersInst, ht, isTV_cls, Bool.false_eq_true, ↓reduceIte, hx, clsAnn, wf.noneNotBare, hs, htvm, unionTVs_nil,
      Bool.or_false]
    cases r with
    | ok b =>
      cases b with
      | true => exact ⟨.ok true, rfl, by simp [hiff.mp rfl]⟩
      | false =>
        refine ⟨.ok false, rfl, ?_⟩
        have : c ≠ true := fun hh => by have := hiff.mpr hh; simp at this
        simp [this]
    | raisedTV => exact ⟨.raisedTV, rfl, by have : c ≠ true := fun hh => by have := hiff.mpr hh; simp at this
                                            simp [this]⟩
    | raisedPed => exact ⟨.raisedPed, rfl, by have : c ≠ true := fun hh => by have := hiff.mpr hh; simp at this
                                              simp [this]⟩
    | raisedOther => exact ⟨.raisedOther, rfl, by have : c ≠ true := fun hh => by have := hiff.mpr hh; simp at this
                                                  simp [this]⟩

/-- any nesting of class parameters in List / Dict / Tuple / Optional: with every class parameter bound to its `X`, a value
    is accepted iff it conforms to the annotation with `X` put in — and the dict is left as it was -/
theorem generic_iff (env : Env) (wf : EnvWF env) (g m : TVMap) (hg : GoodGenerics env g) (hm : BoundAs g m) :
    ∀ a, frag env a = true → tvsIn (keys g) a = true → ∀ v,
      ∃ r, isInst env a v m = (r, m) ∧ (r = .ok true ↔ Spec.conforms env (Spec.subst g a) v = true) := by
  apply A.ind (P := fun a => frag env a = true → tvsIn (keys g) a = true → ∀ v,
      ∃ r, isInst env a v m = (r, m) ∧ (r = .ok true ↔ Spec.conforms env (Spec.subst g a) v = true))
    (PL := fun l => fragL env l = true → tvsInL (keys g) l = true →
      (∀ a ∈ l, ∀ v, ∃ r, isInst env a v m = (r, m) ∧ (r = .ok true ↔ Spec.conforms env (Spec.subst g a) v = true)) ∧
      (∀ xs, ∃ r, zipInst env l xs m = (r, m) ∧ (r = .ok true ↔ Spec.conformsZip env (Spec.substL g l) xs = true)))
  · intro c hf _ v
    have : env.bareBuiltin c = false := by simpa [frag] using hf
    exact ⟨_, by simp only [isInst, clsAnn, this]; rfl, by simp [Spec.subst, Spec.conforms]⟩
  · intro _ _ v; exact ⟨.ok true, by simp [isInst], by simp [Spec.subst, Spec.conforms]⟩
  · intro t _ ht v
    have hk : t ∈ keys g := by simpa [tvsIn] using ht
    obtain ⟨X, hX⟩ := get?_of_key g t hk
    have hmX : m.get? t = some X := by rw [hm t hk, hX]
    refine ⟨_, by simp only [isInst]; exact tv_generic env g m hg t X hX hmX v, ?_⟩
    simp only [Spec.subst, hX]
    by_cases hc : Spec.conforms env X v = true <;> simp [hc]
  · intro a ih hf ht v
    have iha := ih (by simpa [frag] using hf) (by simpa [tvsIn] using ht)
    cases v with
    | list xs => simp only [isInst, Spec.subst, Spec.conforms]; exact allWith_fixed _ _ m iha xs
    | _ => exact ⟨.ok false, by simp [isInst], by simp [Spec.subst, Spec.conforms]⟩
  · intro k w ihk ihw hf ht v
    simp only [frag, Bool.and_eq_true] at hf
    simp only [tvsIn, Bool.and_eq_true] at ht
    cases v with
    | dict kvs => simp only [isInst, Spec.subst, Spec.conforms]; exact pairsWith_fixed _ _ _ _ m (ihk hf.1 ht.1) (ihw hf.2 ht.2) kvs
    | _ => exact ⟨.ok false, by simp [isInst], by simp [Spec.subst, Spec.conforms]⟩
  · intro items ih hf ht v
    simp only [frag, Bool.and_eq_true, Bool.not_eq_eq_eq_not, Bool.not_true] at hf
    have hz := (ih hf.2 (by simpa [tvsIn] using ht)).2
    have hlen : ∀ l : List A, (Spec.substL g l).length = l.length := by
      intro l; induction l with | nil => rfl | cons a as ih => simp [Spec.substL, ih]
    simp only [isInst, tuple_args_ok' items hf.1, Bool.false_eq_true, ↓reduceIte, Spec.subst]
    cases v with
    | tuple xs =>
      simp only [Spec.conforms, hlen]
      by_cases hl : xs.length = items.length
      · obtain ⟨r, hr, hiff⟩ := hz xs
        exact ⟨r, by simp [hl, hr], by simp [hl, hiff]⟩
      · exact ⟨.ok false, by simp [hl], by simp [hl]⟩
    | _ => exact ⟨.ok false, rfl, by simp [Spec.conforms]⟩
  · intro a ih hf ht v
    have iha := ih (by simpa [frag] using hf) (by simpa [tvsIn] using ht)
    cases v with
    | tuple xs => simp only [isInst, Spec.subst, Spec.conforms]; exact allWith_fixed _ _ m iha xs
    | _ => exact ⟨.ok false, by simp [isInst], by simp [Spec.subst, Spec.conforms]⟩
  · intro ms ih hf ht v
    have hf0 := hf
    simp only [frag, Bool.and_eq_true, Bool.or_eq_true] at hf
    obtain ⟨hshape, hfl⟩ := hf
    by_cases hcl : Spec.closedL ms = true
    · have hc : Spec.closed (.union ms) = true := by simpa [Spec.closed] using hcl
      rw [subst_closed g _ hc, isInst_closed_conforms env _ hf0 hc v m]
      exact ⟨_, rfl, by simp⟩
    · have hopt : fragOpt env ms = true := by rcases hshape with h | h; exact absurd h hcl; exact h
      have hmem := (ih hfl (by simpa [tvsIn] using ht)).1
      match ms, hopt, hcl, hmem, hfl, ht with
      | [x, .cls n], hopt, hcl, hmem, hfl, ht =>
        simp only [fragOpt, Bool.and_eq_true, beq_iff_eq, Bool.not_eq_eq_eq_not, Bool.not_true] at hopt
        obtain ⟨hn, hu⟩ := hopt
        subst hn
        have hxc : Spec.closed x = false := by
          simp only [Spec.closedL, Spec.closed, Bool.and_true] at hcl
          simpa using hcl
        have hfx : frag env x = true := by simp only [fragL, Bool.and_eq_true] at hfl; exact hfl.1
        obtain ⟨r, hr, hiff⟩ := hmem x (by simp) v
        have hsub : Spec.conforms env (Spec.subst g (.union [x, .cls env.noneCls])) v
            = (Spec.conforms env (Spec.subst g x) v || env.sub (v.typeOf env) env.noneCls) := by
          simp [Spec.subst, Spec.substL, Spec.conforms, Spec.conformsAny]
        rw [hsub]
        by_cases htv : x.isTV = true
        · cases x with
          | tv t =>
            have hk : t ∈ keys g := by simpa [tvsIn, tvsInL] using ht
            obtain ⟨X, hX⟩ := get?_of_key g t hk
            have hmX : m.get? t = some X := by rw [hm t hk, hX]
            have := optional_generic_tv env wf t v m (Spec.conforms env X v) (by simp [hmX]) (tv_generic env g m hg t X hX hmX v)
            simpa [Spec.subst, hX] using this
          | _ => simp [A.isTV] at htv
        · exact optional_generic_nontv env wf x hfx hxc hu (by simpa using htv) v m r _ hr hiff
  · intro a _ hf; simp [frag] at hf
  · intro _ _
    exact ⟨by intro a ha; simp at ha, by intro xs; exact ⟨.ok true, by simp [zipInst], by simp [Spec.substL, Spec.conformsZip]⟩⟩
  · intro a as iha ihas hf ht
    simp only [fragL, Bool.and_eq_true] at hf
    simp only [tvsInL, Bool.and_eq_true] at ht
    have ha := iha hf.1 ht.1
    obtain ⟨hmem, hz⟩ := ihas hf.2 ht.2
    refine ⟨?_, ?_⟩
    · intro b hb
      simp only [List.mem_cons] at hb
      rcases hb with rfl | hb
      · exact ha
      · exact hmem b hb
    · intro xs
      cases xs with
      | nil => exact ⟨.ok true, by simp [zipInst], by simp [Spec.substL, Spec.conformsZip]⟩
      | cons x xs =>
        obtain ⟨r, hr, hiff⟩ := ha x
        simp only [zipInst, hr, Spec.substL, Spec.conformsZip, Bool.and_eq_true]
        by_cases h1 : r = .ok true
        · subst h1
          obtain ⟨r', hr', hiff'⟩ := hz xs
          exact ⟨r', hr', by rw [hiff']; simp [hiff.mp rfl]⟩
        · have hgx : Spec.conforms env (Spec.subst g a) x ≠ true := fun hh => h1 (hiff.mpr hh)
          refine ⟨r, ?_, by simp [h1, hgx]⟩
          cases r with
          | ok b => cases b with | true => exact absurd rfl h1 | false => rfl
          | _ => rfl

theorem foldl_set_not_mem : ∀ (b a : TVMap) (t : TVId), t ∉ keys b →
    (b.foldl (fun acc kv => acc.set kv.1 kv.2) a).get? t = a.get? t := by
  intro b
  induction b with
  | nil => intros; rfl
  | cons kv rest ih =>
    intro a t ht
    simp only [keys, List.map_cons, List.mem_cons, not_or] at ht
    simp only [List.foldl_cons]
    rw [ih _ t (by simpa [keys] using ht.2), get?_set_ne _ _ ht.1]

theorem foldl_set_mem : ∀ (b a : TVMap) (t : TVId), (keys b).Nodup → t ∈ keys b →
    (b.foldl (fun acc kv => acc.set kv.1 kv.2) a).get? t = b.get? t := by
  intro b
  induction b with
  | nil => intro a t _ h; simp [keys] at h
  | cons kv rest ih =>
    obtain ⟨k, y⟩ := kv
    intro a t hnd ht
    simp only [keys, List.map_cons, List.nodup_cons] at hnd
    simp only [keys, List.map_cons, List.mem_cons] at ht
    simp only [List.foldl_cons, TVMap.get?]
    by_cases hk : t = k
    · subst hk
      rw [foldl_set_not_mem rest _ t (by simpa [keys] using hnd.1), get?_set_self]
      simp
    · have hkt : (k == t) = false := by simp; exact fun h => hk h.symm
      simp only [hkt, Bool.false_eq_true, ↓reduceIte]
      rcases ht with ht | ht
      · exact absurd ht hk
      · exact ih _ t hnd.2 (by simpa [keys] using ht)

/-- after every rebuild the class parameters are bound to their `X` (the invariant of the history theorem) -/
theorem rebuild_boundAs (g attr : TVMap) (hnd : (keys g).Nodup) : BoundAs g (rebuild attr g) := by
  intro t ht
  simp only [rebuild, genericMergeOrder, List.foldl_cons, List.foldl_nil, srcMap, TVMap.merge]
  exact foldl_set_mem g _ t hnd ht

/-- **C07, per generic instance**: on an instance created as `Cls[X, ...]()`, at ANY moment of ANY history (`attr` is
    whatever earlier calls — `__init__` included — left on the instance), one check of a value against an annotation that
    nests class parameters in List / Dict / Tuple / Optional succeeds iff the value conforms to the annotation with `X` put in -/
theorem instance_iff_conforms (env : Env) (wf : EnvWF env) (g : TVMap) (hg : GoodGenerics env g) (hnd : (keys g).Nodup)
    (a : A) (hf : frag env a = true) (ht : tvsIn (keys g) a = true) (v : Val) (cm attr : TVMap) :
    (oneCheck env (.genericInstance g) cm attr a v).1 = none ↔ Spec.conforms env (Spec.subst g a) v = true := by
  rw [oneCheck_fst]
  simp only [accessMap, instanceAccessorSwitch, ↓reduceIte]
  obtain ⟨r, hr, hiff⟩ := generic_iff env wf g (rebuild attr g) hg (rebuild_boundAs g attr hnd) a hf ht v
  rw [hr, failure_none]
  exact hiff

/-- the clause as the property words it: a value for a `T`-annotated parameter or result is accepted iff it conforms to `X` -/
theorem instance_T_iff_conforms (env : Env) (wf : EnvWF env) (g : TVMap) (hg : GoodGenerics env g) (hnd : (keys g).Nodup)
    (t : TVId) (X : TBind) (hX : g.get? t = some X) (v : Val) (cm attr : TVMap) :
    (oneCheck env (.genericInstance g) cm attr (.tv t) v).1 = none ↔ Spec.conforms env X v = true := by
  have hk : t ∈ keys g := by
    have := get?_mem g t X hX
    simp only [keys, List.mem_map]
    exact ⟨(t, X), this, rfl⟩
  have := instance_iff_conforms env wf g hg hnd (.tv t) (by simp [frag]) (by simpa [tvsIn] using hk) v cm attr
  simpa [Spec.subst, hX] using this

/-- ... and for a whole call (all parameters, then the result): accepted iff every value conforms -/
theorem instance_call_iff_conforms (env : Env) (wf : EnvWF env) (g : TVMap) (hg : GoodGenerics env g) (hnd : (keys g).Nodup) :
    ∀ (checks : List (A × Val)), (∀ c ∈ checks, frag env c.1 = true ∧ tvsIn (keys g) c.1 = true) → ∀ cm attr,
    ((runChecks env (.genericInstance g) checks cm attr).1 = .ok ↔ ∀ c ∈ checks, Spec.conforms env (Spec.subst g c.1) c.2 = true) := by
  intro checks
  induction checks with
  | nil => intro _ cm attr; simp [runChecks]
  | cons c rest ih =>
    obtain ⟨a, v⟩ := c
    intro hall cm attr
    have h1 := instance_iff_conforms env wf g hg hnd a (hall (a, v) (by simp)).1 (hall (a, v) (by simp)).2 v cm attr
    have hfst := oneCheck_fst env (.genericInstance g) cm attr a v
    simp only [runChecks]
    rcases ho : oneCheck env (.genericInstance g) cm attr a v with ⟨o, cm', attr'⟩
    rw [ho] at h1 hfst
    simp only at h1 hfst
    cases o with
    | some o =>
      have hne : o ≠ .ok := failure_ne_ok _ o hfst.symm
      have hnc : ¬ Spec.conforms env (Spec.subst g a) v = true := fun hh => by have := h1.mpr hh; simp at this
      simp only [List.mem_cons, forall_eq_or_imp]
      constructor
      · intro h; exact absurd h hne
      · intro h; exact absurd h.1 hnc
    | none =>
      simp only [List.mem_cons, forall_eq_or_imp]
      rw [ih (fun c hc => hall c (by simp [hc])) cm' attr']
      simp [h1.mp rfl]

/-! ## Within one call (per-call store): the model refines the specification -/

/-- `Optional[T]` against the specification -/
theorem optional_tv_refines (env : Env) (wf : EnvWF env) (t : TVId) (v : Val) (s : Spec.Seen) (m : TVMap) (h : Sim s m) :
    Refines (if v.typeOf env == env.noneCls then .cont s else Spec.inOptional true (Spec.walkTV env t v s))
      (isInst env (.union [.tv t, .cls env.noneCls]) v m) := by
  simp only [isInst, membersInst, A.isTV, ↓reduceIte, Bool.false_eq_true, clsAnn, wf.noneNotBare, Bool.or_false, tvMembers,
    sub_none env wf]
  by_cases hn : v.typeOf env = env.noneCls
  · simp only [hn, beq_self_eq_true, ↓reduceIte]; exact ⟨rfl, h⟩
  · have hne : (v.typeOf env == env.noneCls) = false := by simp [hn]
    simp only [hne, Bool.false_eq_true, ↓reduceIte, unionTVs, List.filter_cons, List.filter_nil]
    have htv := tv_refines env wf t v s m h
    cases hg : (m.get? t).isSome with
    | true =>
      simp only [↓reduceIte, List.contains_cons, beq_self_eq_true, List.contains_nil, Bool.or_false, Bool.not_true, Bool.false_eq_true,
        tryBounded]
      rcases hr : tvBranch env t v m with ⟨r, m'⟩
      rw [hr] at htv
      cases hw : Spec.walkTV env t v s with
      | cont s' =>
        rw [hw] at htv
        obtain ⟨h1, h2⟩ := htv
        simp only at h1 h2
        subst h1
        exact ⟨rfl, h2⟩
      | stop vd =>
        rw [hw] at htv
        cases vd with
        | accept => exact htv.elim
        | unclaimed => simp [Spec.inOptional, Refines]
        | tvm =>
          have h1 : r = .raisedTV := htv
          subst h1
          simp [Spec.inOptional, Refines, swallows, unionSwallows, unionNoUnboundRejects]
        | tvmInUnion =>
          have h1 : r = .ok false := htv
          subst h1
          simp [Spec.inOptional, Refines, unionBoundedTestsVerdict, unionNoUnboundRejects]
        | reject =>
          have h1 : r = .ok false := htv
          subst h1
          simp [Spec.inOptional, Refines, unionBoundedTestsVerdict, unionNoUnboundRejects]
    | false =>
      simp only [Bool.false_eq_true, ↓reduceIte, List.contains_nil, Bool.not_false, tryBounded, unionSingleUnboundChecked]
      -- an unbound TypeVar cannot meet a mismatch: the walk binds, or rejects for a constraint / the bound
      have hnone : s.get? t = none := by
        have := h t
        cases hs : s.get? t with
        | none => rfl
        | some c => rw [hs] at this; simp [this] at hg
      have hw : Spec.inOptional true (Spec.walkTV env t v s) = Spec.walkTV env t v s := by
        rw [walkTV_eq]
        unfold walkTail
        rw [hnone]
        split
        · rfl
        · split <;> rfl
      rw [hw]
      exact htv

/-- `Optional[x]`, `x` a container annotation, against the specification -/
theorem optional_nontv_refines (env : Env) (wf : EnvWF env) (x : A) (hf : frag env x = true) (hc : Spec.closed x = false)
    (hu : x.isUnion = false) (ht : x.isTV = false) (v : Val) (s : Spec.Seen) (m : TVMap) (h : Sim s m)
    (ih : Refines (Spec.walk env x v s) (isInst env x v m)) :
    Refines (if v.typeOf env == env.noneCls then .cont s else Spec.inOptional false (Spec.walk env x v s))
      (isInst env (.union [x, .cls env.noneCls]) v m) := by
  have htvm : tvMembers [x, .cls env.noneCls] = [] := by cases x <;> simp_all [tvMembers, A.isTV]
  by_cases hn : v.typeOf env = env.noneCls
  · have hx' := container_on_none env wf x hf hc hu ht v hn m
    have hs : env.sub (v.typeOf env) env.noneCls = true := by rw [sub_none env wf]; simp [hn]
    simp only [hn, beq_self_eq_true, ↓reduceIte]
    have : isInst env (.union [x, .cls env.noneCls]) v m = (.ok true, m) := by
      simp [isInst, membersInst, ht, isTV_cls, hx', clsAnn, wf.noneNotBare, hs]
    rw [this]
    exact ⟨rfl, h⟩
  · have hs : env.sub (v.typeOf env) env.noneCls = false := wf.noneOnly _ hn
    have hne : (v.typeOf env == env.noneCls) = false := by simp [hn]
    simp only [hne, Bool.false_eq_true, ↓reduceIte]
    rcases hr : isInst env x v m with ⟨r, m'⟩
    rw [hr] at ih
    simp only [isInst, membersInst, ht, isTV_cls, Bool.false_eq_true, ↓reduceIte, hr, clsAnn, wf.noneNotBare, hs, htvm, unionTVs_nil,
      Bool.or_false]
    cases hw : Spec.walk env x v s with
    | cont s' =>
      rw [hw] at ih
      obtain ⟨h1, h2⟩ := ih
      simp only at h1 h2
      subst h1
      exact ⟨rfl, h2⟩
    | stop vd =>
      rw [hw] at ih
      cases vd with
      | accept => exact ih.elim
      | unclaimed => simp [Spec.inOptional, Refines]
      | tvm => have h1 : r = .raisedTV := ih; subst h1; simp [Spec.inOptional, Refines]
      | tvmInUnion => have h1 : r = .ok false := ih; subst h1; simp [Spec.inOptional, Refines]
      | reject => have h1 : r = .ok false := ih; subst h1; simp [Spec.inOptional, Refines]

/-- **the per-call store refines the specification**: started with a dict that binds what the specification has seen,
    one check ends as the specification says (where it says something), and keeps that relation -/
theorem walk_refines (env : Env) (wf : EnvWF env) :
    ∀ a, frag env a = true → ∀ v s m, Sim s m → Refines (Spec.walk env a v s) (isInst env a v m) := by
  apply A.ind (P := fun a => frag env a = true → ∀ v s m, Sim s m → Refines (Spec.walk env a v s) (isInst env a v m))
    (PL := fun l => fragL env l = true →
      (∀ a ∈ l, ∀ v s m, Sim s m → Refines (Spec.walk env a v s) (isInst env a v m)) ∧
      (∀ xs s m, Sim s m → Refines (Spec.walkZip env l xs s) (zipInst env l xs m)))
  · intro c hf v s m h
    have : env.bareBuiltin c = false := by simpa [frag] using hf
    simp only [Spec.walk, isInst, clsAnn, this, Bool.false_eq_true, ↓reduceIte]
    cases env.sub (v.typeOf env) c with
    | true => exact ⟨rfl, h⟩
    | false => simp [Refines]
  · intro _ v s m h; simp only [Spec.walk, isInst]; exact ⟨rfl, h⟩
  · intro t _ v s m h; simp only [Spec.walk, isInst]; exact tv_refines env wf t v s m h
  · intro a ih hf v s m h
    have iha := ih (by simpa [frag] using hf)
    cases v with
    | list xs => simp only [Spec.walk, isInst]; exact allWith_refines _ _ iha xs s m h
    | _ => simp [Spec.walk, isInst, Refines]
  · intro k w ihk ihw hf v s m h
    simp only [frag, Bool.and_eq_true] at hf
    cases v with
    | dict kvs => simp only [Spec.walk, isInst]; exact pairsWith_refines _ _ _ _ (ihk hf.1) (ihw hf.2) kvs s m h
    | _ => simp [Spec.walk, isInst, Refines]
  · intro items ih hf v s m h
    simp only [frag, Bool.and_eq_true, Bool.not_eq_eq_eq_not, Bool.not_true] at hf
    have hz := (ih hf.2).2
    simp only [Spec.walk, isInst, tuple_args_ok' items hf.1, Bool.false_eq_true, ↓reduceIte]
    cases v with
    | tuple xs =>
      simp only
      by_cases hl : (xs.length != items.length) = true
      · simp [hl, Refines]
      · simp only [hl, Bool.false_eq_true, ↓reduceIte]; exact hz xs s m h
    | _ => simp [Refines]
  · intro a ih hf v s m h
    have iha := ih (by simpa [frag] using hf)
    cases v with
    | tuple xs => simp only [Spec.walk, isInst]; exact allWith_refines _ _ iha xs s m h
    | _ => simp [Spec.walk, isInst, Refines]
  · intro ms ih hf v s m h
    have hf0 := hf
    simp only [frag, Bool.and_eq_true, Bool.or_eq_true] at hf
    obtain ⟨hshape, hfl⟩ := hf
    simp only [Spec.walk]
    by_cases hcl : Spec.closedL ms = true
    · have hc : Spec.closed (.union ms) = true := by simpa [Spec.closed] using hcl
      rw [walkUnion_closed env ms hcl v s, isInst_closed_conforms env _ hf0 hc v m]
      simp only [Spec.conforms]
      cases Spec.conformsAny env ms v with
      | true => exact ⟨rfl, h⟩
      | false => simp [Refines]
    · have hopt : fragOpt env ms = true := by rcases hshape with h' | h'; exact absurd h' hcl; exact h'
      have hmem := (ih hfl).1
      match ms, hopt, hcl, hmem, hfl with
      | [x, .cls n], hopt, hcl, hmem, hfl =>
        simp only [fragOpt, Bool.and_eq_true, beq_iff_eq, Bool.not_eq_eq_eq_not, Bool.not_true] at hopt
        obtain ⟨hn, hu⟩ := hopt
        subst hn
        have hxc : Spec.closed x = false := by
          simp only [Spec.closedL, Spec.closed, Bool.and_true] at hcl
          simpa using hcl
        have hfx : frag env x = true := by simp only [fragL, Bool.and_eq_true] at hfl; exact hfl.1
        have hwu : Spec.walkUnion env [x, .cls env.noneCls] v s
            = if v.typeOf env == env.noneCls then .cont s else Spec.inOptional x.isTV (Spec.walk env x v s) := by
          simp [Spec.walkUnion, hxc, Spec.closed, Spec.isNoneCls]
        rw [hwu]
        by_cases htv : x.isTV = true
        · cases x with
          | tv t => simpa [A.isTV, Spec.walk] using optional_tv_refines env wf t v s m h
          | _ => simp [A.isTV] at htv
        · have htv' : x.isTV = false := by simpa using htv
          rw [htv']
          exact optional_nontv_refines env wf x hfx hxc hu htv' v s m h (hmem x (by simp) v s m h)
  · intro a _ hf; simp [frag] at hf
  · intro _
    exact ⟨by intro a ha; simp at ha, by intro xs s m h; simp only [Spec.walkZip, zipInst]; exact ⟨rfl, h⟩⟩
  · intro a as iha ihas hf
    simp only [fragL, Bool.and_eq_true] at hf
    have ha := iha hf.1
    obtain ⟨hmem, hz⟩ := ihas hf.2
    refine ⟨?_, ?_⟩
    · intro b hb
      simp only [List.mem_cons] at hb
      rcases hb with rfl | hb
      · exact ha
      · exact hmem b hb
    · intro xs s m h
      cases xs with
      | nil => simp only [Spec.walkZip, zipInst]; exact ⟨rfl, h⟩
      | cons x xs =>
        have hx := ha x s m h
        simp only [Spec.walkZip, zipInst]
        rcases hF : isInst env a x m with ⟨r, m'⟩
        rw [hF] at hx
        cases hw : Spec.walk env a x s with
        | cont s' =>
          rw [hw] at hx
          obtain ⟨hr, hsim⟩ := hx
          simp only at hr hsim
          subst hr
          exact hz xs s' m' hsim
        | stop vd =>
          rw [hw] at hx
          simp only
          cases vd with
          | accept => exact hx.elim
          | unclaimed => trivial
          | tvm => have hr : r = .raisedTV := hx; subst hr; rfl
          | tvmInUnion => have hr : r = .ok false := hx; subst hr; rfl
          | reject => have hr : r = .ok false := hx; subst hr; rfl

/-- what each verdict of the specification means for the outcome of a call -/
def Meets (vd : Spec.Verdict) (o : Out) : Prop :=
  match vd with
  | .accept => o = .ok
  | .tvm => o = .pedTVMismatch
  | .tvmInUnion => o = .pedTypeCheck
  | .reject => o = .pedTypeCheck
  | .unclaimed => True

theorem checks_refine (env : Env) (wf : EnvWF env) : ∀ (checks : List (A × Val)), (∀ c ∈ checks, frag env c.1 = true) →
    ∀ s m attr, Sim s m → Meets (Spec.specChecks env checks s) (runChecks env .perCall checks m attr).1 := by
  intro checks
  induction checks with
  | nil => intro _ s m attr _; simp [Spec.specChecks, runChecks, Meets]
  | cons c rest ih =>
    obtain ⟨a, v⟩ := c
    intro hall s m attr h
    have hw := walk_refines env wf a (hall (a, v) (by simp)) v s m h
    simp only [Spec.specChecks, runChecks, oneCheck, accessMap, usesAttr, Bool.false_eq_true, ↓reduceIte]
    rcases hr : isInst env a v m with ⟨r, m'⟩
    rw [hr] at hw
    cases hwk : Spec.walk env a v s with
    | cont s' =>
      rw [hwk] at hw
      obtain ⟨h1, h2⟩ := hw
      simp only at h1 h2
      subst h1
      simp only [failure]
      exact ih (fun c hc => hall c (by simp [hc])) s' m' attr h2
    | stop vd =>
      rw [hwk] at hw
      simp only
      cases vd with
      | accept => exact hw.elim
      | unclaimed => trivial
      | tvm => have h1 : r = .raisedTV := hw; subst h1; simp [failure, Meets]
      | tvmInUnion => have h1 : r = .ok false := hw; subst h1; simp [failure, Meets]
      | reject => have h1 : r = .ok false := hw; subst h1; simp [failure, Meets]

/-- a call of a plain function / static / class method / directly decorated method with annotations of the vocabulary -/
def PlainCall (env : Env) (c : Call) : Prop := c.kind = .perCall ∧ ∀ ch ∈ c.checks, frag env ch.1 = true

theorem specCall_perCall (env : Env) (c : Call) (hk : c.kind = .perCall) (h : Spec.specCall env c ≠ .unclaimed) :
    Spec.specCall env c = Spec.specChecks env c.checks [] := by
  unfold Spec.specCall at h ⊢
  rw [hk] at h ⊢
  split
  · rename_i h1; simp [h1] at h
  · split
    · rename_i _ h2; simp [h2] at h
    · rfl

/-- the call layer on the per-call store does what the specification demands, wherever it demands something -/
theorem plain_call_refines (env : Env) (wf : EnvWF env) (c : Call) (hc : PlainCall env c) (s : Stores) :
    Meets (Spec.specCall env c) (runCall env c s).1 := by
  by_cases hu : Spec.specCall env c = .unclaimed
  · rw [hu]; trivial
  · rw [specCall_perCall env c hc.1 hu]
    unfold runCall
    rw [hc.1]
    simp only [perCallFreshMap, ↓reduceIte]
    exact checks_refine env wf c.checks hc.2 [] [] _ sim_nil

/-- **C07, values of one identical runtime class are accepted**: if, walking the parameters and the result in order and
    every List / Dict / Tuple / Optional nesting depth first, every value met at a TypeVar has the runtime class of the first
    value met at that TypeVar (constraints and bound satisfied, everything TypeVar-free conforming) — which is what
    `specCall = accept` says, see `Spec.walkTV` — then the call is accepted -/
theorem same_class_accepted (env : Env) (wf : EnvWF env) (c : Call) (hc : PlainCall env c)
    (h : Spec.specCall env c = .accept) (s : Stores) : (runCall env c s).1 = .ok := by
  have := plain_call_refines env wf c hc s
  rw [h] at this
  exact this

/-- **C07, values of unrelated classes raise PedanticTypeVarMismatchException**: if the first offending position of the walk
    is a TypeVar (not a direct member of an Optional) whose value has a class unrelated to the class of the first value met
    at that TypeVar -/
theorem unrelated_rejected (env : Env) (wf : EnvWF env) (c : Call) (hc : PlainCall env c)
    (h : Spec.specCall env c = .tvm) (s : Stores) : (runCall env c s).1 = .pedTVMismatch := by
  have := plain_call_refines env wf c hc s
  rw [h] at this
  exact this

/-- a value that violates a constraint / a bound or does not conform at the first offending position: PedanticTypeCheckException -/
theorem nonconforming_rejected (env : Env) (wf : EnvWF env) (c : Call) (hc : PlainCall env c)
    (h : Spec.specCall env c = .reject) (s : Stores) : (runCall env c s).1 = .pedTypeCheck := by
  have := plain_call_refines env wf c hc s
  rw [h] at this
  exact this

/-- the open region `mismatchInsideUnionIsTypeCheck`, exactly: an unrelated class at a bound TypeVar that is a direct member
    of an Optional surfaces as PedanticTypeCheckException — so `unrelated_rejected` cannot be extended to that position -/
theorem mismatch_in_optional_is_typecheck (env : Env) (wf : EnvWF env) (c : Call) (hc : PlainCall env c)
    (h : Spec.specCall env c = .tvmInUnion) (s : Stores) : (runCall env c s).1 = .pedTypeCheck := by
  have := plain_call_refines env wf c hc s
  rw [h] at this
  exact this

/-! ### what the verdicts of the specification say at one TypeVar position (reading aid for the clauses above) -/

theorem spec_first_value_binds (env : Env) (t : TVId) (v : Val) (s : Spec.Seen) (hs : s.get? t = none)
    (hc : violatesConstraints env t (v.typeOf env) = false) (hb : violatesBound env t (v.typeOf env) = false) :
    Spec.walkTV env t v s = .cont ((t, v.typeOf env) :: s) := by
  rw [walkTV_eq, hc, hb]; simp [walkTail, hs]

theorem spec_identical_class_continues (env : Env) (t : TVId) (v : Val) (s : Spec.Seen) (hs : s.get? t = some (v.typeOf env))
    (hc : violatesConstraints env t (v.typeOf env) = false) (hb : violatesBound env t (v.typeOf env) = false) :
    Spec.walkTV env t v s = .cont s := by
  rw [walkTV_eq, hc, hb]; simp [walkTail, hs]

theorem spec_unrelated_class_demands_mismatch (env : Env) (t : TVId) (v : Val) (s : Spec.Seen) (c0 : ClsId) (hs : s.get? t = some c0)
    (hc : violatesConstraints env t (v.typeOf env) = false) (hb : violatesBound env t (v.typeOf env) = false)
    (h1 : env.sub (v.typeOf env) c0 = false) (h2 : env.sub c0 (v.typeOf env) = false) (hne : v.typeOf env ≠ c0) :
    Spec.walkTV env t v s = .stop .tvm := by
  rw [walkTV_eq, hc, hb]; simp [walkTail, hs, h1, h2, hne]

theorem spec_contravariant_superclass_continues (env : Env) (t : TVId) (v : Val) (s : Spec.Seen) (c0 : ClsId) (hs : s.get? t = some c0)
    (hc : violatesConstraints env t (v.typeOf env) = false) (hb : violatesBound env t (v.typeOf env) = false)
    (hv : (env.tv t).variance = .contra) (h2 : env.sub c0 (v.typeOf env) = true) :
    Spec.walkTV env t v s = .cont s := by
  rw [walkTV_eq, hc, hb]; simp [walkTail, hs, hv, h2]

/-- contravariant TypeVar: a later value whose class is a superclass of the class bound first is accepted -/
theorem contravariant_superclass_accepted (env : Env) (t : TVId) (v : Val) (m : TVMap) (c0 : ClsId) (hm : m.get? t = some (.cls c0))
    (hpre : tvPre env t v = .ok true) (hv : (env.tv t).variance = .contra) (h2 : env.sub c0 (v.typeOf env) = true) :
    tvBranch env t v m = (.ok true, m) := by
  rw [tvBranch_eq, tvSem_ok env t v m hpre]
  simp [tvTailSem, hm, tvCmp, hv, contraCheck, h2]

/-! ## The whole property on the model: full statement, the part that holds, the regions where it does not -/

/-- what the property demands of the outcome for each verdict of the specification — the predicate the harness applies to
    the outcomes of the IMPLEMENTATION -/
def Demands (vd : Spec.Verdict) (o : Out) : Prop :=
  match vd with
  | .accept => o = .ok
  | .tvm => o = .pedTVMismatch
  | .tvmInUnion => o = .pedTVMismatch
  | .reject => o = .pedTypeCheck ∨ o = .pedTVMismatch
  | .unclaimed => True

/-- step by step: the lists have the same length and every outcome is what its verdict demands -/
def AllDemand : List Spec.Verdict → List Out → Prop
  | [], [] => True
  | vd :: vs, o :: os => Demands vd o ∧ AllDemand vs os
  | _, _ => False

/-- the call is in the vocabulary of the theorems -/
def InVocab (env : Env) (c : Call) : Prop :=
  (∀ ch ∈ c.checks, frag env ch.1 = true) ∧
  (∀ g, c.kind = .genericInstance g → GoodGenerics env g ∧ (keys g).Nodup)

/-- **the property, in full**: for every history over any instances, every call ends as the (stateless) specification demands -/
def C07_full : Prop :=
  ∀ (env : Env), EnvWF env → ∀ (h : List Call), (∀ c ∈ h, InVocab env c) → ∀ (s : Stores),
    AllDemand (Spec.specHistory env h) (runHistory env h s)

/-- outside the three recorded regions: a per-call store and no mismatch at a direct Optional member, or a method of a
    parametrised generic instance that mentions class parameters only -/
def Guard (env : Env) (c : Call) : Prop :=
  (c.kind = .perCall ∧ Spec.specCall env c ≠ .tvmInUnion) ∨ ClassParamCall c

theorem specChecks_closed (env : Env) : ∀ (checks : List (A × Val)), (∀ ch ∈ checks, Spec.closed ch.1 = true) → ∀ s,
    Spec.specChecks env checks s = if checks.all (fun ch => Spec.conforms env ch.1 ch.2) then .accept else .reject := by
  intro checks
  induction checks with
  | nil => intros; rfl
  | cons c rest ih =>
    obtain ⟨a, v⟩ := c
    intro hall s
    simp only [Spec.specChecks, walk_closed env a (hall (a, v) (by simp)) v s, List.all_cons]
    by_cases hc : Spec.conforms env a v = true
    · simp only [hc, ↓reduceIte, Bool.true_and]; exact ih (fun ch h => hall ch (by simp [h])) s
    · simp [hc]

theorem substChecks_all (env : Env) (g : TVMap) : ∀ (checks : List (A × Val)),
    (Spec.substChecks g checks).all (fun ch => Spec.conforms env ch.1 ch.2) = true ↔
      ∀ c ∈ checks, Spec.conforms env (Spec.subst g c.1) c.2 = true := by
  intro checks
  induction checks with
  | nil => simp [Spec.substChecks]
  | cons c rest ih => obtain ⟨a, v⟩ := c; simp [Spec.substChecks, ih]

theorem substChecks_closed (env : Env) (g : TVMap) (hg : ∀ t X, g.get? t = some X → Spec.closed X = true) :
    ∀ (checks : List (A × Val)), (∀ c ∈ checks, frag env c.1 = true ∧ tvsIn (keys g) c.1 = true) →
      ∀ ch ∈ Spec.substChecks g checks, Spec.closed ch.1 = true := by
  intro checks
  induction checks with
  | nil => intro _ ch h; simp [Spec.substChecks] at h
  | cons c rest ih =>
    obtain ⟨a, v⟩ := c
    intro hall ch h
    simp only [Spec.substChecks, List.mem_cons] at h
    rcases h with rfl | h
    · exact subst_is_closed env g hg a (hall (a, v) (by simp)).1 (hall (a, v) (by simp)).2
    · exact ih (fun c hc => hall c (by simp [hc])) ch h

theorem failure_ped (r : R) (o : Out) (h : failure r = some o) : o = .pedTypeCheck ∨ o = .pedTVMismatch := by
  cases r with
  | ok b => cases b <;> simp [failure] at h; exact Or.inl h.symm
  | raisedTV => simp [failure] at h; exact Or.inr h.symm
  | raisedPed => simp [failure] at h; exact Or.inl h.symm
  | raisedOther =>
    have hc : catchesAll = true := by decide
    simp [failure, hc] at h; exact Or.inl h.symm

/-- a call ends accepted or with one of the two PedanticExceptions (the last `except` arm of `_check_type` catches the rest) -/
theorem runChecks_out (env : Env) (k : StoreKind) : ∀ (checks : List (A × Val)) cm attr,
    (runChecks env k checks cm attr).1 = .ok ∨ (runChecks env k checks cm attr).1 = .pedTypeCheck ∨
      (runChecks env k checks cm attr).1 = .pedTVMismatch := by
  intro checks
  induction checks with
  | nil => intros; exact Or.inl rfl
  | cons c rest ih =>
    obtain ⟨a, v⟩ := c
    intro cm attr
    have hfst := oneCheck_fst env k cm attr a v
    simp only [runChecks]
    rcases ho : oneCheck env k cm attr a v with ⟨o, cm', attr'⟩
    rw [ho] at hfst
    simp only at hfst
    cases o with
    | some o => exact Or.inr (failure_ped _ o hfst.symm)
    | none => exact ih cm' attr'

/-- one call outside the regions does what the specification demands, from every state of the stores -/
theorem call_demands (env : Env) (wf : EnvWF env) (c : Call) (hv : InVocab env c) (hg : Guard env c) (s : Stores) :
    Demands (Spec.specCall env c) (runCall env c s).1 := by
  rcases hg with ⟨hk, hne⟩ | ⟨g, hk, hin⟩
  · have := plain_call_refines env wf c ⟨hk, hv.1⟩ s
    cases hvd : Spec.specCall env c with
    | accept => rw [hvd] at this; exact this
    | tvm => rw [hvd] at this; exact this
    | tvmInUnion => exact absurd hvd hne
    | reject => rw [hvd] at this; exact Or.inl this
    | unclaimed => trivial
  · obtain ⟨hgood, hnd⟩ := hv.2 g hk
    have hall : ∀ ch ∈ c.checks, frag env ch.1 = true ∧ tvsIn (keys g) ch.1 = true := fun ch h => ⟨hv.1 ch h, hin ch h⟩
    unfold Spec.specCall
    split
    · trivial
    · split
      · trivial
      · rw [hk]
        simp only
        split
        · trivial
        · rename_i hscan _ _
          have hclosed := substChecks_closed env g (fun t X hX => (hgood t X (get?_mem g t X hX)).2.1) c.checks hall
          rw [specChecks_closed env _ hclosed []]
          have hiff := instance_call_iff_conforms env wf g hgood hnd c.checks hall [] (s.attrs.get (attrKey c))
          have hrun : (runCall env c s).1 = (runChecks env (.genericInstance g) c.checks [] (s.attrs.get (attrKey c))).1 := by
            unfold runCall
            rw [hk]
            have : c.scanFails = false := by simpa using hscan
            rw [this]
            simp [perCallFreshMap]
          rw [hrun]
          by_cases hc : (Spec.substChecks g c.checks).all (fun ch => Spec.conforms env ch.1 ch.2) = true
          · simp only [hc, ↓reduceIte]
            exact hiff.mpr ((substChecks_all env g c.checks).mp hc)
          · simp only [hc, Bool.false_eq_true, ↓reduceIte]
            rcases runChecks_out env (.genericInstance g) c.checks [] (s.attrs.get (attrKey c)) with h | h | h
            · exact absurd ((substChecks_all env g c.checks).mpr (hiff.mp h)) hc
            · exact Or.inl h
            · exact Or.inr h

/-- **the property on the model, outside the recorded regions**: every history — any length, any number of instances, plain
    functions in between, any initial stores — in which every call is in the vocabulary and outside the regions (`Guard`) ends,
    step by step, as the stateless specification demands.  Since the specification of a call does not look at the history,
    this contains: within-call consistency, constraints / bounds, accepted-iff-conforms-to-X, and independence of earlier calls
    and other instances. -/
theorem C07_partial (env : Env) (wf : EnvWF env) : ∀ (h : List Call), (∀ c ∈ h, InVocab env c ∧ Guard env c) → ∀ (s : Stores),
    AllDemand (Spec.specHistory env h) (runHistory env h s) := by
  intro h
  induction h with
  | nil => intros; trivial
  | cons c rest ih =>
    intro hall s
    simp only [Spec.specHistory, List.map_cons, runHistory]
    exact ⟨call_demands env wf c (hall c (by simp)).1 (hall c (by simp)).2 s, ih (fun c hc => hall c (by simp [hc])) _⟩

/-! ## A concrete class table (the one the harness uses), non-vacuity, and the witnesses of the three open regions -/

/-- 0 object, 1 NoneType, 2 int, 3 str, 4 bool(int), 5 float, 6 list, 7 dict, 8 tuple, 9 type, 10 P, 11 C1(P), 12 C2(P), 13 G(C1), 14 U,
    15 set, 16 frozenset -/
def subX (a b : Nat) : Bool :=
  a == b || b == 0 || (a == 4 && b == 2) || (a == 11 && b == 10) || (a == 12 && b == 10) || (a == 13 && (b == 11 || b == 10))

/-- 0 T, 1 S, 2 TC(int, str), 3 TB(bound=P), 4 TF(bound='P'), 5 TCN(contravariant), 6 TCO(covariant), 7 V, 8 TCP(P, U), 9 TBI(bound=int) -/
def tvX : Nat → TVInfo
  | 2 => ⟨[2, 3], none, false, .inv⟩
  | 3 => ⟨[], some 10, false, .inv⟩
  | 4 => ⟨[], some 10, true, .inv⟩
  | 5 => ⟨[], none, false, .contra⟩
  | 6 => ⟨[], none, false, .co⟩
  | 8 => ⟨[10, 14], none, false, .inv⟩
  | 9 => ⟨[], some 2, false, .inv⟩
  | _ => ⟨[], none, false, .inv⟩

def envX : Env where
  sub := subX
  noneCls := 1
  listCls := 6
  dictCls := 7
  tupleCls := 8
  typeCls := 9
  objectCls := 0
  bareBuiltin := fun c => c == 6 || c == 7 || c == 8 || c == 9 || c == 15 || c == 16
  tv := tvX

theorem wfX : EnvWF envX where
  refl := by intro c; simp [envX, subX]
  noneOnly := by intro c hc; simp only [envX] at hc ⊢; simp [subX, hc]
  noneNotBare := by decide
  listNotNone := by decide
  dictNotNone := by decide
  tupleNotNone := by decide
  typeNotNone := by decide
  boundNotBare := by
    intro t b h
    simp only [envX] at h ⊢
    unfold tvX at h
    split at h <;> simp at h <;> subst h <;> decide

private def T : A := .tv 0
private def S : A := .tv 1
private def NoneA : A := .cls 1
private def retNone : A × Val := (.cls 1, .inst 1)
private def plain (checks : List (A × Val)) : Call := ⟨0, 0, .perCall, false, checks⟩
private def onBoxInt (checks : List (A × Val)) : Call := ⟨0, 0, .genericInstance [(0, .cls 2)], false, checks⟩
private def onNG (checks : List (A × Val)) : Call := ⟨0, 0, .resetEachAccess, false, checks⟩

private theorem frag_list {env : Env} {l : List (A × Val)} (h : l.all (fun ch => frag env ch.1) = true) : ∀ ch ∈ l, frag env ch.1 = true := by
  simpa using h

/-- `def f(a: T, b: List[T], c: Dict[str, Tuple[T, Optional[T]]]) -> T` with ints everywhere: accepted (instance of `same_class_accepted`) -/
example (s : Stores) :
    (runCall envX (plain [(T, .inst 2), (.listOf T, .list [.inst 2, .inst 2]),
        (.dictOf (.cls 3) (.tupleOf [T, .union [T, NoneA]]), .dict [(.inst 3, .tuple [.inst 2, .inst 1]), (.inst 3, .tuple [.inst 2, .inst 2])]),
        (T, .inst 2)]) s).1 = .ok :=
  same_class_accepted envX wfX _ ⟨rfl, frag_list (by decide)⟩ (by decide) s

/-- `f(a=C1(), b=[C1(), C2()])` with `def f(a: T, b: List[T])`: siblings are unrelated — TypeVarMismatch (instance of `unrelated_rejected`) -/
example (s : Stores) :
    (runCall envX (plain [(T, .inst 11), (.listOf T, .list [.inst 11, .inst 12]), retNone]) s).1 = .pedTVMismatch :=
  unrelated_rejected envX wfX _ ⟨rfl, frag_list (by decide)⟩ (by decide) s

/-- the three fixed regions, on the model: `f(a=[1], b=[2])`, `h(a=1, b=1.5)` with `Optional[TC]`, `Box[P]().lst(b=[C1(), C2()])` -/
example : (runCall envX (plain [(T, .list [.inst 2]), (T, .list [.inst 2]), retNone]) Stores.empty).1 = .ok := by decide
example : (runCall envX (plain [(.tv 2, .inst 2), (.union [.tv 2, NoneA], .inst 5), retNone]) Stores.empty).1 = .pedTypeCheck := by decide
example : (runCall envX ⟨0, 0, .genericInstance [(0, .cls 10)], false, [(.listOf T, .list [.inst 11, .inst 12]), retNone]⟩ Stores.empty).1 = .ok := by decide
/-- ... and the two later ones: `Box[Any]().m(a=1)`, `f(a=C1(), b=C2())` with `TF = TypeVar('TF', bound='P')` -/
example : (runCall envX ⟨0, 0, .genericInstance [(0, .any)], false, [(T, .inst 2), retNone]⟩ Stores.empty).1 = .ok := by decide
example : (runCall envX (plain [(.tv 4, .inst 11), (.tv 4, .inst 12), retNone]) Stores.empty).1 = .pedTVMismatch := by decide

/-- constraints at depth: `def f(a: Dict[str, List[Optional[TC]]])` with a float inside (instance of `constraints_honoured`) -/
example (s : Stores) :
    (runCall envX (onNG [(.dictOf (.cls 3) (.listOf (.union [.tv 2, NoneA])), .dict [(.inst 3, .list [.inst 2, .inst 1, .inst 5])]), retNone]) s).1 ≠ .ok :=
  constraints_honoured envX wfX.noneOnly _ ⟨_, List.mem_cons_self, by decide⟩ s

/-- a bound spelled as a forward reference, in every store (instance of `bound_honoured`) -/
example (s : Stores) : (runCall envX (onBoxInt [(.tupleOf [.tv 4, .cls 2], .tuple [.inst 14, .inst 2]), retNone]) s).1 ≠ .ok :=
  bound_honoured envX wfX.noneOnly _ ⟨_, List.mem_cons_self, by decide⟩ s

/-- `Box[int]`: `GoodGenerics`, and a call that mentions class parameters only -/
theorem goodBoxInt : GoodGenerics envX [(0, .cls 2)] := by
  intro t X h
  simp only [List.mem_singleton, Prod.mk.injEq] at h
  obtain ⟨rfl, rfl⟩ := h
  decide

example (attr : TVMap) (v : Val) :
    (oneCheck envX (.genericInstance [(0, .cls 2)]) [] attr T v).1 = none ↔ Spec.conforms envX (.cls 2) v = true :=
  instance_T_iff_conforms envX wfX _ goodBoxInt (by decide) 0 (.cls 2) rfl v [] attr

/-- a mixed history — a plain call, two calls on `Box[int]()`, a call on a second instance `Box[str]()`, a plain call with
    unrelated siblings — is inside the guard of `C07_partial`; its verdicts are accept, accept, reject, reject, tvm -/
def mixedHistory : List Call :=
  [plain [(T, .inst 2), (.union [T, NoneA], .inst 2), retNone],
   onBoxInt [(.listOf T, .list [.inst 2, .inst 4]), retNone],
   onBoxInt [(.dictOf (.cls 3) T, .dict [(.inst 3, .inst 3)]), retNone],
   ⟨1, 0, .genericInstance [(0, .cls 3)], false, [(.union [T, NoneA], .inst 2), retNone]⟩,
   plain [(T, .inst 11), (.tupleOf [T], .tuple [.inst 12]), retNone]]

theorem goodBoxStr : GoodGenerics envX [(0, .cls 3)] := by
  intro t X h
  simp only [List.mem_singleton, Prod.mk.injEq] at h
  obtain ⟨rfl, rfl⟩ := h
  decide

example : Spec.specHistory envX mixedHistory = [.accept, .accept, .reject, .reject, .tvm] := by decide

example (s : Stores) : AllDemand (Spec.specHistory envX mixedHistory) (runHistory envX mixedHistory s) := by
  apply C07_partial envX wfX
  intro c hc
  simp only [mixedHistory, List.mem_cons, List.not_mem_nil, or_false] at hc
  rcases hc with rfl | rfl | rfl | rfl | rfl
  · exact ⟨⟨frag_list (by decide), by intro g hg; simp [plain] at hg⟩, Or.inl ⟨rfl, by decide⟩⟩
  · refine ⟨⟨frag_list (by decide), ?_⟩, Or.inr ⟨_, rfl, ?_⟩⟩
    · intro g hg
      simp only [onBoxInt, StoreKind.genericInstance.injEq] at hg
      subst hg
      exact ⟨goodBoxInt, by decide⟩
    · intro ch h; simp [onBoxInt] at h; rcases h with rfl | rfl <;> decide
  · refine ⟨⟨frag_list (by decide), ?_⟩, Or.inr ⟨_, rfl, ?_⟩⟩
    · intro g hg
      simp only [onBoxInt, StoreKind.genericInstance.injEq] at hg
      subst hg
      exact ⟨goodBoxInt, by decide⟩
    · intro ch h; simp [onBoxInt] at h; rcases h with rfl | rfl <;> decide
  · refine ⟨⟨frag_list (by decide), ?_⟩, Or.inr ⟨_, rfl, ?_⟩⟩
    · intro g hg
      simp only [StoreKind.genericInstance.injEq] at hg
      subst hg
      exact ⟨goodBoxStr, by decide⟩
    · intro ch h; simp at h; rcases h with rfl | rfl <;> decide
  · exact ⟨⟨frag_list (by decide), by intro g hg; simp [plain] at hg⟩, Or.inl ⟨rfl, by decide⟩⟩

/-! ### region `methodLevelTypeVarLeaks`: `b = Box[int](); b.other(a=1); b.other(a='s')` with `def other(self, a: S)` -/

def leakHistory : List Call := [onBoxInt [(S, .inst 2), retNone], onBoxInt [(S, .inst 3), retNone]]

/-- the second call raises, although alone on a fresh instance it is accepted and the specification demands `accept` -/
theorem methodLevelTypeVar_leaks : runHistory envX leakHistory Stores.empty = [.ok, .pedTVMismatch] := by decide
theorem methodLevelTypeVar_alone_ok : (runCall envX (onBoxInt [(S, .inst 3), retNone]) Stores.empty).1 = .ok := by decide
theorem methodLevelTypeVar_spec : Spec.specHistory envX leakHistory = [.accept, .accept] := by decide

/-- with bind-once semantics the method-level TypeVar stays bound for the life of the instance to the class of the FIRST value:
    `b.other(a=1); b.other(a=True); b.other(a='s'); b.other(a=2); b.other(a='s')` -/
theorem methodLevelTypeVar_bound_forever :
    runHistory envX [onBoxInt [(S, .inst 2), retNone], onBoxInt [(S, .inst 4), retNone], onBoxInt [(S, .inst 3), retNone],
                     onBoxInt [(S, .inst 2), retNone], onBoxInt [(S, .inst 3), retNone]] Stores.empty
      = [.ok, .ok, .pedTVMismatch, .ok, .pedTVMismatch] := by decide

/-- the guard of `instance_history_independent` fails exactly here: `S` is not a class parameter -/
example : ¬ ClassParamCall (onBoxInt [(S, .inst 3), retNone]) := by
  intro ⟨g, hk, hin⟩
  simp only [onBoxInt, StoreKind.genericInstance.injEq] at hk
  subst hk
  have := hin (S, .inst 3) (by simp [onBoxInt])
  revert this
  decide

/-- **the property does not hold in full** (witness: the leak) -/
theorem C07_full_false : ¬ C07_full := by
  intro h
  have hv : ∀ c ∈ leakHistory, InVocab envX c := by
    intro c hc
    simp only [leakHistory, List.mem_cons, List.not_mem_nil, or_false] at hc
    rcases hc with rfl | rfl
    all_goals
      refine ⟨frag_list (by decide), ?_⟩
      intro g hg
      simp only [onBoxInt, StoreKind.genericInstance.injEq] at hg
      subst hg
      exact ⟨goodBoxInt, by decide⟩
  have := h envX wfX leakHistory hv Stores.empty
  rw [methodLevelTypeVar_leaks, methodLevelTypeVar_spec] at this
  simp [AllDemand, Demands] at this

/-! ### region `nonGenericPedanticClassResetsBindings`: `@pedantic_class class NG: def m2(self, a: T, b: T)`, `def m3(self, a: T) -> T` -/

/-- `ng.m2(a=1, b='x')` is accepted although the specification demands a TypeVarMismatch -/
theorem nonGeneric_resets_params :
    (runCall envX (onNG [(T, .inst 2), (T, .inst 3), retNone]) Stores.empty).1 = .ok ∧
    Spec.specCall envX (onNG [(T, .inst 2), (T, .inst 3), retNone]) = .tvm := by decide

/-- `ng.m3(a=1)` returning `'x'` is accepted -/
theorem nonGeneric_resets_result :
    (runCall envX (onNG [(T, .inst 2), (.cls 0, .inst 3), (T, .inst 3)]) Stores.empty).1 = .ok ∧
    Spec.specCall envX (onNG [(T, .inst 2), (.cls 0, .inst 3), (T, .inst 3)]) = .tvm := by decide

/-- the same calls on the per-call store (directly decorated twin) raise, as `unrelated_rejected` says -/
example : (runCall envX (plain [(T, .inst 2), (T, .inst 3), retNone]) Stores.empty).1 = .pedTVMismatch := by decide

/-- inside ONE check (one access of the store) the binding is kept even there: `ng.ml(a=[1, 'x'])` with `a: List[T]` raises -/
example : (runCall envX (onNG [(.listOf T, .list [.inst 2, .inst 3]), retNone]) Stores.empty).1 = .pedTVMismatch := by decide

/-! ### region `mismatchInsideUnionIsTypeCheck`: `def g(a: T, b: Optional[T])`, `g(a=1, b='s')` -/

theorem mismatch_in_optional_witness :
    (runCall envX (plain [(T, .inst 2), (.union [T, NoneA], .inst 3), retNone]) Stores.empty).1 = .pedTypeCheck ∧
    Spec.specCall envX (plain [(T, .inst 2), (.union [T, NoneA], .inst 3), retNone]) = .tvmInUnion := by decide

/-- not so when the Optional member is a container: `def g(a: T, b: Optional[List[T]])`, `g(a=1, b=['s'])` raises TypeVarMismatch -/
example : (runCall envX (plain [(T, .inst 2), (.union [.listOf T, NoneA], .list [.inst 3]), retNone]) Stores.empty).1 = .pedTVMismatch := by decide

/-! ### the constructor-scan flag and unparametrised instances (modelled, not claimed) -/

example : (runCall envX ⟨0, 0, .genericInstance [], true, [(T, .inst 2), retNone]⟩ Stores.empty).1 = .pedTVMismatch := by decide
/-- `__init__(self, a: T)` of `BoxI[str](a=1)` binds `T` to int in the attribute; after construction the class parameter wins -/
example : runHistory envX [⟨0, 0, .genericInstance [], false, [(T, .inst 2), retNone]⟩,
                           ⟨0, 1, .genericInstance [(0, .cls 3)], false, [(T, .inst 3), retNone]⟩,
                           ⟨0, 1, .genericInstance [(0, .cls 3)], false, [(T, .inst 2), retNone]⟩] Stores.empty
    = [.ok, .ok, .pedTVMismatch] := by decide

end PedVerif.TypeVars
