import PedVerif.Lemmas.TypeVars
/-!
C07 — TypeVars bind consistently within a call and per generic instance, never across.

All theorems are about the model in `Model/TypeVars.lean`, whose decisions come from the generated
`Gen/TypeVars.lean`; the specification they refer to is `Spec/TypeVars.lean`.

Property sentence → theorem
* "within one call ... values of one identical runtime class are accepted"          → `same_class_accepted` (via `walk_refines`, `call_refines`),
                                                                                      in every store kind: plain functions, methods of non-generic and generic `@pedantic_class` classes
* "values of unrelated classes raise PedanticTypeVarMismatchException"              → `unrelated_rejected`; region of the open finding: `mismatch_in_optional_is_typecheck`
* "TypeVar constraints and bounds are honoured"                                     → `constraints_honoured`, `bound_honoured` (every store kind, every state), `nonconforming_rejected`
* "for an instance created as Cls[X](...) ... in any order and any number ... iff it conforms to X"
                                                                                    → `instance_history_independent`, `history_step_alone` (every method, method-level TypeVars included),
                                                                                      `instance_iff_conforms`, `instance_T_iff_conforms`, `instance_call_iff_conforms`
* "bindings made during one call never influence a later call of a plain function or method"
                                                                                    → `plain_calls_independent`, `nonGeneric_calls_independent`, `instance_history_independent`
* "... nor calls on another instance"                                               → `no_cross_instance`
* "within one call ... across parameters, nested positions and the return value" when the BODY of the call makes other checked
  calls before it returns (same instance, other instances, plain functions, any depth): the bindings of a call are its own
                                                                                    → `runTree_out`, `nested_calls_do_not_disturb`, `nested_calls_do_not_disturb_alone`,
                                                                                      `tree_journal_alone` (every call of an arbitrary finite call tree ends as the same call alone),
                                                                                      `C07_tree_partial` / `C07_forest_partial` (every call of every tree meets the stateless specification);
                                                                                      `runTree_leaf` / `runForest_leaves`: the tree model extends the history model
* the same when calls OVERLAP IN TIME without being nested — live generators of one generator function, coroutines of one
  coroutine function in flight (the yielded values are checks of the call, made later): the outcome of a call does not depend on
  the schedule                                                                      → `sched_independent`, `sched_outcome_alone`, `sched_complete_alone`, `C07_sched_partial`
* a `Union` whose TypeVars sit inside one container alternative (`Union[List[N], List[str]]`): a failed alternative contributes nothing
                                                                                    → `bind_after_every_test`, `tvBranch_writes_only_when_accepted` (position facts of the translated
                                                                                      statement list), `alt_union_refines`, `alt_call_refines` (guard: the failing alternative hands the
                                                                                      dict back unchanged; `keeps_first_element`, `keeps_wrong_container`)
* every value collected by `**kwargs: T` is matched against T, whatever the keyword is called → `kwargs_all_checked`, `kwarg_is_checked`, `variadic_call_refines`
* "for an instance created as Cls[X](...)" whatever makes the class generic (explicit Generic[...], a typing alias base, several bases)
                                                                                    → `C07_declared_partial` (histories over instances declared once), `shape_resolves`, `shape_kind_eq_spec`, `declared_call_refines`, `shape_in_init` (the store kind and `Ti ↦ Xi` are DERIVED from the class
                                                                                      shape: rest on `genericsFromOrigClass`, `genericParamsFrom`)
* the whole property as one statement: `C07_full` (refuted: `C07_full_false`), `C07_partial` under `Guard` (= no mismatch at a direct Optional member)
* former regions, now theorems / positive witnesses: `methodLevelTypeVar_per_call`, `nonGeneric_keeps_bindings_params`, `nonGeneric_keeps_bindings_result`
* open regions, witnesses: `mismatch_in_optional_witness`, `failed_alternative_leaves_binding_witness`, `mismatch_in_alternative_aborts_witness`,
  `init_of_generic_instance_unchecked_witness`
* repaired regions (genericParamsFromFirstBase, genericSubclassNotRecognised): `fixed_first_base_with_other_arguments`, `fixed_first_base_without_arguments`,
  `fixed_first_base_in_other_order`, `fixed_generic_subclass_recognised`; what they were, at the former translated facts: `former_generic_params_from_first_base`,
  `former_generic_subclass_not_recognised`
-/
namespace PedVerif.TypeVars
open PedVerif.Gen.TypeVars

/-! ## The call layer: one dict per call -/

theorem failure_none (r : R) : failure r = none ↔ r = .ok true := by
  cases r with
  | ok b => cases b <;> simp [failure]
  | _ => simp [failure]

theorem failure_ne_ok (r : R) (o : Out) (h : failure r = some o) : o ≠ .ok := by
  intro hok
  subst hok
  cases r with
  | ok b => cases b <;> simp [failure] at h
  | raisedTV => simp [failure] at h
  | raisedPed => simp [failure] at h
  | raisedOther => simp only [failure] at h; split at h <;> simp at h

theorem failure_ped (r : R) (o : Out) (h : failure r = some o) : o = .pedTypeCheck ∨ o = .pedTVMismatch := by
  cases r with
  | ok b => cases b <;> simp [failure] at h; exact Or.inl h.symm
  | raisedTV => simp [failure] at h; exact Or.inr h.symm
  | raisedPed => simp [failure] at h; exact Or.inl h.symm
  | raisedOther =>
    have hc : catchesAll = true := by decide
    simp [failure, hc] at h; exact Or.inl h.symm

/-- the store is resolved once per call: the outcome of a call is the outcome of its checks run with ONE dict, the one the
    first access yields -/
theorem runChecks_fst (env : Env) (k : StoreKind) (checks : List (A × Val)) (cm attr : TVMap) :
    (runChecks env k checks cm attr).1 = (runFrom env checks (accessMap k cm attr)).1 := by
  unfold runChecks
  simp only [resolveOncePerCall, ↓reduceIte]
  split <;> rfl

theorem runFrom_out (env : Env) : ∀ (checks : List (A × Val)) (m : TVMap),
    (runFrom env checks m).1 = .ok ∨ (runFrom env checks m).1 = .pedTypeCheck ∨ (runFrom env checks m).1 = .pedTVMismatch := by
  intro checks
  induction checks with
  | nil => intro m; exact Or.inl rfl
  | cons c rest ih =>
    obtain ⟨a, v⟩ := c
    intro m
    simp only [runFrom]
    cases hf : failure (isInst env a v m).1 with
    | some o => exact Or.inr (failure_ped _ o hf)
    | none => exact ih _

/-! ## Histories: per generic instance, across instances, plain calls -/

theorem merge_agree (g : TVMap) : ∀ (S : List TVId) (a₁ a₂ : TVMap), AgreeOn S a₁ a₂ →
    AgreeOn (S ++ keys g) (g.foldl (fun acc kv => acc.set kv.1 kv.2) a₁) (g.foldl (fun acc kv => acc.set kv.1 kv.2) a₂) := by
  induction g with
  | nil => intro S a₁ a₂ h; simpa [keys] using h
  | cons kv rest ih =>
    intro S a₁ a₂ h
    simp only [List.foldl_cons]
    have hstep : AgreeOn (S ++ [kv.1]) (a₁.set kv.1 kv.2) (a₂.set kv.1 kv.2) := by
      intro t ht
      rw [get?_set, get?_set]
      split
      · rfl
      · rename_i hne
        simp only [List.mem_append, List.mem_singleton] at ht
        rcases ht with ht | ht
        · exact h t ht
        · exact absurd ht hne
    have := ih (S ++ [kv.1]) _ _ hstep
    intro t ht
    apply this t
    simp only [keys, List.map_cons, List.mem_append, List.mem_cons, List.not_mem_nil, or_false] at ht ⊢
    rcases ht with ht | ht | ht
    · exact Or.inl (Or.inl ht)
    · exact Or.inl (Or.inr ht)
    · exact Or.inr ht

/-- `{**fifo, **generics}` forgets what `fifo` said about the class parameters -/
theorem merge_indep (g a₁ a₂ : TVMap) : AgreeOn (keys g) (a₁.merge g) (a₂.merge g) := by
  have := merge_agree g [] a₁ a₂ (by intro t ht; simp at ht)
  simpa [TVMap.merge] using this

theorem foldl_set_not_mem : ∀ (b a : TVMap) (t : TVId), t ∉ keys b →
    (b.foldl (fun acc kv => acc.set kv.1 kv.2) a).get? t = a.get? t := by
  intro b
  induction b with
  | nil => intros; rfl
  | cons kv rest ih =>
    intro a t ht
    simp only [keys, List.map_cons, List.mem_cons, not_or] at ht
    simp only [List.foldl_cons]
    rw [ih _ t (by simpa [keys] using ht.2), get?_set_ne _ _ ht.1]

theorem foldl_set_mem : ∀ (b a : TVMap) (t : TVId), (keys b).Nodup → t ∈ keys b →
    (b.foldl (fun acc kv => acc.set kv.1 kv.2) a).get? t = b.get? t := by
  intro b
  induction b with
  | nil => intro a t _ h; simp [keys] at h
  | cons kv rest ih =>
    obtain ⟨k, y⟩ := kv
    intro a t hnd ht
    simp only [keys, List.map_cons, List.nodup_cons] at hnd
    simp only [keys, List.map_cons, List.mem_cons] at ht
    simp only [List.foldl_cons, TVMap.get?]
    by_cases hk : t = k
    · subst hk
      rw [foldl_set_not_mem rest _ t (by simpa [keys] using hnd.1), get?_set_self]
      simp
    · have hkt : (k == t) = false := by simp; exact fun h => hk h.symm
      simp only [hkt, Bool.false_eq_true, ↓reduceIte]
      rcases ht with ht | ht
      · exact absurd ht hk
      · exact ih _ t hnd.2 (by simpa [keys] using ht)

theorem keys_only {m : TVMap} {params : List TVId} {t : TVId} (h : t ∈ keys (m.only params)) : t ∈ params := by
  simp only [keys, TVMap.only, List.mem_map, List.mem_filter] at h
  obtain ⟨kv, ⟨_, hp⟩, rfl⟩ := h
  simpa using hp

/-- `{**fifo, **generics}` forgets what the stored dict said about the class parameters
    (needs: the generics are merged after the stored dict) -/
theorem rebuild_indep (params : List TVId) (g fifo₁ fifo₂ : TVMap) : AgreeOn (keys g) (rebuild params fifo₁ g) (rebuild params fifo₂ g) := by
  simp only [rebuild, genericMergeOrder, List.foldl_cons, List.foldl_nil, srcMap]
  have h := merge_indep g (TVMap.merge [] (if fifoOnlyClassParams then fifo₁.only params else fifo₁))
    (TVMap.merge [] (if fifoOnlyClassParams then fifo₂.only params else fifo₂))
  intro t ht
  have := h t ht
  simpa [TVMap.merge] using this

/-- of the stored dict only class parameters are carried over: when `__orig_class__` binds every class parameter, nothing
    else is bound in the dict a call starts with -/
theorem rebuild_other (params : List TVId) (g attr : TVMap) (hp : ∀ p ∈ params, p ∈ keys g) (t : TVId) (ht : t ∉ keys g) :
    (rebuild params attr g).get? t = none := by
  simp only [rebuild, genericMergeOrder, List.foldl_cons, List.foldl_nil, srcMap, TVMap.merge, fifoOnlyClassParams, ↓reduceIte]
  rw [foldl_set_not_mem g _ t ht, foldl_set_not_mem (attr.only params) _ t (fun h => ht (hp t (keys_only h)))]
  rfl

/-- the dict a call on `Cls[X]()` starts with does not depend on what earlier calls left on the instance -/
theorem rebuild_ext (params : List TVId) (g a₁ a₂ : TVMap) (hp : ∀ p ∈ params, p ∈ keys g) (t : TVId) :
    (rebuild params a₁ g).get? t = (rebuild params a₂ g).get? t := by
  by_cases ht : t ∈ keys g
  · exact rebuild_indep params g a₁ a₂ t ht
  · rw [rebuild_other params g a₁ hp t ht, rebuild_other params g a₂ hp t ht]

def checksIn (ks : List TVId) (checks : List (A × Val)) : Prop := ∀ c ∈ checks, tvsIn ks c.1 = true

theorem tvsIn_of_tvsOf (ks : List TVId) : ∀ a, (∀ t ∈ Spec.tvsOf a, t ∈ ks) → tvsIn ks a = true := by
  apply A.ind (P := fun a => (∀ t ∈ Spec.tvsOf a, t ∈ ks) → tvsIn ks a = true)
    (PL := fun l => (∀ t ∈ Spec.tvsOfL l, t ∈ ks) → tvsInL ks l = true)
  · intro c _; rfl
  · intro _; rfl
  · intro t h; simpa [tvsIn] using h t (by simp [Spec.tvsOf])
  · intro a ih h; simp only [tvsIn]; exact ih (by simpa [Spec.tvsOf] using h)
  · intro k w ihk ihw h
    simp only [Spec.tvsOf, List.mem_append] at h
    simp only [tvsIn, Bool.and_eq_true]
    exact ⟨ihk (fun t ht => h t (Or.inl ht)), ihw (fun t ht => h t (Or.inr ht))⟩
  · intro items ih h; simp only [tvsIn]; exact ih (by simpa [Spec.tvsOf] using h)
  · intro a ih h; simp only [tvsIn]; exact ih (by simpa [Spec.tvsOf] using h)
  · intro ms ih h; simp only [tvsIn]; exact ih (by simpa [Spec.tvsOf] using h)
  · intro a _ _; rfl
  · intro _; rfl
  · intro a as iha ihas h
    simp only [Spec.tvsOfL, List.mem_append] at h
    simp only [tvsInL, Bool.and_eq_true]
    exact ⟨iha (fun t ht => h t (Or.inl ht)), ihas (fun t ht => h t (Or.inr ht))⟩

/-- a whole call with one dict: the outcome depends only on the bindings of the TypeVars its annotations mention -/
theorem runFrom_frame (env : Env) (ks : List TVId) : ∀ (checks : List (A × Val)) (m₁ m₂ : TVMap), checksIn ks checks →
    AgreeOn ks m₁ m₂ → (runFrom env checks m₁).1 = (runFrom env checks m₂).1 := by
  intro checks
  induction checks with
  | nil => intros; rfl
  | cons c rest ih =>
    obtain ⟨a, v⟩ := c
    intro m₁ m₂ hall h
    have hf := isInst_frame env ks a (hall (a, v) (by simp)) v m₁ m₂ h
    simp only [runFrom]
    rw [hf.1]
    cases failure (isInst env a v m₂).1 with
    | some o => rfl
    | none => exact ih _ _ (fun c hc => hall c (by simp [hc])) hf.2

/-- a method call on an instance created as `Cls[X, ...]()`: `__orig_class__` binds every type parameter of the class
    (this excludes `__init__` and unparametrised instances, where `g = []`); the method may use any TypeVars -/
def ParamInstanceCall (c : Call) : Prop :=
  ∃ params g, c.kind = .genericInstance params g ∧ ∀ p ∈ params, p ∈ keys g

/-- whatever happened before — on this instance, on other instances, in plain functions — the outcome of such a call
    is the outcome of the same call made alone on a fresh instance -/
theorem call_alone (env : Env) (c : Call) (hc : ParamInstanceCall c) (s s' : Stores) :
    (runCall env c s).1 = (runCall env c s').1 := by
  obtain ⟨params, g, hk, hp⟩ := hc
  unfold runCall
  rw [hk]
  cases c.scanFails with
  | true => rfl
  | false =>
    simp only
    rw [runChecks_fst, runChecks_fst]
    simp only [accessMap, instanceAccessorSwitch, ↓reduceIte]
    refine runFrom_frame env (Spec.callTVs c) c.checks _ _ ?_ ?_
    · intro ch hch
      apply tvsIn_of_tvsOf
      intro t ht
      simp only [Spec.callTVs, List.mem_flatMap]
      exact ⟨ch, hch, ht⟩
    · intro t _
      exact rebuild_ext params g _ _ hp t

/-- **C07, per generic instance (histories)**: for EVERY finite history of such calls, over any number of instances and
    from any initial stores, the outcome of call i equals the outcome of that call made alone on a fresh instance -/
theorem instance_history_independent (env : Env) : ∀ (h : List Call) (s : Stores), (∀ c ∈ h, ParamInstanceCall c) →
    runHistory env h s = h.map (fun c => (runCall env c Stores.empty).1) := by
  intro h
  induction h with
  | nil => intros; rfl
  | cons c rest ih =>
    intro s hall
    simp only [runHistory, List.map_cons]
    rw [call_alone env c (hall c (by simp)) s Stores.empty, ih _ (fun c hc => hall c (by simp [hc]))]

/-- ... and the same for a single such call inside an ARBITRARY history (calls on unparametrised instances, `__init__`, ...) -/
theorem history_step_alone (env : Env) : ∀ (pre : List Call) (c : Call) (post : List Call) (s : Stores), ParamInstanceCall c →
    (runHistory env (pre ++ c :: post) s)[pre.length]? = some (runCall env c Stores.empty).1 := by
  intro pre
  induction pre with
  | nil => intro c post s hc; simp [runHistory, call_alone env c hc s Stores.empty]
  | cons p pre ih => intro c post s hc; simp only [List.cons_append, runHistory, List.length_cons, List.getElem?_cons_succ]; exact ih c post _ hc

/-- a method with a method-level TypeVar (1) next to the class parameter (0) is inside the claim -/
example : ParamInstanceCall ⟨0, 0, .genericInstance [0] [(0, .cls 7)], false, [(.listOf (.tv 0), .list [.inst 7]), (.union [.tv 1, .cls 1], .inst 1)]⟩ :=
  ⟨_, _, rfl, by decide⟩

/-! ### never across instances -/

theorem Table.get_put_self (s : Table) (k : Nat) (m : TVMap) : (s.put k m).get k = m := by
  induction s with
  | nil => simp [Table.put, Table.get]
  | cons kv r ih =>
    obtain ⟨k', x⟩ := kv
    simp only [Table.put]
    by_cases h : k' = k
    · subst h; simp [Table.get]
    · have : (k' == k) = false := by simp [h]
      simp [this, Table.get, ih]

theorem Table.get_put_ne (s : Table) {k j : Nat} (m : TVMap) (h : j ≠ k) : (s.put k m).get j = s.get j := by
  induction s with
  | nil =>
    have : (k == j) = false := by simp; exact fun h' => h h'.symm
    simp [Table.put, Table.get, this]
  | cons kv r ih =>
    obtain ⟨k', x⟩ := kv
    simp only [Table.put]
    by_cases h' : k' = k
    · subst h'
      have : (k' == j) = false := by simp; exact fun h'' => h h''.symm
      simp [Table.get, this]
    · have h1 : (k' == k) = false := by simp [h']
      simp only [h1, Bool.false_eq_true, ↓reduceIte, Table.get]
      split
      · rfl
      · exact ih

/-- a call reads nothing but the attribute of its own instance ... -/
theorem runCall_reads_own (env : Env) (c : Call) (s s' : Stores) (h : s.attrs.get c.inst = s'.attrs.get c.inst) :
    (runCall env c s).1 = (runCall env c s').1 ∧ (runCall env c s).2.attrs.get c.inst = (runCall env c s').2.attrs.get c.inst := by
  unfold runCall
  simp only [attrKey, storeOnInstance, perCallFreshMap, ↓reduceIte]
  split
  · exact ⟨rfl, h⟩
  · rw [h]
    refine ⟨rfl, ?_⟩
    split
    · simp [Table.get_put_self]
    · exact h

/-- ... and writes nothing but that attribute -/
theorem runCall_writes_own (env : Env) (c : Call) (s : Stores) (j : Nat) (hj : j ≠ c.inst) :
    (runCall env c s).2.attrs.get j = s.attrs.get j := by
  unfold runCall
  simp only [attrKey, storeOnInstance, perCallFreshMap, ↓reduceIte]
  split
  · rfl
  · simp only
    split
    · exact Table.get_put_ne _ _ hj
    · rfl

/-- the outcomes of the calls made on instance `i` -/
def outcomesOn (i : Nat) : List Call → List Out → List Out
  | c :: cs, o :: os => if c.inst == i then o :: outcomesOn i cs os else outcomesOn i cs os
  | _, _ => []

theorem no_cross_instance_aux (env : Env) (i : Nat) : ∀ (h : List Call) (s s' : Stores), s.attrs.get i = s'.attrs.get i →
    outcomesOn i h (runHistory env h s) = runHistory env (h.filter (fun c => c.inst == i)) s' := by
  intro h
  induction h with
  | nil => intros; rfl
  | cons c rest ih =>
    intro s s' hs
    simp only [runHistory, outcomesOn, List.filter_cons]
    by_cases hc : c.inst = i
    · subst hc
      have := runCall_reads_own env c s s' hs
      simp only [beq_self_eq_true, ↓reduceIte, runHistory]
      rw [this.1, ih _ _ this.2]
    · have hb : (c.inst == i) = false := by simp [hc]
      simp only [hb, Bool.false_eq_true, ↓reduceIte]
      apply ih
      rw [runCall_writes_own env c s i (fun h => hc h.symm)]
      exact hs

/-- **C07, never across instances**: in every history the outcomes of the calls on one instance are what they are when
    all calls on other instances (and all plain calls made under another identity) are removed -/
theorem no_cross_instance (env : Env) (i : Nat) (h : List Call) (s : Stores) :
    outcomesOn i h (runHistory env h s) = runHistory env (h.filter (fun c => c.inst == i)) s :=
  no_cross_instance_aux env i h s s rfl

/-! ### plain functions, static and class methods, directly decorated methods, methods of non-generic classes: a fresh dict per call -/

theorem runChecks_perCall_attr (env : Env) (checks : List (A × Val)) (cm attr attr' : TVMap) :
    (runChecks env .perCall checks cm attr).1 = (runChecks env .perCall checks cm attr').1 := by
  rw [runChecks_fst, runChecks_fst]; rfl

/-- **C07, plain calls**: bindings made during one call of a plain function / static / class method / directly decorated
    method never reach a later call — the outcome of a call does not depend on the stores -/
theorem plain_call_alone (env : Env) (c : Call) (hk : c.kind = .perCall) (s s' : Stores) :
    (runCall env c s).1 = (runCall env c s').1 := by
  unfold runCall
  rw [hk]
  simp only [perCallFreshMap, ↓reduceIte]
  exact runChecks_perCall_attr env c.checks [] _ _

theorem plain_calls_independent (env : Env) : ∀ (h : List Call) (s : Stores), (∀ c ∈ h, c.kind = .perCall) →
    runHistory env h s = h.map (fun c => (runCall env c Stores.empty).1) := by
  intro h
  induction h with
  | nil => intros; rfl
  | cons c rest ih =>
    intro s hall
    simp only [runHistory, List.map_cons]
    rw [plain_call_alone env c (hall c (by simp)) s Stores.empty, ih _ (fun c hc => hall c (by simp [hc]))]

/-- a method of an instance of a NON-generic `@pedantic_class` class starts from the fresh dict the accessor installs at the
    first access and keeps it for the whole call: it behaves as a call with the per-call store (formerly the region
    `nonGenericPedanticClassResetsBindings`: the dict was replaced before every parameter and before the result) -/
theorem nonGeneric_is_perCall (env : Env) (checks : List (A × Val)) (cm attr attr' : TVMap) :
    (runChecks env .resetEachAccess checks cm attr).1 = (runChecks env .perCall checks [] attr').1 := by
  rw [runChecks_fst, runChecks_fst]
  simp [accessMap, instanceAccessorSwitch, nonGenericFresh]

theorem nonGeneric_call_alone (env : Env) (c : Call) (hk : c.kind = .resetEachAccess) (s s' : Stores) :
    (runCall env c s).1 = (runCall env c s').1 := by
  unfold runCall
  rw [hk]
  simp only
  rw [nonGeneric_is_perCall env c.checks _ _ [], nonGeneric_is_perCall env c.checks _ _ []]

theorem nonGeneric_calls_independent (env : Env) : ∀ (h : List Call) (s : Stores), (∀ c ∈ h, c.kind = .resetEachAccess) →
    runHistory env h s = h.map (fun c => (runCall env c Stores.empty).1) := by
  intro h
  induction h with
  | nil => intros; rfl
  | cons c rest ih =>
    intro s hall
    simp only [runHistory, List.map_cons]
    rw [nonGeneric_call_alone env c (hall c (by simp)) s Stores.empty, ih _ (fun c hc => hall c (by simp [hc]))]

/-! ## Within one call: constraints and bounds are honoured at every nesting, in every store -/

theorem tvBranch_constraints (env : Env) (t : TVId) (v : Val) (h : violatesConstraints env t (v.typeOf env) = true) (m : TVMap) :
    tvBranch env t v m = (.ok false, m) := by
  rw [tvBranch_eq, tvSem_of_pre env t v m (by rw [tvPre_constraints env t v h]; simp), tvPre_constraints env t v h]

theorem tvBranch_bound (env : Env) (t : TVId) (v : Val) (h : violatesBound env t (v.typeOf env) = true) (m : TVMap) :
    (tvBranch env t v m).1 ≠ .ok true := by
  rw [tvBranch_eq, tvSem_of_pre env t v m (tvPre_bound env t v h)]
  exact tvPre_bound env t v h

/-- a check that cannot succeed makes the call fail, whatever dict the call starts with -/
theorem runFrom_not_ok (env : Env) : ∀ (checks : List (A × Val)),
    (∃ av ∈ checks, ∀ m, (isInst env av.1 av.2 m).1 ≠ .ok true) → ∀ m, (runFrom env checks m).1 ≠ .ok := by
  intro checks
  induction checks with
  | nil => intro ⟨_, h, _⟩; simp at h
  | cons c rest ih =>
    obtain ⟨a, v⟩ := c
    intro ⟨av, hav, hbad⟩ m
    simp only [runFrom]
    cases hf : failure (isInst env a v m).1 with
    | some o => exact failure_ne_ok _ o hf
    | none =>
      simp only [List.mem_cons] at hav
      rcases hav with rfl | hav
      · exact absurd ((failure_none _).mp hf) (hbad _)
      · exact ih ⟨av, hav, hbad⟩ _

theorem runChecks_not_ok (env : Env) (k : StoreKind) (checks : List (A × Val))
    (h : ∃ av ∈ checks, ∀ m, (isInst env av.1 av.2 m).1 ≠ .ok true) (cm attr : TVMap) : (runChecks env k checks cm attr).1 ≠ .ok := by
  rw [runChecks_fst]
  exact runFrom_not_ok env checks h _

theorem runCall_not_ok (env : Env) (c : Call)
    (h : ∃ av ∈ c.checks, ∀ m, (isInst env av.1 av.2 m).1 ≠ .ok true) (s : Stores) : (runCall env c s).1 ≠ .ok := by
  unfold runCall
  split
  · simp only [instanceAccessorSwitch, ↓reduceIte]; simp
  · exact runChecks_not_ok env c.kind c.checks h _ _

/-- **C07, constraints are honoured**: if a value — at any depth of List / Dict / Tuple / Optional nesting, in a parameter
    or in the result — stands at a constrained TypeVar and its runtime class is none of the constraints, the call is not
    accepted: in every store kind, whatever was bound before -/
theorem constraints_honoured (env : Env) (hn : NoneOnly env) (c : Call)
    (h : ∃ av ∈ c.checks, meets env (violatesConstraints env) av.1 av.2 = true) (s : Stores) : (runCall env c s).1 ≠ .ok := by
  obtain ⟨av, hav, hm⟩ := h
  refine runCall_not_ok env c ⟨av, hav, ?_⟩ s
  exact meets_not_true env hn _ (fun t v hb m => by rw [tvBranch_constraints env t v hb m]; simp) av.1 av.2 hm

/-- **C07, bounds are honoured** (same shape; the bound may be spelled as a forward reference) -/
theorem bound_honoured (env : Env) (hn : NoneOnly env) (c : Call)
    (h : ∃ av ∈ c.checks, meets env (violatesBound env) av.1 av.2 = true) (s : Stores) : (runCall env c s).1 ≠ .ok := by
  obtain ⟨av, hav, hm⟩ := h
  refine runCall_not_ok env c ⟨av, hav, ?_⟩ s
  exact meets_not_true env hn _ (fun t v hb m => tvBranch_bound env t v hb m) av.1 av.2 hm

/-- every call ends in a return or in one of the two exceptions of the property (nothing else leaves the checks of the model) -/
theorem runCall_out (env : Env) (c : Call) (s : Stores) :
    (runCall env c s).1 = .ok ∨ (runCall env c s).1 = .pedTypeCheck ∨ (runCall env c s).1 = .pedTVMismatch := by
  unfold runCall
  split
  · simp [instanceAccessorSwitch]
  · simp only
    rw [runChecks_fst]
    exact runFrom_out env c.checks _

/-- **constraints are honoured, with the exception the property names**: such a call raises PedanticTypeCheckException or
    PedanticTypeVarMismatchException (the latter when a mismatch at another position is met first) -/
theorem constraints_rejected (env : Env) (hn : NoneOnly env) (c : Call)
    (h : ∃ av ∈ c.checks, meets env (violatesConstraints env) av.1 av.2 = true) (s : Stores) :
    (runCall env c s).1 = .pedTypeCheck ∨ (runCall env c s).1 = .pedTVMismatch := by
  rcases runCall_out env c s with h0 | h1
  · exact absurd h0 (constraints_honoured env hn c h s)
  · exact h1

theorem bound_rejected (env : Env) (hn : NoneOnly env) (c : Call)
    (h : ∃ av ∈ c.checks, meets env (violatesBound env) av.1 av.2 = true) (s : Stores) :
    (runCall env c s).1 = .pedTypeCheck ∨ (runCall env c s).1 = .pedTVMismatch := by
  rcases runCall_out env c s with h0 | h1
  · exact absurd h0 (bound_honoured env hn c h s)
  · exact h1

/-! ## Per generic instance: a value at a class parameter is accepted iff it conforms to `X` -/

/-- the class parameters of `Cls[X, ...]`: plain TypeVars, each bound to a TypeVar-free annotation of the vocabulary -/
def GoodGenerics (env : Env) (g : TVMap) : Prop :=
  ∀ t X, (t, X) ∈ g → frag env X = true ∧ Spec.closed X = true ∧
    (env.tv t).constraints = [] ∧ (env.tv t).bound = none ∧ (env.tv t).variance ≠ .contra

/-- the dict binds every class parameter to its `X` -/
def BoundAs (g m : TVMap) : Prop := ∀ t ∈ keys g, m.get? t = g.get? t

/-- a value at a class parameter: accepted iff it conforms to `X`, PedanticTypeVarMismatchException otherwise -/
theorem tv_generic (env : Env) (g m : TVMap) (hg : GoodGenerics env g) (t : TVId) (X : TBind) (hX : g.get? t = some X)
    (hm : m.get? t = some X) (v : Val) :
    tvBranch env t v m = (if Spec.conforms env X v then .ok true else .raisedTV, m) := by
  obtain ⟨hf, hc, hcs, hb, hvar⟩ := hg t X (get?_mem g t X hX)
  have hv : ((env.tv t).variance == Variance.contra) = false := by simp [hvar]
  rw [tvBranch_eq]
  simp only [tvSem, tvPre, hcs, hb, hm, tvCmp, hv, List.isEmpty_nil, Bool.not_true, Bool.false_and, Bool.false_eq_true, ↓reduceIte]
  have hci := closedInst_conforms env X hf hc v
  cases X with
  | cls c =>
    simp only [Spec.conforms]
    by_cases hs : env.sub (v.typeOf env) c = true
    · simp [hs]
    · have hs' : env.sub (v.typeOf env) c = false := by simpa using hs
      simp [hs']
  | any => simp [Spec.conforms]
  | tv t' => simp [Spec.closed] at hc
  | listOf a => simp only [hci]; by_cases hs : Spec.conforms env (.listOf a) v = true <;> simp [hs]
  | dictOf k w => simp only [hci]; by_cases hs : Spec.conforms env (.dictOf k w) v = true <;> simp [hs]
  | tupleOf items => simp only [hci]; by_cases hs : Spec.conforms env (.tupleOf items) v = true <;> simp [hs]
  | tupleVar a => simp only [hci]; by_cases hs : Spec.conforms env (.tupleVar a) v = true <;> simp [hs]
  | union ms => simp only [hci]; by_cases hs : Spec.conforms env (.union ms) v = true <;> simp [hs]
  | typeOf a => simp [frag] at hf

theorem allWith_fixed (F : Val → TVMap → R × TVMap) (gx : Val → Bool) (m : TVMap)
    (h : ∀ x, ∃ r, F x m = (r, m) ∧ (r = .ok true ↔ gx x = true)) :
    ∀ xs, ∃ r, allWith F xs m = (r, m) ∧ (r = .ok true ↔ xs.all gx = true) := by
  intro xs
  induction xs with
  | nil => exact ⟨.ok true, rfl, by simp⟩
  | cons x xs ih =>
    obtain ⟨r, hr, hiff⟩ := h x
    simp only [allWith, hr, List.all_cons, Bool.and_eq_true]
    cases r with
    | ok b =>
      cases b with
      | true =>
        obtain ⟨r', hr', hiff'⟩ := ih
        exact ⟨r', hr', by rw [hiff']; simp [hiff.mp rfl]⟩
      | false =>
        refine ⟨.ok false, rfl, ?_⟩
        have : gx x ≠ true := fun hh => by have := hiff.mpr hh; simp at this
        simp [this]
    | raisedTV =>
      refine ⟨.raisedTV, rfl, ?_⟩
      have : gx x ≠ true := fun hh => by have := hiff.mpr hh; simp at this
      simp [this]
    | raisedPed =>
      refine ⟨.raisedPed, rfl, ?_⟩
      have : gx x ≠ true := fun hh => by have := hiff.mpr hh; simp at this
      simp [this]
    | raisedOther =>
      refine ⟨.raisedOther, rfl, ?_⟩
      have : gx x ≠ true := fun hh => by have := hiff.mpr hh; simp at this
      simp [this]

theorem not_true_of_iff {r : R} {b : Bool} (h : r = .ok true ↔ b = true) (hb : b = false) : r ≠ .ok true := by
  intro hr; have := h.mp hr; simp [hb] at this

theorem pairsWith_fixed (Fk Fw : Val → TVMap → R × TVMap) (gk gw : Val → Bool) (m : TVMap)
    (hk : ∀ x, ∃ r, Fk x m = (r, m) ∧ (r = .ok true ↔ gk x = true)) (hw : ∀ x, ∃ r, Fw x m = (r, m) ∧ (r = .ok true ↔ gw x = true)) :
    ∀ kvs, ∃ r, pairsWith Fk Fw kvs m = (r, m) ∧ (r = .ok true ↔ kvs.all (fun kv => gk kv.1 && gw kv.2) = true) := by
  intro kvs
  induction kvs with
  | nil => exact ⟨.ok true, rfl, by simp⟩
  | cons kv rest ih =>
    obtain ⟨x, y⟩ := kv
    obtain ⟨r, hr, hiff⟩ := hk x
    obtain ⟨r2, hr2, hiff2⟩ := hw y
    simp only [pairsWith, hr, List.all_cons, Bool.and_eq_true]
    by_cases h1 : r = .ok true
    · subst h1
      simp only [hr2]
      by_cases h2 : r2 = .ok true
      · subst h2
        obtain ⟨r', hr', hiff'⟩ := ih
        exact ⟨r', hr', by rw [hiff']; simp [hiff.mp rfl, hiff2.mp rfl]⟩
      · have hg : gw y ≠ true := fun hh => h2 (hiff2.mpr hh)
        refine ⟨r2, ?_, by simp [h2, hg]⟩
        cases r2 with
        | ok b => cases b with | true => exact absurd rfl h2 | false => rfl
        | _ => rfl
    · have hg : gk x ≠ true := fun hh => h1 (hiff.mpr hh)
      refine ⟨r, ?_, by simp [h1, hg]⟩
      cases r with
      | ok b => cases b with | true => exact absurd rfl h1 | false => rfl
      | _ => rfl

theorem subst_closed (g : TVMap) : ∀ a, Spec.closed a = true → Spec.subst g a = a := by
  apply A.ind (P := fun a => Spec.closed a = true → Spec.subst g a = a)
    (PL := fun l => Spec.closedL l = true → Spec.substL g l = l)
  · intro c _; rfl
  · intro _; rfl
  · intro t h; simp [Spec.closed] at h
  · intro a ih h; simp only [Spec.subst]; rw [ih (by simpa [Spec.closed] using h)]
  · intro k w ihk ihw h
    simp only [Spec.closed, Bool.and_eq_true] at h
    simp only [Spec.subst]; rw [ihk h.1, ihw h.2]
  · intro items ih h; simp only [Spec.subst]; rw [ih (by simpa [Spec.closed] using h)]
  · intro a ih h; simp only [Spec.subst]; rw [ih (by simpa [Spec.closed] using h)]
  · intro ms ih h; simp only [Spec.subst]; rw [ih (by simpa [Spec.closed] using h)]
  · intro a _ _; rfl
  · intro _; rfl
  · intro a as iha ihas h
    simp only [Spec.closedL, Bool.and_eq_true] at h
    simp only [Spec.substL]; rw [iha h.1, ihas h.2]

/-- `Optional[T]`, `T` a class parameter bound to `X` -/
theorem optional_generic_tv (env : Env) (wf : EnvWF env) (t : TVId) (v : Val) (m : TVMap) (c : Bool)
    (hm : (m.get? t).isSome = true) (htv : tvBranch env t v m = (if c then .ok true else .raisedTV, m)) :
    ∃ r, isInst env (.union [.tv t, .cls env.noneCls]) v m = (r, m) ∧ (r = .ok true ↔ (c || env.sub (v.typeOf env) env.noneCls) = true) := by
  simp only [tvEq, tvEq, A.isTV, ↓reduceIte, Bool.false_eq_true, clsAnn, wf.noneNotBare, Bool.or_false, tvMembers]
  cases hs : env.sub (v.typeOf env) env.noneCls with
  | true => exact ⟨.ok true, rfl, by simp⟩
  | false =>
    simp only [unionTVs, List.filter_cons, hm, ↓reduceIte, List.filter_nil, List.contains_cons, beq_self_eq_true, List.contains_nil,
      Bool.or_false, Bool.not_true, Bool.false_eq_true, tryBounded, htv]
    cases c with
    | true => exact ⟨.ok true, rfl, by simp⟩
    | false =>
      refine ⟨.ok false, ?_, by simp⟩
      simp [swallows, unionSwallows, unionNoUnboundRejects]

/-- `Optional[x]`, `x` a container annotation -/
theorem optional_generic_nontv (env : Env) (wf : EnvWF env) (x : A) (hf : frag env x = true) (hc : Spec.closed x = false)
    (hu : x.isUnion = false) (ht : x.isTV = false) (v : Val) (m : TVMap) (r : R) (c : Bool)
    (hx : isInst env x v m = (r, m)) (hiff : r = .ok true ↔ c = true) :
    ∃ r', isInst env (.union [x, .cls env.noneCls]) v m = (r', m) ∧ (r' = .ok true ↔ (c || env.sub (v.typeOf env) env.noneCls) = true) := by
  have htvm : tvMembers [x, .cls env.noneCls] = [] := by cases x <;> simp_all [tvMembers, A.isTV]
  by_cases hn : v.typeOf env = env.noneCls
  · have hx' := container_on_none env wf x hf hc hu ht v hn m
    have hs : env.sub (v.typeOf env) env.noneCls = true := by rw [sub_none env wf]; simp [hn]
    refine ⟨.ok true, ?_, by simp [hs]⟩
    simp [tvEq, tvEq, ht, isTV_cls, hx', clsAnn, wf.noneNotBare, hs]
  · have hs : env.sub (v.typeOf env) env.noneCls = false := wf.noneOnly _ hn
    simp only [tvEq, tvEq, ht, isTV_cls, Bool.false_eq_true, ↓reduceIte, hx, clsAnn, wf.noneNotBare, hs, htvm, unionTVs_nil,
      Bool.or_false]
    cases r with
    | ok b =>
      cases b with
      | true => exact ⟨.ok true, rfl, by simp [hiff.mp rfl]⟩
      | false =>
        refine ⟨.ok false, rfl, ?_⟩
        have : c ≠ true := fun hh => by have := hiff.mpr hh; simp at this
        simp [this]
    | raisedTV => exact ⟨.raisedTV, rfl, by have : c ≠ true := fun hh => by have := hiff.mpr hh; simp at this
                                            simp [this]⟩
    | raisedPed => exact ⟨.raisedPed, rfl, by have : c ≠ true := fun hh => by have := hiff.mpr hh; simp at this
                                              simp [this]⟩
    | raisedOther => exact ⟨.raisedOther, rfl, by have : c ≠ true := fun hh => by have := hiff.mpr hh; simp at this
                                                  simp [this]⟩

/-- any nesting of class parameters in List / Dict / Tuple / Optional: with every class parameter bound to its `X`, a value
    is accepted iff it conforms to the annotation with `X` put in — and the dict is left as it was -/
theorem generic_iff (env : Env) (wf : EnvWF env) (g m : TVMap) (hg : GoodGenerics env g) (hm : BoundAs g m) :
    ∀ a, frag env a = true → tvsIn (keys g) a = true → ∀ v,
      ∃ r, isInst env a v m = (r, m) ∧ (r = .ok true ↔ Spec.conforms env (Spec.subst g a) v = true) := by
  apply A.ind (P := fun a => frag env a = true → tvsIn (keys g) a = true → ∀ v,
      ∃ r, isInst env a v m = (r, m) ∧ (r = .ok true ↔ Spec.conforms env (Spec.subst g a) v = true))
    (PL := fun l => fragL env l = true → tvsInL (keys g) l = true →
      (∀ a ∈ l, ∀ v, ∃ r, isInst env a v m = (r, m) ∧ (r = .ok true ↔ Spec.conforms env (Spec.subst g a) v = true)) ∧
      (∀ xs, ∃ r, zipInst env l xs m = (r, m) ∧ (r = .ok true ↔ Spec.conformsZip env (Spec.substL g l) xs = true)))
  · intro c hf _ v
    have : env.bareBuiltin c = false := by simpa [frag] using hf
    exact ⟨_, by simp only [tvEq, clsAnn, this]; rfl, by simp [Spec.subst, Spec.conforms]⟩
  · intro _ _ v; exact ⟨.ok true, by simp [tvEq], by simp [Spec.subst, Spec.conforms]⟩
  · intro t _ ht v
    have hk : t ∈ keys g := by simpa [tvsIn] using ht
    obtain ⟨X, hX⟩ := get?_of_key g t hk
    have hmX : m.get? t = some X := by rw [hm t hk, hX]
    refine ⟨_, by simp only [tvEq]; exact tv_generic env g m hg t X hX hmX v, ?_⟩
    simp only [Spec.subst, hX]
    by_cases hc : Spec.conforms env X v = true <;> simp [hc]
  · intro a ih hf ht v
    have iha := ih (by simpa [frag] using hf) (by simpa [tvsIn] using ht)
    cases v with
    | list xs => simp only [tvEq, Spec.subst, Spec.conforms]; exact allWith_fixed _ _ m iha xs
    | _ => exact ⟨.ok false, by simp [tvEq], by simp [Spec.subst, Spec.conforms]⟩
  · intro k w ihk ihw hf ht v
    simp only [frag, Bool.and_eq_true] at hf
    simp only [tvsIn, Bool.and_eq_true] at ht
    cases v with
    | dict kvs => simp only [tvEq, Spec.subst, Spec.conforms]; exact pairsWith_fixed _ _ _ _ m (ihk hf.1 ht.1) (ihw hf.2 ht.2) kvs
    | _ => exact ⟨.ok false, by simp [tvEq], by simp [Spec.subst, Spec.conforms]⟩
  · intro items ih hf ht v
    simp only [frag, Bool.and_eq_true, Bool.not_eq_eq_eq_not, Bool.not_true] at hf
    have hz := (ih hf.2 (by simpa [tvsIn] using ht)).2
    have hlen : ∀ l : List A, (Spec.substL g l).length = l.length := by
      intro l; induction l with | nil => rfl | cons a as ih => simp [Spec.substL, ih]
    simp only [tvEq, tuple_args_ok' items hf.1, Bool.false_eq_true, ↓reduceIte, Spec.subst]
    cases v with
    | tuple xs =>
      simp only [Spec.conforms, hlen]
      by_cases hl : xs.length = items.length
      · obtain ⟨r, hr, hiff⟩ := hz xs
        exact ⟨r, by simp [hl, hr], by simp [hl, hiff]⟩
      · exact ⟨.ok false, by simp [hl], by simp [hl]⟩
    | _ => exact ⟨.ok false, rfl, by simp [Spec.conforms]⟩
  · intro a ih hf ht v
    have iha := ih (by simpa [frag] using hf) (by simpa [tvsIn] using ht)
    cases v with
    | tuple xs => simp only [tvEq, Spec.subst, Spec.conforms]; exact allWith_fixed _ _ m iha xs
    | _ => exact ⟨.ok false, by simp [tvEq], by simp [Spec.subst, Spec.conforms]⟩
  · intro ms ih hf ht v
    have hf0 := hf
    simp only [frag, Bool.and_eq_true, Bool.or_eq_true] at hf
    obtain ⟨hshape, hfl⟩ := hf
    by_cases hcl : Spec.closedL ms = true
    · have hc : Spec.closed (.union ms) = true := by simpa [Spec.closed] using hcl
      rw [subst_closed g _ hc, isInst_closed_conforms env _ hf0 hc v m]
      exact ⟨_, rfl, by simp⟩
    · have hopt : fragOpt env ms = true := by rcases hshape with h | h; exact absurd h hcl; exact h
      have hmem := (ih hfl (by simpa [tvsIn] using ht)).1
      match ms, hopt, hcl, hmem, hfl, ht with
      | [x, .cls n], hopt, hcl, hmem, hfl, ht =>
        simp only [fragOpt, Bool.and_eq_true, beq_iff_eq, Bool.not_eq_eq_eq_not, Bool.not_true] at hopt
        obtain ⟨hn, hu⟩ := hopt
        subst hn
        have hxc : Spec.closed x = false := by
          simp only [Spec.closedL, Spec.closed, Bool.and_true] at hcl
          simpa using hcl
        have hfx : frag env x = true := by simp only [fragL, Bool.and_eq_true] at hfl; exact hfl.1
        obtain ⟨r, hr, hiff⟩ := hmem x (by simp) v
        have hsub : Spec.conforms env (Spec.subst g (.union [x, .cls env.noneCls])) v
            = (Spec.conforms env (Spec.subst g x) v || env.sub (v.typeOf env) env.noneCls) := by
          simp [Spec.subst, Spec.substL, Spec.conforms, Spec.conformsAny]
        rw [hsub]
        by_cases htv : x.isTV = true
        · cases x with
          | tv t =>
            have hk : t ∈ keys g := by simpa [tvsIn, tvsInL] using ht
            obtain ⟨X, hX⟩ := get?_of_key g t hk
            have hmX : m.get? t = some X := by rw [hm t hk, hX]
            have := optional_generic_tv env wf t v m (Spec.conforms env X v) (by simp [hmX]) (tv_generic env g m hg t X hX hmX v)
            simpa [Spec.subst, hX] using this
          | _ => simp [A.isTV] at htv
        · exact optional_generic_nontv env wf x hfx hxc hu (by simpa using htv) v m r _ hr hiff
  · intro a _ hf; simp [frag] at hf
  · intro _ _
    exact ⟨by intro a ha; simp at ha, by intro xs; exact ⟨.ok true, by simp [tvEq], by simp [Spec.substL, Spec.conformsZip]⟩⟩
  · intro a as iha ihas hf ht
    simp only [fragL, Bool.and_eq_true] at hf
    simp only [tvsInL, Bool.and_eq_true] at ht
    have ha := iha hf.1 ht.1
    obtain ⟨hmem, hz⟩ := ihas hf.2 ht.2
    refine ⟨?_, ?_⟩
    · intro b hb
      simp only [List.mem_cons] at hb
      rcases hb with rfl | hb
      · exact ha
      · exact hmem b hb
    · intro xs
      cases xs with
      | nil => exact ⟨.ok true, by simp [tvEq], by simp [Spec.substL, Spec.conformsZip]⟩
      | cons x xs =>
        obtain ⟨r, hr, hiff⟩ := ha x
        simp only [tvEq, hr, Spec.substL, Spec.conformsZip, Bool.and_eq_true]
        by_cases h1 : r = .ok true
        · subst h1
          obtain ⟨r', hr', hiff'⟩ := hz xs
          exact ⟨r', hr', by rw [hiff']; simp [hiff.mp rfl]⟩
        · have hgx : Spec.conforms env (Spec.subst g a) x ≠ true := fun hh => h1 (hiff.mpr hh)
          refine ⟨r, ?_, by simp [h1, hgx]⟩
          cases r with
          | ok b => cases b with | true => exact absurd rfl h1 | false => rfl
          | _ => rfl

/-- the dict a call starts with binds the class parameters to their `X`, whatever earlier calls — `__init__` included —
    left on the instance -/
theorem rebuild_boundAs (params : List TVId) (g attr : TVMap) (hnd : (keys g).Nodup) : BoundAs g (rebuild params attr g) := by
  intro t ht
  simp only [rebuild, genericMergeOrder, List.foldl_cons, List.foldl_nil, srcMap, TVMap.merge]
  exact foldl_set_mem g _ t hnd ht

/-- **C07, per generic instance**: with the class parameters bound to `X` — as they are in the dict every call on `Cls[X]()`
    starts with (`rebuild_boundAs`) and stay during the call (`walk_refines`) — one check of a value against an annotation that
    nests class parameters in List / Dict / Tuple / Optional succeeds iff the value conforms to the annotation with `X` put in -/
theorem instance_iff_conforms (env : Env) (wf : EnvWF env) (g m : TVMap) (hg : GoodGenerics env g) (hm : BoundAs g m)
    (a : A) (hf : frag env a = true) (ht : tvsIn (keys g) a = true) (v : Val) :
    failure (isInst env a v m).1 = none ↔ Spec.conforms env (Spec.subst g a) v = true := by
  obtain ⟨r, hr, hiff⟩ := generic_iff env wf g m hg hm a hf ht v
  rw [hr, failure_none]
  exact hiff

/-- the clause as the property words it: a value for a `T`-annotated parameter or result is accepted iff it conforms to `X` -/
theorem instance_T_iff_conforms (env : Env) (wf : EnvWF env) (g m : TVMap) (hg : GoodGenerics env g) (hm : BoundAs g m)
    (t : TVId) (X : TBind) (hX : g.get? t = some X) (v : Val) :
    failure (isInst env (.tv t) v m).1 = none ↔ Spec.conforms env X v = true := by
  have hk : t ∈ keys g := by
    have := get?_mem g t X hX
    simp only [keys, List.mem_map]
    exact ⟨(t, X), this, rfl⟩
  have := instance_iff_conforms env wf g m hg hm (.tv t) (by simp [frag]) (by simpa [tvsIn] using hk) v
  simpa [Spec.subst, hX] using this

theorem runFrom_generic (env : Env) (wf : EnvWF env) (g m : TVMap) (hg : GoodGenerics env g) (hm : BoundAs g m) :
    ∀ (checks : List (A × Val)), (∀ c ∈ checks, frag env c.1 = true ∧ tvsIn (keys g) c.1 = true) →
    ((runFrom env checks m).1 = .ok ↔ ∀ c ∈ checks, Spec.conforms env (Spec.subst g c.1) c.2 = true) := by
  intro checks
  induction checks with
  | nil => intro _; simp [runFrom]
  | cons c rest ih =>
    obtain ⟨a, v⟩ := c
    intro hall
    obtain ⟨r, hr, hiff⟩ := generic_iff env wf g m hg hm a (hall (a, v) (by simp)).1 (hall (a, v) (by simp)).2 v
    simp only [runFrom, hr, List.mem_cons, forall_eq_or_imp]
    cases hf : failure r with
    | some o =>
      have hne : o ≠ .ok := failure_ne_ok _ o hf
      have hnc : ¬ Spec.conforms env (Spec.subst g a) v = true := fun hh => by
        have := (failure_none r).mpr (hiff.mpr hh); rw [hf] at this; simp at this
      constructor
      · intro h; exact absurd h hne
      · intro h; exact absurd h.1 hnc
    | none =>
      simp only
      rw [ih (fun c hc => hall c (by simp [hc]))]
      simp [hiff.mp ((failure_none r).mp hf)]

/-- ... and for a whole call (all parameters, then the result) of a method that mentions class parameters only: accepted iff
    every value conforms — from every state of the instance -/
theorem instance_call_iff_conforms (env : Env) (wf : EnvWF env) (params : List TVId) (g : TVMap) (hg : GoodGenerics env g)
    (hnd : (keys g).Nodup) (checks : List (A × Val)) (hall : ∀ c ∈ checks, frag env c.1 = true ∧ tvsIn (keys g) c.1 = true) (cm attr : TVMap) :
    ((runChecks env (.genericInstance params g) checks cm attr).1 = .ok ↔ ∀ c ∈ checks, Spec.conforms env (Spec.subst g c.1) c.2 = true) := by
  rw [runChecks_fst]
  simp only [accessMap, instanceAccessorSwitch, ↓reduceIte]
  exact runFrom_generic env wf g _ hg (rebuild_boundAs params g attr hnd) checks hall

/-! ## Within one call: the model refines the specification — per-call store, non-generic and generic instances alike -/

theorem get?_none_of_not_key : ∀ (g : TVMap) (t : TVId), t ∉ keys g → g.get? t = none := by
  intro g
  induction g with
  | nil => intros; rfl
  | cons kv rest ih =>
    obtain ⟨k, b⟩ := kv
    intro t ht
    simp only [keys, List.map_cons, List.mem_cons, not_or] at ht
    have : (k == t) = false := by simp; exact fun h => ht.1 h.symm
    simp only [TVMap.get?, this, Bool.false_eq_true, ↓reduceIte]
    exact ih t (by simpa [keys] using ht.2)

theorem ne_nil_of_key {g : TVMap} {t : TVId} (h : t ∈ keys g) : g ≠ [] := by
  intro hg; subst hg; simp [keys] at h

/-- `Optional[y]` in the specification, `y` closed or not -/
theorem walkUnion_opt (env : Env) (wf : EnvWF env) (y : A) (v : Val) (s : Spec.Seen) :
    Spec.walkUnion env [y, .cls env.noneCls] v s =
      if v.typeOf env == env.noneCls then .cont s else Spec.inOptional y.isTV (Spec.walk env y v s) := by
  by_cases hc : Spec.closed y = true
  · have hw := walk_closed env y hc v s
    have hn : Spec.conforms env (.cls env.noneCls) v = (v.typeOf env == env.noneCls) := by
      simp only [Spec.conforms]; exact sub_none env wf v
    simp only [Spec.walkUnion, hc, Spec.closed, Bool.and_self, ↓reduceIte, hn, hw]
    by_cases hv : (v.typeOf env == env.noneCls) = true
    · simp [hv]
    · have hv' : (v.typeOf env == env.noneCls) = false := by simpa using hv
      simp only [hv', Bool.or_false, Bool.false_eq_true, ↓reduceIte]
      by_cases hcf : Spec.conforms env y v = true <;> simp [hcf, Spec.inOptional]
  · have hc' : Spec.closed y = false := by simpa using hc
    simp [Spec.walkUnion, hc', Spec.closed, Spec.isNoneCls]

/-- `Optional[T]`, `T` a class parameter bound to `X`: exactly `conforms X v or v is None` -/
theorem optional_generic_tv_exact (env : Env) (wf : EnvWF env) (t : TVId) (v : Val) (m : TVMap) (c : Bool)
    (hm : (m.get? t).isSome = true) (htv : tvBranch env t v m = (if c then .ok true else .raisedTV, m)) :
    isInst env (.union [.tv t, .cls env.noneCls]) v m = (.ok (c || env.sub (v.typeOf env) env.noneCls), m) := by
  simp only [tvEq, tvEq, A.isTV, ↓reduceIte, Bool.false_eq_true, clsAnn, wf.noneNotBare, Bool.or_false, tvMembers]
  cases hs : env.sub (v.typeOf env) env.noneCls with
  | true => simp
  | false =>
    simp only [unionTVs, List.filter_cons, hm, ↓reduceIte, List.filter_nil, List.contains_cons, beq_self_eq_true, List.contains_nil,
      Bool.or_false, Bool.not_true, Bool.false_eq_true, tryBounded, htv]
    cases c with
    | true => simp
    | false => simp [swallows, unionSwallows, unionNoUnboundRejects]

/-- `Optional[T]`, `T` not a class parameter, against the specification -/
theorem optional_tv_refines (env : Env) (wf : EnvWF env) (g : TVMap) (t : TVId) (ht : t ∉ keys g) (v : Val) (s : Spec.Seen) (m : TVMap)
    (h : Inv g s m) :
    Refines g (if v.typeOf env == env.noneCls then .cont s else Spec.inOptional true (Spec.walkTV env t v s))
      (isInst env (.union [.tv t, .cls env.noneCls]) v m) := by
  simp only [tvEq, tvEq, A.isTV, ↓reduceIte, Bool.false_eq_true, clsAnn, wf.noneNotBare, Bool.or_false, tvMembers,
    sub_none env wf]
  by_cases hn : v.typeOf env = env.noneCls
  · simp only [hn, beq_self_eq_true, ↓reduceIte]; exact ⟨rfl, h⟩
  · have hne : (v.typeOf env == env.noneCls) = false := by simp [hn]
    simp only [hne, Bool.false_eq_true, ↓reduceIte, unionTVs, List.filter_cons, List.filter_nil]
    have htv := tv_refines env wf g t ht v s m h
    cases hg : (m.get? t).isSome with
    | true =>
      simp only [↓reduceIte, List.contains_cons, beq_self_eq_true, List.contains_nil, Bool.or_false, Bool.not_true, Bool.false_eq_true,
        tryBounded]
      rcases hr : tvBranch env t v m with ⟨r, m'⟩
      rw [hr] at htv
      cases hw : Spec.walkTV env t v s with
      | cont s' =>
        rw [hw] at htv
        obtain ⟨h1, h2⟩ := htv
        simp only at h1 h2
        subst h1
        exact ⟨rfl, h2⟩
      | stop vd =>
        rw [hw] at htv
        cases vd with
        | accept => exact htv.elim
        | unclaimed => simp [Spec.inOptional, Refines]
        | tvm =>
          have h1 : r = .raisedTV := htv
          subst h1
          simp [Spec.inOptional, Refines, swallows, unionSwallows, unionNoUnboundRejects]
        | tvmInUnion =>
          have h1 : r = .ok false := htv
          subst h1
          simp [Spec.inOptional, Refines, unionBoundedTestsVerdict, unionNoUnboundRejects]
        | reject =>
          -- a rejection at a TypeVar that is not a class parameter is `False` (constraint / bound), never a mismatch
          have h1 : r = .ok false := by
            have hwr := hw
            rw [walkTV_eq] at hwr
            have hpre := tvPre_eq env wf t v
            have hne' : tvPre env t v ≠ .ok true := by
              rw [hpre]
              intro hh
              simp only [R.ok.injEq, Bool.and_eq_true, Bool.not_eq_eq_eq_not, Bool.not_true] at hh
              rw [hh.1, hh.2] at hwr
              simp only [Bool.false_eq_true, ↓reduceIte] at hwr
              unfold walkTail at hwr
              split at hwr
              · simp at hwr
              · split at hwr
                · simp at hwr
                · split at hwr
                  · simp at hwr
                  · split at hwr <;> simp at hwr
            have := tvSem_of_pre env t v m hne'
            rw [← tvBranch_eq, hr] at this
            have hrr : r = tvPre env t v := by simpa using congrArg Prod.fst this
            rw [hrr, hpre]
            rw [hpre] at hne'
            cases hb : (!violatesConstraints env t (v.typeOf env) && !violatesBound env t (v.typeOf env)) with
            | true => rw [hb] at hne'; exact absurd rfl hne'
            | false => rfl
          subst h1
          simp [Spec.inOptional, Refines, RejectOK, unionBoundedTestsVerdict, unionNoUnboundRejects]
    | false =>
      simp only [Bool.false_eq_true, ↓reduceIte, List.contains_nil, Bool.not_false, tryBounded, unionSingleUnboundChecked]
      -- an unbound TypeVar cannot meet a mismatch: the walk binds, or rejects for a constraint / the bound
      have hnone : s.get? t = none := by
        have := h.2 t ht
        cases hs : s.get? t with
        | none => rfl
        | some c => rw [hs] at this; simp [this] at hg
      have hw : Spec.inOptional true (Spec.walkTV env t v s) = Spec.walkTV env t v s := by
        rw [walkTV_eq]
        unfold walkTail
        rw [hnone]
        split
        · rfl
        · split <;> rfl
      rw [hw]
      exact htv

theorem subst_container_not_tv (g : TVMap) (x : A) (ht : x.isTV = false) (hu : x.isUnion = false) : (Spec.subst g x).isTV = false := by
  cases x <;> simp_all [Spec.subst, A.isTV, A.isUnion]

/-- `Optional[x]`, `x` a container annotation, against the specification (`y` is `x` with the class parameters replaced) -/
theorem optional_nontv_refines (env : Env) (wf : EnvWF env) (g : TVMap) (x y : A) (hf : frag env x = true) (hc : Spec.closed x = false)
    (hu : x.isUnion = false) (ht : x.isTV = false) (v : Val) (s : Spec.Seen) (m : TVMap) (h : Inv g s m)
    (ih : Refines g (Spec.walk env y v s) (isInst env x v m)) :
    Refines g (if v.typeOf env == env.noneCls then .cont s else Spec.inOptional false (Spec.walk env y v s))
      (isInst env (.union [x, .cls env.noneCls]) v m) := by
  have htvm : tvMembers [x, .cls env.noneCls] = [] := by cases x <;> simp_all [tvMembers, A.isTV]
  by_cases hn : v.typeOf env = env.noneCls
  · have hx' := container_on_none env wf x hf hc hu ht v hn m
    have hs : env.sub (v.typeOf env) env.noneCls = true := by rw [sub_none env wf]; simp [hn]
    simp only [hn, beq_self_eq_true, ↓reduceIte]
    have : isInst env (.union [x, .cls env.noneCls]) v m = (.ok true, m) := by
      simp [tvEq, tvEq, ht, isTV_cls, hx', clsAnn, wf.noneNotBare, hs]
    rw [this]
    exact ⟨rfl, h⟩
  · have hs : env.sub (v.typeOf env) env.noneCls = false := wf.noneOnly _ hn
    have hne : (v.typeOf env == env.noneCls) = false := by simp [hn]
    simp only [hne, Bool.false_eq_true, ↓reduceIte]
    rcases hr : isInst env x v m with ⟨r, m'⟩
    rw [hr] at ih
    simp only [tvEq, tvEq, ht, isTV_cls, Bool.false_eq_true, ↓reduceIte, hr, clsAnn, wf.noneNotBare, hs, htvm, unionTVs_nil,
      Bool.or_false]
    cases hw : Spec.walk env y v s with
    | cont s' =>
      rw [hw] at ih
      obtain ⟨h1, h2⟩ := ih
      simp only at h1 h2
      subst h1
      exact ⟨rfl, h2⟩
    | stop vd =>
      rw [hw] at ih
      cases vd with
      | accept => exact ih.elim
      | unclaimed => simp [Spec.inOptional, Refines]
      | tvm => have h1 : r = .raisedTV := ih; subst h1; simp [Spec.inOptional, Refines]
      | tvmInUnion => have h1 : r = .ok false := ih; subst h1; simp [Spec.inOptional, Refines]
      | reject =>
        have h1 : RejectOK g r := ih
        rcases h1 with rfl | ⟨hg, rfl⟩
        · simp [Spec.inOptional, Refines, RejectOK]
        · simp only [Spec.inOptional, Refines]; exact Or.inr ⟨hg, rfl⟩

/-- **the model refines the specification**: started with a dict that binds the class parameters of the instance (none for
    the per-call store) to their `X` and, of the other TypeVars, what the specification has seen, one check ends as the
    specification of the annotation with `X` put in says (where it says something), and keeps that relation -/
theorem walk_refines (env : Env) (wf : EnvWF env) (g : TVMap) (hg : GoodGenerics env g) :
    ∀ a, frag env a = true → ∀ v s m, Inv g s m → Refines g (Spec.walk env (Spec.subst g a) v s) (isInst env a v m) := by
  have hlen : ∀ l : List A, (Spec.substL g l).length = l.length := by
    intro l; induction l with | nil => rfl | cons a as ih => simp [Spec.substL, ih]
  apply A.ind (P := fun a => frag env a = true → ∀ v s m, Inv g s m → Refines g (Spec.walk env (Spec.subst g a) v s) (isInst env a v m))
    (PL := fun l => fragL env l = true →
      (∀ a ∈ l, ∀ v s m, Inv g s m → Refines g (Spec.walk env (Spec.subst g a) v s) (isInst env a v m)) ∧
      (∀ xs s m, Inv g s m → Refines g (Spec.walkZip env (Spec.substL g l) xs s) (zipInst env l xs m)))
  · intro c hf v s m h
    have : env.bareBuiltin c = false := by simpa [frag] using hf
    simp only [Spec.subst, Spec.walk, tvEq, clsAnn, this, Bool.false_eq_true, ↓reduceIte]
    cases env.sub (v.typeOf env) c with
    | true => exact ⟨rfl, h⟩
    | false => simp [Refines, RejectOK]
  · intro _ v s m h; simp only [Spec.subst, Spec.walk, tvEq]; exact ⟨rfl, h⟩
  · intro t _ v s m h
    by_cases hk : t ∈ keys g
    · obtain ⟨X, hX⟩ := get?_of_key g t hk
      have hmX : m.get? t = some X := by rw [h.1 t hk, hX]
      have hXc : Spec.closed X = true := (hg t X (get?_mem g t X hX)).2.1
      have hm : BoundAs g m := h.1
      simp only [Spec.subst, hX, tvEq, tv_generic env g m hg t X hX hmX v, walk_closed env X hXc v s]
      by_cases hc : Spec.conforms env X v = true
      · simp only [hc, ↓reduceIte]; exact ⟨rfl, h⟩
      · simp only [hc, Bool.false_eq_true, ↓reduceIte]; exact Or.inr ⟨ne_nil_of_key hk, rfl⟩
    · simp only [Spec.subst, get?_none_of_not_key g t hk, Spec.walk, tvEq]
      exact tv_refines env wf g t hk v s m h
  · intro a ih hf v s m h
    have iha := ih (by simpa [frag] using hf)
    cases v with
    | list xs => simp only [Spec.subst, Spec.walk, tvEq]; exact allWith_refines g _ _ iha xs s m h
    | _ => simp [Spec.subst, Spec.walk, tvEq, Refines, RejectOK]
  · intro k w ihk ihw hf v s m h
    simp only [frag, Bool.and_eq_true] at hf
    cases v with
    | dict kvs => simp only [Spec.subst, Spec.walk, tvEq]; exact pairsWith_refines g _ _ _ _ (ihk hf.1) (ihw hf.2) kvs s m h
    | _ => simp [Spec.subst, Spec.walk, tvEq, Refines, RejectOK]
  · intro items ih hf v s m h
    simp only [frag, Bool.and_eq_true, Bool.not_eq_eq_eq_not, Bool.not_true] at hf
    have hz := (ih hf.2).2
    simp only [Spec.subst, Spec.walk, tvEq, tuple_args_ok' items hf.1, Bool.false_eq_true, ↓reduceIte, hlen]
    cases v with
    | tuple xs =>
      simp only
      by_cases hl : (xs.length != items.length) = true
      · simp [hl, Refines, RejectOK]
      · simp only [hl, Bool.false_eq_true, ↓reduceIte]; exact hz xs s m h
    | _ => simp [Refines, RejectOK]
  · intro a ih hf v s m h
    have iha := ih (by simpa [frag] using hf)
    cases v with
    | tuple xs => simp only [Spec.subst, Spec.walk, tvEq]; exact allWith_refines g _ _ iha xs s m h
    | _ => simp [Spec.subst, Spec.walk, tvEq, Refines, RejectOK]
  · intro ms ih hf v s m h
    have hf0 := hf
    simp only [frag, Bool.and_eq_true, Bool.or_eq_true] at hf
    obtain ⟨hshape, hfl⟩ := hf
    by_cases hcl : Spec.closedL ms = true
    · have hc : Spec.closed (.union ms) = true := by simpa [Spec.closed] using hcl
      rw [subst_closed g _ hc]
      simp only [Spec.walk]
      rw [walkUnion_closed env ms hcl v s, isInst_closed_conforms env _ hf0 hc v m]
      simp only [Spec.conforms]
      cases Spec.conformsAny env ms v with
      | true => exact ⟨rfl, h⟩
      | false => simp [Refines, RejectOK]
    · have hopt : fragOpt env ms = true := by rcases hshape with h' | h'; exact absurd h' hcl; exact h'
      have hmem := (ih hfl).1
      match ms, hopt, hcl, hmem, hfl with
      | [x, .cls n], hopt, hcl, hmem, hfl =>
        simp only [fragOpt, Bool.and_eq_true, beq_iff_eq, Bool.not_eq_eq_eq_not, Bool.not_true] at hopt
        obtain ⟨hn, hu⟩ := hopt
        subst hn
        have hxc : Spec.closed x = false := by
          simp only [Spec.closedL, Spec.closed, Bool.and_true] at hcl
          simpa using hcl
        have hfx : frag env x = true := by simp only [fragL, Bool.and_eq_true] at hfl; exact hfl.1
        have hsub : Spec.subst g (.union [x, .cls env.noneCls]) = .union [Spec.subst g x, .cls env.noneCls] := by
          simp [Spec.subst, Spec.substL]
        rw [hsub]
        simp only [Spec.walk]
        rw [walkUnion_opt env wf]
        by_cases htv : x.isTV = true
        · cases x with
          | tv t =>
            by_cases hk : t ∈ keys g
            · obtain ⟨X, hX⟩ := get?_of_key g t hk
              have hmX : m.get? t = some X := by rw [h.1 t hk, hX]
              have hXc : Spec.closed X = true := (hg t X (get?_mem g t X hX)).2.1
              rw [optional_generic_tv_exact env wf t v m (Spec.conforms env X v) (by simp [hmX]) (tv_generic env g m hg t X hX hmX v)]
              simp only [Spec.subst, hX, walk_closed env X hXc v s, sub_none env wf]
              by_cases hn : (v.typeOf env == env.noneCls) = true
              · simp only [hn, ↓reduceIte, Bool.or_true]; exact ⟨rfl, h⟩
              · have hn' : (v.typeOf env == env.noneCls) = false := by simpa using hn
                simp only [hn', Bool.false_eq_true, ↓reduceIte, Bool.or_false]
                by_cases hc : Spec.conforms env X v = true
                · simp only [hc, ↓reduceIte, Spec.inOptional]; exact ⟨rfl, h⟩
                · have hc' : Spec.conforms env X v = false := by simpa using hc
                  simp only [hc', Bool.false_eq_true, ↓reduceIte, Spec.inOptional]
                  exact Or.inl rfl
            · simp only [Spec.subst, get?_none_of_not_key g t hk, A.isTV, Spec.walk]
              exact optional_tv_refines env wf g t hk v s m h
          | _ => simp [A.isTV] at htv
        · have htv' : x.isTV = false := by simpa using htv
          rw [subst_container_not_tv g x htv' hu]
          exact optional_nontv_refines env wf g x (Spec.subst g x) hfx hxc hu htv' v s m h (hmem x (by simp) v s m h)
  · intro a _ hf; simp [frag] at hf
  · intro _
    exact ⟨by intro a ha; simp at ha, by intro xs s m h; simp only [Spec.substL, Spec.walkZip, tvEq]; exact ⟨rfl, h⟩⟩
  · intro a as iha ihas hf
    simp only [fragL, Bool.and_eq_true] at hf
    have ha := iha hf.1
    obtain ⟨hmem, hz⟩ := ihas hf.2
    refine ⟨?_, ?_⟩
    · intro b hb
      simp only [List.mem_cons] at hb
      rcases hb with rfl | hb
      · exact ha
      · exact hmem b hb
    · intro xs s m h
      cases xs with
      | nil => simp only [Spec.substL, Spec.walkZip, tvEq]; exact ⟨rfl, h⟩
      | cons x xs =>
        have hx := ha x s m h
        simp only [Spec.substL, Spec.walkZip, tvEq]
        rcases hF : isInst env a x m with ⟨r, m'⟩
        rw [hF] at hx
        cases hw : Spec.walk env (Spec.subst g a) x s with
        | cont s' =>
          rw [hw] at hx
          obtain ⟨hr, hsim⟩ := hx
          simp only at hr hsim
          subst hr
          exact hz xs s' m' hsim
        | stop vd =>
          rw [hw] at hx
          simp only
          cases vd with
          | accept => exact hx.elim
          | unclaimed => trivial
          | tvm => have hr : r = .raisedTV := hx; subst hr; rfl
          | tvmInUnion => have hr : r = .ok false := hx; subst hr; rfl
          | reject =>
            have hr : RejectOK g r := hx
            rcases hr with rfl | ⟨hg', rfl⟩
            · exact Or.inl rfl
            · exact Or.inr ⟨hg', rfl⟩

/-! ### from one check to the call -/

/-- the class-parameter bindings of the store a call uses (none for the per-call store and for a non-generic instance) -/
def kindG : StoreKind → TVMap
  | .genericInstance _ g => g
  | _ => []

/-- what each verdict of the specification means for the outcome of a call (`g`: the class-parameter bindings) -/
def Meets (g : TVMap) (vd : Spec.Verdict) (o : Out) : Prop :=
  match vd with
  | .accept => o = .ok
  | .tvm => o = .pedTVMismatch
  | .tvmInUnion => o = .pedTypeCheck
  | .reject => o = .pedTypeCheck ∨ (g ≠ [] ∧ o = .pedTVMismatch)
  | .unclaimed => True

theorem subst_nil : ∀ a, Spec.subst [] a = a := by
  apply A.ind (P := fun a => Spec.subst [] a = a) (PL := fun l => Spec.substL [] l = l)
  · intro c; rfl
  · rfl
  · intro t; simp [Spec.subst, TVMap.get?]
  · intro a ih; simp only [Spec.subst, ih]
  · intro k w ihk ihw; simp only [Spec.subst, ihk, ihw]
  · intro items ih; simp only [Spec.subst, ih]
  · intro a ih; simp only [Spec.subst, ih]
  · intro ms ih; simp only [Spec.subst, ih]
  · intro a _; rfl
  · rfl
  · intro a as iha ihas; simp only [Spec.substL, iha, ihas]

theorem substChecks_nil : ∀ (checks : List (A × Val)), Spec.substChecks [] checks = checks := by
  intro checks
  induction checks with
  | nil => rfl
  | cons c rest ih => obtain ⟨a, v⟩ := c; simp only [Spec.substChecks, subst_nil, ih]

theorem checks_refine (env : Env) (wf : EnvWF env) (g : TVMap) (hg : GoodGenerics env g) : ∀ (checks : List (A × Val)),
    (∀ c ∈ checks, frag env c.1 = true) → ∀ s m, Inv g s m →
    Meets g (Spec.specChecks env (Spec.substChecks g checks) s) (runFrom env checks m).1 := by
  intro checks
  induction checks with
  | nil => intro _ s m _; simp [Spec.substChecks, Spec.specChecks, runFrom, Meets]
  | cons c rest ih =>
    obtain ⟨a, v⟩ := c
    intro hall s m h
    have hw := walk_refines env wf g hg a (hall (a, v) (by simp)) v s m h
    simp only [Spec.substChecks, Spec.specChecks, runFrom]
    rcases hr : isInst env a v m with ⟨r, m'⟩
    rw [hr] at hw
    cases hwk : Spec.walk env (Spec.subst g a) v s with
    | cont s' =>
      rw [hwk] at hw
      obtain ⟨h1, h2⟩ := hw
      simp only at h1 h2
      subst h1
      simp only [failure]
      exact ih (fun c hc => hall c (by simp [hc])) s' m' h2
    | stop vd =>
      rw [hwk] at hw
      simp only
      cases vd with
      | accept => exact hw.elim
      | unclaimed => trivial
      | tvm => have h1 : r = .raisedTV := hw; subst h1; simp [failure, Meets]
      | tvmInUnion => have h1 : r = .ok false := hw; subst h1; simp [failure, Meets]
      | reject =>
        have h1 : RejectOK g r := hw
        rcases h1 with rfl | ⟨hg', rfl⟩
        · simp [failure, Meets]
        · simp only [failure, Meets]; exact Or.inr ⟨hg', trivial⟩

/-- the call is in the vocabulary of the theorems; for a method of a generic instance: the class parameters are plain
    TypeVars bound to TypeVar-free annotations, and `__orig_class__` — when it is there — binds every one of them -/
def InVocab (env : Env) (c : Call) : Prop :=
  (∀ ch ∈ c.checks, frag env ch.1 = true) ∧
  (∀ params g, c.kind = .genericInstance params g →
    GoodGenerics env g ∧ (keys g).Nodup ∧ (g ≠ [] → ∀ p ∈ params, p ∈ keys g))

theorem goodGenerics_nil (env : Env) : GoodGenerics env [] := by intro t X h; simp at h

/-- **the call layer does what the specification demands, wherever it demands something — in every store kind and from
    every state of the stores**: plain functions, static / class methods, directly decorated methods, methods of non-generic
    `@pedantic_class` classes, and every method (method-level TypeVars included) of an instance created as `Cls[X]()` -/
theorem call_refines (env : Env) (wf : EnvWF env) (c : Call) (hv : InVocab env c) (s : Stores) :
    Meets (kindG c.kind) (Spec.specCall env c) (runCall env c s).1 := by
  by_cases hu : Spec.specCall env c = .unclaimed
  · rw [hu]; trivial
  · have hscan : c.scanFails = false := by
      cases hs : c.scanFails with
      | false => rfl
      | true => exfalso; apply hu; simp [Spec.specCall, hs]
    have hcl : Spec.claimableChecks env c.checks = true := by
      cases hs : Spec.claimableChecks env c.checks with
      | true => rfl
      | false => exfalso; apply hu; simp [Spec.specCall, hscan, hs]
    cases hk : c.kind with
    | perCall =>
      have hspec : Spec.specCall env c = Spec.specChecks env c.checks [] := by simp [Spec.specCall, hscan, hcl, hk]
      have hrun : (runCall env c s).1 = (runFrom env c.checks []).1 := by
        unfold runCall
        rw [hk]
        simp only [perCallFreshMap, ↓reduceIte]
        rw [runChecks_fst]; rfl
      rw [hspec, hrun]
      have := checks_refine env wf [] (goodGenerics_nil env) c.checks hv.1 [] [] inv_nil
      rwa [substChecks_nil] at this
    | resetEachAccess =>
      have hspec : Spec.specCall env c = Spec.specChecks env c.checks [] := by simp [Spec.specCall, hscan, hcl, hk]
      have hrun : (runCall env c s).1 = (runFrom env c.checks []).1 := by
        unfold runCall
        rw [hk]
        simp only
        rw [runChecks_fst]
        simp [accessMap, instanceAccessorSwitch, nonGenericFresh]
      rw [hspec, hrun]
      have := checks_refine env wf [] (goodGenerics_nil env) c.checks hv.1 [] [] inv_nil
      rwa [substChecks_nil] at this
    | genericInstance params g =>
      have hne : g ≠ [] := by
        intro hg; subst hg; apply hu; simp [Spec.specCall, hscan, hcl, hk]
      have hemp : g.isEmpty = false := by cases g with | nil => exact absurd rfl hne | cons _ _ => rfl
      obtain ⟨hgood, hnd, hp⟩ := hv.2 params g hk
      have hspec : Spec.specCall env c = Spec.specChecks env (Spec.substChecks g c.checks) [] := by
        simp [Spec.specCall, hscan, hcl, hk, hemp]
      have hrun : (runCall env c s).1 = (runFrom env c.checks (rebuild params (s.attrs.get (attrKey c)) g)).1 := by
        unfold runCall
        rw [hk, hscan]
        simp only
        rw [runChecks_fst]
        simp [accessMap, instanceAccessorSwitch]
      rw [hspec, hrun]
      simp only [kindG]
      refine checks_refine env wf g hgood c.checks hv.1 [] _ ⟨rebuild_boundAs params g _ hnd, ?_⟩
      intro t ht
      rw [rebuild_other params g _ (hp hne) t ht]
      rfl

/-- **C07, values of one identical runtime class are accepted**: if, walking the parameters and the result in order and
    every List / Dict / Tuple / Optional nesting depth first, every value met at a TypeVar has the runtime class of the first
    value met at that TypeVar in this call (constraints and bound satisfied), and everything TypeVar-free — class parameters of a
    generic instance replaced by their `X` — conforms, which is what `specCall = accept` says (see `Spec.walkTV`), then the
    call is accepted -/
theorem same_class_accepted (env : Env) (wf : EnvWF env) (c : Call) (hc : InVocab env c)
    (h : Spec.specCall env c = .accept) (s : Stores) : (runCall env c s).1 = .ok := by
  have := call_refines env wf c hc s
  rw [h] at this
  exact this

/-- **C07, values of unrelated classes raise PedanticTypeVarMismatchException**: if the first offending position of the walk
    is a TypeVar (not a direct member of an Optional) whose value has a class unrelated to the class of the first value met
    at that TypeVar in this call -/
theorem unrelated_rejected (env : Env) (wf : EnvWF env) (c : Call) (hc : InVocab env c)
    (h : Spec.specCall env c = .tvm) (s : Stores) : (runCall env c s).1 = .pedTVMismatch := by
  have := call_refines env wf c hc s
  rw [h] at this
  exact this

/-- a value that violates a constraint / a bound or does not conform at the first offending position: a PedanticException
    (for a value that does not conform to the `X` of a class parameter it is the TypeVar mismatch) -/
theorem nonconforming_rejected (env : Env) (wf : EnvWF env) (c : Call) (hc : InVocab env c)
    (h : Spec.specCall env c = .reject) (s : Stores) : (runCall env c s).1 = .pedTypeCheck ∨ (runCall env c s).1 = .pedTVMismatch := by
  have := call_refines env wf c hc s
  rw [h] at this
  rcases this with h1 | ⟨_, h2⟩
  · exact Or.inl h1
  · exact Or.inr h2

/-- ... without class parameters it is PedanticTypeCheckException -/
theorem nonconforming_rejected_plain (env : Env) (wf : EnvWF env) (c : Call) (hc : InVocab env c) (hk : kindG c.kind = [])
    (h : Spec.specCall env c = .reject) (s : Stores) : (runCall env c s).1 = .pedTypeCheck := by
  have := call_refines env wf c hc s
  rw [h, hk] at this
  rcases this with h1 | ⟨h0, _⟩
  · exact h1
  · exact absurd rfl h0

/-- the open region `mismatchInsideUnionIsTypeCheck`, exactly: an unrelated class at a bound TypeVar that is a direct member
    of an Optional surfaces as PedanticTypeCheckException — so `unrelated_rejected` cannot be extended to that position -/
theorem mismatch_in_optional_is_typecheck (env : Env) (wf : EnvWF env) (c : Call) (hc : InVocab env c)
    (h : Spec.specCall env c = .tvmInUnion) (s : Stores) : (runCall env c s).1 = .pedTypeCheck := by
  have := call_refines env wf c hc s
  rw [h] at this
  exact this

/-! ### what the verdicts of the specification say at one TypeVar position (reading aid for the clauses above) -/

theorem spec_first_value_binds (env : Env) (t : TVId) (v : Val) (s : Spec.Seen) (hs : s.get? t = none)
    (hc : violatesConstraints env t (v.typeOf env) = false) (hb : violatesBound env t (v.typeOf env) = false) :
    Spec.walkTV env t v s = .cont ((t, v.typeOf env) :: s) := by
  rw [walkTV_eq, hc, hb]; simp [walkTail, hs]

theorem spec_identical_class_continues (env : Env) (t : TVId) (v : Val) (s : Spec.Seen) (hs : s.get? t = some (v.typeOf env))
    (hc : violatesConstraints env t (v.typeOf env) = false) (hb : violatesBound env t (v.typeOf env) = false) :
    Spec.walkTV env t v s = .cont s := by
  rw [walkTV_eq, hc, hb]; simp [walkTail, hs]

theorem spec_unrelated_class_demands_mismatch (env : Env) (t : TVId) (v : Val) (s : Spec.Seen) (c0 : ClsId) (hs : s.get? t = some c0)
    (hc : violatesConstraints env t (v.typeOf env) = false) (hb : violatesBound env t (v.typeOf env) = false)
    (h1 : env.sub (v.typeOf env) c0 = false) (h2 : env.sub c0 (v.typeOf env) = false) (hne : v.typeOf env ≠ c0) :
    Spec.walkTV env t v s = .stop .tvm := by
  rw [walkTV_eq, hc, hb]; simp [walkTail, hs, h1, h2, hne]

theorem spec_contravariant_superclass_continues (env : Env) (t : TVId) (v : Val) (s : Spec.Seen) (c0 : ClsId) (hs : s.get? t = some c0)
    (hc : violatesConstraints env t (v.typeOf env) = false) (hb : violatesBound env t (v.typeOf env) = false)
    (hv : (env.tv t).variance = .contra) (h2 : env.sub c0 (v.typeOf env) = true) :
    Spec.walkTV env t v s = .cont s := by
  rw [walkTV_eq, hc, hb]; simp [walkTail, hs, hv, h2]

/-- contravariant TypeVar: a later value whose class is a superclass of the class bound first is accepted -/
theorem contravariant_superclass_accepted (env : Env) (t : TVId) (v : Val) (m : TVMap) (c0 : ClsId) (hm : m.get? t = some (.cls c0))
    (hpre : tvPre env t v = .ok true) (hv : (env.tv t).variance = .contra) (h2 : env.sub c0 (v.typeOf env) = true) :
    tvBranch env t v m = (.ok true, m) := by
  rw [tvBranch_eq, tvSem_ok env t v m hpre]
  simp [tvTailSem, hm, tvCmp, hv, contraCheck, h2]

/-! ## The whole property on the model: full statement, the part that holds, the region where it does not -/

/-- what the property demands of the outcome for each verdict of the specification — the predicate the harness applies to
    the outcomes of the IMPLEMENTATION -/
def Demands (vd : Spec.Verdict) (o : Out) : Prop :=
  match vd with
  | .accept => o = .ok
  | .tvm => o = .pedTVMismatch
  | .tvmInUnion => o = .pedTVMismatch
  | .reject => o = .pedTypeCheck ∨ o = .pedTVMismatch
  | .unclaimed => True

/-- step by step: the lists have the same length and every outcome is what its verdict demands -/
def AllDemand : List Spec.Verdict → List Out → Prop
  | [], [] => True
  | vd :: vs, o :: os => Demands vd o ∧ AllDemand vs os
  | _, _ => False

/-- **the property, in full**: for every history over any instances, every call ends as the (stateless) specification demands -/
def C07_full : Prop :=
  ∀ (env : Env), EnvWF env → ∀ (h : List Call), (∀ c ∈ h, InVocab env c) → ∀ (s : Stores),
    AllDemand (Spec.specHistory env h) (runHistory env h s)

/-- outside the one recorded region: no mismatch at a TypeVar that is a direct member of an Optional -/
def Guard (env : Env) (c : Call) : Prop := Spec.specCall env c ≠ .tvmInUnion

instance (env : Env) (c : Call) : Decidable (Guard env c) := by unfold Guard; infer_instance

/-- one call outside the region does what the property demands, from every state of the stores -/
theorem call_demands (env : Env) (wf : EnvWF env) (c : Call) (hv : InVocab env c) (hg : Guard env c) (s : Stores) :
    Demands (Spec.specCall env c) (runCall env c s).1 := by
  have := call_refines env wf c hv s
  cases hvd : Spec.specCall env c with
  | accept => rw [hvd] at this; exact this
  | tvm => rw [hvd] at this; exact this
  | tvmInUnion => exact absurd hvd hg
  | reject =>
    rw [hvd] at this
    rcases this with h1 | ⟨_, h2⟩
    · exact Or.inl h1
    · exact Or.inr h2
  | unclaimed => trivial

/-- **the property on the model, outside the recorded region**: every history — any length, any number of instances of
    generic and non-generic classes, plain functions in between, any methods, any initial stores — in which every call is in
    the vocabulary and no value of an unrelated class stands at a bound TypeVar that is a direct Optional member (`Guard`)
    ends, step by step, as the stateless specification demands.  Since the specification of a call does not look at the
    history, this contains: within-call consistency, constraints / bounds, accepted-iff-conforms-to-X, and independence of
    earlier calls and other instances. -/
theorem C07_partial (env : Env) (wf : EnvWF env) : ∀ (h : List Call), (∀ c ∈ h, InVocab env c ∧ Guard env c) → ∀ (s : Stores),
    AllDemand (Spec.specHistory env h) (runHistory env h s) := by
  intro h
  induction h with
  | nil => intros; trivial
  | cons c rest ih =>
    intro hall s
    simp only [Spec.specHistory, List.map_cons, runHistory]
    exact ⟨call_demands env wf c (hall c (by simp)).1 (hall c (by simp)).2 s, ih (fun c hc => hall c (by simp [hc])) _⟩

/-! ## A concrete class table (the one the harness uses), non-vacuity, and the witnesses -/

/-- 0 object, 1 NoneType, 2 int, 3 str, 4 bool(int), 5 float, 6 list, 7 dict, 8 tuple, 9 type, 10 P, 11 C1(P), 12 C2(P), 13 G(C1), 14 U,
    15 set, 16 frozenset -/
def subX (a b : Nat) : Bool :=
  a == b || b == 0 || (a == 4 && b == 2) || (a == 11 && b == 10) || (a == 12 && b == 10) || (a == 13 && (b == 11 || b == 10))

/-- 0 T, 1 S, 2 TC(int, str), 3 TB(bound=P), 4 TF(bound='P'), 5 TCN(contravariant), 6 TCO(covariant), 7 V, 8 TCP(P, U), 9 TBI(bound=int) -/
def tvX : Nat → TVInfo
  | 2 => ⟨[2, 3], none, false, .inv⟩
  | 3 => ⟨[], some 10, false, .inv⟩
  | 4 => ⟨[], some 10, true, .inv⟩
  | 5 => ⟨[], none, false, .contra⟩
  | 6 => ⟨[], none, false, .co⟩
  | 8 => ⟨[10, 14], none, false, .inv⟩
  | 9 => ⟨[], some 2, false, .inv⟩
  | _ => ⟨[], none, false, .inv⟩

def envX : Env where
  sub := subX
  noneCls := 1
  listCls := 6
  dictCls := 7
  tupleCls := 8
  typeCls := 9
  objectCls := 0
  bareBuiltin := fun c => c == 6 || c == 7 || c == 8 || c == 9 || c == 15 || c == 16
  tv := tvX

theorem wfX : EnvWF envX where
  refl := by intro c; simp [envX, subX]
  noneOnly := by intro c hc; simp only [envX] at hc ⊢; simp [subX, hc]
  noneNotBare := by decide
  listNotNone := by decide
  dictNotNone := by decide
  tupleNotNone := by decide
  typeNotNone := by decide
  boundNotBare := by
    intro t b h
    simp only [envX] at h ⊢
    unfold tvX at h
    split at h <;> simp at h <;> subst h <;> decide

private def T : A := .tv 0
private def S : A := .tv 1
private def NoneA : A := .cls 1
private def retNone : A × Val := (.cls 1, .inst 1)
private def plain (checks : List (A × Val)) : Call := ⟨0, 0, .perCall, false, checks⟩
private def onBoxInt (checks : List (A × Val)) : Call := ⟨0, 0, .genericInstance [0] [(0, .cls 2)], false, checks⟩
private def onNG (checks : List (A × Val)) : Call := ⟨0, 0, .resetEachAccess, false, checks⟩

private theorem frag_list {env : Env} {l : List (A × Val)} (h : l.all (fun ch => frag env ch.1) = true) : ∀ ch ∈ l, frag env ch.1 = true := by
  simpa using h

private theorem vocab_plain {env : Env} {l : List (A × Val)} (h : l.all (fun ch => frag env ch.1) = true) : InVocab env (plain l) :=
  ⟨frag_list h, by intro p g hg; simp [plain] at hg⟩

private theorem vocab_NG {env : Env} {l : List (A × Val)} (h : l.all (fun ch => frag env ch.1) = true) : InVocab env (onNG l) :=
  ⟨frag_list h, by intro p g hg; simp [onNG] at hg⟩

theorem goodBoxInt : GoodGenerics envX [(0, .cls 2)] := by
  intro t X h
  simp only [List.mem_singleton, Prod.mk.injEq] at h
  obtain ⟨rfl, rfl⟩ := h
  decide

theorem goodBoxStr : GoodGenerics envX [(0, .cls 3)] := by
  intro t X h
  simp only [List.mem_singleton, Prod.mk.injEq] at h
  obtain ⟨rfl, rfl⟩ := h
  decide

private theorem vocab_BoxInt {l : List (A × Val)} (h : l.all (fun ch => frag envX ch.1) = true) : InVocab envX (onBoxInt l) := by
  refine ⟨frag_list h, ?_⟩
  intro p g hg
  simp only [onBoxInt, StoreKind.genericInstance.injEq] at hg
  obtain ⟨rfl, rfl⟩ := hg
  exact ⟨goodBoxInt, by decide, fun _ => by decide⟩

/-- `def f(a: T, b: List[T], c: Dict[str, Tuple[T, Optional[T]]]) -> T` with ints everywhere: accepted (instance of `same_class_accepted`) -/
example (s : Stores) :
    (runCall envX (plain [(T, .inst 2), (.listOf T, .list [.inst 2, .inst 2]),
        (.dictOf (.cls 3) (.tupleOf [T, .union [T, NoneA]]), .dict [(.inst 3, .tuple [.inst 2, .inst 1]), (.inst 3, .tuple [.inst 2, .inst 2])]),
        (T, .inst 2)]) s).1 = .ok :=
  same_class_accepted envX wfX _ (vocab_plain (by decide)) (by decide) s

/-- `f(a=C1(), b=[C1(), C2()])` with `def f(a: T, b: List[T])`: siblings are unrelated — TypeVarMismatch (instance of `unrelated_rejected`) -/
example (s : Stores) :
    (runCall envX (plain [(T, .inst 11), (.listOf T, .list [.inst 11, .inst 12]), retNone]) s).1 = .pedTVMismatch :=
  unrelated_rejected envX wfX _ (vocab_plain (by decide)) (by decide) s

/-- the same on a method of a NON-generic `@pedantic_class` class, from every state of the stores -/
example (s : Stores) : (runCall envX (onNG [(T, .inst 2), (T, .inst 3), retNone]) s).1 = .pedTVMismatch :=
  unrelated_rejected envX wfX _ (vocab_NG (by decide)) (by decide) s

/-- ... and on `Box[int]()`: a method-level TypeVar `S` next to the class parameter, `m(a: T, b: S, c: List[S])` -/
example (s : Stores) :
    (runCall envX (onBoxInt [(T, .inst 4), (S, .inst 3), (.listOf S, .list [.inst 3, .inst 5]), retNone]) s).1 = .pedTVMismatch :=
  unrelated_rejected envX wfX _ (vocab_BoxInt (by decide)) (by decide) s

/-- the fixed regions, on the model: `f(a=[1], b=[2])`, `h(a=1, b=1.5)` with `Optional[TC]`, `Box[P]().lst(b=[C1(), C2()])` -/
example : (runCall envX (plain [(T, .list [.inst 2]), (T, .list [.inst 2]), retNone]) Stores.empty).1 = .ok := by decide
example : (runCall envX (plain [(.tv 2, .inst 2), (.union [.tv 2, NoneA], .inst 5), retNone]) Stores.empty).1 = .pedTypeCheck := by decide
example : (runCall envX ⟨0, 0, .genericInstance [0] [(0, .cls 10)], false, [(.listOf T, .list [.inst 11, .inst 12]), retNone]⟩ Stores.empty).1 = .ok := by decide
/-- ... `Box[Any]().m(a=1)`, `f(a=C1(), b=C2())` with `TF = TypeVar('TF', bound='P')` -/
example : (runCall envX ⟨0, 0, .genericInstance [0] [(0, .any)], false, [(T, .inst 2), retNone]⟩ Stores.empty).1 = .ok := by decide
example : (runCall envX (plain [(.tv 4, .inst 11), (.tv 4, .inst 12), retNone]) Stores.empty).1 = .pedTVMismatch := by decide

/-- constraints at depth: `def f(a: Dict[str, List[Optional[TC]]])` with a float inside (instance of `constraints_honoured`) -/
example (s : Stores) :
    (runCall envX (onNG [(.dictOf (.cls 3) (.listOf (.union [.tv 2, NoneA])), .dict [(.inst 3, .list [.inst 2, .inst 1, .inst 5])]), retNone]) s).1 ≠ .ok :=
  constraints_honoured envX wfX.noneOnly _ ⟨_, List.mem_cons_self, by decide⟩ s

/-- a bound spelled as a forward reference, in every store (instance of `bound_honoured`) -/
example (s : Stores) : (runCall envX (onBoxInt [(.tupleOf [.tv 4, .cls 2], .tuple [.inst 14, .inst 2]), retNone]) s).1 ≠ .ok :=
  bound_honoured envX wfX.noneOnly _ ⟨_, List.mem_cons_self, by decide⟩ s

example (m : TVMap) (hm : BoundAs [(0, .cls 2)] m) (v : Val) :
    failure (isInst envX T v m).1 = none ↔ Spec.conforms envX (.cls 2) v = true :=
  instance_T_iff_conforms envX wfX _ m goodBoxInt hm 0 (.cls 2) rfl v

/-- a mixed history — a plain call, a call on a non-generic instance, calls on `Box[int]()` with and without a method-level
    TypeVar, a call on a second instance `Box[str]()`, a plain call with unrelated siblings — is inside the guard of
    `C07_partial` -/
def mixedHistory : List Call :=
  [plain [(T, .inst 2), (.union [T, NoneA], .inst 2), retNone],
   onNG [(T, .inst 2), (.listOf T, .list [.inst 2]), retNone],
   onBoxInt [(.listOf T, .list [.inst 2, .inst 4]), (S, .inst 3), retNone],
   onBoxInt [(.dictOf (.cls 3) T, .dict [(.inst 3, .inst 3)]), retNone],
   onBoxInt [(S, .inst 5), (.tupleOf [S, T], .tuple [.inst 5, .inst 2]), retNone],
   ⟨1, 0, .genericInstance [0] [(0, .cls 3)], false, [(.union [T, NoneA], .inst 2), retNone]⟩,
   plain [(T, .inst 11), (.tupleOf [T], .tuple [.inst 12]), retNone]]

example : Spec.specHistory envX mixedHistory = [.accept, .accept, .accept, .reject, .accept, .reject, .tvm] := by decide

example (s : Stores) : AllDemand (Spec.specHistory envX mixedHistory) (runHistory envX mixedHistory s) := by
  apply C07_partial envX wfX
  intro c hc
  simp only [mixedHistory, List.mem_cons, List.not_mem_nil, or_false] at hc
  rcases hc with rfl | rfl | rfl | rfl | rfl | rfl | rfl
  · exact ⟨vocab_plain (by decide), by decide⟩
  · exact ⟨vocab_NG (by decide), by decide⟩
  · exact ⟨vocab_BoxInt (by decide), by decide⟩
  · exact ⟨vocab_BoxInt (by decide), by decide⟩
  · exact ⟨vocab_BoxInt (by decide), by decide⟩
  · refine ⟨⟨frag_list (by decide), ?_⟩, by decide⟩
    intro p g hg
    simp only [StoreKind.genericInstance.injEq] at hg
    obtain ⟨rfl, rfl⟩ := hg
    exact ⟨goodBoxStr, by decide, fun _ => by decide⟩
  · exact ⟨vocab_plain (by decide), by decide⟩

/-! ### former region `methodLevelTypeVarLeaks`: `b = Box[int](); b.other(a=1); b.other(a='s')` with `def other(self, a: S)` -/

def leakHistory : List Call := [onBoxInt [(S, .inst 2), retNone], onBoxInt [(S, .inst 3), retNone]]

/-- of the stored dict only class parameters are carried over: the method-level TypeVar lives for one call -/
theorem methodLevelTypeVar_per_call : runHistory envX leakHistory Stores.empty = [.ok, .ok] := by decide

/-- ... from every state of the stores, by `instance_history_independent` -/
example (s : Stores) : runHistory envX leakHistory s = [.ok, .ok] := by
  rw [instance_history_independent envX leakHistory s (by
    intro c hc
    simp only [leakHistory, List.mem_cons, List.not_mem_nil, or_false] at hc
    rcases hc with rfl | rfl <;> exact ⟨_, _, rfl, by decide⟩)]
  decide

/-- within one call the method-level TypeVar is kept: `b.both(a=1, b='s')` with `def both(self, a: S, b: S)` raises -/
example : (runCall envX (onBoxInt [(S, .inst 2), (S, .inst 3), retNone]) Stores.empty).1 = .pedTVMismatch := by decide

/-- an unparametrised instance keeps its first-come binding of the class parameter by design (not claimed), and only that:
    `raw.m(a=1); raw.other(a=1); raw.m(a='s'); raw.other(a='s')` with `m(self, a: T)`, `other(self, a: S)` -/
example : runHistory envX [⟨0, 0, .genericInstance [0] [], false, [(T, .inst 2), retNone]⟩, ⟨0, 1, .genericInstance [0] [], false, [(S, .inst 2), retNone]⟩,
                           ⟨0, 0, .genericInstance [0] [], false, [(T, .inst 3), retNone]⟩, ⟨0, 1, .genericInstance [0] [], false, [(S, .inst 3), retNone]⟩] Stores.empty
    = [.ok, .ok, .pedTVMismatch, .ok] := by decide

/-! ### former region `nonGenericPedanticClassResetsBindings`: `@pedantic_class class NG: def m2(self, a: T, b: T)`, `def m3(self, a: T) -> T` -/

/-- `ng.m2(a=1, b='x')` raises, as the specification demands -/
theorem nonGeneric_keeps_bindings_params :
    (runCall envX (onNG [(T, .inst 2), (T, .inst 3), retNone]) Stores.empty).1 = .pedTVMismatch ∧
    Spec.specCall envX (onNG [(T, .inst 2), (T, .inst 3), retNone]) = .tvm := by decide

/-- `ng.m3(a=1)` returning `'x'` raises -/
theorem nonGeneric_keeps_bindings_result :
    (runCall envX (onNG [(T, .inst 2), (.cls 0, .inst 3), (T, .inst 3)]) Stores.empty).1 = .pedTVMismatch ∧
    Spec.specCall envX (onNG [(T, .inst 2), (.cls 0, .inst 3), (T, .inst 3)]) = .tvm := by decide

/-- the next call starts fresh: `ng.m2(a=1, b=2); ng.m2(a='s', b='t')` -/
example : runHistory envX [onNG [(T, .inst 2), (T, .inst 2), retNone], onNG [(T, .inst 3), (T, .inst 3), retNone]] Stores.empty = [.ok, .ok] := by decide

/-! ### open region `mismatchInsideUnionIsTypeCheck`: `def g(a: T, b: Optional[T])`, `g(a=1, b='s')` -/

def unionCall : Call := plain [(T, .inst 2), (.union [T, NoneA], .inst 3), retNone]

theorem mismatch_in_optional_witness :
    (runCall envX unionCall Stores.empty).1 = .pedTypeCheck ∧ Spec.specCall envX unionCall = .tvmInUnion := by decide

/-- not so when the Optional member is a container: `def g(a: T, b: Optional[List[T]])`, `g(a=1, b=['s'])` raises TypeVarMismatch -/
example : (runCall envX (plain [(T, .inst 2), (.union [.listOf T, NoneA], .list [.inst 3]), retNone]) Stores.empty).1 = .pedTVMismatch := by decide

/-- **the property does not hold in full** (witness: the mismatch at a direct Optional member) -/
theorem C07_full_false : ¬ C07_full := by
  intro h
  have hv : ∀ c ∈ [unionCall], InVocab envX c := by
    intro c hc
    simp only [List.mem_singleton] at hc
    subst hc
    exact vocab_plain (by decide)
  have := h envX wfX [unionCall] hv Stores.empty
  have e1 : runHistory envX [unionCall] Stores.empty = [.pedTypeCheck] := by decide
  have e2 : Spec.specHistory envX [unionCall] = [.tvmInUnion] := by decide
  rw [e1, e2] at this
  simp [AllDemand, Demands] at this

/-! ### the constructor-scan flag and `__init__` (modelled, not claimed) -/

example : (runCall envX ⟨0, 0, .genericInstance [0] [], true, [(T, .inst 2), retNone]⟩ Stores.empty).1 = .pedTVMismatch := by decide
/-- `__init__(self, a: T)` of `BoxI[str](a=1)` binds `T` to int in the attribute; after construction the class parameter wins -/
example : runHistory envX [⟨0, 0, .genericInstance [0] [], false, [(T, .inst 2), retNone]⟩,
                           ⟨0, 1, .genericInstance [0] [(0, .cls 3)], false, [(T, .inst 3), retNone]⟩,
                           ⟨0, 1, .genericInstance [0] [(0, .cls 3)], false, [(T, .inst 2), retNone]⟩] Stores.empty
    = [.ok, .ok, .pedTVMismatch] := by decide

/-! ## Nested calls: the bindings of a call are its own, whatever calls its body makes -/

theorem Tree.ind {P : Tree → Prop} {PL : List Tree → Prop}
    (node : ∀ c n body, PL body → P (.node c n body)) (nil : PL []) (cons : ∀ t ts, P t → PL ts → PL (t :: ts)) : ∀ t, P t :=
  fun t => Tree.rec (motive_1 := P) (motive_2 := PL) node nil cons t

theorem Tree.indL {P : Tree → Prop} {PL : List Tree → Prop}
    (node : ∀ c n body, PL body → P (.node c n body)) (nil : PL []) (cons : ∀ t ts, P t → PL ts → PL (t :: ts)) : ∀ ts, PL ts := by
  intro ts
  induction ts with
  | nil => exact nil
  | cons t ts ih => exact cons t ts (Tree.ind node nil cons t) ih

theorem runFrom_append_ok (env : Env) : ∀ (xs ys : List (A × Val)) (m : TVMap), (runFrom env xs m).1 = .ok →
    runFrom env (xs ++ ys) m = runFrom env ys (runFrom env xs m).2 := by
  intro xs
  induction xs with
  | nil => intros; rfl
  | cons x xs ih =>
    obtain ⟨a, v⟩ := x
    intro ys m h
    simp only [List.cons_append, runFrom] at h ⊢
    cases hf : failure (isInst env a v m).1 with
    | some o => rw [hf] at h; exact absurd h (failure_ne_ok _ o hf)
    | none => rw [hf] at h; exact ih ys _ h

theorem runFrom_append_fail (env : Env) : ∀ (xs ys : List (A × Val)) (m : TVMap), (runFrom env xs m).1 ≠ .ok →
    runFrom env (xs ++ ys) m = runFrom env xs m := by
  intro xs
  induction xs with
  | nil => intro ys m h; exact absurd rfl h
  | cons x xs ih =>
    obtain ⟨a, v⟩ := x
    intro ys m h
    simp only [List.cons_append, runFrom] at h ⊢
    cases hf : failure (isInst env a v m).1 with
    | some o => rfl
    | none => rw [hf] at h; exact ih ys _ h

/-- the outcome of a call that reaches its checks: all its checks run with the ONE dict the first access yields -/
theorem runCall_out_of_not_scan (env : Env) (c : Call) (s : Stores) (h : isScanFail c = false) :
    (runCall env c s).1 = (runFrom env c.checks (accessMap c.kind [] (s.attrs.get (attrKey c)))).1 := by
  unfold runCall
  unfold isScanFail at h
  split
  · rename_i h1 h2; rw [h1, h2] at h; simp at h
  · simp only [perCallFreshMap, ↓reduceIte]; rw [runChecks_fst]

/-- **the outcome of a call with an arbitrary body**: it is the outcome of the same call without a body — made in the stores
    the call found when its first check ran (before the body if it has a parameter, after the body if it has none) -/
theorem runTree_out (env : Env) (c : Call) (n : Nat) (body : List Tree) (s : Stores) :
    (runTree env (.node c n body) s).out =
      (runCall env c (if (c.checks.take n).isEmpty then (runBody env body s).st else s)).1 := by
  unfold runTree
  simp only [resolveOncePerCall, perCallFreshMap, ↓reduceIte]
  by_cases hp : (c.checks.take n).isEmpty = true
  · simp only [hp, ↓reduceIte]
  · simp only [hp, Bool.false_eq_true, ↓reduceIte]
    by_cases hs : isScanFail c = true
    · simp only [hs, ↓reduceIte]
    · have hs' : isScanFail c = false := by simpa using hs
      simp only [hs', Bool.false_eq_true, ↓reduceIte]
      rw [runCall_out_of_not_scan env c s hs']
      have hsplit : c.checks = c.checks.take n ++ c.checks.drop n := (List.take_append_drop n c.checks).symm
      generalize hm : accessMap c.kind [] (s.attrs.get (attrKey c)) = m0
      cases hr : (runFrom env (c.checks.take n) m0).1 with
      | ok =>
        simp only
        conv => rhs; rw [hsplit]
        rw [runFrom_append_ok env _ _ _ hr]
      | pedTypeCheck =>
        simp only
        conv => rhs; rw [hsplit]
        rw [runFrom_append_fail env _ _ _ (by rw [hr]; decide), hr]
      | pedTVMismatch =>
        simp only
        conv => rhs; rw [hsplit]
        rw [runFrom_append_fail env _ _ _ (by rw [hr]; decide), hr]
      | escape =>
        simp only
        conv => rhs; rw [hsplit]
        rw [runFrom_append_fail env _ _ _ (by rw [hr]; decide), hr]


/-- **C07, nested calls do not disturb (a call with a parameter)**: the store of the call is resolved by its first parameter
    check and kept; whatever calls the body makes — on the same instance, on other instances, plain functions, to any depth —
    the call ends exactly as the same call with an empty body.  Every store kind, unparametrised instances included. -/
theorem nested_calls_do_not_disturb (env : Env) (c : Call) (n : Nat) (body : List Tree) (s : Stores)
    (hn : (c.checks.take n).isEmpty = false) :
    (runTree env (.node c n body) s).out = (runCall env c s).1 := by
  rw [runTree_out, hn]; rfl

/-- calls whose outcome the property makes independent of every store: plain functions / static / class methods / directly
    decorated methods, methods of non-generic `@pedantic_class` instances, every method of an instance created as `Cls[X]()` -/
def Indep (c : Call) : Prop := c.kind = .perCall ∨ c.kind = .resetEachAccess ∨ ParamInstanceCall c

theorem indep_alone (env : Env) (c : Call) (hc : Indep c) (s s' : Stores) : (runCall env c s).1 = (runCall env c s').1 := by
  rcases hc with h | h | h
  · exact plain_call_alone env c h s s'
  · exact nonGeneric_call_alone env c h s s'
  · exact call_alone env c h s s'

/-- **C07, nested calls do not disturb (any signature, also without parameters)**: for a plain function, a method of a
    non-generic class or of an instance `Cls[X]()`, the outcome of a call is the outcome of the same call made ALONE — empty
    body, fresh stores — whatever finite tree of calls its body makes and whatever happened before -/
theorem nested_calls_do_not_disturb_alone (env : Env) (c : Call) (hc : Indep c) (n : Nat) (body : List Tree) (s s' : Stores) :
    (runTree env (.node c n body) s).out = (runCall env c s').1 := by
  rw [runTree_out]; exact indep_alone env c hc _ _

example : Indep ⟨0, 0, .genericInstance [0] [(0, .cls 2)], false, [(.tv 1, .inst 2), (.tv 1, .inst 3)]⟩ :=
  Or.inr (Or.inr ⟨_, _, rfl, by decide⟩)

/-! ### a call without nested calls is a call of the history model -/

theorem Table.put_put (s : Table) (k : Nat) (a b : TVMap) : (s.put k a).put k b = s.put k b := by
  induction s with
  | nil => simp [Table.put]
  | cons kv r ih =>
    obtain ⟨k', x⟩ := kv
    simp only [Table.put]
    by_cases h : k' = k
    · subst h; simp [Table.put]
    · have : (k' == k) = false := by simp [h]
      simp [this, Table.put, ih]

theorem runCall_st_of_scan (env : Env) (c : Call) (s : Stores) (h : isScanFail c = true) : (runCall env c s).2 = s := by
  unfold runCall
  unfold isScanFail at h
  split
  · rfl
  · rename_i hne
    split at h
    · rename_i h1 h2
      exact absurd h2 (fun h2 => hne _ _ h1 h2)
    · simp at h

theorem runCall_st_of_not_scan (env : Env) (c : Call) (s : Stores) (h : isScanFail c = false) : (runCall env c s).2 =
    expose c s [] (runFrom env c.checks (accessMap c.kind [] (s.attrs.get (attrKey c)))).2 := by
  unfold runCall
  unfold isScanFail at h
  split
  · rename_i h1 h2; rw [h1, h2] at h; simp at h
  · simp only [perCallFreshMap, ↓reduceIte, expose, writeBack, runChecks, resolveOncePerCall]
    by_cases hu : usesAttr c.kind = true
    · simp only [hu, ↓reduceIte]
    · simp only [hu, Bool.false_eq_true, ↓reduceIte]

theorem expose_expose (c : Call) (s : Stores) (a b : TVMap) : expose c (expose c s [] a) [] b = expose c s [] b := by
  simp only [expose, writeBack, perCallFreshMap, ↓reduceIte]
  by_cases hu : usesAttr c.kind = true
  · simp only [hu, ↓reduceIte, Table.put_put]
  · simp only [hu, Bool.false_eq_true, ↓reduceIte]

theorem runTree_leaf (env : Env) (c : Call) (n : Nat) (s : Stores) :
    (runTree env (.node c n []) s).out = (runCall env c s).1 ∧ (runTree env (.node c n []) s).st = (runCall env c s).2 ∧
    (runTree env (.node c n []) s).log = [] := by
  refine ⟨?_, ?_, ?_⟩
  · rw [runTree_out]; split <;> rfl
  · unfold runTree
    simp only [resolveOncePerCall, perCallFreshMap, ↓reduceIte, runBody]
    by_cases hp : (c.checks.take n).isEmpty = true
    · simp only [hp, ↓reduceIte]
    · simp only [hp, Bool.false_eq_true, ↓reduceIte]
      by_cases hs : isScanFail c = true
      · simp only [hs, ↓reduceIte]
        exact (runCall_st_of_scan env c s hs).symm
      · have hs' : isScanFail c = false := by simpa using hs
        simp only [hs', Bool.false_eq_true, ↓reduceIte]
        have hsplit : c.checks = c.checks.take n ++ c.checks.drop n := (List.take_append_drop n c.checks).symm
        have hcall := runCall_st_of_not_scan env c s hs'
        rw [hcall]
        generalize hm : accessMap c.kind [] (s.attrs.get (attrKey c)) = m0
        cases hr : (runFrom env (c.checks.take n) m0).1 with
        | ok =>
          simp only [List.contains_nil, Bool.and_false, Bool.false_eq_true, ↓reduceIte]
          conv => rhs; rw [hsplit]
          rw [runFrom_append_ok env _ _ _ hr]
          exact expose_expose c s _ _
        | pedTypeCheck =>
          simp only
          conv => rhs; rw [hsplit]
          rw [runFrom_append_fail env _ _ _ (by rw [hr]; decide)]
        | pedTVMismatch =>
          simp only
          conv => rhs; rw [hsplit]
          rw [runFrom_append_fail env _ _ _ (by rw [hr]; decide)]
        | escape =>
          simp only
          conv => rhs; rw [hsplit]
          rw [runFrom_append_fail env _ _ _ (by rw [hr]; decide)]
  · unfold runTree
    simp only [resolveOncePerCall, ↓reduceIte, runBody, skipped, Tree.countL, List.replicate]
    split
    · rfl
    · split
      · rfl
      · split <;> rfl

/-- the call with an empty body -/
def leaf (c : Call) : Tree := .node c (c.checks.length - 1) []

/-- **the tree model extends the history model**: a history of calls with empty bodies runs exactly as `runHistory` -/
theorem runForest_leaves (env : Env) : ∀ (h : List Call) (s : Stores),
    runForest env (h.map leaf) s = (runHistory env h s).map (fun o => (o, [])) := by
  intro h
  induction h with
  | nil => intros; rfl
  | cons c rest ih =>
    intro s
    obtain ⟨h1, h2, h3⟩ := runTree_leaf env c (c.checks.length - 1) s
    simp only [List.map_cons, runForest, runHistory, leaf] at *
    rw [h1, h2, h3, ih]


/-! ### every call of a call tree ends as the same call made alone -/

mutual
/-- the calls of a tree, pre-order -/
def Tree.calls : Tree → List Call
  | .node c _ body => c :: Tree.callsL body
def Tree.callsL : List Tree → List Call
  | [] => []
  | t :: ts => t.calls ++ Tree.callsL ts
end

/-- does the body of the call run (do the parameter checks pass) — judged with the call made alone, from empty stores -/
def bodyRuns (env : Env) (c : Call) (n : Nat) : Bool :=
  (c.checks.take n).isEmpty || (!isScanFail c && (runFrom env (c.checks.take n) (accessMap c.kind [] [])).1 == .ok)

mutual
/-- the journal of a tree when every call in it is replaced by the same call made ALONE (empty body, fresh stores) -/
def aloneBelow (env : Env) : Tree → List (Option Out)
  | .node c n body => if bodyRuns env c n then aloneBody env body else skipped body
def aloneBody (env : Env) : List Tree → List (Option Out)
  | [] => []
  | t :: ts => some (runCall env t.call Stores.empty).1 :: (aloneBelow env t ++ aloneBody env ts)
end

/-- the parameter checks of an independent call do not look at what is on the instance -/
theorem pre_alone (env : Env) (c : Call) (hc : Indep c) (n : Nat) (a₁ a₂ : TVMap) :
    (runFrom env (c.checks.take n) (accessMap c.kind [] a₁)).1 = (runFrom env (c.checks.take n) (accessMap c.kind [] a₂)).1 := by
  rcases hc with h | h | ⟨params, g, hk, hp⟩
  · rw [h]; rfl
  · rw [h]; simp [accessMap, instanceAccessorSwitch, nonGenericFresh]
  · rw [hk]
    simp only [accessMap, instanceAccessorSwitch, ↓reduceIte]
    refine runFrom_frame env (Spec.callTVs c) _ _ _ ?_ ?_
    · intro ch hch
      apply tvsIn_of_tvsOf
      intro t ht
      simp only [Spec.callTVs, List.mem_flatMap]
      exact ⟨ch, List.mem_of_mem_take hch, ht⟩
    · intro t _
      exact rebuild_ext params g _ _ hp t

/-- **C07 over arbitrary finite call trees**: if every call of the tree is a plain function / a method of a non-generic class /
    a method of an instance `Cls[X]()`, then — from any stores, with any nesting depth and any mix of same-instance,
    other-instance and plain calls — every call of the tree (the outermost one and every journalled nested one) ends as the
    same call made alone, and a body runs iff the parameter checks of its call pass when made alone -/
theorem tree_journal_alone (env : Env) :
    (∀ t : Tree, (∀ c ∈ t.calls, Indep c) → ∀ s : Stores,
      (runTree env t s).out = (runCall env t.call Stores.empty).1 ∧ (runTree env t s).log = aloneBelow env t) ∧
    (∀ ts : List Tree, (∀ c ∈ Tree.callsL ts, Indep c) → ∀ s : Stores, (runBody env ts s).log = aloneBody env ts) := by
  have node : ∀ c n body, ((∀ c ∈ Tree.callsL body, Indep c) → ∀ s : Stores, (runBody env body s).log = aloneBody env body) →
      ((∀ c' ∈ (Tree.node c n body).calls, Indep c') → ∀ s : Stores,
        (runTree env (.node c n body) s).out = (runCall env (Tree.node c n body).call Stores.empty).1 ∧
        (runTree env (.node c n body) s).log = aloneBelow env (.node c n body)) := by
    intro c n body ih hall s
    have hc : Indep c := hall c (by simp [Tree.calls])
    have hb : ∀ c' ∈ Tree.callsL body, Indep c' := fun c' h => hall c' (by simp [Tree.calls, h])
    refine ⟨nested_calls_do_not_disturb_alone env c hc n body s Stores.empty, ?_⟩
    unfold runTree
    simp only [resolveOncePerCall, perCallFreshMap, ↓reduceIte, aloneBelow, bodyRuns]
    by_cases hp : (c.checks.take n).isEmpty = true
    · simp only [hp, ↓reduceIte, Bool.true_or]
      exact ih hb s
    · simp only [hp, Bool.false_eq_true, ↓reduceIte, Bool.false_or]
      by_cases hs : isScanFail c = true
      · simp only [hs, ↓reduceIte, Bool.not_true, Bool.false_and, Bool.false_eq_true]
      · have hs' : isScanFail c = false := by simpa using hs
        simp only [hs', Bool.false_eq_true, ↓reduceIte, Bool.not_false, Bool.true_and]
        rw [pre_alone env c hc n (s.attrs.get (attrKey c)) []]
        cases hr : (runFrom env (c.checks.take n) (accessMap c.kind [] [])).1 with
        | ok => simp only [beq_self_eq_true, ↓reduceIte]; exact ih hb _
        | pedTypeCheck => simp only; rfl
        | pedTVMismatch => simp only; rfl
        | escape => simp only; rfl
  have nil : (∀ c ∈ Tree.callsL [], Indep c) → ∀ s : Stores, (runBody env [] s).log = aloneBody env [] := by
    intro _ s; rfl
  have cons : ∀ t ts,
      ((∀ c ∈ t.calls, Indep c) → ∀ s : Stores,
        (runTree env t s).out = (runCall env t.call Stores.empty).1 ∧ (runTree env t s).log = aloneBelow env t) →
      ((∀ c ∈ Tree.callsL ts, Indep c) → ∀ s : Stores, (runBody env ts s).log = aloneBody env ts) →
      ((∀ c ∈ Tree.callsL (t :: ts), Indep c) → ∀ s : Stores, (runBody env (t :: ts) s).log = aloneBody env (t :: ts)) := by
    intro t ts iht ihts hall s
    have h1 := iht (fun c h => hall c (by simp [Tree.callsL, h])) s
    have h2 := ihts (fun c h => hall c (by simp [Tree.callsL, h])) (runTree env t s).st
    simp only [runBody, aloneBody]
    rw [h1.1, h1.2, h2]
    rfl
  exact ⟨Tree.ind node nil cons, Tree.indL node nil cons⟩

/-! ### the property on call trees, against the stateless specification -/

/-- journal entry by journal entry: the lists have the same length and every call that was made ended as its verdict demands -/
def AllDemandOpt : List Spec.Verdict → List (Option Out) → Prop
  | [], [] => True
  | vd :: vs, o :: os => (∀ x, o = some x → Demands vd x) ∧ AllDemandOpt vs os
  | _, _ => False

theorem allDemandOpt_append : ∀ (a : List Spec.Verdict) (x : List (Option Out)) (b : List Spec.Verdict) (y : List (Option Out)),
    AllDemandOpt a x → AllDemandOpt b y → AllDemandOpt (a ++ b) (x ++ y) := by
  intro a
  induction a with
  | nil => intro x b y h1 h2; cases x with
    | nil => exact h2
    | cons _ _ => exact absurd h1 (by simp [AllDemandOpt])
  | cons vd vs ih => intro x b y h1 h2; cases x with
    | nil => exact absurd h1 (by simp [AllDemandOpt])
    | cons o os => exact ⟨h1.1, ih os b y h1.2 h2⟩

theorem allDemandOpt_skipped (env : Env) :
    (∀ t : Tree, AllDemandOpt (Spec.specCall env t.call :: Spec.specBelow env t) (List.replicate t.count none)) ∧
    (∀ ts : List Tree, AllDemandOpt (Spec.specBody env ts) (List.replicate (Tree.countL ts) none)) := by
  have node : ∀ c n body, AllDemandOpt (Spec.specBody env body) (List.replicate (Tree.countL body) none) →
      AllDemandOpt (Spec.specCall env (Tree.node c n body).call :: Spec.specBelow env (.node c n body))
        (List.replicate (Tree.node c n body).count none) := by
    intro c n body ih
    simp only [Tree.count, Spec.specBelow, Nat.add_comm 1, List.replicate_succ]
    exact ⟨fun x h => by simp at h, ih⟩
  have nil : AllDemandOpt (Spec.specBody env []) (List.replicate (Tree.countL []) none) := by
    simp [Spec.specBody, Tree.countL, AllDemandOpt]
  have cons : ∀ t ts, AllDemandOpt (Spec.specCall env t.call :: Spec.specBelow env t) (List.replicate t.count none) →
      AllDemandOpt (Spec.specBody env ts) (List.replicate (Tree.countL ts) none) →
      AllDemandOpt (Spec.specBody env (t :: ts)) (List.replicate (Tree.countL (t :: ts)) none) := by
    intro t ts h1 h2
    simp only [Spec.specBody, Tree.countL]
    rw [← List.replicate_append_replicate]
    exact allDemandOpt_append (_ :: _) _ _ _ h1 h2
  exact ⟨Tree.ind node nil cons, Tree.indL node nil cons⟩

/-- **the property on the model over arbitrary finite call trees, outside the recorded region**: whatever the nesting — any
    depth, same instance / other instances / plain functions in any mix, from any stores — the outermost call and every nested
    call that is made end as the stateless specification of THAT call demands (class parameters replaced by `X`); the
    specification of a call looks neither at the calls its body makes nor at the call it was made from -/
theorem C07_tree_partial (env : Env) (wf : EnvWF env) :
    (∀ t : Tree, (∀ c ∈ t.calls, InVocab env c ∧ Guard env c) → ∀ s : Stores,
      Demands (Spec.specCall env t.call) (runTree env t s).out ∧ AllDemandOpt (Spec.specBelow env t) (runTree env t s).log) ∧
    (∀ ts : List Tree, (∀ c ∈ Tree.callsL ts, InVocab env c ∧ Guard env c) → ∀ s : Stores,
      AllDemandOpt (Spec.specBody env ts) (runBody env ts s).log) := by
  have node : ∀ c n body,
      ((∀ c ∈ Tree.callsL body, InVocab env c ∧ Guard env c) → ∀ s : Stores, AllDemandOpt (Spec.specBody env body) (runBody env body s).log) →
      ((∀ c' ∈ (Tree.node c n body).calls, InVocab env c' ∧ Guard env c') → ∀ s : Stores,
        Demands (Spec.specCall env (Tree.node c n body).call) (runTree env (.node c n body) s).out ∧
        AllDemandOpt (Spec.specBelow env (.node c n body)) (runTree env (.node c n body) s).log) := by
    intro c n body ih hall s
    have hc := hall c (by simp [Tree.calls])
    have hb : ∀ c' ∈ Tree.callsL body, InVocab env c' ∧ Guard env c' := fun c' h => hall c' (by simp [Tree.calls, h])
    refine ⟨?_, ?_⟩
    · rw [runTree_out]; exact call_demands env wf c hc.1 hc.2 _
    · have hsk : AllDemandOpt (Spec.specBody env body) (skipped body) := (allDemandOpt_skipped env).2 body
      unfold runTree
      simp only [resolveOncePerCall, ↓reduceIte, Spec.specBelow]
      split
      · exact ih hb _
      · split
        · exact hsk
        · split
          · exact ih hb _
          · exact hsk
  have nil : (∀ c ∈ Tree.callsL [], InVocab env c ∧ Guard env c) → ∀ s : Stores, AllDemandOpt (Spec.specBody env []) (runBody env [] s).log := by
    intro _ s; simp [Spec.specBody, runBody, AllDemandOpt]
  have cons : ∀ t ts,
      ((∀ c ∈ t.calls, InVocab env c ∧ Guard env c) → ∀ s : Stores,
        Demands (Spec.specCall env t.call) (runTree env t s).out ∧ AllDemandOpt (Spec.specBelow env t) (runTree env t s).log) →
      ((∀ c ∈ Tree.callsL ts, InVocab env c ∧ Guard env c) → ∀ s : Stores, AllDemandOpt (Spec.specBody env ts) (runBody env ts s).log) →
      ((∀ c ∈ Tree.callsL (t :: ts), InVocab env c ∧ Guard env c) → ∀ s : Stores,
        AllDemandOpt (Spec.specBody env (t :: ts)) (runBody env (t :: ts) s).log) := by
    intro t ts iht ihts hall s
    have h1 := iht (fun c h => hall c (by simp [Tree.callsL, h])) s
    have h2 := ihts (fun c h => hall c (by simp [Tree.callsL, h])) (runTree env t s).st
    simp only [runBody, Spec.specBody]
    exact ⟨fun x hx => by cases hx; exact h1.1, allDemandOpt_append _ _ _ _ h1.2 h2⟩
  exact ⟨Tree.ind node nil cons, Tree.indL node nil cons⟩

/-- ... and for histories of call trees over any number of instances -/
def ForestDemand (env : Env) : List Tree → List (Out × List (Option Out)) → Prop
  | [], [] => True
  | t :: ts, r :: rs => Demands (Spec.specCall env t.call) r.1 ∧ AllDemandOpt (Spec.specBelow env t) r.2 ∧ ForestDemand env ts rs
  | _, _ => False

theorem C07_forest_partial (env : Env) (wf : EnvWF env) : ∀ (ts : List Tree), (∀ t ∈ ts, ∀ c ∈ t.calls, InVocab env c ∧ Guard env c) →
    ∀ s : Stores, ForestDemand env ts (runForest env ts s) := by
  intro ts
  induction ts with
  | nil => intros; trivial
  | cons t ts ih =>
    intro hall s
    have h := (C07_tree_partial env wf).1 t (hall t (by simp)) s
    exact ⟨h.1, h.2, ih (fun t' ht' => hall t' (by simp [ht'])) _⟩


/-! ### concrete call trees (the class table of the harness) -/

/-- decidable form of `Indep` -/
def indepB (c : Call) : Bool :=
  match c.kind with
  | .perCall => true
  | .resetEachAccess => true
  | .genericInstance params g => params.all (fun p => (keys g).contains p)

theorem indep_of_indepB (c : Call) (h : indepB c = true) : Indep c := by
  unfold indepB at h
  cases hk : c.kind with
  | perCall => exact Or.inl hk
  | resetEachAccess => exact Or.inr (Or.inl hk)
  | genericInstance params g =>
    rw [hk] at h
    refine Or.inr (Or.inr ⟨params, g, hk, ?_⟩)
    intro p hp
    have := List.all_eq_true.mp h p hp
    simpa using this

/-- a method of `Box[int]()` (instance 1) -/
private def onBox1 (checks : List (A × Val)) : Call := ⟨1, 0, .genericInstance [0] [(0, .cls 2)], false, checks⟩

/-- `echo(self, value: S) -> S` of a non-generic `@pedantic_class` class is called with an int and returns a str; before it
    returns, its body calls `note(msg: str)` on the same instance, and `convert(self, value: S, fallback: S) -> S` on a
    `Box[int]()`, whose body in turn calls a plain function and `remember(item: S)` on that box -/
def demoTree : Tree :=
  .node (onNG [(S, .inst 2), (.cls 0, .inst 3), (S, .inst 3)]) 2
    [leaf (onNG [(.cls 3, .inst 3), retNone]),
     .node (onBox1 [(S, .inst 3), (S, .inst 3), (.cls 0, .inst 3), (S, .inst 3)]) 3
       [leaf (plain [(S, .inst 5), retNone]), leaf (onBox1 [(S, .inst 2), (T, .inst 2), retNone])]]

/-- the mismatch of the OUTER call is reported although four calls ran in between, two of them on the same instance; each of
    those is accepted although they bind `S` to other classes than their callers -/
example : (runTree envX demoTree Stores.empty).out = .pedTVMismatch ∧
    (runTree envX demoTree Stores.empty).log = [some .ok, some .ok, some .ok, some .ok] := by decide

example : ∀ c ∈ demoTree.calls, Indep c := fun c hc => indep_of_indepB c (by revert c hc; decide)

/-- in the reverse direction: the nested call binds `S` to str, the outer call (int in, int out) is still accepted -/
example : (runTree envX (.node (onNG [(S, .inst 2), (.cls 0, .inst 2), (S, .inst 2)]) 2 [leaf (onNG [(S, .inst 3), retNone])]) Stores.empty).out = .ok := by
  decide

/-- a body that does not run: the parameter check of the nested `convert` fails, its two calls are never made -/
example : (runTree envX (.node (onNG [(S, .inst 2), retNone]) 1
      [.node (onBox1 [(T, .inst 3), retNone]) 1 [leaf (plain [(S, .inst 5), retNone]), leaf (plain [(S, .inst 5), retNone])]]) Stores.empty).log
    = [some .pedTVMismatch, none, none] := by decide

private theorem vocab_Box1 {l : List (A × Val)} (h : l.all (fun ch => frag envX ch.1) = true) : InVocab envX (onBox1 l) := by
  refine ⟨frag_list h, ?_⟩
  intro p g hg
  simp only [onBox1, StoreKind.genericInstance.injEq] at hg
  obtain ⟨rfl, rfl⟩ := hg
  exact ⟨goodBoxInt, by decide, fun _ => by decide⟩

/-- the tree meets the hypotheses of `C07_tree_partial` (every call in the vocabulary, none in the recorded region) -/
example : ∀ c ∈ demoTree.calls, InVocab envX c ∧ Guard envX c := by
  intro c hc
  simp only [demoTree, leaf, Tree.calls, Tree.callsL, List.append_nil, List.cons_append, List.nil_append, List.mem_cons, List.not_mem_nil, or_false] at hc
  rcases hc with rfl | rfl | rfl | rfl | rfl
  · exact ⟨vocab_NG (by decide), by decide⟩
  · exact ⟨vocab_NG (by decide), by decide⟩
  · exact ⟨vocab_Box1 (by decide), by decide⟩
  · exact ⟨vocab_plain (by decide), by decide⟩
  · exact ⟨vocab_Box1 (by decide), by decide⟩

example : Spec.specCall envX demoTree.call = .tvm ∧ Spec.specBelow envX demoTree = [.accept, .accept, .accept, .accept] := by decide

/-! ## Calls in flight at the same time: the outcome of a call does not depend on the schedule -/

/-- a whole segment with one dict: verdict and agreement on `ks` are kept -/
theorem runFrom_frame2 (env : Env) (ks : List TVId) : ∀ (checks : List (A × Val)) (m₁ m₂ : TVMap), checksIn ks checks →
    AgreeOn ks m₁ m₂ → (runFrom env checks m₁).1 = (runFrom env checks m₂).1 ∧ AgreeOn ks (runFrom env checks m₁).2 (runFrom env checks m₂).2 := by
  intro checks
  induction checks with
  | nil => intro m₁ m₂ _ h; exact ⟨rfl, h⟩
  | cons c rest ih =>
    obtain ⟨a, v⟩ := c
    intro m₁ m₂ hall h
    have hf := isInst_frame env ks a (hall (a, v) (by simp)) v m₁ m₂ h
    simp only [runFrom]
    rw [hf.1]
    cases failure (isInst env a v m₂).1 with
    | some o => exact ⟨rfl, hf.2⟩
    | none => exact ih _ _ (fun c hc => hall c (by simp [hc])) hf.2

/-- what the first access of an independent call yields does not depend (on the TypeVars of the call) on what the instance shows -/
theorem access_agree (c : Call) (hc : Indep c) (a₁ a₂ : TVMap) :
    AgreeOn (Spec.callTVs c) (accessMap c.kind [] a₁) (accessMap c.kind [] a₂) := by
  rcases hc with h | h | ⟨params, g, hk, hp⟩
  · rw [h]; intro t _; rfl
  · rw [h]; intro t _; simp [accessMap, instanceAccessorSwitch, nonGenericFresh]
  · rw [hk]
    simp only [accessMap, instanceAccessorSwitch, ↓reduceIte]
    intro t _
    exact rebuild_ext params g _ _ hp t

/-- every remaining check of the job is a check of its call -/
def Job.Sub (jb : Job) : Prop := ∀ seg ∈ jb.todo, ∀ ch ∈ seg, ch ∈ jb.c.checks

theorem sub_checksIn (jb : Job) (h : jb.Sub) (seg : List (A × Val)) (hs : seg ∈ jb.todo) : checksIn (Spec.callTVs jb.c) seg := by
  intro ch hch
  apply tvsIn_of_tvsOf
  intro t ht
  simp only [Spec.callTVs, List.mem_flatMap]
  exact ⟨ch, h seg hs ch hch, ht⟩

def dictRel (ks : List TVId) : Option TVMap → Option TVMap → Prop
  | none, none => True
  | some m₁, some m₂ => AgreeOn ks m₁ m₂
  | _, _ => False

/-- the same job up to the bindings of TypeVars its call never mentions -/
def JobRel (a b : Job) : Prop :=
  a.c = b.c ∧ a.eager = b.eager ∧ a.todo = b.todo ∧ a.started = b.started ∧ a.out = b.out ∧ a.priv = b.priv ∧
  dictRel (Spec.callTVs a.c) a.dict b.dict

theorem dictRel_refl (ks : List TVId) (d : Option TVMap) : dictRel ks d d := by
  cases d with
  | none => trivial
  | some m => intro t _; rfl

theorem dictRel_trans {ks : List TVId} {a b c : Option TVMap} (h1 : dictRel ks a b) (h2 : dictRel ks b c) : dictRel ks a c := by
  cases a <;> cases b <;> cases c <;> simp only [dictRel] at * 
  · intro t ht; exact (h1 t ht).trans (h2 t ht)

theorem JobRel.refl (a : Job) : JobRel a a := ⟨rfl, rfl, rfl, rfl, rfl, rfl, dictRel_refl _ _⟩

theorem JobRel.trans {a b c : Job} (h1 : JobRel a b) (h2 : JobRel b c) : JobRel a c := by
  obtain ⟨a1, a2, a3, a4, a5, a6, a7⟩ := h1
  obtain ⟨b1, b2, b3, b4, b5, b6, b7⟩ := h2
  refine ⟨a1.trans b1, a2.trans b2, a3.trans b3, a4.trans b4, a5.trans b5, a6.trans b6, ?_⟩
  rw [← a1] at b7
  exact dictRel_trans a7 b7

theorem step_c (env : Env) (jb : Job) (cm attr : TVMap) : (jb.step env cm attr).c = jb.c := by
  unfold Job.step
  split
  · rfl
  · rfl
  · simp only [generatorGetsResolvedStore, Bool.not_true, Bool.and_false, Bool.false_and, Bool.false_eq_true, ↓reduceIte]
    split
    · rfl
    · split <;> rfl

theorem step_sub (env : Env) (jb : Job) (cm attr : TVMap) (h : jb.Sub) : (jb.step env cm attr).Sub := by
  unfold Job.Sub
  rw [step_c]
  unfold Job.step
  split
  · exact h
  · exact h
  · rename_i seg rest _ htodo
    have hrest : ∀ s ∈ rest, ∀ ch ∈ s, ch ∈ jb.c.checks := fun s hs => h s (by rw [htodo]; simp [hs])
    simp only [generatorGetsResolvedStore, Bool.not_true, Bool.and_false, Bool.false_and, Bool.false_eq_true, ↓reduceIte]
    split
    · exact h
    · split <;> exact hrest


theorem step_rel (env : Env) (a b : Job) (hc : Indep a.c) (hs : a.Sub) (h : JobRel a b) (at₁ at₂ : TVMap) :
    JobRel (a.step env [] at₁) (b.step env [] at₂) := by
  obtain ⟨c, e, todo, st, d₁, p, o⟩ := a
  obtain ⟨c', e', todo', st', d₂, p', o'⟩ := b
  obtain ⟨h1, h2, h3, h4, h5, h6, h7⟩ := h
  simp only at h1 h2 h3 h4 h5 h6 h7 hc
  subst h1 h2 h3 h4 h5 h6
  cases o with
  | some x => exact ⟨rfl, rfl, rfl, rfl, rfl, rfl, h7⟩
  | none =>
    cases todo with
    | nil => exact ⟨rfl, rfl, rfl, rfl, rfl, rfl, h7⟩
    | cons seg rest =>
      have hseg : checksIn (Spec.callTVs c) seg := sub_checksIn _ hs seg (by simp)
      cases d₁ with
      | none =>
        cases d₂ with
        | some _ => exact absurd h7 (by simp [dictRel])
        | none =>
          simp only [Job.step, generatorGetsResolvedStore, Bool.not_true, Bool.and_false, Bool.false_and, Bool.false_eq_true, ↓reduceIte,
            Option.isNone_none, Bool.true_and]
          by_cases hr : (!seg.isEmpty || e && !st) = true
          · simp only [hr, Bool.true_and, ↓reduceIte]
            by_cases hsc : isScanFail c = true
            · simp only [hsc, ↓reduceIte]; exact ⟨rfl, rfl, rfl, rfl, rfl, rfl, trivial⟩
            · simp only [hsc, Bool.false_eq_true, ↓reduceIte]
              have hf := runFrom_frame2 env (Spec.callTVs c) seg _ _ hseg (access_agree c hc at₁ at₂)
              refine ⟨rfl, rfl, rfl, rfl, ?_, rfl, hf.2⟩
              simp only; rw [hf.1]
          · simp only [hr, Bool.false_eq_true, Bool.false_and, ↓reduceIte]
            exact ⟨rfl, rfl, rfl, rfl, rfl, rfl, trivial⟩
      | some m₁ =>
        cases d₂ with
        | none => exact absurd h7 (by simp [dictRel])
        | some m₂ =>
          simp only [Job.step, generatorGetsResolvedStore, Bool.not_true, Bool.and_false, Bool.false_and, Bool.false_eq_true, ↓reduceIte,
            Option.isNone_some]
          have hf := runFrom_frame2 env (Spec.callTVs c) seg m₁ m₂ hseg h7
          refine ⟨rfl, rfl, rfl, rfl, ?_, rfl, hf.2⟩
          simp only; rw [hf.1]


/-- the job advanced `k` times ALONE: nothing else in flight, nothing on the instance -/
def stepsAlone (env : Env) (jb : Job) : Nat → Job
  | 0 => jb
  | k + 1 => stepsAlone env (jb.step env [] []) k

theorem stepsAlone_rel (env : Env) : ∀ (k : Nat) (a b : Job), Indep a.c → a.Sub → JobRel a b →
    JobRel (stepsAlone env a k) (stepsAlone env b k) := by
  intro k
  induction k with
  | zero => intro a b _ _ h; exact h
  | succ k ih =>
    intro a b hc hs h
    simp only [stepsAlone]
    exact ih _ _ (by rw [step_c]; exact hc) (step_sub env a _ _ hs) (step_rel env a b hc hs h [] [])

theorem advance_self (env : Env) (s : Sys) (i : Nat) (jb : Job) (h : s.jobs[i]? = some jb) :
    (advance env i s).jobs[i]? = some (jb.step env [] (s.attr (attrKey jb.c))) := by
  unfold advance
  rw [h]
  simp only [perCallFreshMap, ↓reduceIte]
  have hlt : i < s.jobs.length := by
    rcases Nat.lt_or_ge i s.jobs.length with hl | hl
    · exact hl
    · rw [List.getElem?_eq_none hl] at h; cases h
  simp [List.getElem?_set_self hlt]

theorem advance_other (env : Env) (s : Sys) (i j : Nat) (hij : j ≠ i) : (advance env j s).jobs[i]? = s.jobs[i]? := by
  unfold advance
  cases hj : s.jobs[j]? with
  | none => rfl
  | some jb => simp only; exact List.getElem?_set_ne hij

/-- **the outcome of a call does not depend on the schedule**: whatever the order in which the calls in flight advance —
    other calls of the same function, calls on the same instance, before, between and after the pieces of this call — a plain
    function / method of a non-generic class / method of an instance `Cls[X]()` is, after the schedule, where the same call
    is after as many advances made ALONE (up to bindings of TypeVars it never mentions) -/
theorem sched_independent (env : Env) : ∀ (order : List Nat) (s : Sys) (i : Nat) (jb : Job), s.jobs[i]? = some jb → Indep jb.c → jb.Sub →
    ∃ jb', (runOrder env order s).jobs[i]? = some jb' ∧ JobRel jb' (stepsAlone env jb (order.count i)) := by
  intro order
  induction order with
  | nil => intro s i jb h _ _; exact ⟨jb, h, JobRel.refl _⟩
  | cons j rest ih =>
    intro s i jb h hc hs
    simp only [runOrder]
    by_cases hij : j = i
    · subst hij
      have h1 := advance_self env s j jb h
      obtain ⟨jb', hj', hrel⟩ := ih (advance env j s) j _ h1 (by rw [step_c]; exact hc) (step_sub env jb _ _ hs)
      refine ⟨jb', hj', ?_⟩
      rw [List.count_cons_self]
      simp only [stepsAlone]
      refine hrel.trans (stepsAlone_rel env _ _ _ (by rw [step_c]; exact hc) (step_sub env jb _ _ hs) ?_)
      exact step_rel env jb jb hc hs (JobRel.refl _) _ _
    · have h1 : (advance env j s).jobs[i]? = some jb := by rw [advance_other env s i j hij]; exact h
      obtain ⟨jb', hj', hrel⟩ := ih (advance env j s) i jb h1 hc hs
      refine ⟨jb', hj', ?_⟩
      rw [List.count_cons_of_ne hij]
      exact hrel

/-- … in particular it has ended iff the call alone has, and with the same outcome -/
theorem sched_outcome_alone (env : Env) (order : List Nat) (s : Sys) (i : Nat) (jb : Job) (h : s.jobs[i]? = some jb)
    (hc : Indep jb.c) (hs : jb.Sub) :
    ((runOrder env order s).jobs[i]?).map (·.out) = some (stepsAlone env jb (order.count i)).out := by
  obtain ⟨jb', hj', hrel⟩ := sched_independent env order s i jb h hc hs
  rw [hj']
  simp only [Option.map_some]
  rw [hrel.2.2.2.2.1]


/-! ### … and a schedule that sees a call through ends it as the specification demands -/

theorem step_ended (env : Env) (jb : Job) (cm attr : TVMap) (h : jb.out.isSome = true) : jb.step env cm attr = jb := by
  unfold Job.step
  cases ho : jb.out with
  | none => rw [ho] at h; cases h
  | some o => rfl

theorem stepsAlone_ended (env : Env) : ∀ (k : Nat) (jb : Job), jb.out.isSome = true → stepsAlone env jb k = jb := by
  intro k
  induction k with
  | zero => intros; rfl
  | succ k ih => intro jb h; simp only [stepsAlone]; rw [step_ended env jb _ _ h]; exact ih jb h

/-- the dict the remaining checks of a job run with when it is alone -/
def Job.mapAlone (jb : Job) : TVMap :=
  match jb.dict with
  | some m => m
  | none => accessMap jb.c.kind [] []

/-- a job alone, advanced at least as often as it has pieces left, ends as all its remaining checks run in order with one dict -/
theorem alone_runs (env : Env) : ∀ (todo : List (List (A × Val))) (jb : Job), jb.todo = todo → todo ≠ [] → jb.out = none →
    isScanFail jb.c = false → ∀ k, todo.length ≤ k → (stepsAlone env jb k).out = some (runFrom env todo.flatten jb.mapAlone).1 := by
  intro todo
  induction todo with
  | nil => intro jb _ h; exact absurd rfl h
  | cons seg rest ih =>
    intro jb htodo _ hout hscan k hk
    obtain ⟨c, e, todo', st, d, p, o⟩ := jb
    simp only at htodo hout hscan
    subst htodo hout
    cases k with
    | zero => simp at hk
    | succ k =>
      simp only [stepsAlone]
      have hk' : rest.length ≤ k := by simp at hk; omega
      -- the job after its next piece
      cases d with
      | some m =>
        simp only [Job.step, generatorGetsResolvedStore, Bool.not_true, Bool.and_false, Bool.false_and, Bool.false_eq_true, ↓reduceIte,
          Option.isNone_some, Job.mapAlone, List.flatten_cons]
        cases hr : (runFrom env seg m).1 with
        | ok =>
          rw [runFrom_append_ok env _ _ _ hr]
          cases rest with
          | nil =>
            simp only [List.isEmpty_nil, ↓reduceIte, List.flatten_nil, runFrom]
            rw [stepsAlone_ended env k _ rfl]
          | cons s2 rest' =>
            simp only [List.isEmpty_cons, Bool.false_eq_true, ↓reduceIte]
            exact ih _ rfl (by simp) rfl hscan k hk'
        | pedTypeCheck => rw [runFrom_append_fail env _ _ _ (by rw [hr]; decide), hr]; rw [stepsAlone_ended env k _ rfl]
        | pedTVMismatch => rw [runFrom_append_fail env _ _ _ (by rw [hr]; decide), hr]; rw [stepsAlone_ended env k _ rfl]
        | escape => rw [runFrom_append_fail env _ _ _ (by rw [hr]; decide), hr]; rw [stepsAlone_ended env k _ rfl]
      | none =>
        simp only [Job.step, generatorGetsResolvedStore, Bool.not_true, Bool.and_false, Bool.false_and, Bool.false_eq_true, ↓reduceIte,
          Option.isNone_none, Bool.true_and, hscan, Job.mapAlone, List.flatten_cons]
        by_cases hres : (!seg.isEmpty || e && !st) = true
        · simp only [hres, ↓reduceIte]
          generalize accessMap c.kind [] [] = m
          cases hr : (runFrom env seg m).1 with
          | ok =>
            rw [runFrom_append_ok env _ _ _ hr]
            cases rest with
            | nil =>
              simp only [List.isEmpty_nil, ↓reduceIte, List.flatten_nil, runFrom]
              rw [stepsAlone_ended env k _ rfl]
            | cons s2 rest' =>
              simp only [List.isEmpty_cons, Bool.false_eq_true, ↓reduceIte]
              exact ih _ rfl (by simp) rfl hscan k hk'
          | pedTypeCheck => rw [runFrom_append_fail env _ _ _ (by rw [hr]; decide), hr]; rw [stepsAlone_ended env k _ rfl]
          | pedTVMismatch => rw [runFrom_append_fail env _ _ _ (by rw [hr]; decide), hr]; rw [stepsAlone_ended env k _ rfl]
          | escape => rw [runFrom_append_fail env _ _ _ (by rw [hr]; decide), hr]; rw [stepsAlone_ended env k _ rfl]
        · have hse : seg = [] := by
            cases seg with
            | nil => rfl
            | cons _ _ => simp at hres
          subst hse
          simp only [hres, Bool.false_eq_true, ↓reduceIte, List.nil_append]
          cases rest with
          | nil =>
            simp only [List.isEmpty_nil, ↓reduceIte, List.flatten_nil, runFrom]
            rw [stepsAlone_ended env k _ rfl]
          | cons s2 rest' =>
            simp only [List.isEmpty_cons, Bool.false_eq_true, ↓reduceIte]
            exact ih _ rfl (by simp) rfl hscan k hk'


/-- a call about to be made whose pieces are exactly its checks, in order -/
structure Job.Fresh (jb : Job) : Prop where
  pieces : jb.todo ≠ []
  flat : jb.todo.flatten = jb.c.checks
  notEnded : jb.out = none
  unresolved : jb.dict = none
  noScan : isScanFail jb.c = false

theorem fresh_sub (jb : Job) (h : jb.todo.flatten = jb.c.checks) : jb.Sub := by
  intro seg hs ch hch
  rw [← h]
  exact List.mem_flatten.mpr ⟨seg, hs, hch⟩

theorem fresh_is_fresh (c : Call) (eager : Bool) (segs : List (List (A × Val))) (h1 : segs ≠ []) (h2 : segs.flatten = c.checks)
    (h3 : isScanFail c = false) : (Job.fresh c eager segs).Fresh := ⟨h1, h2, rfl, rfl, h3⟩

/-- **a call that the schedule sees through ends as the same call made alone**, whatever else is in flight -/
theorem sched_complete_alone (env : Env) (order : List Nat) (s : Sys) (i : Nat) (jb : Job) (h : s.jobs[i]? = some jb)
    (hc : Indep jb.c) (hf : jb.Fresh) (hcount : jb.todo.length ≤ order.count i) :
    ((runOrder env order s).jobs[i]?).map (·.out) = some (some (runCall env jb.c Stores.empty).1) := by
  rw [sched_outcome_alone env order s i jb h hc (fresh_sub jb hf.flat)]
  rw [alone_runs env jb.todo jb rfl hf.pieces hf.notEnded hf.noScan _ hcount]
  rw [runCall_out_of_not_scan env jb.c Stores.empty hf.noScan, hf.flat]
  simp only [Job.mapAlone, hf.unresolved]
  rfl

/-- **the property for calls in flight at the same time, outside the recorded region**: every call in the vocabulary that a
    schedule sees through — a generator function driven to its end, a coroutine function run to its end — ends as the
    stateless specification of that call demands (the yielded values are among its checks: they must be compatible with the
    bindings of the parameters of THIS call and with the `X` of its instance), in every schedule, next to any other calls -/
theorem C07_sched_partial (env : Env) (wf : EnvWF env) (order : List Nat) (s : Sys) (i : Nat) (jb : Job) (h : s.jobs[i]? = some jb)
    (hc : Indep jb.c) (hf : jb.Fresh) (hcount : jb.todo.length ≤ order.count i) (hv : InVocab env jb.c) (hg : Guard env jb.c) :
    ∃ o, ((runOrder env order s).jobs[i]?).map (·.out) = some (some o) ∧ Demands (Spec.specCall env jb.c) o :=
  ⟨_, sched_complete_alone env order s i jb h hc hf hcount, call_demands env wf jb.c hv hg _⟩


/-! ### concrete schedules (the class table of the harness) -/

/-- `def repeat(item: T, r: object) -> Iterator[T]` yielding `item` twice: the parameters when the call is made, then per `next()`
    the `None` sent in (not the first time) and the yielded value, last the `None` sent in and the `None` returned -/
private def repeatJob (mk : List (A × Val) → Call) (v : Val) (y₁ y₂ : Val) : Job :=
  let segs : List (List (A × Val)) := [[(T, v), (.cls 0, .list [y₁, y₂])], [(T, y₁)], [(.cls 1, .inst 1), (T, y₂)], [(.cls 1, .inst 1), (.cls 1, .inst 1)]]
  Job.fresh (mk segs.flatten) true segs

/-- two live generators of ONE plain function, `T` = int in one and str in the other: both are accepted when they are consumed
    one after the other, alternately (`zip`), or in any other order -/
example :
    ((runOrder envX [0, 0, 0, 0, 1, 1, 1, 1] ⟨[repeatJob plain (.inst 2) (.inst 2) (.inst 2), repeatJob plain (.inst 3) (.inst 3) (.inst 3)], [], []⟩).jobs.map (·.out)
      = [some .ok, some .ok]) ∧
    ((runOrder envX [0, 1, 0, 1, 0, 1, 0, 1] ⟨[repeatJob plain (.inst 2) (.inst 2) (.inst 2), repeatJob plain (.inst 3) (.inst 3) (.inst 3)], [], []⟩).jobs.map (·.out)
      = [some .ok, some .ok]) ∧
    ((runOrder envX [1, 0, 0, 1, 1, 0, 1, 0] ⟨[repeatJob plain (.inst 2) (.inst 2) (.inst 2), repeatJob plain (.inst 3) (.inst 3) (.inst 3)], [], []⟩).jobs.map (·.out)
      = [some .ok, some .ok]) := by decide

/-- a generator method of `Box[int]()` (instance 1) that yields a str — or an int first and then a str — is stopped with
    PedanticTypeVarMismatchException, also while another generator of the same method is alive -/
example :
    (runOrder envX [0, 1, 0, 1, 0, 1, 0, 1] ⟨[repeatJob onBox1 (.inst 2) (.inst 2) (.inst 3), repeatJob onBox1 (.inst 2) (.inst 2) (.inst 2)], [], []⟩).jobs.map (·.out)
      = [some .pedTVMismatch, some .ok] := by decide

example : (repeatJob plain (.inst 2) (.inst 2) (.inst 2)).Fresh ∧ (repeatJob onBox1 (.inst 2) (.inst 2) (.inst 3)).Fresh :=
  ⟨fresh_is_fresh _ _ _ (by decide) rfl rfl, fresh_is_fresh _ _ _ (by decide) rfl rfl⟩

example : Indep (repeatJob onBox1 (.inst 2) (.inst 2) (.inst 3)).c := indep_of_indepB _ (by decide)

/-- `async def echo(value: S, r: object) -> S`: two coroutines of it in flight on one loop (first step: the parameters;
    after the await: the result), `S` = int in one, str in the other: both return -/
example :
    let echo (v : Val) : Job := Job.fresh (onNG [(S, v), (.cls 0, v), (S, v)]) false [[(S, v), (.cls 0, v)], [(S, v)]]
    (runOrder envX [0, 1, 0, 1] ⟨[echo (.inst 2), echo (.inst 3)], [], []⟩).jobs.map (·.out) = [some .ok, some .ok] := by decide

/-- recursion: `def nested(value: T, r: object) -> T` (ONE function object, `fn` 0) calls itself with a str while the outer level
    holds an int, and that level calls itself with a `C1`: every level returns its own value and is accepted — a call tree whose
    nodes are calls of the same function is just a call tree (`tree_journal_alone`, `C07_tree_partial` apply) -/
example :
    let lvl (v : Val) (body : List Tree) : Tree := .node (plain [(T, v), (.cls 0, v), (T, v)]) 2 body
    (runTree envX (lvl (.inst 2) [lvl (.inst 3) [lvl (.inst 11) []]]) Stores.empty).out = .ok ∧
    (runTree envX (lvl (.inst 2) [lvl (.inst 3) [lvl (.inst 11) []]]) Stores.empty).log = [some .ok, some .ok] := by decide

/-! ## Union alternatives, variadic keyword parameters, class shapes -/

/-- position fact of the translated statement list: the binding statement comes after every test of the TypeVar branch -/
theorem bind_after_every_test : ∀ a ∈ tvArms, a ≠ Arm.bind → tvArms.idxOf a < tvArms.idxOf Arm.bind := by decide

/-- ... and it is the last statement before `return True` -/
theorem bind_is_last : tvArms.getLast? = some Arm.bind := by decide

/-- **the binding is written only when the value was accepted**: whatever the dict holds, a value that fails a constraint, the
    bound, or the comparison with an earlier binding (`False` or an exception) leaves the dict exactly as it was -/
theorem tvBranch_writes_only_when_accepted (env : Env) (t : TVId) (v : Val) (m : TVMap)
    (h : (tvBranch env t v m).1 ≠ .ok true) : (tvBranch env t v m).2 = m := by
  rw [tvBranch_eq] at h ⊢
  unfold tvSem at h ⊢
  cases hp : tvPre env t v with
  | ok b =>
    cases b with
    | false => simp
    | true =>
      rw [hp] at h
      simp only at h ⊢
      cases hm : m.get? t with
      | none => rw [hm] at h; simp at h
      | some other =>
        simp only
        cases tvCmp env t other v with
        | ok b => cases b <;> simp
        | _ => simp
  | _ => simp

/-- ... and when it is written, it is the runtime class of the value for a TypeVar that had no binding -/
theorem tvBranch_write (env : Env) (t : TVId) (v : Val) (m : TVMap) :
    (tvBranch env t v m).2 = m ∨ (m.get? t = none ∧ (tvBranch env t v m).2 = m.set t (.cls (v.typeOf env))) := by
  rw [tvBranch_eq]
  unfold tvSem
  cases hp : tvPre env t v with
  | ok b =>
    cases b with
    | false => exact Or.inl rfl
    | true =>
      simp only
      cases hm : m.get? t with
      | none => exact Or.inr ⟨rfl, rfl⟩
      | some other =>
        simp only
        cases tvCmp env t other v with
        | ok b => cases b <;> exact Or.inl rfl
        | _ => exact Or.inl rfl
  | _ => exact Or.inl rfl

/-! ### a union whose TypeVars sit inside one container alternative -/

/-- TypeVar-free members in the vocabulary: the model answers `conformsAny` and leaves the dict alone -/
theorem membersInst_closed (env : Env) : ∀ (l : List A), Spec.closedL l = true → fragL env l = true → ∀ v m,
    membersInst env l v m = (.ok (Spec.conformsAny env l v), m) := by
  intro l
  induction l with
  | nil => intro _ _ v m; simp [tvEq, Spec.conformsAny]
  | cons a as ih =>
    intro hc hf v m
    simp only [Spec.closedL, Bool.and_eq_true] at hc
    simp only [fragL, Bool.and_eq_true] at hf
    simp only [tvEq, closed_not_tv hc.1, Bool.false_eq_true, ↓reduceIte, isInst_closed_conforms env a hf.1 hc.1 v m,
      ih hc.2 hf.2 v m, Spec.conformsAny]

theorem tvMembers_closed : ∀ (l : List A), Spec.closedL l = true → tvMembers l = [] := by
  intro l
  induction l with
  | nil => intro _; rfl
  | cons a as ih =>
    intro hc
    simp only [Spec.closedL, Bool.and_eq_true] at hc
    cases a <;> simp_all [tvMembers, Spec.closed]

theorem tvMembers_append (l₁ l₂ : List A) : tvMembers (l₁ ++ l₂) = tvMembers l₁ ++ tvMembers l₂ := by
  induction l₁ with
  | nil => rfl
  | cons a as ih => cases a <;> simp [tvMembers, ih]

theorem tvMembers_not_tv (x : A) (h : x.isTV = false) (l : List A) : tvMembers (x :: l) = tvMembers l := by
  cases x <;> simp_all [tvMembers, A.isTV]

/-- the members of `pre ++ x :: post`, `pre` and `post` TypeVar-free: the dict goes through `x` only -/
theorem membersInst_alt (env : Env) (x : A) (hxt : x.isTV = false) (post : List A) (hpc : Spec.closedL post = true) (hpf : fragL env post = true) :
    ∀ (pre : List A), Spec.closedL pre = true → fragL env pre = true → ∀ v m,
    membersInst env (pre ++ x :: post) v m =
      (match isInst env x v m with
       | (.ok b, m') => (.ok (Spec.conformsAny env pre v || (b || Spec.conformsAny env post v)), m')
       | r => r) := by
  intro pre
  induction pre with
  | nil =>
    intro _ _ v m
    simp only [List.nil_append, tvEq, hxt, Bool.false_eq_true, ↓reduceIte, Spec.conformsAny, Bool.false_or]
    rcases hr : isInst env x v m with ⟨r, m'⟩
    cases r with
    | ok b => simp [membersInst_closed env post hpc hpf v m']
    | _ => rfl
  | cons a as ih =>
    intro hc hf v m
    simp only [Spec.closedL, Bool.and_eq_true] at hc
    simp only [fragL, Bool.and_eq_true] at hf
    simp only [List.cons_append, tvEq, closed_not_tv hc.1, Bool.false_eq_true, ↓reduceIte,
      isInst_closed_conforms env a hf.1 hc.1 v m, ih hc.2 hf.2 v m, Spec.conformsAny]
    rcases hr : isInst env x v m with ⟨r, m'⟩
    cases r with
    | ok b => simp [Bool.or_assoc]
    | _ => rfl

/-- `_check_union` on such a union: True iff some alternative accepts; an exception raised inside `x` leaves at once -/
theorem isInst_alt_union (env : Env) (pre post : List A) (x : A) (hxt : x.isTV = false)
    (hprec : Spec.closedL pre = true) (hpref : fragL env pre = true) (hpc : Spec.closedL post = true) (hpf : fragL env post = true)
    (v : Val) (m : TVMap) :
    isInst env (.union (pre ++ x :: post)) v m =
      (match isInst env x v m with
       | (.ok b, m') => (.ok (Spec.conformsAny env pre v || (b || Spec.conformsAny env post v)), m')
       | r => r) := by
  have htv : tvMembers (pre ++ x :: post) = [] := by
    rw [tvMembers_append, tvMembers_not_tv x hxt, tvMembers_closed pre hprec, tvMembers_closed post hpc]; rfl
  simp only [tvEq, membersInst_alt env x hxt post hpc hpf pre hprec hpref v m, htv, unionTVs_nil]
  rcases hr : isInst env x v m with ⟨r, m'⟩
  cases r with
  | ok b =>
    simp only
    cases Spec.conformsAny env pre v || (b || Spec.conformsAny env post v) <;> rfl
  | _ => rfl

theorem walkEach_append (env : Env) (l₁ l₂ : List A) (v : Val) (s : Spec.Seen) :
    Spec.walkEach env (l₁ ++ l₂) v s = Spec.walkEach env l₁ v s ++ Spec.walkEach env l₂ v s := by
  induction l₁ with
  | nil => rfl
  | cons a as ih => simp [Spec.walkEach, ih]

theorem walkEach_length (env : Env) (l : List A) (v : Val) (s : Spec.Seen) : (Spec.walkEach env l v s).length = l.length := by
  induction l with
  | nil => rfl
  | cons a as ih => simp [Spec.walkEach, ih]

/-- of the alternatives of `pre ++ x :: post` only `x` mentions TypeVars -/
theorem alt_open (env : Env) (x : A) (hxc : Spec.closed x = false) (post : List A) (hpc : Spec.closedL post = true) (v : Val) (s : Spec.Seen) :
    ∀ (pre : List A), Spec.closedL pre = true →
      ((pre ++ x :: post).zip (Spec.walkEach env (pre ++ x :: post) v s)).filter (fun p => !Spec.closed p.1) = [(x, Spec.walk env x v s)] := by
  have hpost : ∀ (l : List A), Spec.closedL l = true → (l.zip (Spec.walkEach env l v s)).filter (fun p => !Spec.closed p.1) = [] := by
    intro l
    induction l with
    | nil => intro _; rfl
    | cons a as ih =>
      intro hc
      simp only [Spec.closedL, Bool.and_eq_true] at hc
      simp [Spec.walkEach, hc.1, ih hc.2]
  intro pre
  induction pre with
  | nil => intro _; simp [Spec.walkEach, hxc, hpost post hpc]
  | cons a as ih =>
    intro hc
    simp only [Spec.closedL, Bool.and_eq_true] at hc
    simp [Spec.walkEach, hc.1, ih hc.2]

theorem closedOnly_alt (x : A) (hxc : Spec.closed x = false) (post : List A) (hpc : Spec.closedL post = true) :
    ∀ (pre : List A), Spec.closedL pre = true → Spec.closedOnly (pre ++ x :: post) = pre ++ post := by
  have hpost : ∀ (l : List A), Spec.closedL l = true → Spec.closedOnly l = l := by
    intro l
    induction l with
    | nil => intro _; rfl
    | cons a as ih =>
      intro hc
      simp only [Spec.closedL, Bool.and_eq_true] at hc
      simp [Spec.closedOnly, hc.1, ih hc.2]
  intro pre
  induction pre with
  | nil => intro _; simp [Spec.closedOnly, hxc, hpost post hpc]
  | cons a as ih =>
    intro hc
    simp only [Spec.closedL, Bool.and_eq_true] at hc
    simp [Spec.closedOnly, hc.1, ih hc.2]

theorem conformsAny_append (env : Env) (l₁ l₂ : List A) (v : Val) :
    Spec.conformsAny env (l₁ ++ l₂) v = (Spec.conformsAny env l₁ v || Spec.conformsAny env l₂ v) := by
  induction l₁ with
  | nil => simp [Spec.conformsAny]
  | cons a as ih => simp [Spec.conformsAny, ih, Bool.or_assoc]

theorem closedL_append (l₁ l₂ : List A) : Spec.closedL (l₁ ++ l₂) = (Spec.closedL l₁ && Spec.closedL l₂) := by
  induction l₁ with
  | nil => simp [Spec.closedL]
  | cons a as ih => simp [Spec.closedL, ih, Bool.and_assoc]

/-- outside the TypeVar-free and the `Optional[...]` forms the specification of a union is `altVerdict` over the walks of its alternatives -/
theorem walkUnion_alt (env : Env) (ms : List A) (hcl : Spec.closedL ms = false) (hnn : ∀ a ∈ ms, Spec.isNoneCls env a = false)
    (v : Val) (s : Spec.Seen) :
    Spec.walkUnion env ms v s =
      Spec.altVerdict Spec.closed A.isTV (Spec.conformsAny env (Spec.closedOnly ms) v) ms s (Spec.walkEach env ms v s) := by
  match ms, hcl, hnn with
  | [], hcl, _ => simp [Spec.closedL] at hcl
  | [a], hcl, _ => simp [Spec.walkUnion, hcl, Spec.walkEach]
  | [a, b], hcl, hnn =>
    have ha := hnn a (by simp)
    have hb := hnn b (by simp)
    have hab : (Spec.closed a && Spec.closed b) = false := by simpa [Spec.closedL] using hcl
    simp [Spec.walkUnion, hab, ha, hb, Spec.walkEach]
  | a :: b :: c :: r, hcl, _ => simp [Spec.walkUnion, hcl, Spec.walkEach]

/-- what the alternatives of a claimed union look like: `pre ++ x :: post`, `x` a container in the vocabulary with TypeVars
    inside, every other alternative TypeVar-free, in the vocabulary and not `None` (`Optional[...]` is `walk_refines`) -/
structure AltUnion (env : Env) (pre : List A) (x : A) (post : List A) : Prop where
  xFrag : frag env x = true
  xOpen : Spec.closed x = false
  xNotTV : x.isTV = false
  preClosed : Spec.closedL pre = true
  preFrag : fragL env pre = true
  postClosed : Spec.closedL post = true
  postFrag : fragL env post = true
  noNone : ∀ a ∈ pre ++ post, Spec.isNoneCls env a = false

theorem isNoneCls_open (env : Env) (x : A) (h : Spec.closed x = false) : Spec.isNoneCls env x = false := by
  cases x <;> simp_all [Spec.isNoneCls, Spec.closed]

/-- **a union with one TypeVar alternative, on the per-call store**: from a dict that mirrors what the specification has seen,
    `_check_union` does what the specification demands of the union — the bindings of the alternative `x` count exactly when `x`
    accepts — PROVIDED the alternative, when it fails, hands the dict back as it received it (`hkeeps`: the guard; where it does
    not hold the code keeps what the failed alternative tied: finding `failedUnionAlternativeLeavesBinding`) -/
theorem alt_union_refines (env : Env) (wf : EnvWF env) (pre post : List A) (x : A) (hu : AltUnion env pre x post)
    (v : Val) (s : Spec.Seen) (m : TVMap) (h : Inv [] s m)
    (hkeeps : (isInst env x v m).1 = .ok false → (isInst env x v m).2 = m) :
    Refines [] (Spec.walk env (.union (pre ++ x :: post)) v s) (isInst env (.union (pre ++ x :: post)) v m) := by
  have hx := walk_refines env wf [] (goodGenerics_nil env) x hu.xFrag v s m h
  rw [subst_nil] at hx
  have hcl : Spec.closedL (pre ++ x :: post) = false := by
    rw [closedL_append]; simp [Spec.closedL, hu.xOpen]
  have hnn : ∀ a ∈ pre ++ x :: post, Spec.isNoneCls env a = false := by
    intro a ha
    simp only [List.mem_append, List.mem_cons] at ha
    rcases ha with ha | rfl | ha
    · exact hu.noNone a (by simp [ha])
    · exact isNoneCls_open env _ hu.xOpen
    · exact hu.noNone a (by simp [ha])
  simp only [Spec.walk]
  rw [walkUnion_alt env _ hcl hnn v s, isInst_alt_union env pre post x hu.xNotTV hu.preClosed hu.preFrag hu.postClosed hu.postFrag v m]
  unfold Spec.altVerdict
  rw [alt_open env x hu.xOpen post hu.postClosed v s pre hu.preClosed, closedOnly_alt x hu.xOpen post hu.postClosed pre hu.preClosed,
    conformsAny_append]
  simp only [hu.xNotTV, Bool.false_eq_true, ↓reduceIte]
  rcases hr : isInst env x v m with ⟨r, m'⟩
  rw [hr] at hx hkeeps
  simp only at hkeeps
  cases hw : Spec.walk env x v s with
  | cont s' =>
    rw [hw] at hx
    obtain ⟨h1, h2⟩ := hx
    simp only at h1 h2
    subst h1
    simp only [Bool.true_or, Bool.or_true]
    split
    · trivial
    · exact ⟨rfl, h2⟩
  | stop vd =>
    rw [hw] at hx
    cases vd with
    | accept => exact hx.elim
    | unclaimed => trivial
    | tvm =>
      have h1 : r = .raisedTV := hx
      subst h1
      simp only
      split
      · trivial
      · rfl
    | tvmInUnion =>
      have h1 : r = .ok false := hx
      subst h1
      simp only [Bool.false_or]
      cases hc : Spec.conformsAny env pre v || Spec.conformsAny env post v with
      | true => simp [Refines]
      | false => simp [Refines]
    | reject =>
      have h1 : RejectOK [] r := hx
      rcases h1 with rfl | ⟨hg, _⟩
      · have hm' : m' = m := hkeeps rfl
        subst hm'
        simp only [Bool.false_or]
        cases hc : Spec.conformsAny env pre v || Spec.conformsAny env post v with
        | true => exact ⟨rfl, h⟩
        | false => exact Or.inl rfl
      · exact absurd rfl hg

/-- a per-call store: plain functions, static / class methods, directly decorated methods, methods of non-generic `@pedantic_class` classes -/
def PerCallStore (c : Call) : Prop := c.kind = .perCall ∨ c.kind = .resetEachAccess

theorem perCall_run (env : Env) (c : Call) (hk : PerCallStore c) (s : Stores) : (runCall env c s).1 = (runFrom env c.checks []).1 := by
  rcases hk with hk | hk
  · unfold runCall
    rw [hk]
    simp only [perCallFreshMap, ↓reduceIte]
    rw [runChecks_fst]; rfl
  · unfold runCall
    rw [hk]
    simp only
    rw [runChecks_fst]
    simp [accessMap, instanceAccessorSwitch, nonGenericFresh]

theorem perCall_spec (env : Env) (c : Call) (hk : PerCallStore c) (hu : Spec.specCall env c ≠ .unclaimed) :
    Spec.specCall env c = Spec.specChecks env c.checks [] := by
  have hscan : c.scanFails = false := by
    cases hs : c.scanFails with
    | false => rfl
    | true => exfalso; apply hu; simp [Spec.specCall, hs]
  have hcl : Spec.claimableChecks env c.checks = true := by
    cases hs : Spec.claimableChecks env c.checks with
    | true => rfl
    | false => exfalso; apply hu; simp [Spec.specCall, hscan, hs]
  rcases hk with hk | hk <;> simp [Spec.specCall, hscan, hcl, hk]

/-- **a call whose first checked value stands at a union with one TypeVar alternative** (`def scale(values: Union[List[N], List[str]],
    factor: N) -> N`), every other parameter and the result in the vocabulary of `call_refines`: the call ends as the specification
    demands — in particular a value that the TypeVar alternative rejects and another alternative accepts binds NOTHING, the later
    values for the same TypeVar are judged among themselves only — provided the failing alternative hands the (empty) dict back
    unchanged (`hkeeps`; e.g. `keeps_first_element`, `keeps_wrong_container`) -/
theorem alt_call_refines (env : Env) (wf : EnvWF env) (c : Call) (hk : PerCallStore c)
    (pre post : List A) (x : A) (hu : AltUnion env pre x post) (v : Val) (rest : List (A × Val))
    (hc : c.checks = (.union (pre ++ x :: post), v) :: rest) (hrest : ∀ ch ∈ rest, frag env ch.1 = true)
    (hkeeps : (isInst env x v []).1 = .ok false → (isInst env x v []).2 = []) (s : Stores) :
    Meets [] (Spec.specCall env c) (runCall env c s).1 := by
  by_cases hun : Spec.specCall env c = .unclaimed
  · rw [hun]; trivial
  · rw [perCall_spec env c hk hun, perCall_run env c hk s, hc]
    have hw := alt_union_refines env wf pre post x hu v [] [] inv_nil hkeeps
    simp only [Spec.specChecks, runFrom]
    rcases hr : isInst env (.union (pre ++ x :: post)) v [] with ⟨r, m'⟩
    rw [hr] at hw
    cases hwk : Spec.walk env (.union (pre ++ x :: post)) v [] with
    | cont s' =>
      rw [hwk] at hw
      obtain ⟨h1, h2⟩ := hw
      simp only at h1 h2
      subst h1
      simp only [failure]
      have := checks_refine env wf [] (goodGenerics_nil env) rest hrest s' m' h2
      rwa [substChecks_nil] at this
    | stop vd =>
      rw [hwk] at hw
      simp only
      cases vd with
      | accept => exact hw.elim
      | unclaimed => trivial
      | tvm => have h1 : r = .raisedTV := hw; subst h1; simp [failure, Meets]
      | tvmInUnion => have h1 : r = .ok false := hw; subst h1; simp [failure, Meets]
      | reject =>
        have h1 : RejectOK [] r := hw
        rcases h1 with rfl | ⟨hg', _⟩
        · simp [failure, Meets]
        · exact absurd rfl hg'

/-- the alternative `List[T]` / `Tuple[T, ...]` fails at its FIRST element (constraint / bound of `T`): the dict is handed back
    unchanged, whatever it holds (rests on the order of the translated statement list through `tvBranch_eq`) -/
theorem keeps_first_element (env : Env) (t : TVId) (y : Val) (ys : List Val) (hy : tvPre env t y ≠ .ok true) (m : TVMap) :
    (isInst env (.listOf (.tv t)) (.list (y :: ys)) m).2 = m ∧ (isInst env (.tupleVar (.tv t)) (.tuple (y :: ys)) m).2 = m := by
  have h1 : tvBranch env t y m = (tvPre env t y, m) := by
    rw [tvBranch_eq]
    exact tvSem_of_pre env t y m hy
  constructor
  · simp only [tvEq, allWith]
    rw [h1]
    cases hp : tvPre env t y with
    | ok b => cases b with
      | true => exact absurd hp hy
      | false => rfl
    | _ => rfl
  · simp only [tvEq, allWith]
    rw [h1]
    cases hp : tvPre env t y with
    | ok b => cases b with
      | true => exact absurd hp hy
      | false => rfl
    | _ => rfl

/-- the value is not of the container class of the alternative: nothing is looked at, nothing is bound -/
theorem keeps_wrong_container (env : Env) (a : A) (k w : A) (c : ClsId) (xs : List Val) (m : TVMap) :
    (isInst env (.listOf a) (.inst c) m).2 = m ∧ (isInst env (.listOf a) (.tuple xs) m).2 = m ∧
    (isInst env (.dictOf k w) (.inst c) m).2 = m ∧ (isInst env (.dictOf k w) (.list xs) m).2 = m ∧
    (isInst env (.tupleVar a) (.list xs) m).2 = m := by
  simp [tvEq]

/-! ### variadic keyword parameters -/

/-- **every keyword argument that names no named parameter is matched against the annotation of `**kwargs`** — also one that
    carries the name of the `*args` / `**kwargs` parameter itself (rests on the translated filter of `not_yet_check_kwargs`) -/
theorem kwargs_all_checked (k : VarKw) : k.checks = Spec.kwChecks k := by
  simp [VarKw.checks, notYetChecked, kwargsFilter, Spec.kwChecks]

theorem kwarg_is_checked (k : VarKw) (key : String) (v : Val) (h : (key, v) ∈ k.items) (hn : key ∉ k.named) :
    (k.ann, v) ∈ k.checks := by
  rw [kwargs_all_checked]
  simp only [Spec.kwChecks, List.mem_map, List.mem_filter]
  exact ⟨(key, v), ⟨h, by simpa using hn⟩, rfl⟩

/-- the checks of a call with a `**` parameter, as the code makes them and as the property counts them -/
theorem spliceChecks_eq (checks : List (A × Val)) (k : Option VarKw) : spliceChecks checks k = Spec.spliceSpec checks k := by
  cases k with
  | none => rfl
  | some k => simp [spliceChecks, Spec.spliceSpec, kwargs_all_checked]

/-- so a call with a `**kwargs: T` parameter ends as the specification demands when EVERY extra keyword value is counted as a
    value matched against `T` (instance of `call_refines`) -/
theorem variadic_call_refines (env : Env) (wf : EnvWF env) (c : Call) (checks : List (A × Val)) (k : Option VarKw)
    (hc : c.checks = spliceChecks checks k) (hv : InVocab env c) (s : Stores) :
    Meets (kindG c.kind) (Spec.specCall env { c with checks := Spec.spliceSpec checks k }) (runCall env c s).1 := by
  have : ({ c with checks := Spec.spliceSpec checks k } : Call) = c := by
    rw [← spliceChecks_eq, ← hc]
  rw [this]
  exact call_refines env wf c hv s

/-! ### class shapes -/

theorem zipX_get_none : ∀ (ps : List TVId) (acts : List A) (t : TVId), t ∉ ps → (Spec.zipX ps acts).get? t = none := by
  intro ps
  induction ps with
  | nil => intro acts t _; cases acts <;> rfl
  | cons p ps ih =>
    intro acts t ht
    cases acts with
    | nil => rfl
    | cons x xs =>
      simp only [List.mem_cons, not_or] at ht
      have hpt : (p == t) = false := by simp; exact fun h => ht.1 h.symm
      simp only [Spec.zipX, TVMap.get?, hpt, Bool.false_eq_true, ↓reduceIte]
      exact ih xs t ht.2

/-- zipping the parameters of the class with as many arguments never runs out of arguments, and binds the i-th parameter to the i-th argument -/
theorem zipGenerics_params : ∀ (ps : List TVId) (acts : List A) (m : TVMap), ps.Nodup → ps.length = acts.length →
    ∃ g, zipGenerics (ps.map A.tv) acts m = some g ∧
      ∀ t, g.get? t = (match (Spec.zipX ps acts).get? t with | some b => some b | none => m.get? t) := by
  intro ps
  induction ps with
  | nil =>
    intro acts m _ hl
    cases acts with
    | nil => exact ⟨m, rfl, fun t => rfl⟩
    | cons _ _ => simp at hl
  | cons p ps ih =>
    intro acts m hnd hl
    cases acts with
    | nil => simp at hl
    | cons x xs =>
      simp only [List.nodup_cons] at hnd
      obtain ⟨g, hg, hget⟩ := ih xs (m.set p x) hnd.2 (by simpa using hl)
      refine ⟨g, by simpa [zipGenerics] using hg, ?_⟩
      intro t
      rw [hget t]
      by_cases htp : t = p
      · subst htp
        rw [zipX_get_none ps xs t hnd.1]
        simp [Spec.zipX, TVMap.get?, get?_set_self]
      · have hpt : (p == t) = false := by simp; exact fun h => htp h.symm
        simp only [Spec.zipX, TVMap.get?, hpt, Bool.false_eq_true, ↓reduceIte]
        cases (Spec.zipX ps xs).get? t with
        | some b => rfl
        | none => simp only; exact get?_set_ne m x htp

/-- the accessor reads the type parameters of the class off `__parameters__` — whatever base the class has them from (translated:
    `genericParamsFrom`) -/
theorem typeVariables_are_parameters (sh : Shape) : sh.typeVariables = some (sh.params.map A.tv) := by
  simp [Shape.typeVariables, Shape.typeVariablesWith, genericParamsFrom]

/-- a class with type parameters is generic for the accessor — also one that has them only through a generic base (translated: `genericTest`) -/
theorem isGeneric_of_params (sh : Shape) (hne : sh.params ≠ []) : sh.isGeneric = true := by
  have hemp : sh.params.isEmpty = false := by cases h : sh.params with | nil => exact absurd h hne | cons _ _ => rfl
  simp [Shape.isGeneric, Shape.isGenericWith, genericTest, hemp]

/-- **an instance `Cls[X1, ..]()` of a class with type parameters resolves them to `X1, ..`** — whatever makes the class generic (an
    explicit `Generic[...]`, a typing alias base, a user generic base, several bases in any order): no exception leaves the accessor,
    and the bindings are the ones the property speaks of (rests on `genericParamsFrom`, `genericTest`) -/
theorem shape_resolves (sh : Shape) (hne : sh.params ≠ []) (hnd : sh.params.Nodup)
    (acts : List A) (hact : sh.actual = some acts) (hlen : sh.params.length = acts.length) :
    ∃ g, sh.kind = some (.genericInstance sh.params g) ∧ ∀ t, g.get? t = (Spec.zipX sh.params acts).get? t := by
  have htv := typeVariables_are_parameters sh
  have hgen := isGeneric_of_params sh hne
  simp only [Shape.typeVariables] at htv
  simp only [Shape.isGeneric] at hgen
  obtain ⟨g, hg, hget⟩ := zipGenerics_params sh.params acts [] hnd hlen
  refine ⟨g, ?_, ?_⟩
  · simp [Shape.kind, Shape.kindWith, genericsFromOrigClass, hgen, Shape.genericsWith, hact, htv, hg]
  · intro t
    rw [hget t]
    cases (Spec.zipX sh.params acts).get? t <;> rfl

/-- inside `__init__` (no `__orig_class__` yet) nothing is read from the bases: no exception, no class-parameter binding -/
theorem shape_in_init (sh : Shape) (hact : sh.inInit = true) :
    sh.kind = some (if sh.isGeneric then .genericInstance sh.params [] else .resetEachAccess) := by
  have h : sh.isGenericWith genericTest = sh.isGeneric := rfl
  cases hgen : sh.isGeneric <;> simp [Shape.kind, Shape.kindWith, h, genericsFromOrigClass, hgen, Shape.genericsWith, Shape.actual, hact]

theorem set_new_key : ∀ (m : TVMap) (t : TVId) (x : A), t ∉ keys m → m.set t x = m ++ [(t, x)] := by
  intro m
  induction m with
  | nil => intro t x _; rfl
  | cons kv rest ih =>
    intro t x ht
    obtain ⟨k, y⟩ := kv
    simp only [keys, List.map_cons, List.mem_cons, not_or] at ht
    have hk : (k == t) = false := by simp; exact fun h => ht.1 h.symm
    simp only [TVMap.set, hk, Bool.false_eq_true, ↓reduceIte, List.cons_append]
    rw [ih t x (by simpa [keys] using ht.2)]

/-- the zip is EXACTLY `Ti ↦ Xi` in the order of the parameters (`pairUp`) -/
theorem zipGenerics_exact : ∀ (ps : List TVId) (acts : List A) (m : TVMap), ps.Nodup → ps.length = acts.length → (∀ p ∈ ps, p ∉ keys m) →
    zipGenerics (ps.map A.tv) acts m = some (m ++ Spec.zipX ps acts) := by
  intro ps
  induction ps with
  | nil =>
    intro acts m _ hl _
    cases acts with
    | nil => simp [zipGenerics, Spec.zipX]
    | cons _ _ => simp at hl
  | cons p ps ih =>
    intro acts m hnd hl hdis
    cases acts with
    | nil => simp at hl
    | cons x xs =>
      simp only [List.nodup_cons] at hnd
      have hp : p ∉ keys m := hdis p (by simp)
      simp only [List.map_cons, zipGenerics]
      rw [set_new_key m p x hp]
      rw [ih xs (m ++ [(p, x)]) hnd.2 (by simpa using hl) ?_]
      · simp [Spec.zipX]
      · intro q hq
        simp only [keys, List.map_append, List.map_cons, List.map_nil, List.mem_append, List.mem_singleton, not_or]
        refine ⟨by simpa [keys] using hdis q (by simp [hq]), ?_⟩
        intro hqp; subst hqp; exact hnd.1 hq

/-- **what the library derives for an instance `Cls[X1, ..](...)` of a class with type parameters, once `__init__` has returned, is
    what the DECLARATIONS say**: the store of a generic instance with exactly `Ti ↦ Xi` — `Shape.kind` (the model of
    `is_instance_of_generic_class` and `check_instance_of_generic_class_and_get_type_vars`, resting on `genericsFromOrigClass`,
    `genericParamsFrom` and `genericTest`) equals `Spec.shapeKind` (read off the class statement and the creating expression).
    No condition on the bases: `R(Dict[str, T], Generic[T])`, `C(Mixin, Generic[T])`, `C(List[List[T]])`, `C(Dict[K, V], Generic[V, K])`,
    `Child(Base[T])` are covered (the regions of the repaired findings genericParamsFromFirstBase / genericSubclassNotRecognised). -/
theorem shape_kind_eq_spec (sh : Shape) (hnd : sh.params.Nodup)
    (hne : sh.params ≠ []) (X : List A) (hdecl : sh.declared = some X) (hinit : sh.inInit = false) (hlen : sh.params.length = X.length) :
    sh.kind = some (Spec.shapeKind sh) := by
  have htv := typeVariables_are_parameters sh
  have hgen := isGeneric_of_params sh hne
  simp only [Shape.typeVariables] at htv
  simp only [Shape.isGeneric] at hgen
  have hz := zipGenerics_exact sh.params X [] hnd hlen (by intro p _; simp [keys])
  have hemp : sh.params.isEmpty = false := by cases h : sh.params with | nil => exact absurd h hne | cons _ _ => rfl
  simp [Shape.kind, Shape.kindWith, genericsFromOrigClass, hgen, Shape.genericsWith, Shape.actual, hinit, hdecl, htv, hz, Spec.shapeKind, hemp]

/-- **the per-instance clause from the declarations**: a method call, made after construction, on an instance created as
    `Cls[X1, ..](...)` of ANY `@pedantic_class` class with type parameters ends as the specification of `Cls[X]` demands: the model
    derives the store from the class shape (`hk`), the specification from the declarations -/
theorem declared_call_refines (env : Env) (wf : EnvWF env) (sh : Shape)
    (hnd : sh.params.Nodup) (hne : sh.params ≠ []) (X : List A) (hdecl : sh.declared = some X) (hinit : sh.inInit = false)
    (hlen : sh.params.length = X.length) (c : Call) (hk : sh.kind = some c.kind) (hv : InVocab env c) (s : Stores) :
    Meets (kindG (Spec.shapeKind sh)) (Spec.specCall env { c with kind := Spec.shapeKind sh }) (runCall env c s).1 := by
  have hkind : c.kind = Spec.shapeKind sh := by
    have := shape_kind_eq_spec sh hnd hne X hdecl hinit hlen
    rw [this] at hk
    exact (Option.some.inj hk).symm
  have hc : ({ c with kind := Spec.shapeKind sh } : Call) = c := by rw [← hkind]
  rw [hc, ← hkind]
  exact call_refines env wf c hv s

/-- `class Bag(List[T])`, `Bag[str]()`: T ↦ str (0 = T, 3 = str); `class Table(Dict[K, V])`, `Table[str, int]()` (0, 1 = K, V) -/
example : ∃ g, (Shape.mk true [0] [(false, [.tv 0])] (some [.cls 3]) false).kind = some (.genericInstance [0] g) ∧
    ∀ t, g.get? t = (Spec.zipX [0] [.cls 3]).get? t :=
  shape_resolves (Shape.mk true [0] [(false, [.tv 0])] (some [.cls 3]) false) (by decide) (by decide) _ rfl rfl
example : ∃ g, (Shape.mk true [0, 1] [(false, [.tv 0, .tv 1])] (some [.cls 3, .cls 2]) false).kind = some (.genericInstance [0, 1] g) ∧
    ∀ t, g.get? t = (Spec.zipX [0, 1] [.cls 3, .cls 2]).get? t :=
  shape_resolves (Shape.mk true [0, 1] [(false, [.tv 0, .tv 1])] (some [.cls 3, .cls 2]) false) (by decide) (by decide) _ rfl rfl

/-! #### repaired findings genericParamsFromFirstBase / genericSubclassNotRecognised (repair: the accessor reads
    `type(instance).__parameters__`, and a class is generic when it still has type parameters).  `fixed_*`: the shapes of the former
    failing inputs on the CURRENT translated facts (instances of `shape_kind_eq_spec`, and the former failing calls evaluated);
    `former_*`: the same shapes evaluated at the FORMER facts (`Shape.kindWith .firstOrigBase .directBase`) — what the finding was. -/

private def shRegistry : Shape := ⟨true, [0], [(false, [.cls 3, .tv 0]), (true, [.tv 0])], some [.cls 2], false⟩       -- R(Dict[str, T], Generic[T])[int]
private def shMixinFirst : Shape := ⟨true, [0], [(false, []), (true, [.tv 0])], some [.cls 2], false⟩                  -- C(Mixin, Generic[T])[int]
private def shNested : Shape := ⟨true, [0], [(false, [.listOf (.tv 0)])], some [.cls 2], false⟩                        -- C(List[List[T]])[int]
private def shSwapped : Shape := ⟨true, [1, 0], [(false, [.tv 0, .tv 1]), (true, [.tv 1, .tv 0])], some [.cls 3, .cls 2], false⟩   -- C(Dict[K, V], Generic[V, K])[str, int]
private def shChild : Shape := ⟨false, [0], [(false, [.tv 0])], some [.cls 2], false⟩                                  -- Child(Base[T])[int]
private def putCall (t : TVId) (k : StoreKind) (v : Val) : Call := ⟨0, 0, k, false, [(.tv t, v), retNone]⟩

/-- `R(Dict[str, T], Generic[T])`, `R[int]()`: no exception, T ↦ int — `put(item=1)` is accepted, `put(item='s')` raises the mismatch -/
theorem fixed_first_base_with_other_arguments :
    shRegistry.kind = some (Spec.shapeKind shRegistry) ∧
    (shRegistry.kind.map fun k => (runCall envX (putCall 0 k (.inst 2)) Stores.empty).1) = some .ok ∧
    (shRegistry.kind.map fun k => (runCall envX (putCall 0 k (.inst 3)) Stores.empty).1) = some .pedTVMismatch :=
  ⟨shape_kind_eq_spec shRegistry (by decide) (by decide) [.cls 2] rfl rfl rfl, by decide, by decide⟩

/-- `C(Mixin, Generic[T])`, `C(List[List[T]])`: `C[int]().put(item='s')` raises the mismatch -/
theorem fixed_first_base_without_arguments :
    shMixinFirst.kind = some (Spec.shapeKind shMixinFirst) ∧ shNested.kind = some (Spec.shapeKind shNested) ∧
    (shMixinFirst.kind.map fun k => (runCall envX (putCall 0 k (.inst 3)) Stores.empty).1) = some .pedTVMismatch ∧
    (shNested.kind.map fun k => (runCall envX (putCall 0 k (.inst 3)) Stores.empty).1) = some .pedTVMismatch :=
  ⟨shape_kind_eq_spec shMixinFirst (by decide) (by decide) [.cls 2] rfl rfl rfl,
   shape_kind_eq_spec shNested (by decide) (by decide) [.cls 2] rfl rfl rfl, by decide, by decide⟩

/-- `C(Dict[K, V], Generic[V, K])` (parameters V, K = 1, 0), `C[str, int]()`: V ↦ str, K ↦ int — `put_v(item='s')` is accepted, `put_v(item=1)` not -/
theorem fixed_first_base_in_other_order :
    shSwapped.kind = some (Spec.shapeKind shSwapped) ∧
    (shSwapped.kind.map fun k => (runCall envX (putCall 1 k (.inst 3)) Stores.empty).1) = some .ok ∧
    (shSwapped.kind.map fun k => (runCall envX (putCall 1 k (.inst 2)) Stores.empty).1) = some .pedTVMismatch :=
  ⟨shape_kind_eq_spec shSwapped (by decide) (by decide) [.cls 3, .cls 2] rfl rfl rfl, by decide, by decide⟩

/-- `class Child(Base[T])`, `Child[int]().put(item='s')`: the instance is one of a generic class, the call raises the mismatch the
    specification of `Child[int]` demands -/
theorem fixed_generic_subclass_recognised :
    shChild.kind = some (Spec.shapeKind shChild) ∧
    (shChild.kind.map fun k => (runCall envX (putCall 0 k (.inst 3)) Stores.empty).1) = some .pedTVMismatch ∧
    Spec.specCall envX (putCall 0 (Spec.shapeKind shChild) (.inst 3)) = .reject ∧ Spec.shapeRegions shChild = [] :=
  ⟨shape_kind_eq_spec shChild (by decide) (by decide) [.cls 2] rfl rfl rfl, by decide, by decide, by decide⟩

/-- what the findings were, at the former facts (type parameters = the arguments of `__orig_bases__[0]`; generic = `Generic` among the
    direct bases): IndexError for `R`; T not bound at all for the mixin-first class; K ↦ str for the swapped one; the store of a
    non-generic class for `Child` -/
theorem former_generic_params_from_first_base :
    (shRegistry.kindWith .firstOrigBase .directBase).isNone = true ∧
    ((shMixinFirst.genericsWith .firstOrigBase).map (·.length)) = some 0 ∧
    ((shSwapped.genericsWith .firstOrigBase).map (fun g => match g.get? 0 with | some (.cls 3) => true | _ => false)) = some true := by decide

theorem former_generic_subclass_not_recognised (params : List TVId) (ob : List (Bool × List A)) (act : Option (List A)) (ini : Bool) (src : ParamSrc) :
    (Shape.mk false params ob act ini).kindWith src .directBase = some .resetEachAccess := by
  simp [Shape.kindWith, Shape.isGenericWith, genericsFromOrigClass]

/-- finding `initOfGenericInstanceUnchecked`, witness: `@pedantic_class class BoxI(Generic[T]): def __init__(self, a: T) -> None`;
    `BoxI[int](a='x')` — the declarations say T = int, the specification demands a rejection; inside `__init__` the instance has no
    `__orig_class__` yet, the model (as the code) finds no binding for T and accepts -/
theorem init_of_generic_instance_unchecked_witness :
    let sh : Shape := ⟨true, [0], [(true, [.tv 0])], some [.cls 2], true⟩
    let c (k : StoreKind) : Call := ⟨0, 0, k, false, [(T, .inst 3), retNone]⟩
    (sh.kind.map fun k => (runCall envX (c k) Stores.empty).1) = some .ok ∧
    Spec.specCall envX (c (Spec.shapeKind sh)) = .reject ∧ Spec.shapeRegions sh = ["initOfGenericInstanceUnchecked"] := by decide

/-! ### concrete unions (the class table of the harness: 2 int, 3 str, 5 float, 0 object; TypeVar 2 = TC(int, str)) -/

private def scaleCall (values factor result : Val) : Call :=
  plain [(.union [.listOf (.tv 2), .listOf (.cls 5)], values), (.tv 2, factor), (.cls 0, result), (.tv 2, result)]

private theorem scaleUnion : AltUnion envX [] (.listOf (.tv 2)) [.listOf (.cls 5)] where
  xFrag := by decide
  xOpen := by decide
  xNotTV := by decide
  preClosed := by decide
  preFrag := by decide
  postClosed := by decide
  postFrag := by decide
  noNone := by decide

/-- `def scale(values: Union[List[TC], List[float]], factor: TC, r: object) -> TC`: `scale(values=[1.5, 2.5], factor=3, r=3)` — the
    floats are no `TC`, the list is accepted as `List[float]`, and `3` is the only value matched against `TC`: accepted, from every
    state of the stores (instance of `alt_call_refines`; the guard holds by `keeps_first_element`) -/
example (s : Stores) : (runCall envX (scaleCall (.list [.inst 5, .inst 5]) (.inst 2) (.inst 2)) s).1 = .ok := by
  have h := alt_call_refines envX wfX (scaleCall (.list [.inst 5, .inst 5]) (.inst 2) (.inst 2)) (Or.inl rfl) [] [.listOf (.cls 5)] (.listOf (.tv 2))
    scaleUnion (.list [.inst 5, .inst 5]) _ rfl (by decide)
    (fun _ => (keeps_first_element envX 2 (.inst 5) [.inst 5] (by decide) []).1) s
  have hs : Spec.specCall envX (scaleCall (.list [.inst 5, .inst 5]) (.inst 2) (.inst 2)) = .accept := by decide
  rw [hs] at h
  exact h

/-- ... `scale(values=[1, 2], factor='s', r='s')`: the ints ARE matched against `TC` (the alternative accepts), `'s'` clashes -/
example : Spec.specCall envX (scaleCall (.list [.inst 2, .inst 2]) (.inst 3) (.inst 3)) = .tvm ∧
    (runCall envX (scaleCall (.list [.inst 2, .inst 2]) (.inst 3) (.inst 3)) Stores.empty).1 = .pedTVMismatch := by decide

/-- finding `failedUnionAlternativeLeavesBinding`, witness on the model: `def f(a: Union[List[TC], List[object]], b: TC)`;
    `f(a=[1, 1.5], b='s')` — the specification demands acceptance (`[1, 1.5]` is no `List[TC]`, `'s'` is the only value matched against
    `TC`), the model (as the code) raises the mismatch: the failed alternative tied `TC` to int for its first element.  With the
    elements in the other order the alternative fails at its first element and the call is accepted. -/
theorem failed_alternative_leaves_binding_witness :
    let f (a : Val) : Call := plain [(.union [.listOf (.tv 2), .listOf (.cls 0)], a), (.tv 2, .inst 3), retNone]
    Spec.specCall envX (f (.list [.inst 2, .inst 5])) = .accept ∧ (runCall envX (f (.list [.inst 2, .inst 5])) Stores.empty).1 = .pedTVMismatch ∧
    Spec.regions envX [] (f (.list [.inst 2, .inst 5])) = ["failedUnionAlternativeLeavesBinding"] ∧
    Spec.specCall envX (f (.list [.inst 5, .inst 2])) = .accept ∧ (runCall envX (f (.list [.inst 5, .inst 2])) Stores.empty).1 = .ok ∧
    Spec.regions envX [] (f (.list [.inst 5, .inst 2])) = [] := by decide

/-- finding `mismatchInUnionAlternativeAborts`, witness on the model: `Box[int]().m(a=['x'])` with `a: Union[List[T], List[str]]` — the
    value conforms to `Union[List[int], List[str]]`, the mismatch raised inside the `List[T]` alternative ends the call -/
theorem mismatch_in_alternative_aborts_witness :
    let c : Call := onBoxInt [(.union [.listOf T, .listOf (.cls 3)], .list [.inst 3]), retNone]
    Spec.specCall envX c = .accept ∧ (runCall envX c Stores.empty).1 = .pedTVMismatch ∧
    Spec.regions envX [] c = ["mismatchInUnionAlternativeAborts"] := by decide

/-- `def same(first: T, **kwargs: T)`; `same(first=1, kwargs='x')`: the keyword `kwargs` is a value of the `**` parameter — the model
    checks it, the call raises the mismatch (0 = T) -/
example :
    let k : VarKw := ⟨["first"], ["kwargs"], T, [("first", .inst 2), ("kwargs", .inst 3)], 1⟩
    (spliceChecks [(T, .inst 2), retNone] (some k)).length = 3 ∧
    (runCall envX (plain (spliceChecks [(T, .inst 2), retNone] (some k))) Stores.empty).1 = .pedTVMismatch := by decide


/-! ### histories over DECLARED instances: one class shape + creating expression per instance, the store kind of every call derived from it -/

/-- a call as the program makes it: which instance, which function, whether `__init__` of the instance is still running -/
structure PCall where
  inst : Nat
  fn : Nat
  inInit : Bool
  scanFails : Bool
  checks : List (A × Val)

/-- the call as the library sees it: the store kind is what `Shape.kind` derives from the declaration of the instance (`none`: unknown
    instance, or the accessor raises) -/
def PCall.model (decls : List Shape) (d : PCall) : Option Call :=
  (decls[d.inst]?).bind fun sh => ({ sh with inInit := d.inInit } : Shape).kind.map fun k => ⟨d.inst, d.fn, k, d.scanFails, d.checks⟩

/-- the call as the property sees it: an instance created as `Cls[X](...)` -/
def PCall.spec (decls : List Shape) (d : PCall) : Option Call :=
  (decls[d.inst]?).map fun sh => ⟨d.inst, d.fn, Spec.shapeKind { sh with inInit := d.inInit }, d.scanFails, d.checks⟩

/-- a class with type parameters — whatever it has them from — created with as many type arguments -/
structure Shape.Declared (sh : Shape) : Prop where
  nodup : sh.params.Nodup
  nonempty : sh.params ≠ []
  args : ∃ X, sh.declared = some X ∧ sh.params.length = X.length

theorem pcall_model_eq_spec (decls : List Shape) (hd : ∀ sh ∈ decls, sh.Declared) (d : PCall) (hi : d.inInit = false) (hin : d.inst < decls.length) :
    d.model decls = d.spec decls := by
  have hsh : decls[d.inst]? = some decls[d.inst] := List.getElem?_eq_getElem hin
  have hdecl := hd decls[d.inst] (List.getElem_mem hin)
  obtain ⟨X, hX, hlen⟩ := hdecl.args
  have hk := shape_kind_eq_spec ({ decls[d.inst] with inInit := d.inInit } : Shape) hdecl.nodup hdecl.nonempty X hX hi hlen
  simp only [PCall.model, PCall.spec, hsh, Option.bind_some, Option.map_some, hk]

/-- **C07 over declared instances** (any class shape; the only guards are the vocabulary and `Guard` of `C07_partial`): a program declares its instances ONCE (class statement as typing
    presents it + the type arguments of the creating expression); every history of calls made after construction on these instances —
    any order, any number, any methods — is run by the model with store kinds and bindings it DERIVES from the declarations, and ends,
    step by step, as the specification of `Cls[X]` (read off the same declarations) demands.  No call carries a binding of its own. -/
theorem C07_declared_partial (env : Env) (wf : EnvWF env) (decls : List Shape) (hd : ∀ sh ∈ decls, sh.Declared) :
    ∀ (h : List PCall), (∀ d ∈ h, d.inInit = false ∧ d.inst < decls.length) →
    ∃ calls, h.mapM (PCall.model decls) = some calls ∧ h.mapM (PCall.spec decls) = some calls ∧
      ((∀ c ∈ calls, InVocab env c ∧ Guard env c) → ∀ (s : Stores), AllDemand (Spec.specHistory env calls) (runHistory env calls s)) := by
  intro h
  induction h with
  | nil => intro _; exact ⟨[], rfl, rfl, fun _ s => trivial⟩
  | cons d rest ih =>
    intro hall
    obtain ⟨calls, hm, hs, _⟩ := ih (fun d hd' => hall d (by simp [hd']))
    have hd0 := hall d (by simp)
    have heq := pcall_model_eq_spec decls hd d hd0.1 hd0.2
    have hsome : ∃ c, d.spec decls = some c := by
      simp only [PCall.spec, List.getElem?_eq_getElem hd0.2, Option.map_some]
      exact ⟨_, rfl⟩
    obtain ⟨c, hc⟩ := hsome
    refine ⟨c :: calls, ?_, ?_, fun hv s => C07_partial env wf (c :: calls) hv s⟩
    · simp [List.mapM_cons, heq, hc, hm]
    · simp [List.mapM_cons, hc, hs]

/-- `Box(Generic[T])[int]`, `Bag(List[T])[str]` (no `Generic[...]` entry among the original bases), `R(Dict[str, T], Generic[T])[int]` and
    `Child(Base[T])[int]` are declared instances; the model derives a store for a call on each (0 = T, 2 = int, 3 = str) -/
example :
    let decls : List Shape := [⟨true, [0], [(true, [.tv 0])], some [.cls 2], false⟩, ⟨true, [0], [(false, [.tv 0])], some [.cls 3], false⟩,
      ⟨true, [0], [(false, [.cls 3, .tv 0]), (true, [.tv 0])], some [.cls 2], false⟩, ⟨false, [0], [(false, [.tv 0])], some [.cls 2], false⟩]
    (∀ sh ∈ decls, sh.Declared) ∧
    ((PCall.mk 1 0 false false [(.tv 0, .inst 3), (.cls 1, .inst 1)]).model decls).isSome = true ∧
    ((PCall.mk 3 0 false false [(.tv 0, .inst 3), (.cls 1, .inst 1)]).model decls).isSome = true := by
  refine ⟨?_, by decide, by decide⟩
  intro sh hsh
  simp only [List.mem_cons, List.mem_nil_iff, or_false] at hsh
  rcases hsh with rfl | rfl | rfl | rfl
  · exact ⟨by decide, by decide, ⟨[.cls 2], rfl, rfl⟩⟩
  · exact ⟨by decide, by decide, ⟨[.cls 3], rfl, rfl⟩⟩
  · exact ⟨by decide, by decide, ⟨[.cls 2], rfl, rfl⟩⟩
  · exact ⟨by decide, by decide, ⟨[.cls 2], rfl, rfl⟩⟩

/-! ### `Optional[x]` spelled `Union[None, x]` (None first) -/

/-- the model does not care in which order `None` and the other member of an `Optional` stand -/
theorem isInst_none_first (env : Env) (wf : EnvWF env) (x : A) (hu : x.isUnion = false) (v : Val) (m : TVMap) :
    isInst env (.union [.cls env.noneCls, x]) v m = isInst env (.union [x, .cls env.noneCls]) v m := by
  have hnb : clsAnn env env.noneCls v = .ok (env.sub (v.typeOf env) env.noneCls) := by simp [clsAnn, wf.noneNotBare]
  by_cases htv : x.isTV = true
  · cases x with
    | tv t => simp [tvEq, A.isTV, tvMembers, hnb]
    | _ => simp [A.isTV] at htv
  · have htv' : x.isTV = false := by simpa using htv
    have htm : tvMembers [.cls env.noneCls, x] = tvMembers [x, .cls env.noneCls] := by
      cases x <;> simp_all [tvMembers, A.isTV]
    simp only [tvEq, isTV_cls, htv', Bool.false_eq_true, ↓reduceIte, hnb, htm]
    rcases isInst env x v m with ⟨r, m'⟩
    cases r with
    | ok b =>
      simp only [Bool.or_false]
      cases b <;> cases env.sub (v.typeOf env) env.noneCls <;> rfl
    | _ => rfl

/-- neither does the specification -/
theorem walk_none_first (env : Env) (x : A) (v : Val) (s : Spec.Seen) :
    Spec.walk env (.union [.cls env.noneCls, x]) v s = Spec.walk env (.union [x, .cls env.noneCls]) v s := by
  by_cases hc : Spec.closed x = true
  · simp [Spec.walk, Spec.walkUnion, hc, Spec.closed, Bool.or_comm]
  · have hc' : Spec.closed x = false := by simpa using hc
    simp [Spec.walk, Spec.walkUnion, hc', Spec.closed, Spec.isNoneCls]

/-- **`Union[None, x]` as the annotation of a parameter or of the result is `Optional[x]`**: the refinement of `walk_refines`, for the
    spelling with `None` first (which `frag` does not list) -/
theorem walk_refines_none_first (env : Env) (wf : EnvWF env) (g : TVMap) (hg : GoodGenerics env g) (x : A)
    (hf : frag env (.union [x, .cls env.noneCls]) = true) (hu : x.isUnion = false) (v : Val) (s : Spec.Seen) (m : TVMap) (h : Inv g s m) :
    Refines g (Spec.walk env (Spec.subst g (.union [.cls env.noneCls, x])) v s) (isInst env (.union [.cls env.noneCls, x]) v m) := by
  have hw := walk_refines env wf g hg _ hf v s m h
  have hs1 : Spec.subst g (.union [.cls env.noneCls, x]) = .union [.cls env.noneCls, Spec.subst g x] := by simp [Spec.subst, Spec.substL]
  have hs2 : Spec.subst g (.union [x, .cls env.noneCls]) = .union [Spec.subst g x, .cls env.noneCls] := by simp [Spec.subst, Spec.substL]
  rw [hs1, walk_none_first, ← hs2, isInst_none_first env wf x hu]
  exact hw

example : frag envX (.union [.listOf (.tv 0), .cls envX.noneCls]) = true := by decide


/-! ### regions the property does not speak of (`unclaimed`), observed on the model — witnesses, not claims -/

/-- `Type[T]` never compares the class object with `T`: `Box[P]().ty(a=U)` with `a: Type[T]` is accepted (10 = P, 14 = U) -/
theorem type_of_typevar_unchecked_witness :
    let c : Call := ⟨0, 0, .genericInstance [0] [(0, .cls 10)], false, [(.typeOf T, .clsObj 14), retNone]⟩
    (runCall envX c Stores.empty).1 = .ok ∧ Spec.specCall envX c = .unclaimed := by decide

/-- a union with a TypeVar member next to a container of that TypeVar: `Box[list]().m(a=['s'])` with `a: Union[List[T], T]` raises the
    mismatch although `['s']` conforms to the second member (6 = list) -/
theorem union_member_exception_aborts_witness :
    let c : Call := ⟨0, 0, .genericInstance [0] [(0, .cls 6)], false, [(.union [.listOf T, T], .list [.inst 3]), retNone]⟩
    (runCall envX c Stores.empty).1 = .pedTVMismatch ∧ Spec.specCall envX c = .unclaimed := by decide

/-- the source scan (`x = Cls(...)` without type arguments in the caller's source): every call on the instance raises the mismatch,
    whatever the values are -/
theorem source_scan_region_witness :
    let c (v : Val) : Call := ⟨0, 0, .genericInstance [0] [], true, [(T, v), retNone]⟩
    (runCall envX (c (.inst 2)) Stores.empty).1 = .pedTVMismatch ∧ (runCall envX (c (.inst 3)) Stores.empty).1 = .pedTVMismatch ∧
    Spec.specCall envX (c (.inst 2)) = .unclaimed := by decide

/-- outside `GoodGenerics`: a class parameter with a bound, `class Zoo(Generic[TB])`, `Zoo[C1]()` (3 = TB bound=P, 11 = C1, 10 = P, 14 = U):
    the model (as the code) accepts a `C1`, raises the mismatch for a `P` (it meets the bound but not `X`) and rejects a `U` on the bound;
    a constrained class parameter `Cage[int]()` (2 = TC(int, str)) rejects a `bool` on the exact-class constraint test although it conforms to `X` -/
theorem bounded_class_parameter_witness :
    let zoo (v : Val) : Call := ⟨0, 0, .genericInstance [3] [(3, .cls 11)], false, [(.tv 3, v), retNone]⟩
    let cage (v : Val) : Call := ⟨0, 0, .genericInstance [2] [(2, .cls 2)], false, [(.tv 2, v), retNone]⟩
    (runCall envX (zoo (.inst 11)) Stores.empty).1 = .ok ∧ (runCall envX (zoo (.inst 10)) Stores.empty).1 = .pedTVMismatch ∧
    (runCall envX (zoo (.inst 14)) Stores.empty).1 = .pedTypeCheck ∧
    (runCall envX (cage (.inst 2)) Stores.empty).1 = .ok ∧ (runCall envX (cage (.inst 4)) Stores.empty).1 = .pedTypeCheck ∧
    (runCall envX (cage (.inst 3)) Stores.empty).1 = .pedTVMismatch := by decide

end PedVerif.TypeVars
