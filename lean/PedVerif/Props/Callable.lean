import PedVerif.Lemmas.Callable
import PedVerif.Gen.TypeTables
/-!
Property theorems for the **"simple Callable signatures" part of C01 (soundness) and C02 (completeness, spelling
independence)**, and the C08-flavoured totality of that part.  Model: `Model/Callable.lean` (parameterised by the generated
`Gen/Callable.lean`), spec: `Spec/Callable.lean`, regions: `Spec/CallableRegions.lean`, lemmas: `Lemmas/Callable.lean`.

This is the version for the tree with the repairs F1-F5 (`fixes/Callable_fix_F1.diff` … `F5.diff`): and with the repair of
`asyncVsTop`: all six regions of the unrepaired tree are gone — their refutations are replaced by positive theorems (`fixed_*`,
`isSubtypeT_exact`, `callable_without_name_checked`, `spelling_invariant`, `guard_always`, `callable_complete_full_holds`); the guard
of `callable_complete_partial` is kept as a hypothesis that `guard_always` discharges (it rests on the generated fact `coroOtherTopTest`).

All theorems quantify over every class table satisfying `Env.WF` (the driver checks `WF` on every table the harness sends),
every annotation and every value of the model — no bound on arity, nesting depth of the types, or length of list / dict values.
-/
set_option linter.unusedSimpArgs false
namespace PedVerif.Callable
open PedVerif.Gen.Callable PedVerif.Callable.Spec

/-! ## facts about the source (`Gen/Callable.lean`, `Gen/TypeTables.lean`), re-checked on every run

The other definitions of `Gen/Callable.lean` (results of the early returns, the caught exception classes, the arity and
argument-count comparisons, which parameters the loop zips, the coroutine indices, the `None` normalisation, the `object`
shortcut, the Union quantifier, …) are *parameters* of `Model/Callable.lean`: a source change there changes the model, and the
theorems below are re-proved about the changed model — they survive a change that keeps the property and fail for one that
breaks it.  The facts stated here are the remaining ones: shapes the model relies on without modelling an alternative. -/

theorem cfg_lambda_test : lambdaTestsCallableFirst = true ∧ lambdaName = "<lambda>" := by decide
theorem cfg_required_is_no_default : requiredIsNoDefault = true ∧ ellipsisSkipsParams = true := by decide
theorem cfg_subtype_directions : paramSubIsDeclared = true ∧ syncRetSubIsDeclared = true ∧ coroRetSubIsDeclared = true ∧
    argSubIsSub = true ∧ nonGenericSubFirst = true ∧ genericSubFirst = true := by decide
theorem cfg_subtype_union : superUnionTyping = true ∧ superUnionPep604 = true ∧ subUnionTyping = true ∧ subUnionPep604 = true := by decide
theorem cfg_subtype_generic : genericOriginGuarded = false ∧ argsQuantAll = true ∧ argsLazy = true := by decide
theorem cfg_class_of_annotation : anyMapsToObject = true ∧ ellipsisMapsToObject = true ∧ typingOriginUsed = true := by decide
theorem cfg_convert : convertResubscriptsFlatArgs = true := by decide
/-- the route: `Callable` is dispatched by name to `_instancecheck_callable`, needs exactly two type arguments (bare `Callable`
    is rejected as incomplete — C06), and the container wrappers are `all` over a generator / `any` over a list -/
theorem cfg_route :
    ("Callable", "_instancecheck_callable") ∈ Gen.TypeTables.specialCheckers ∧
    Gen.TypeTables.requiredArgsOk "Callable" 2 = true ∧ Gen.TypeTables.requiredArgsOk "Callable" 0 = false ∧
    Gen.TypeTables.iterableQuantifier = "all" ∧ Gen.TypeTables.iterableLazy = true ∧
    Gen.TypeTables.itemsQuantifier = "all" ∧ Gen.TypeTables.itemsConnective = "and" ∧
    Gen.TypeTables.unionQuantifier = "any" ∧ Gen.TypeTables.unionLazy = false ∧
    Gen.TypeTables.convertAliasFallback = true := by decide

/-! ## C01: soundness -/

/-- **C01, Callable part.** Whatever the model of the checker accepts conforms to the annotation — for every class table,
    every function value (any arity, any annotations, defaults, `*args`, coroutine or not, lambda, callable object, builtin,
    `None`, non-callable), every `Callable[...]` in either spelling, alone or inside `Optional` / `List` / `Dict[str, ·]`. -/
theorem callable_sound {env : Env} (wf : env.WF) (x : Expected) (v : Val)
    (h : check env x v = .ok true) : conforms env x v = true := by
  obtain ⟨wrap, sp, e⟩ := x
  unfold check at h
  cases wrap with
  | bare =>
    simp only at h
    cases v with
    | leaf l => simpa [conforms] using leafCheck_sound wf sp e l (by simpa [Val.asLeaf] using h)
    | list xs => exact absurd (by simpa [Val.asLeaf] using h) (leafCheck_nonCallable_ne env sp e)
    | dict kvs => exact absurd (by simpa [Val.asLeaf] using h) (leafCheck_nonCallable_ne env sp e)
  | optional =>
    simp only at h
    cases hl : leafCheck env sp e v.asLeaf with
    | raised ex => simp [hl] at h
    | ok b =>
      simp only [hl, Raw.ok.injEq, Bool.or_eq_true] at h
      cases v with
      | leaf l =>
        cases l with
        | none => simp [conforms]
        | nonCallable =>
          rcases h with h | h
          · exact absurd (by simpa [Val.asLeaf, h] using hl) (leafCheck_nonCallable_ne env sp e)
          · simp [Val.isNone] at h
        | callable name sig coro =>
          rcases h with h | h
          · simpa [conforms] using leafCheck_sound wf sp e _ (by simpa [Val.asLeaf, h] using hl)
          · simp [Val.isNone] at h
      | list xs =>
        rcases h with h | h
        · exact absurd (by simpa [Val.asLeaf, h] using hl) (leafCheck_nonCallable_ne env sp e)
        · simp [Val.isNone] at h
      | dict kvs =>
        rcases h with h | h
        · exact absurd (by simpa [Val.asLeaf, h] using hl) (leafCheck_nonCallable_ne env sp e)
        · simp [Val.isNone] at h
  | listOf =>
    cases v with
    | leaf l => simp at h
    | list xs => simpa [conforms] using checkList_sound wf sp e xs (by simpa using h)
    | dict kvs => simp at h
  | dictStrOf =>
    cases v with
    | leaf l => simp at h
    | list xs => simp at h
    | dict kvs => simpa [conforms] using checkDict_sound wf sp e kvs (by simpa using h)

/-- the case lies in none of the named regions -/
def Guard (env : Env) (x : Expected) (v : Val) : Prop := regions env x v = []

instance (env : Env) (x : Expected) (v : Val) : Decidable (Guard env x v) := by unfold Guard; infer_instance

/-- **C02, Callable part (guarded).** Outside the one region left (a coroutine function against `Callable[.., Any]` /
    `Callable[.., object]`) every conforming value is accepted — in either Callable spelling, in every wrapper. -/
theorem callable_complete_partial {env : Env} (wf : env.WF) (x : Expected) (v : Val)
    (hg : Guard env x v) (h : conforms env x v = true) : check env x v = .ok true := by
  obtain ⟨wrap, sp, e⟩ := x
  have hr : (match v with
     | .leaf l => leafRegions env l e
     | .list xs => xs.flatMap (fun l => leafRegions env l e)
     | .dict kvs => kvs.flatMap (fun kv => leafRegions env kv.2 e)) = [] := hg
  unfold check
  cases wrap with
  | bare =>
    cases v with
    | leaf l => simpa [Val.asLeaf] using leafCheck_complete wf sp e l hr (by simpa [conforms] using h)
    | list xs => simp [conforms] at h
    | dict kvs => simp [conforms] at h
  | optional =>
    cases v with
    | leaf l =>
      cases l with
      | none =>
        simp only [Val.asLeaf, Val.isNone, Bool.or_true]
        have h0 : ∃ b, checkCallable env .none e = .ok b := by
          unfold checkCallable checkObj
          cases noneGuard <;> cases lambdaShortcut <;>
            simp [isLambda, checkSig, sigFails, catches, sigCaught]
        obtain ⟨b, h0⟩ := h0
        simp [leafCheck_eq, h0]
      | nonCallable => simp [conforms, conformsLeaf] at h
      | callable name sig coro =>
        have := leafCheck_complete wf sp e (.callable name sig coro) hr (by simpa [conforms] using h)
        simp [Val.asLeaf, this]
    | list xs => simp [conforms] at h
    | dict kvs => simp [conforms] at h
  | listOf =>
    cases v with
    | leaf l => simp [conforms] at h
    | list xs => simpa using checkList_complete wf sp e xs hr (by simpa [conforms] using h)
    | dict kvs => simp [conforms] at h
  | dictStrOf =>
    cases v with
    | leaf l => simp [conforms] at h
    | list xs => simp [conforms] at h
    | dict kvs => simpa using checkDict_complete wf sp e kvs hr (by simpa [conforms] using h)

/-- the guard holds whenever the expected return type is not a top type — in particular for every annotation whose return type
    is a class other than `object`, a Union, `List[..]`, `Awaitable[..]`, `Coroutine[..]` -/
theorem guard_of_ret_not_top (env : Env) (x : Expected) (v : Val) (h : isTop env x.e.ret = false) : Guard env x v := by
  have hl : ∀ l, leafRegions env l x.e = [] := by
    intro l
    cases l with
    | none => rfl
    | nonCallable => rfl
    | callable n s k => cases s <;> simp [leafRegions, retRegions, h]
  unfold Guard regions
  cases v with
  | leaf l => exact hl l
  | list xs => simp [hl]
  | dict kvs => simp [hl]

/-- … and for every value that contains no coroutine function -/
def noCoroutine : Val → Bool
  | .leaf (.callable _ _ coro) => !coro
  | .leaf _ => true
  | .list xs => xs.all (fun l => match l with | .callable _ _ coro => !coro | _ => true)
  | .dict kvs => kvs.all (fun kv => match kv.2 with | .callable _ _ coro => !coro | _ => true)

theorem guard_of_no_coroutine (env : Env) (x : Expected) (v : Val) (h : noCoroutine v = true) : Guard env x v := by
  have hl : ∀ l : CVal, (match l with | .callable _ _ coro => !coro | _ => true) = true → leafRegions env l x.e = [] := by
    intro l hl
    cases l with
    | none => rfl
    | nonCallable => rfl
    | callable n s k =>
      simp only [Bool.not_eq_true'] at hl
      cases s <;> simp [leafRegions, retRegions, hl]
  unfold Guard regions
  cases v with
  | leaf l =>
    cases l with
    | none => rfl
    | nonCallable => rfl
    | callable n s k => exact hl _ (by simpa [noCoroutine] using h)
  | list xs =>
    simp only [noCoroutine, List.all_eq_true] at h
    simp only [List.flatMap_eq_nil_iff]
    exact fun l hm => hl l (h l hm)
  | dict kvs =>
    simp only [noCoroutine, List.all_eq_true] at h
    simp only [List.flatMap_eq_nil_iff]
    exact fun kv hm => hl kv.2 (h kv hm)

/-- under the guard the model decides exactly conformance -/
theorem callable_iff_partial {env : Env} (wf : env.WF) (x : Expected) (v : Val) (hg : Guard env x v) :
    check env x v = .ok true ↔ conforms env x v = true :=
  ⟨callable_sound wf x v, callable_complete_partial wf x v hg⟩

/-! ## what the caller of `assert_value_matches_type` observes: C08 flavour (no escape) and the two properties restated there -/

/-- **Totality.** For every class table (no hypothesis), annotation and value of the model, `assert_value_matches_type` either
    returns or raises `PedanticTypeCheckException` — the AttributeError / TypeError / ValueError / IndexError that the checker
    can raise internally never leave the library. -/
theorem callable_total (env : Env) (x : Expected) (v : Val) :
    assertValue env x v = .accept ∨ ∃ inner, assertValue env x v = .typeCheck inner := by
  unfold assertValue
  cases check env x v with
  | ok b => cases b <;> simp [falseRaisesTypeCheck]
  | raised ex => cases ex <;> simp [handledBy, checkTypeHandlers, catches]

theorem accept_iff (env : Env) (x : Expected) (v : Val) : assertValue env x v = .accept ↔ check env x v = .ok true := by
  unfold assertValue
  cases check env x v with
  | ok b => cases b <;> simp [falseRaisesTypeCheck]
  | raised ex => cases ex <;> simp [handledBy, checkTypeHandlers, catches]

/-- C01 at the observation point: returns normally ⇒ conforms -/
theorem callable_sound_observed {env : Env} (wf : env.WF) (x : Expected) (v : Val)
    (h : assertValue env x v = .accept) : conforms env x v = true :=
  callable_sound wf x v ((accept_iff env x v).mp h)

/-- C01, contrapositive (the "single corruption is rejected" clause): a value that does not conform — e.g. a conforming
    function with one parameter type, the arity, a default or the return type changed so that conformance breaks — is answered
    with `PedanticTypeCheckException` -/
theorem callable_nonconforming_rejected {env : Env} (wf : env.WF) (x : Expected) (v : Val)
    (h : conforms env x v = false) : ∃ inner, assertValue env x v = .typeCheck inner := by
  rcases callable_total env x v with ha | ha
  · rw [callable_sound_observed wf x v ha] at h; cases h
  · exact ha

/-- C02 at the observation point (guarded) -/
theorem callable_complete_observed_partial {env : Env} (wf : env.WF) (x : Expected) (v : Val)
    (hg : Guard env x v) (h : conforms env x v = true) : assertValue env x v = .accept :=
  (accept_iff env x v).mpr (callable_complete_partial wf x v hg h)

/-! ## C02: the full statement, and why it is false for the unchanged code -/

/-- a concrete class table for the witnesses: 0 object, 1 NoneType, 2 int, 3 bool (< int), 4 str, 5 list, 6 Awaitable,
    7 Coroutine (< Awaitable); one-parameter generics 0 List, 1 Awaitable; three-parameter generic 0 Coroutine -/
def demoEnv : Env where
  sub a b := a == b || b == 0 || (a == 3 && b == 2) || (a == 7 && b == 6)
  object := 0
  noneCls := 1
  origin1 g := if g == 0 then 5 else 6
  origin3 _ := 7
  awaitableGen := 1
  coroutineGen := 0
  bareBuiltin c := c == 5

theorem demoEnv_wf : demoEnv.WF where
  refl c := by simp [demoEnv]
  top c := by simp [demoEnv]
  origin1NotObject g := by simp only [demoEnv]; split <;> decide
  origin3NotObject g := by simp [demoEnv]

def fn (ps : List FParam) (ret : Ann) (coro : Bool := false) (name : NameR := .other) : Val :=
  .leaf (.callable name (.ok ps ret) coro)
def cb (ps : Option (List TA)) (ret : TA) (sp : Spelling := .typing) (w : Wrap := .bare) : Expected := ⟨w, sp, ⟨ps, ret⟩⟩
def pInt : FParam := ⟨.ty (.cls 2), false⟩
def pBool : FParam := ⟨.ty (.cls 3), false⟩
def pStr : FParam := ⟨.ty (.cls 4), false⟩

/-- the full completeness statement of C02 on this fragment -/
def callable_complete_full : Prop :=
  ∀ (env : Env), env.WF → ∀ (x : Expected) (v : Val), conforms env x v = true → check env x v = .ok true

/-- no region is left: the last one (`asyncVsTop`) depends on the generated fact `coroOtherTopTest` and is empty in this tree -/
theorem guard_always (env : Env) (x : Expected) (v : Val) : Guard env x v := by
  have hl : ∀ l, leafRegions env l x.e = [] := by
    intro l
    cases l with
    | none => rfl
    | nonCallable => rfl
    | callable n s k => cases s <;> simp [leafRegions, retRegions, coroOtherTopTest]
  unfold Guard regions
  cases v with
  | leaf l => exact hl l
  | list xs => simp only [List.flatMap_eq_nil_iff]; exact fun l _ => hl l
  | dict kvs => simp only [List.flatMap_eq_nil_iff]; exact fun kv _ => hl kv.2

/-- **C02, Callable part, full statement**: every conforming value is accepted (the former region `asyncVsTop` is repaired) -/
theorem callable_complete_full_holds : callable_complete_full :=
  fun _ wf x v h => callable_complete_partial wf x v (guard_always _ x v) h

/-- the model decides exactly conformance: no guard -/
theorem callable_iff {env : Env} (wf : env.WF) (x : Expected) (v : Val) :
    check env x v = .ok true ↔ conforms env x v = true :=
  callable_iff_partial wf x v (guard_always env x v)

/-- the former region: `async def f(a: int) -> str` conforms to `Callable[..., Any]` and to `Callable[[int], object]` and is accepted;
    against `Callable[[int], str]` it is still rejected (calling it yields a coroutine, not a `str`) -/
theorem fixed_asyncVsTop :
    conforms demoEnv (cb none .any) (fn [pInt] (.ty (.cls 4)) true) = true ∧
    check demoEnv (cb none .any) (fn [pInt] (.ty (.cls 4)) true) = .ok true ∧
    check demoEnv (cb (some [.cls 2]) (.cls 0)) (fn [pInt] (.ty (.cls 4)) true) = .ok true ∧
    check demoEnv (cb (some [.cls 2]) (.cls 4)) (fn [pInt] (.ty (.cls 4)) true) = .ok false ∧
    regions demoEnv (cb none .any) (fn [pInt] (.ty (.cls 4)) true) = [] := by decide

/-! ## the repaired regions: positive theorems in place of the former refutations -/

/-- **F3 / F4 / F5** (`unionNotExactMember`, `declaredUnionVsClass`, `genericVsRawClass`): the model of `_is_subtype` never raises
    and decides exactly the spec relation `subTy` — for every declared and expected type of the fragment, to any depth: a type
    is a subtype of a Union iff it is a subtype of some member, a Union is a subtype iff every member is, `G[t]` is a subtype of
    every class its origin is a subclass of. -/
theorem subtype_exact {env : Env} (wf : env.WF) (a : Ann) (t : TA) : isSubtype env a t = .ok (declSub env a t) :=
  isSubtype_exact wf a t

/-- the former witnesses, now accepted -/
theorem fixed_unionNotExactMember :      -- `def f() -> bool` vs `Callable[[], Union[int, str]]`
    check demoEnv (cb (some []) (.union false [2, 4])) (fn [] (.ty (.cls 3))) = .ok true := by decide
theorem fixed_unionNotExactMember_param :  -- `def f(a: bool) -> None` vs `Callable[[Union[int, str]], None]`
    check demoEnv (cb (some [.union false [2, 4]]) (.cls 1)) (fn [pBool] .none) = .ok true := by decide
theorem fixed_declaredUnionVsClass :     -- `def f() -> Union[bool, int]` (either spelling) vs `Callable[[], int]`; `Union[bool, str]` still rejected
    check demoEnv (cb (some []) (.cls 2)) (fn [] (.ty (.union false [3, 2]))) = .ok true ∧
    check demoEnv (cb (some []) (.cls 2)) (fn [] (.ty (.union true [3, 2]))) = .ok true ∧
    check demoEnv (cb (some []) (.cls 2)) (fn [] (.ty (.union false [3, 4]))) = .ok false := by decide
theorem fixed_genericVsRawClass :        -- `def f() -> List[int]` vs `Callable[[], list]`; vs `Callable[[], str]` still rejected
    check demoEnv (cb (some []) (.cls 5)) (fn [] (.ty (.gen1 0 (.cls 2)))) = .ok true ∧
    check demoEnv (cb (some []) (.cls 4)) (fn [] (.ty (.gen1 0 (.cls 2)))) = .ok false := by decide
theorem fixed_callableWithoutName :      -- `functools.partial(f)`, `def f(a: int) -> str`, vs `Callable[[int], str]` / `Callable[[str], str]`
    check demoEnv (cb (some [.cls 2]) (.cls 4)) (fn [pInt] (.ty (.cls 4)) false .missing) = .ok true ∧
    check demoEnv (cb (some [.cls 4]) (.cls 4)) (fn [pInt] (.ty (.cls 4)) false .missing) = .ok false := by decide
theorem fixed_abcConvert :               -- `collections.abc.Callable[[], str]`, `collections.abc.Callable[[list], str]`
    check demoEnv (cb (some []) (.cls 4) .abc) (fn [] (.ty (.cls 4))) = .ok true ∧
    check demoEnv (cb (some [.cls 5]) (.cls 4) .abc) (fn [⟨.ty (.cls 5), false⟩] (.ty (.cls 4))) = .ok true := by decide

/-- **F1** (`callableWithoutName`): a callable without `__name__` is checked by its signature exactly like a named one -/
theorem callable_without_name_checked (env : Env) (sig : SigR) (coro : Bool) (e : Exp) :
    checkCallable env (.callable .missing sig coro) e = checkCallable env (.callable .other sig coro) e :=
  checkCallable_missing_name env sig coro e

/-! ## C02: spelling independence -/

/-- **F2, Callable spelling.** `collections.abc.Callable[...]` reaches the same checker as `typing.Callable[...]` with the same
    verdict — for every arity, every argument type (a bare `list` included), every value, every wrapper. -/
theorem spelling_invariant (env : Env) (w : Wrap) (e : Exp) (v : Val) :
    check env ⟨w, .abc, e⟩ v = check env ⟨w, .typing, e⟩ v := by
  have hl : ∀ l, leafCheck env .abc e l = leafCheck env .typing e l := by intro l; simp [leafCheck_eq]
  have hlist : ∀ xs, checkList env .abc e xs = checkList env .typing e xs := by
    intro xs; induction xs with
    | nil => rfl
    | cons a as ih => simp only [checkList, hl, ih]
  have hdict : ∀ kvs, checkDict env .abc e kvs = checkDict env .typing e kvs := by
    intro kvs; induction kvs with
    | nil => rfl
    | cons kv kvs ih => obtain ⟨k, a⟩ := kv; simp only [checkDict, hl, ih]
  unfold check
  cases w <;> simp only [hl, hlist, hdict]

/-- the full statement, which was false for the unrepaired tree -/
def spelling_invariant_full : Prop :=
  ∀ (env : Env) (w : Wrap) (e : Exp) (v : Val), check env ⟨w, .abc, e⟩ v = check env ⟨w, .typing, e⟩ v

theorem spelling_invariant_full_holds : spelling_invariant_full := spelling_invariant

theorem spelling_invariant_verdict (env : Env) (w : Wrap) (e : Exp) (v : Val) :
    assertValue env ⟨w, .abc, e⟩ v = assertValue env ⟨w, .typing, e⟩ v := by
  unfold assertValue; rw [spelling_invariant]

/-- **Spelling of the types inside.** `Union[a, b]` / `Optional[a]` / `a | b` and the order of Union members in the
    *expected* types: same verdict (unconditionally), and the spec does not look at any spelling. -/
theorem respell_invariant_verdict (env : Env) (w : Wrap) (sp : Spelling) {e e' : Exp} (h : RespellExp e e') (v : Val) :
    assertValue env ⟨w, sp, e⟩ v = assertValue env ⟨w, sp, e'⟩ v := by
  unfold assertValue; rw [respell_invariant env w sp h v]

theorem spec_spelling_independent (env : Env) (w : Wrap) (sp sp' : Spelling) {e e' : Exp} (h : RespellExp e e') (v : Val) :
    conforms env ⟨w, sp, e⟩ v = conforms env ⟨w, sp', e'⟩ v := conforms_respell env w sp sp' h v

/-! ## decision D2 of the spec: the two readings of "each declared parameter" agree unless an optional parameter precedes a
required one (only possible with `*args`, keyword-only parameters or `**kwargs`) -/

/-- no parameter with a default stands before a parameter without one -/
def requiredFirst : List FParam → Bool
  | [] => true
  | p :: ps => if p.hasDefault then ps.all (fun q => q.hasDefault) else requiredFirst ps

theorem pairing_readings_agree (ps : List FParam) (ts : List TA) (h : requiredFirst ps = true)
    (hl : (Spec.required ps).length = ts.length) : ps.zip ts = (Spec.required ps).zip ts := by
  induction ps generalizing ts with
  | nil => simp [Spec.required]
  | cons p ps ih =>
    cases hd : p.hasDefault with
    | false =>
      simp only [requiredFirst, hd, Bool.false_eq_true, if_false] at h
      have hr : Spec.required (p :: ps) = p :: Spec.required ps := by simp [Spec.required, hd]
      rw [hr] at hl ⊢
      cases ts with
      | nil => simp
      | cons t ts => simp only [List.zip_cons_cons]; rw [ih ts h (by simpa using hl)]
    | true =>
      simp only [requiredFirst, hd, if_true] at h
      have hr : Spec.required (p :: ps) = [] := by
        simp only [Spec.required, List.filter_eq_nil_iff]
        intro q hq
        rcases List.mem_cons.mp hq with rfl | hq
        · simp [hd]
        · simp [List.all_eq_true.mp h q hq]
      rw [hr] at hl ⊢
      have : ts = [] := List.eq_nil_of_length_eq_zero (by simpa using hl.symm)
      simp [this]

/-! ## short names -/

/-- `callable_complete`: completeness on the whole fragment (the guard of `callable_complete_partial` always holds: `guard_always`) -/
theorem callable_complete {env : Env} (wf : env.WF) (x : Expected) (v : Val)
    (h : conforms env x v = true) : check env x v = .ok true := callable_complete_partial wf x v (guard_always env x v) h

/-! ## non-vacuity: concrete instances on both sides of every theorem -/

-- accepted and conforming: `def f(a: int, b: str) -> bool` vs `Callable[[int, str], bool]` (the docstring example)
example : check demoEnv (cb (some [.cls 2, .cls 4]) (.cls 3)) (fn [pInt, pStr] (.ty (.cls 3))) = .ok true := by decide
example : conforms demoEnv (cb (some [.cls 2, .cls 4]) (.cls 3)) (fn [pInt, pStr] (.ty (.cls 3))) = true := by decide
example : Guard demoEnv (cb (some [.cls 2, .cls 4]) (.cls 3)) (fn [pInt, pStr] (.ty (.cls 3))) := by decide
example : Guard demoEnv (cb none .any) (fn [pInt] (.ty (.cls 4)) true) := by decide
-- one parameter type changed to an unrelated class / arity -1 / arity +1 / return type changed: rejected, not conforming
example : check demoEnv (cb (some [.cls 2, .cls 4]) (.cls 3)) (fn [pInt, pInt] (.ty (.cls 3))) = .ok false := by decide
example : conforms demoEnv (cb (some [.cls 2, .cls 4]) (.cls 3)) (fn [pInt, pInt] (.ty (.cls 3))) = false := by decide
example : check demoEnv (cb (some [.cls 2, .cls 4]) (.cls 3)) (fn [pInt] (.ty (.cls 3))) = .ok false := by decide
example : check demoEnv (cb (some [.cls 2, .cls 4]) (.cls 3)) (fn [pInt, pStr, pStr] (.ty (.cls 3))) = .ok false := by decide
example : check demoEnv (cb (some [.cls 2, .cls 4]) (.cls 3)) (fn [pInt, pStr] (.ty (.cls 2))) = .ok false := by decide
-- the documented (covariant) direction: a `bool` parameter is accepted for `Callable[[int], …]`, an `int` parameter is not for `Callable[[bool], …]`
example : check demoEnv (cb (some [.cls 2]) .any) (fn [pBool] .empty) = .ok true := by decide
example : check demoEnv (cb (some [.cls 3]) .any) (fn [pInt] .empty) = .ok false := by decide
-- a default makes the parameter optional; `*args` (no default) counts as required
example : check demoEnv (cb (some [.cls 2]) (.cls 4)) (fn [pInt, ⟨.ty (.cls 4), true⟩] (.ty (.cls 4))) = .ok true := by decide
example : check demoEnv (cb (some [.cls 2]) (.cls 4)) (fn [pInt, ⟨.empty, false⟩] (.ty (.cls 4))) = .ok false := by decide
-- unannotated = unknown: only `Any` / `object` expected types accept it
example : check demoEnv (cb (some [.any]) (.cls 0)) (fn [⟨.empty, false⟩] .empty) = .ok true := by decide
example : check demoEnv (cb (some [.cls 2]) .any) (fn [⟨.empty, false⟩] .empty) = .ok false := by decide
-- coroutine functions need Awaitable[R] / Coroutine[Any, Any, R]; plain functions must not be given them
example : check demoEnv (cb (some [.cls 2]) (.gen1 1 (.cls 4))) (fn [pInt] (.ty (.cls 4)) true) = .ok true := by decide
example : check demoEnv (cb (some [.cls 2]) (.gen3 0 (.cls 4))) (fn [pInt] (.ty (.cls 4)) true) = .ok true := by decide
example : check demoEnv (cb (some [.cls 2]) (.gen3 0 (.cls 2))) (fn [pInt] (.ty (.cls 4)) true) = .ok false := by decide
example : check demoEnv (cb (some [.cls 2]) (.cls 4)) (fn [pInt] (.ty (.cls 4)) true) = .ok false := by decide
example : check demoEnv (cb (some [.cls 2]) (.gen1 1 (.cls 4))) (fn [pInt] (.ty (.cls 4)) false) = .ok false := by decide
-- lambdas, None, non-callables, builtins without signature
example : check demoEnv (cb (some [.cls 2]) (.cls 4)) (fn [] .empty false .lambda) = .ok true := by decide
example : check demoEnv (cb none .any) (.leaf .none) = .ok false := by decide
example : check demoEnv (cb none .any) (.leaf .nonCallable) = .ok false := by decide
example : assertValue demoEnv (cb none .any) (.leaf (.callable .other .valueError false)) ≠ .accept := by decide
-- nested positions
example : check demoEnv (cb (some [.cls 2]) (.cls 4) .typing .listOf) (.list [.callable .other (.ok [pInt] (.ty (.cls 4))) false, .callable .lambda (.ok [] .empty) false]) = .ok true := by decide
example : check demoEnv (cb (some [.cls 2]) (.cls 4) .typing .listOf) (.list [.callable .other (.ok [pInt] (.ty (.cls 4))) false, .callable .other (.ok [pStr] (.ty (.cls 4))) false]) = .ok false := by decide
example : check demoEnv (cb none .any .typing .optional) (.leaf .none) = .ok true := by decide
example : check demoEnv (cb (some []) (.cls 1) .typing .dictStrOf) (.dict [(true, .callable .other (.ok [] .none) false)]) = .ok true := by decide
example : check demoEnv (cb (some []) (.cls 1) .typing .dictStrOf) (.dict [(false, .callable .other (.ok [] .none) false)]) = .ok false := by decide
-- spelling: one parameter converts, `Union[int, str]` = `str | int`
example : abcRoute demoEnv ⟨some [.cls 2, .cls 5], .cls 4⟩ = none := by decide
example : RespellExp ⟨some [.union false [2, 4]], .cls 4⟩ ⟨some [.union true [4, 2]], .cls 4⟩ :=
  ⟨.cons (.union _ _ _ _ (by intro c; simp [or_comm])) .nil, .cls 4⟩
example : requiredFirst [pInt, ⟨.empty, true⟩] = true ∧ requiredFirst [⟨.empty, true⟩, pInt] = false := by decide

end PedVerif.Callable
