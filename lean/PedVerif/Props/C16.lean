import PedVerif.Spec.CtxMgr
/-!
# C16 — safe_contextmanager / safe_async_contextmanager run the cleanup exactly once

Property theorems only.  `exec`/`run` is the model of the library's wrapper generator under CPython's contextlib and the `with`
statement, instantiated with the wrapper shape and the decoration-time checks that the translator read from the source
(`PedVerif.Gen.CtxMgr`).  The proofs therefore re-check against what the code says now: a cleanup that is no longer in a `finally`,
a wider `except` around the cleanup `next`, dropped argument forwarding or a changed decoration-time test make them fail.

All theorems are for both modes (`m : Mode`), every exception object (kind × identity × cause), every nesting depth and length.
Hypotheses used: `docForm` (the generator has the documented one-yield form — zero- and multi-yield generators are modelled and
compared with the implementation but nothing is claimed about them) and `quirkFree` (see `cleanup_exception_wins_*`).
-/
namespace PedVerif.CtxMgr
open PedVerif.Gen.CtxMgr

/-- the state of a documented-form user generator that is suspended at its yield -/
def atYield : UState := { served := 1, done := false }

/-- a concrete call used in the witnesses / examples: `cm(<object 5>, k=<object 6>)` (keyword name 1) -/
def a5 : CallArgs := { pos := [5], kw := [(1, 6)] }

theorem passArgs_id (m : Mode) (args : CallArgs) : passArgs m args = args := by
  cases m <;> simp [passArgs, shape, syncShape, asyncShape]

theorem leave_of_not_converted (m : Mode) (fresh : Nat) (e : Exc) (h : converted m e.kind = false) :
    leave m fresh e = e := by simp [leave, h]

theorem cleanupBlock_doc (m : Mode) (g : UserGen) (recv : CallArgs) (fresh : Nat) (hd : g.docForm m = true) :
    ∃ u', cleanupBlock m g recv fresh atYield = ([.cleanup g.tag], g.cleanupExc, u') := by
  cases m <;> cases hc : g.cleanupExc <;>
    simp_all [UserGen.docForm, cleanupBlock, shape, syncShape, asyncShape, runBlocks, runNexts, userNext, catches, stopKind,
      converted, atYield]

/-- `__enter__` on a documented-form generator whose setup succeeds: one setup event, the yielded value, suspended -/
theorem enter_ok (m : Mode) (g : UserGen) (recv : CallArgs) (fresh : Nat) (hd : g.docForm m = true) (hs : g.setupExc = none)
    (hf : recv.fits = true) :
    wrapNext m g recv fresh .notStarted = ([.setup g.tag recv], .yielded g.value, .suspended atYield) := by
  simp_all [UserGen.docForm, wrapNext, userNext, atYield]

/-- … whose setup raises `e`: the cleanup `next` in the `finally` meets a finished generator, `e` comes out -/
theorem enter_fail (m : Mode) (g : UserGen) (recv : CallArgs) (fresh : Nat) (e : Exc) (hd : g.docForm m = true)
    (hs : g.setupExc = some e) (hf : recv.fits = true) :
    wrapNext m g recv fresh .notStarted = ([.setup g.tag recv], .raised e, .done) := by
  cases m <;>
    simp_all [UserGen.docForm, wrapNext, userNext, unwind, cleanupBlock, shape, syncShape, asyncShape, runBlocks, runNexts,
      catches, stopKind, leave]

/-- leaving the block of a documented-form manager: exactly the cleanup event; outcome as for try/finally -/
theorem exitWith_doc (m : Mode) (g : UserGen) (recv : CallArgs) (fresh : Nat) (fin : Final) (hd : g.docForm m = true)
    (hq : ∀ c e, g.cleanupExc = some c → fin = .raised e → quirk m c e = false) :
    exitWith m g recv fresh (.suspended atYield) fin =
      ([.cleanup g.tag], match g.cleanupExc with | some c => .raised c | none => fin) := by
  obtain ⟨u', hcb⟩ := cleanupBlock_doc m g recv fresh hd
  have hfin : (shape m).cleanupInFinally = true := by cases m <;> rfl
  cases hc : g.cleanupExc with
  | none =>
    rw [hc] at hcb
    cases fin with
    | normal => simp [exitWith, wrapNext, hcb]
    | left => simp [exitWith, wrapNext, hcb]
    | raised e =>
      simp only [exitWith, wrapThrow, unwind, hfin, hcb, if_true]
      by_cases hk : converted m e.kind = true
      · -- PEP 479 turns the body's Stop(Async)Iteration into a RuntimeError chained to it; `__exit__` recognises it
        have : exitIsStop m e.kind = true := by cases m <;> simpa [exitIsStop, converted] using hk
        simp [leave, hk, exitDecision, this]
      · simp only [Bool.not_eq_true] at hk
        simp [leave_of_not_converted m fresh e hk, exitDecision]
  | some c =>
    rw [hc] at hcb
    have hcc : converted m c.kind = false := by
      simp [UserGen.docForm, hc] at hd; simpa using hd.2
    cases fin with
    | normal => simp [exitWith, wrapNext, hcb, leave_of_not_converted m fresh c hcc]
    | left => simp [exitWith, wrapNext, hcb, leave_of_not_converted m fresh c hcc]
    | raised e =>
      have hq' := hq c e hc rfl
      simp only [exitWith, wrapThrow, unwind, hfin, hcb, if_true, leave_of_not_converted m fresh c hcc]
      by_cases hce : c = e
      · subst hce; simp [exitDecision]
      · have hdec : exitDecision m fresh e (.raised c) = .error c := by
          simp only [quirk, Bool.and_eq_false_iff, bne_eq_false_iff_eq, hce, or_false, beq_eq_false_iff_ne] at hq'
          simp only [exitDecision, hce, if_false]
          by_cases hrt : c.kind = .runtimeError
          · by_cases hx : exitIsStop m e.kind = true ∧ c.cause = some e.id
            · exfalso; simp [hrt, hx.1, hx.2] at hq'
            · simp [hrt, hx]
          · simp [hrt]
        simp [hdec]

/-- **C16, main statement.**  For every program built from leaf bodies (normal end, `return`/`break`, any exception object of any
    kind), `with` over documented-form generators (any setup outcome, any cleanup outcome) and sequencing — arbitrary nesting depth
    and length — the model of the library over contextlib behaves as the try/finally specification, in both modes. -/
theorem exec_eq_spec (m : Mode) (p : Prog) :
    p.docForm m = true → p.quirkFree m = true →
      ∀ fresh, (exec m p fresh).1 = (spec p).1 ∧ (exec m p fresh).2.1 = (spec p).2 := by
  induction p with
  | body n b => intro _ _ fresh; simp [exec, spec]
  | seq p q ihp ihq =>
    intro hd hq fresh
    simp only [Prog.docForm, Prog.quirkFree, Bool.and_eq_true] at hd hq
    have hp := ihp hd.1 hq.1 fresh
    have hq2 := ihq hd.2 hq.2 (exec m p fresh).2.2
    simp only [exec, spec]
    rw [hp.2]
    cases h : (spec p).2 <;> simp [hp.1, hq2.1, hq2.2]
  | withCm g args inner ih =>
    intro hd hq fresh
    simp only [Prog.docForm, Prog.quirkFree, Bool.and_eq_true] at hd hq
    have hin := ih hd.2 hq.1 (fresh + 5)
    simp only [exec, spec, passArgs_id]
    cases hs : g.setupExc with
    | some e => simp [enter_fail m g args fresh e hd.1.1 hs hd.1.2]
    | none =>
      have hx := exitWith_doc m g args fresh (exec m inner (fresh + 5)).2.1 hd.1.1 (by
        intro c e hc hf
        have := hq.2
        rw [hs, hc, ← hin.2, hf] at this
        simpa using this)
      simp only [enter_ok m g args fresh hd.1.1 hs hd.1.2, hx, hin.1]
      cases hc : g.cleanupExc <;> simp [hin.2]

theorem run_eq_spec (m : Mode) (p : Prog) (hd : p.docForm m = true) (hq : p.quirkFree m = true) : run m p = spec p := by
  have := exec_eq_spec m p hd hq 1000
  simp [run, this.1, this.2]

/-! ## The clauses of the property, one theorem each

`inner` is an arbitrary program (any nesting depth, any length) of documented-form managers; `g` is the manager under
consideration; `m` ranges over sync and async. -/

/-- *cleanup exactly once and after the body*: whatever the block does (normal end, return/break, any exception — `inner` is
    arbitrary), the journal of `with g(args) as v: inner` is setup, bind, the block's own journal, cleanup: the code after the
    yield runs once, and it is the last event. -/
theorem cleanup_once_after_body (m : Mode) (g : UserGen) (args : CallArgs) (inner : Prog)
    (hd : (Prog.withCm g args inner).docForm m = true) (hq : (Prog.withCm g args inner).quirkFree m = true)
    (hs : g.setupExc = none) :
    (run m (.withCm g args inner)).1 = [.setup g.tag args, .bind g.tag g.value] ++ (run m inner).1 ++ [.cleanup g.tag] := by
  simp only [Prog.docForm, Prog.quirkFree, Bool.and_eq_true] at hd hq
  rw [run_eq_spec m _ (by simp [Prog.docForm, hd]) (by simp [Prog.quirkFree, hq]), run_eq_spec m inner hd.2 hq.1]
  simp [spec, hs]

/-- the leaf instance, with the count spelled out: for every body outcome and every cleanup outcome the journal is
    `[setup, bind, body, cleanup]`; the cleanup event occurs exactly once and after the body event -/
theorem cleanup_exactly_once_leaf (m : Mode) (g : UserGen) (args : CallArgs) (n : Nat) (b : BodyOut) (hd : g.docForm m = true)
    (hf : args.fits = true) (hs : g.setupExc = none)
    (hq : ∀ c e, g.cleanupExc = some c → b = .raises e → quirk m c e = false) :
    (run m (.withCm g args (.body n b))).1 = [.setup g.tag args, .bind g.tag g.value, .body n, .cleanup g.tag]
    ∧ count (fun ev => decide (ev = .cleanup g.tag)) (run m (.withCm g args (.body n b))).1 = 1 := by
  have hq' : (Prog.withCm g args (.body n b)).quirkFree m = true := by
    simp only [Prog.quirkFree, spec, hs, Bool.true_and]
    cases hc : g.cleanupExc with
    | none => rfl
    | some c =>
      cases b with
      | raises e => simp [BodyOut.final, hq c e hc rfl]
      | _ => rfl
  have h := cleanup_once_after_body m g args (.body n b) (by simp [Prog.docForm, hd, hf]) hq' hs
  have hb : (run m (.body n b)).1 = [.body n] := by simp [run, exec]
  rw [h, hb]
  simp [count]

/-- early exit (`return` / `break` inside the block) is, at the `with` level, the same as normal completion:
    `__exit__(None, None, None)` is called in both cases — same journal, and control keeps leaving (`left`) unless the cleanup raises -/
theorem early_exit_like_normal (m : Mode) (g : UserGen) (args : CallArgs) (n fresh : Nat) :
    (exec m (.withCm g args (.body n .early)) fresh).1 = (exec m (.withCm g args (.body n .normal)) fresh).1
    ∧ ((exec m (.withCm g args (.body n .normal)) fresh).2.1 = .normal →
        (exec m (.withCm g args (.body n .early)) fresh).2.1 = .left) := by
  simp only [exec, BodyOut.final, exitWith]
  split <;> simp
  split <;> simp

/-- *a body exception propagates unchanged unless the cleanup raises*: with a cleanup that does not raise, the `with` statement ends
    exactly as its block ended — the same exception object (kind, identity), for every kind incl. BaseException subclasses,
    GeneratorExit, Stop(Async)Iteration, RuntimeError, CancelledError; also `return`/`break` and normal end are passed on. -/
theorem body_outcome_unchanged (m : Mode) (g : UserGen) (args : CallArgs) (inner : Prog)
    (hd : (Prog.withCm g args inner).docForm m = true) (hqi : inner.quirkFree m = true)
    (hs : g.setupExc = none) (hc : g.cleanupExc = none) :
    (run m (.withCm g args inner)).2 = (run m inner).2 := by
  simp only [Prog.docForm, Bool.and_eq_true] at hd
  rw [run_eq_spec m _ (by simp [Prog.docForm, hd]) (by simp [Prog.quirkFree, hqi, hs, hc]), run_eq_spec m inner hd.2 hqi]
  simp [spec, hs, hc]

theorem body_exception_unchanged (m : Mode) (g : UserGen) (args : CallArgs) (n : Nat) (e : Exc) (hd : g.docForm m = true)
    (hf : args.fits = true) (hs : g.setupExc = none) (hc : g.cleanupExc = none) :
    (run m (.withCm g args (.body n (.raises e)))).2 = .raised e := by
  rw [body_outcome_unchanged m g args _ (by simp [Prog.docForm, hd, hf]) rfl hs hc]
  simp [run, exec, BodyOut.final]

/-- *what the generator returns after its cleanup is no verdict on the block's exception*: a decorated generator may end with
    `return <anything>` (truthy, falsy, nothing) — journal and outcome of the `with` statement are the same for every returned value;
    in particular (with `body_exception_unchanged`) a body exception propagates unchanged past a cleanup that returns a truthy value -/
theorem cleanup_return_value_ignored (m : Mode) (g : UserGen) (r : Ret) (args : CallArgs) (inner : Prog) (fresh : Nat) :
    exec m (.withCm { g with returns := r } args inner) fresh = exec m (.withCm g args inner) fresh := by
  have hu : ∀ recv s, userNext { g with returns := r } recv s = userNext g recv s := by intro recv s; rfl
  have hn : ∀ recv fr n u, runNexts m { g with returns := r } recv fr n u = runNexts m g recv fr n u := by
    intro recv fr n
    induction n with
    | zero => intro u; rfl
    | succ k ih => intro u; simp only [runNexts, hu, ih]
  have hb : ∀ recv fr l u, runBlocks m { g with returns := r } recv fr l u = runBlocks m g recv fr l u := by
    intro recv fr l
    induction l with
    | nil => intro u; rfl
    | cons b rest ih => intro u; obtain ⟨n, c⟩ := b; simp only [runBlocks, hn, ih]
  have hc : ∀ recv fr u, cleanupBlock m { g with returns := r } recv fr u = cleanupBlock m g recv fr u := by
    intro recv fr u; simp only [cleanupBlock, hb]
  have hw : ∀ recv fr e u, unwind m { g with returns := r } recv fr e u = unwind m g recv fr e u := by
    intro recv fr e u; simp only [unwind, hc]
  have hwn : ∀ recv fr w, wrapNext m { g with returns := r } recv fr w = wrapNext m g recv fr w := by
    intro recv fr w; cases w <;> simp only [wrapNext, hu, hw, hc]
  have hwt : ∀ recv fr v w, wrapThrow m { g with returns := r } recv fr v w = wrapThrow m g recv fr v w := by
    intro recv fr v w; cases w <;> simp only [wrapThrow, hw]
  have hx : ∀ recv fr w fin, exitWith m { g with returns := r } recv fr w fin = exitWith m g recv fr w fin := by
    intro recv fr w fin; cases fin <;> simp only [exitWith, hwn, hwt]
  simp only [exec, hwn, hx]

theorem body_exception_unchanged_whatever_is_returned (m : Mode) (g : UserGen) (r : Ret) (args : CallArgs) (n : Nat) (e : Exc)
    (hd : g.docForm m = true) (hf : args.fits = true) (hs : g.setupExc = none) (hc : g.cleanupExc = none) :
    (run m (.withCm { g with returns := r } args (.body n (.raises e)))).2 = .raised e := by
  have h := cleanup_return_value_ignored m g r args (.body n (.raises e)) 1000
  simp only [run, h]
  exact body_exception_unchanged m g args n e hd hf hs hc

/-- *the cleanup's exception wins* — full statement (no guard).  It is **false** for contextlib (see the witness below). -/
def cleanup_exception_wins_full : Prop :=
  ∀ (m : Mode) (g : UserGen) (args : CallArgs) (n : Nat) (b : BodyOut) (c : Exc), g.docForm m = true → args.fits = true → g.setupExc = none →
    g.cleanupExc = some c → (run m (.withCm g args (.body n b))).2 = .raised c

/-- … proved under the explicit guard `quirk m c e = false`: the cleanup does not raise a RuntimeError chained by hand
    (`raise … from`) to the very Stop(Async)Iteration object the block raised -/
theorem cleanup_exception_wins_partial (m : Mode) (g : UserGen) (args : CallArgs) (inner : Prog) (c : Exc)
    (hd : (Prog.withCm g args inner).docForm m = true) (hq : (Prog.withCm g args inner).quirkFree m = true)
    (hs : g.setupExc = none) (hc : g.cleanupExc = some c) :
    (run m (.withCm g args inner)).2 = .raised c := by
  rw [run_eq_spec m _ hd hq]; simp [spec, hs, hc]

/-- the complement really is violated (by contextlib's PEP-479 special case, which the library inherits): the block raises the
    StopIteration object 7, the cleanup raises `RuntimeError(…) from <object 7>` — the caller gets object 7, not the cleanup's exception -/
theorem cleanup_exception_wins_witness :
    let g : UserGen := ⟨1, none, 1, some ⟨.runtimeError, 8, some 7⟩, 3, .none⟩
    g.docForm .sync = true ∧ (run .sync (.withCm g a5 (.body 0 (.raises ⟨.stopIteration, 7, none⟩)))).2 = .raised ⟨.stopIteration, 7, none⟩ := by
  decide

theorem cleanup_exception_wins_full_false : ¬ cleanup_exception_wins_full := by
  intro h
  have := h .sync ⟨1, none, 1, some ⟨.runtimeError, 8, some 7⟩, 3, .none⟩ a5 0 (.raises ⟨.stopIteration, 7, none⟩) ⟨.runtimeError, 8, some 7⟩
    (by decide) rfl rfl rfl
  revert this; decide

/-- *`as` binds the yielded value*: the block is entered with exactly the object the generator yielded -/
theorem as_binds_yielded (m : Mode) (g : UserGen) (args : CallArgs) (inner : Prog) (fresh : Nat) (hd : g.docForm m = true)
    (hf : args.fits = true) (hs : g.setupExc = none) :
    (exec m (.withCm g args inner) fresh).1.take 2 = [.setup g.tag args, .bind g.tag g.value] := by
  simp [exec, passArgs_id, enter_ok m g args fresh hd hs hf]

/-- *arguments are forwarded unchanged*: for EVERY argument tuple — any number of positional objects, any keyword names (also names
    like `f`, `args`, `kwargs`, `self`, `iterator`: a name is just a number here, the wrapper has no parameter that could capture
    one), in the caller's order — that Python can bind to the generator function's parameters, the generator function is called
    with exactly that tuple (whatever the setup then does): nothing added, dropped, renamed or reordered -/
theorem args_forwarded (m : Mode) (g : UserGen) (pos : List Nat) (kw : List (Nat × Nat)) (inner : Prog) (fresh : Nat) :
    (exec m (.withCm g { pos := pos, kw := kw } inner) fresh).1.head? = some (.setup g.tag { pos := pos, kw := kw }) := by
  generalize hargs : ({ pos := pos, kw := kw } : CallArgs) = args
  have hfit : args.fits = true := by rw [← hargs]
  have h : ∃ rest, (wrapNext m g args fresh .notStarted).1 = .setup g.tag args :: rest := by
    simp only [wrapNext, userNext, hfit]
    cases g.setupExc with
    | some e => simp
    | none => by_cases hy : 0 < g.yields <;> simp [hy]
  obtain ⟨rest, hr⟩ := h
  simp only [exec, passArgs_id]
  split <;> simp_all

/-- *a failing setup propagates without cleanup*: one setup event, no bind/body/cleanup event, the setup's exception object reaches
    the caller; the block (any program) is never entered -/
theorem failing_setup_no_cleanup (m : Mode) (g : UserGen) (args : CallArgs) (inner : Prog) (e : Exc) (fresh : Nat)
    (hd : g.docForm m = true) (hf : args.fits = true) (hs : g.setupExc = some e) :
    (exec m (.withCm g args inner) fresh).1 = [.setup g.tag args] ∧ (exec m (.withCm g args inner) fresh).2.1 = .raised e := by
  simp [exec, passArgs_id, enter_fail m g args fresh e hd hs hf]

/-- a tuple that Python cannot bind to the generator function's parameters is a `TypeError` of the caller at `with` entry: the
    generator is never created — no setup, no block, no cleanup -/
theorem unbindable_call_raises (m : Mode) (g : UserGen) (args : CallArgs) (inner : Prog) (fresh : Nat) (hf : args.fits = false) :
    (exec m (.withCm g args inner) fresh).1 = [] ∧ (exec m (.withCm g args inner) fresh).2.1 = .raised ⟨.exception, fresh, none⟩ := by
  simp [exec, passArgs_id, wrapNext, hf]

/-- *decoration-time rejection*: `safe_contextmanager` accepts exactly generator functions, `safe_async_contextmanager` exactly async
    generator functions (and hands `wrapper` to the matching contextlib factory); plain functions, coroutine functions and the
    generator kind of the other flavour raise at decoration time — `AssertionError` whenever `f.__name__` exists -/
theorem decoration_dispatch (m : Mode) (k uk : FnKind) (hasName : Bool) :
    (mustAccept m k = true → decorate m k uk hasName = .manager (expectedWrap m)) ∧
    (mustAccept m k = false → (decorate m k uk hasName).isRejected = true) ∧
    (mustAccept m k = false → hasName = true → decorate m k uk hasName = .rejected "AssertionError") := by
  cases m <;> cases k <;> cases uk <;> cases hasName <;> decide

/-- generated fact, re-read on every run: the kind tests are applied to the object handed to the decorator, not to `inspect.unwrap` of
    it — what counts is what the callable IS (a `functools.wraps`-decorated plain function around a generator function is a plain
    function), whatever `__wrapped__` leads to (`uk` is arbitrary in `decoration_dispatch`) -/
theorem kind_tests_on_parameter : syncTestsOnParam = true ∧ asyncTestsOnParam = true := by decide

/-- syntactic facts the model relies on, re-read from the source on every run: the sync decorator wraps a plain generator function,
    the async one an `async def` (so that the sync/async instance of the machine is the right one), both forward `*args, **kwargs` -/
theorem source_shape :
    syncShape.wrapperIsAsync = false ∧ asyncShape.wrapperIsAsync = true
    ∧ syncShape.forwardsArgs = true ∧ asyncShape.forwardsArgs = true := by decide

/-! ## Nested and repeated use: journals compose (induction over depth / count) -/

/-- the events of entering the managers `gs` from the outside in -/
def opens (gs : List (UserGen × CallArgs)) : List Ev :=
  gs.flatMap (fun ga => [.setup ga.1.tag ga.2, .bind ga.1.tag ga.1.value])
/-- their cleanups, innermost first -/
def closes (gs : List (UserGen × CallArgs)) : List Ev := (gs.map (fun ga => Ev.cleanup ga.1.tag)).reverse
/-- the cleanup exception of the outermost manager that has one -/
def outermostCleanupExc : List (UserGen × CallArgs) → Option Exc
  | [] => none
  | (g, _) :: gs => match g.cleanupExc with | some c => some c | none => outermostCleanupExc gs

theorem spec_nest (gs : List (UserGen × CallArgs)) (inner : Prog) (hs : ∀ ga ∈ gs, ga.1.setupExc = none) :
    spec (nest gs inner) = (opens gs ++ (spec inner).1 ++ closes gs,
      match outermostCleanupExc gs with | some c => .raised c | none => (spec inner).2) := by
  induction gs with
  | nil => simp [nest, opens, closes, outermostCleanupExc]
  | cons ga gs ih =>
    obtain ⟨g, a⟩ := ga
    have hg : g.setupExc = none := hs (g, a) (by simp)
    have ih' := ih (fun x hx => hs x (by simp [hx]))
    simp only [nest, spec, hg, ih', outermostCleanupExc]
    cases hc : g.cleanupExc <;> simp [opens, closes]

/-- **nested use, any depth**: `with g₀: with g₁: … with gₖ: inner` journals all setups/binds outside-in, then the block, then every
    cleanup exactly once in reverse order; the caller sees the outermost failing cleanup's exception, else what the block did -/
theorem nested_use (m : Mode) (gs : List (UserGen × CallArgs)) (inner : Prog)
    (hd : (nest gs inner).docForm m = true) (hq : (nest gs inner).quirkFree m = true)
    (hs : ∀ ga ∈ gs, ga.1.setupExc = none) :
    run m (nest gs inner) = (opens gs ++ (spec inner).1 ++ closes gs,
      match outermostCleanupExc gs with | some c => .raised c | none => (spec inner).2) := by
  rw [run_eq_spec m _ hd hq, spec_nest gs inner hs]

theorem chain_docForm (m : Mode) (ps : List Prog) (h : ∀ p ∈ ps, p.docForm m = true) : (chain ps).docForm m = true := by
  induction ps with
  | nil => rfl
  | cons p ps ih => simp [chain, Prog.docForm, h p (by simp), ih (fun q hq => h q (by simp [hq]))]

theorem chain_quirkFree (m : Mode) (ps : List Prog) (h : ∀ p ∈ ps, p.quirkFree m = true) : (chain ps).quirkFree m = true := by
  induction ps with
  | nil => rfl
  | cons p ps ih => simp [chain, Prog.quirkFree, h p (by simp), ih (fun q hq => h q (by simp [hq]))]

theorem spec_chain_normal (ps : List Prog) (hn : ∀ p ∈ ps, (spec p).2 = .normal) :
    spec (chain ps) = ((ps.map (fun p => (spec p).1)).flatten ++ [.body 0], .normal) := by
  induction ps with
  | nil => simp [chain, spec, BodyOut.final]
  | cons p ps ih =>
    have := ih (fun q hq => hn q (by simp [hq]))
    simp [chain, spec, hn p (by simp), this]

theorem spec_chain_stop (pre : List Prog) (p : Prog) (post : List Prog) (hn : ∀ q ∈ pre, (spec q).2 = .normal)
    (hp : (spec p).2 ≠ .normal) :
    spec (chain (pre ++ p :: post)) = ((pre.map (fun q => (spec q).1)).flatten ++ (spec p).1, (spec p).2) := by
  induction pre with
  | nil =>
    simp only [List.nil_append, chain, spec, List.map_nil, List.flatten_nil]
  | cons q pre ih =>
    have := ih (fun r hr => hn r (by simp [hr]))
    simp [chain, spec, hn q (by simp), this]

/-- **repeated use, any count**: statements `p₀; p₁; …; pₖ` (each e.g. a `with` over the same decorated function — every call makes a
    new generator) that end normally journal the concatenation of their journals -/
theorem repeated_use (m : Mode) (ps : List Prog) (hd : ∀ p ∈ ps, p.docForm m = true) (hq : ∀ p ∈ ps, p.quirkFree m = true)
    (hn : ∀ p ∈ ps, (run m p).2 = .normal) :
    run m (chain ps) = ((ps.map (fun p => (run m p).1)).flatten ++ [.body 0], .normal) := by
  rw [run_eq_spec m _ (chain_docForm m ps hd) (chain_quirkFree m ps hq)]
  have hn' : ∀ p ∈ ps, (spec p).2 = .normal := fun p hp => by rw [← run_eq_spec m p (hd p hp) (hq p hp)]; exact hn p hp
  rw [spec_chain_normal ps hn']
  have : ps.map (fun p => (spec p).1) = ps.map (fun p => (run m p).1) :=
    List.map_congr_left (fun p hp => by rw [run_eq_spec m p (hd p hp) (hq p hp)])
  rw [this]

/-- … and the first statement that does not end normally (exception, return) ends the sequence: later managers are never entered -/
theorem repeated_use_stops (m : Mode) (pre : List Prog) (p : Prog) (post : List Prog)
    (hd : ∀ q ∈ pre ++ p :: post, q.docForm m = true) (hq : ∀ q ∈ pre ++ p :: post, q.quirkFree m = true)
    (hn : ∀ q ∈ pre, (spec q).2 = .normal) (hp : (spec p).2 ≠ .normal) :
    run m (chain (pre ++ p :: post)) = ((pre.map (fun q => (spec q).1)).flatten ++ (spec p).1, (spec p).2) := by
  rw [run_eq_spec m _ (chain_docForm m _ hd) (chain_quirkFree m _ hq), spec_chain_stop pre p post hn hp]

/-- `n` uses of the same manager one after the other: `n` copies of `[setup, bind, body, cleanup]` -/
theorem repeated_same (m : Mode) (g : UserGen) (args : CallArgs) (k n : Nat) (hd : g.docForm m = true) (hf : args.fits = true)
    (hs : g.setupExc = none) (hc : g.cleanupExc = none) :
    run m (chain (List.replicate n (.withCm g args (.body k .normal)))) =
      ((List.replicate n [Ev.setup g.tag args, .bind g.tag g.value, .body k, .cleanup g.tag]).flatten ++ [.body 0], .normal) := by
  have h1 : run m (.withCm g args (.body k .normal)) = ([Ev.setup g.tag args, .bind g.tag g.value, .body k, .cleanup g.tag], .normal) := by
    rw [run_eq_spec m _ (by simp [Prog.docForm, hd, hf]) (by simp [Prog.quirkFree, hs, hc])]
    simp [spec, hs, hc, BodyOut.final]
  rw [repeated_use m _ (by intro p hp; rw [(List.mem_replicate.mp hp).2]; simp [Prog.docForm, hd, hf])
    (by intro p hp; rw [(List.mem_replicate.mp hp).2]; simp [Prog.quirkFree, hs, hc])
    (by intro p hp; rw [(List.mem_replicate.mp hp).2, h1])]
  simp [List.map_replicate, h1]

/-- in every program, for every manager tag: as many cleanups as entered blocks (each entered block is cleaned up exactly once) -/
theorem cleanups_match_entries (m : Mode) (p : Prog) (hd : p.docForm m = true) (hq : p.quirkFree m = true) (t : Nat) :
    count (Ev.isCleanup t) (run m p).1 = count (Ev.isBind t) (run m p).1 := by
  rw [run_eq_spec m p hd hq]
  clear hd hq
  induction p with
  | body n b => simp [spec, count, Ev.isCleanup, Ev.isBind]
  | seq p q ihp ihq =>
    simp only [spec]
    cases h : (spec p).2 <;> simp_all [count, List.filter_append]
  | withCm g args inner ih =>
    simp only [spec]
    cases hs : g.setupExc with
    | some e => simp [count, Ev.isCleanup, Ev.isBind]
    | none =>
      simp only [count, List.filter_append, List.length_append] at ih ⊢
      by_cases ht : g.tag = t
      · simp [List.filter, Ev.isCleanup, Ev.isBind, ht, ih]; omega
      · have : (g.tag == t) = false := by simpa using ht
        simp [List.filter, Ev.isCleanup, Ev.isBind, this, ih]

/-! ## Overlapping uses of ONE decorated manager (histories of enter / exit events, any interleaving) -/

/-- read from the source on every run: in both wrappers the variable that holds the user generator between the yield and the
    cleanup is a plain local of the wrapper call — one per use, not a `nonlocal` / `global` cell shared by the live uses -/
theorem iterator_per_use (m : Mode) : (shape m).iteratorPerUse = true := by cases m <;> rfl

theorem target_own (m : Mode) (n i : Nat) : target m n i = i := by simp [target, iterator_per_use]

/-- frame lemma: an operation that is not the exit of use `i` (an enter, the exit of any other use) leaves the record of use `i`
    — its generator's state included — untouched -/
theorem stepOp_frame (m : Mode) (us : List UseRec) (op : Op) (i : Nat) (r : UseRec) (h : us[i]? = some r)
    (hop : ∀ fin, op ≠ .exit i fin) : (stepOp m us op).2.2[i]? = some r := by
  cases op with
  | enter g args =>
    have hi : i < us.length := by
      rcases Nat.lt_or_ge i us.length with h1 | h1
      · exact h1
      · rw [List.getElem?_eq_none h1] at h; cases h
    simp only [stepOp]
    split <;> simp [List.getElem?_append_left hi, h]
  | exit j fin =>
    have hji : j ≠ i := fun e => hop fin (by rw [e])
    simp only [stepOp, target_own]
    split
    · exact h
    · split
      · exact h
      · split
        · exact h
        · simp [hji, h]

/-- **per-use state**: whatever the other uses of the same manager do — any history `ops` of enters and exits, any length, any
    interleaving — the state of use `i` (its own user generator, its wrapper frame) is exactly what its own operations left -/
theorem uses_independent (m : Mode) (ops : List Op) : ∀ (us : List UseRec) (i : Nat) (r : UseRec), us[i]? = some r →
    (∀ op ∈ ops, ∀ fin, op ≠ .exit i fin) → (runOps m us ops).2[i]? = some r := by
  induction ops with
  | nil => intro us i r h _; simpa [runOps] using h
  | cons op rest ih =>
    intro us i r h hno
    simp only [runOps]
    exact ih _ i r (stepOp_frame m us op i r h (hno op (by simp))) (fun o ho => hno o (by simp [ho]))

/-- the exit of a live use resumes / throws into ITS OWN generator (`r.g` in the state `r.u`): journal and outcome are those of
    `exitWith` on its own record, whatever else is in the state -/
theorem exit_own (m : Mode) (us : List UseRec) (i : Nat) (r : UseRec) (fin : Final) (h : us[i]? = some r) (hl : r.live = true) :
    (stepOp m us (.exit i fin)).1 = (exitWith m r.g r.recv r.fresh (.suspended r.u) fin).1
    ∧ (stepOp m us (.exit i fin)).2.1 = .exited (exitWith m r.g r.recv r.fresh (.suspended r.u) fin).2 := by
  simp [stepOp, target_own, h, hl]


theorem enter_record (m : Mode) (us : List UseRec) (g : UserGen) (args : CallArgs) (evs : List Ev) (v : Nat) (u : UState)
    (he : wrapNext m g args (freshOf us.length) .notStarted = (evs, .yielded v, .suspended u)) :
    (stepOp m us (.enter g args)).2.2[us.length]? = some ⟨g, args, freshOf us.length, u, true⟩ := by
  simp [stepOp, passArgs_id, he]

/-- **overlapping uses of one manager**: use `i` is entered (its `__enter__` yields), then ANY history `ops` of other uses of the
    same manager follows (enters and exits in any order and number: tasks inside `async with m()` at the same time, the manager
    nested in itself, …; `ops` just does not exit use `i`), then the block of use `i` ends with `fin`: the journal and the outcome
    of that exit are those of the single use — `exitWith` on the wrapper state its own `__enter__` returned.  Together with
    `exitWith_doc` / `hist_eq_spec`: each use's events depend only on its own generator. -/
theorem overlapping_uses_independent (m : Mode) (us : List UseRec) (g : UserGen) (args : CallArgs) (ops : List Op) (fin : Final)
    (evs : List Ev) (v : Nat) (u : UState)
    (he : wrapNext m g args (freshOf us.length) .notStarted = (evs, .yielded v, .suspended u))
    (hno : ∀ op ∈ ops, ∀ f, op ≠ .exit us.length f) :
    (stepOp m (runOps m (stepOp m us (.enter g args)).2.2 ops).2 (.exit us.length fin)).1
      = (exitWith m g args (freshOf us.length) (.suspended u) fin).1
    ∧ (stepOp m (runOps m (stepOp m us (.enter g args)).2.2 ops).2 (.exit us.length fin)).2.1
      = .exited (exitWith m g args (freshOf us.length) (.suspended u) fin).2 := by
  have h := uses_independent m ops _ us.length _ (enter_record m us g args evs v u he) hno
  exact exit_own m _ us.length _ fin h rfl

/-- invariant linking the machine state with what the specification remembers -/
def HistInv (m : Mode) (us : List UseRec) (en : List (UserGen × Bool)) : Prop :=
  en = us.map (fun r => (r.g, r.live)) ∧ ∀ (j : Nat) (r : UseRec), us[j]? = some r → r.live = true → r.u = atYield ∧ r.g.docForm m = true

theorem stepOp_eq_specOp (m : Mode) (us : List UseRec) (en : List (UserGen × Bool)) (op : Op) (rest : List Op)
    (hinv : HistInv m us en) (hok : histOk m en (op :: rest) = true) :
    (stepOp m us op).1 = (specOp en op).1 ∧ (stepOp m us op).2.1 = (specOp en op).2.1
    ∧ HistInv m (stepOp m us op).2.2 (specOp en op).2.2 := by
  obtain ⟨hen, hlive⟩ := hinv
  simp only [histOk, Bool.and_eq_true] at hok
  cases op with
  | enter g args =>
    simp only [Bool.and_eq_true] at hok
    obtain ⟨⟨hd, hf⟩, _⟩ := hok
    cases hs : g.setupExc with
    | some e =>
      simp only [stepOp, specOp, passArgs_id, enter_fail m g args _ e hd hs hf, hs]
      refine ⟨trivial, trivial, ?_, ?_⟩
      · simp [hen]
      · intro j r hj hl
        rcases Nat.lt_or_ge j us.length with h1 | h1
        · rw [List.getElem?_append_left h1] at hj; exact hlive j r hj hl
        · rcases Nat.eq_or_lt_of_le h1 with h2 | h2
          · subst h2; simp at hj; subst hj; simp at hl
          · rw [List.getElem?_eq_none (by simp; omega)] at hj; cases hj
    | none =>
      simp only [stepOp, specOp, passArgs_id, enter_ok m g args _ hd hs hf, hs]
      refine ⟨by simp, trivial, ?_, ?_⟩
      · simp [hen]
      · intro j r hj hl
        rcases Nat.lt_or_ge j us.length with h1 | h1
        · rw [List.getElem?_append_left h1] at hj; exact hlive j r hj hl
        · rcases Nat.eq_or_lt_of_le h1 with h2 | h2
          · subst h2; simp at hj; subst hj; exact ⟨rfl, hd⟩
          · rw [List.getElem?_eq_none (by simp; omega)] at hj; cases hj
  | exit i fin =>
    have hget : en[i]? = (us[i]?).map (fun r => (r.g, r.live)) := by rw [hen]; simp
    cases hu : us[i]? with
    | none =>
      rw [hu] at hget
      simp only [stepOp, specOp, hu, hget, Option.map_none]
      exact ⟨trivial, trivial, hen, hlive⟩
    | some r =>
      rw [hu] at hget
      simp only [Option.map_some] at hget
      cases hl : r.live with
      | false =>
        rw [hl] at hget
        simp only [stepOp, specOp, hu, hget, hl]
        exact ⟨by simp, by simp, by simpa using hen, by simpa using hlive⟩
      | true =>
        rw [hl] at hget
        obtain ⟨hat, hd⟩ := hlive i r hu hl
        have hq : ∀ c e, r.g.cleanupExc = some c → fin = .raised e → quirk m c e = false := by
          intro c e hc hf
          have := hok.1
          simp only [hget, hf, hc] at this
          simpa using this
        have hx := exitWith_doc m r.g r.recv r.fresh fin hd hq
        rw [← hat] at hx
        simp only [stepOp, specOp, target_own, hu, hget, hl, hx]
        refine ⟨by simp, by cases r.g.cleanupExc <;> simp, ?_, ?_⟩
        · rw [hen]
          apply List.ext_getElem?
          intro j
          by_cases hji : i = j
          · subst hji
            have hi : i < us.length := by
              rcases Nat.lt_or_ge i us.length with h1 | h1
              · exact h1
              · rw [List.getElem?_eq_none h1] at hu; cases hu
            simp [hi]
          · simp [hji]
        · intro j r' hj hl'
          by_cases hji : i = j
          · subst hji
            have hi : i < us.length := by
              rcases Nat.lt_or_ge i us.length with h1 | h1
              · exact h1
              · rw [List.getElem?_eq_none h1] at hu; cases hu
            simp [hi] at hj; subst hj; simp at hl'
          · simp [hji] at hj; exact hlive j r' hj hl'


/-- **histories meet the specification**: for every history of enters and exits over one manager (any number of live uses, any
    interleaving) of documented-form generators, each operation journals and returns what try/finally semantics of ITS OWN use
    says: an enter journals its setup (and binds the yielded value), an exit journals exactly one cleanup — that of the use being
    left — and ends as its block ended unless its cleanup raises -/
theorem hist_eq_spec (m : Mode) (ops : List Op) : ∀ (us : List UseRec) (en : List (UserGen × Bool)), HistInv m us en →
    histOk m en ops = true → (runOps m us ops).1 = specOps en ops := by
  induction ops with
  | nil => intro us en _ _; simp [runOps, specOps]
  | cons op rest ih =>
    intro us en hinv hok
    obtain ⟨h1, h2, h3⟩ := stepOp_eq_specOp m us en op rest hinv hok
    have hok' : histOk m (specOp en op).2.2 rest = true := by
      simp only [histOk, Bool.and_eq_true] at hok; exact hok.2
    simp only [runOps, specOps, ih _ _ h3 hok', h1, h2]

theorem hist_eq_spec_initial (m : Mode) (ops : List Op) (hok : histOk m [] ops = true) : (runOps m [] ops).1 = specOps [] ops :=
  hist_eq_spec m ops [] [] ⟨rfl, by intro j r hj; simp at hj⟩ hok


/-! ## Non-vacuity: concrete instances that meet the hypotheses -/

def gOk (t : Nat) : UserGen := ⟨t, none, 1, none, 40 + t, .none⟩
def gCleanupFails (t : Nat) : UserGen := ⟨t, none, 1, some ⟨.baseExc, 90 + t, none⟩, 40 + t, .none⟩
def gSetupFails (t : Nat) : UserGen := ⟨t, some ⟨.cancelled, 80 + t, none⟩, 1, none, 40 + t, .none⟩

-- the body raises KeyboardInterrupt-like object 7 / GeneratorExit / StopIteration / StopAsyncIteration: cleanup once, same object out
example : run .sync (.withCm (gOk 1) a5 (.body 0 (.raises ⟨.baseExc, 7, none⟩)))
    = ([.setup 1 a5, .bind 1 41, .body 0, .cleanup 1], .raised ⟨.baseExc, 7, none⟩) := by decide
example : run .sync (.withCm (gOk 1) a5 (.body 0 (.raises ⟨.stopIteration, 7, none⟩)))
    = ([.setup 1 a5, .bind 1 41, .body 0, .cleanup 1], .raised ⟨.stopIteration, 7, none⟩) := by decide
example : run .async (.withCm (gOk 1) a5 (.body 0 (.raises ⟨.stopAsyncIteration, 7, none⟩)))
    = ([.setup 1 a5, .bind 1 41, .body 0, .cleanup 1], .raised ⟨.stopAsyncIteration, 7, none⟩) := by decide
example : run .async (.withCm (gOk 1) a5 (.body 0 (.raises ⟨.generatorExit, 7, none⟩)))
    = ([.setup 1 a5, .bind 1 41, .body 0, .cleanup 1], .raised ⟨.generatorExit, 7, none⟩) := by decide
-- early exit
example : run .sync (.withCm (gOk 1) a5 (.body 0 .early)) = ([.setup 1 a5, .bind 1 41, .body 0, .cleanup 1], .left) := by decide
-- cleanup exception wins over the body's
example : run .async (.withCm (gCleanupFails 1) a5 (.body 0 (.raises ⟨.exception, 7, none⟩)))
    = ([.setup 1 a5, .bind 1 41, .body 0, .cleanup 1], .raised ⟨.baseExc, 91, none⟩) := by decide
-- failing setup
example : run .sync (.withCm (gSetupFails 1) a5 (.body 0 .normal)) = ([.setup 1 a5], .raised ⟨.cancelled, 81, none⟩) := by decide
-- hypotheses of `nested_use` / `repeated_use` are satisfiable at depth 3 / count 3, with a failing cleanup in the middle
example : (nest [(gOk 1, a5), (gCleanupFails 2, a5), (gOk 3, a5)] (.body 0 (.raises ⟨.stopIteration, 7, none⟩))).docForm .sync = true
    ∧ (nest [(gOk 1, a5), (gCleanupFails 2, a5), (gOk 3, a5)] (.body 0 (.raises ⟨.stopIteration, 7, none⟩))).quirkFree .sync = true
    ∧ run .sync (nest [(gOk 1, a5), (gCleanupFails 2, a5), (gOk 3, a5)] (.body 0 (.raises ⟨.stopIteration, 7, none⟩)))
      = ([.setup 1 a5, .bind 1 41, .setup 2 a5, .bind 2 42, .setup 3 a5, .bind 3 43, .body 0, .cleanup 3, .cleanup 2, .cleanup 1],
         .raised ⟨.baseExc, 92, none⟩) := by decide
example : run .async (chain [.withCm (gOk 1) a5 (.body 1 .normal), .withCm (gOk 1) a5 (.body 2 .normal)])
    = ([.setup 1 a5, .bind 1 41, .body 1, .cleanup 1, .setup 1 a5, .bind 1 41, .body 2, .cleanup 1, .body 0], .normal) := by decide

-- two tasks interleaved A-enter, B-enter, A-exit, B-exit (B's block raises), and the manager nested in itself (LIFO): hypotheses hold, every use
-- is cleaned up once, by its own cleanup, after its own block
example : histOk .async [] [.enter (gOk 1) a5, .enter (gOk 2) a5, .exit 0 .normal, .exit 1 (.raised ⟨.exception, 7, none⟩)] = true
    ∧ (runOps .async [] [.enter (gOk 1) a5, .enter (gOk 2) a5, .exit 0 .normal, .exit 1 (.raised ⟨.exception, 7, none⟩)]).1
      = [([.setup 1 a5, .bind 1 41], .entered 41), ([.setup 2 a5, .bind 2 42], .entered 42),
         ([.cleanup 1], .exited .normal), ([.cleanup 2], .exited (.raised ⟨.exception, 7, none⟩))] := by decide
example : (runOps .sync [] [.enter (gOk 1) a5, .enter (gCleanupFails 2) a5, .enter (gOk 3) a5, .exit 2 .left, .exit 1 .left, .exit 0 .left]).1
      = [([.setup 1 a5, .bind 1 41], .entered 41), ([.setup 2 a5, .bind 2 42], .entered 42), ([.setup 3 a5, .bind 3 43], .entered 43),
         ([.cleanup 3], .exited .left), ([.cleanup 2], .exited (.raised ⟨.baseExc, 92, none⟩)), ([.cleanup 1], .exited .left)] := by decide
-- keyword names are just numbers for the wrapper: a tuple with several positional objects and five keywords arrives as it is
example : (run .sync (.withCm (gOk 1) { pos := [5, 6, 7], kw := [(2, 8), (5, 9), (6, 10), (7, 11), (9, 12)] } (.body 0 .normal))).1.head?
    = some (.setup 1 { pos := [5, 6, 7], kw := [(2, 8), (5, 9), (6, 10), (7, 11), (9, 12)] }) := by decide
example : run .async (.withCm (gOk 1) { pos := [5], kw := [], fits := false } (.body 0 .normal)) = ([], .raised ⟨.exception, 1000, none⟩) := by decide
-- decoration
example : decorate .sync .plain .plain true = .rejected "AssertionError" ∧ decorate .sync .asyncGenerator .asyncGenerator true = .rejected "AssertionError"
    ∧ decorate .async .generator .generator true = .rejected "AssertionError" ∧ decorate .async .coroutine .coroutine true = .rejected "AssertionError"
    ∧ decorate .sync .generator .generator true = .manager .contextmanager ∧ decorate .async .asyncGenerator .asyncGenerator false = .manager .asynccontextmanager
    ∧ decorate .sync .plain .plain false = .rejected "AttributeError"
    -- wrappers: a plain function / a coroutine function that `functools.wraps` a generator function is rejected, a generator function that wraps a plain one accepted
    ∧ decorate .sync .plain .generator true = .rejected "AssertionError" ∧ decorate .async .coroutine .asyncGenerator true = .rejected "AssertionError"
    ∧ decorate .sync .asyncGenerator .generator true = .rejected "AssertionError" ∧ decorate .sync .generator .plain true = .manager .contextmanager := by decide

end PedVerif.CtxMgr
