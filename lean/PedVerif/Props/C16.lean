import PedVerif.Spec.CtxMgr
/-!
# C16 — safe_contextmanager / safe_async_contextmanager run the cleanup exactly once

Property theorems only.  `exec`/`run` is the model of the library's wrapper generator under CPython's contextlib and the `with`
statement, instantiated with the wrapper shape and the decoration-time checks that the translator read from the source
(`PedVerif.Gen.CtxMgr`).  The proofs therefore re-check against what the code says now: a cleanup that is no longer in a `finally`,
a wider `except` around the cleanup `next`, dropped argument forwarding or a changed decoration-time test make them fail.

All theorems are for both modes (`m : Mode`), every exception object (kind × identity × cause), every nesting depth and length.
Hypotheses used: `docForm` (the generator has the documented one-yield form — zero- and multi-yield generators are modelled and
compared with the implementation but nothing is claimed about them) and `quirkFree` (see `cleanup_exception_wins_*`).
-/
namespace PedVerif.CtxMgr
open PedVerif.Gen.CtxMgr

/-- the state of a documented-form user generator that is suspended at its yield -/
def atYield : UState := { served := 1, done := false }

theorem passArgs_id (m : Mode) (args : Nat) : passArgs m args = args := by
  cases m <;> simp [passArgs, shape, syncShape, asyncShape]

theorem leave_of_not_converted (m : Mode) (fresh : Nat) (e : Exc) (h : converted m e.kind = false) :
    leave m fresh e = e := by simp [leave, h]

theorem cleanupBlock_doc (m : Mode) (g : UserGen) (recv fresh : Nat) (hd : g.docForm m = true) :
    ∃ u', cleanupBlock m g recv fresh atYield = ([.cleanup g.tag], g.cleanupExc, u') := by
  cases m <;> cases hc : g.cleanupExc <;>
    simp_all [UserGen.docForm, cleanupBlock, shape, syncShape, asyncShape, runBlocks, runNexts, userNext, catches, stopKind,
      converted, atYield]

/-- `__enter__` on a documented-form generator whose setup succeeds: one setup event, the yielded value, suspended -/
theorem enter_ok (m : Mode) (g : UserGen) (recv fresh : Nat) (hd : g.docForm m = true) (hs : g.setupExc = none) :
    wrapNext m g recv fresh .notStarted = ([.setup g.tag recv], .yielded g.value, .suspended atYield) := by
  simp_all [UserGen.docForm, wrapNext, userNext, atYield]

/-- … whose setup raises `e`: the cleanup `next` in the `finally` meets a finished generator, `e` comes out -/
theorem enter_fail (m : Mode) (g : UserGen) (recv fresh : Nat) (e : Exc) (hd : g.docForm m = true)
    (hs : g.setupExc = some e) :
    wrapNext m g recv fresh .notStarted = ([.setup g.tag recv], .raised e, .done) := by
  cases m <;>
    simp_all [UserGen.docForm, wrapNext, userNext, unwind, cleanupBlock, shape, syncShape, asyncShape, runBlocks, runNexts,
      catches, stopKind, leave]

/-- leaving the block of a documented-form manager: exactly the cleanup event; outcome as for try/finally -/
theorem exitWith_doc (m : Mode) (g : UserGen) (recv fresh : Nat) (fin : Final) (hd : g.docForm m = true)
    (hq : ∀ c e, g.cleanupExc = some c → fin = .raised e → quirk m c e = false) :
    exitWith m g recv fresh (.suspended atYield) fin =
      ([.cleanup g.tag], match g.cleanupExc with | some c => .raised c | none => fin) := by
  obtain ⟨u', hcb⟩ := cleanupBlock_doc m g recv fresh hd
  have hfin : (shape m).cleanupInFinally = true := by cases m <;> rfl
  cases hc : g.cleanupExc with
  | none =>
    rw [hc] at hcb
    cases fin with
    | normal => simp [exitWith, wrapNext, hcb]
    | left => simp [exitWith, wrapNext, hcb]
    | raised e =>
      simp only [exitWith, wrapThrow, unwind, hfin, hcb, if_true]
      by_cases hk : converted m e.kind = true
      · -- PEP 479 turns the body's Stop(Async)Iteration into a RuntimeError chained to it; `__exit__` recognises it
        have : exitIsStop m e.kind = true := by cases m <;> simpa [exitIsStop, converted] using hk
        simp [leave, hk, exitDecision, this]
      · simp only [Bool.not_eq_true] at hk
        simp [leave_of_not_converted m fresh e hk, exitDecision]
  | some c =>
    rw [hc] at hcb
    have hcc : converted m c.kind = false := by
      simp [UserGen.docForm, hc] at hd; simpa using hd.2
    cases fin with
    | normal => simp [exitWith, wrapNext, hcb, leave_of_not_converted m fresh c hcc]
    | left => simp [exitWith, wrapNext, hcb, leave_of_not_converted m fresh c hcc]
    | raised e =>
      have hq' := hq c e hc rfl
      simp only [exitWith, wrapThrow, unwind, hfin, hcb, if_true, leave_of_not_converted m fresh c hcc]
      by_cases hce : c = e
      · subst hce; simp [exitDecision]
      · have hdec : exitDecision m fresh e (.raised c) = .error c := by
          simp only [quirk, Bool.and_eq_false_iff, bne_eq_false_iff_eq, hce, or_false, beq_eq_false_iff_ne] at hq'
          simp only [exitDecision, hce, if_false]
          by_cases hrt : c.kind = .runtimeError
          · by_cases hx : exitIsStop m e.kind = true ∧ c.cause = some e.id
            · exfalso; simp [hrt, hx.1, hx.2] at hq'
            · simp [hrt, hx]
          · simp [hrt]
        simp [hdec]

/-- **C16, main statement.**  For every program built from leaf bodies (normal end, `return`/`break`, any exception object of any
    kind), `with` over documented-form generators (any setup outcome, any cleanup outcome) and sequencing — arbitrary nesting depth
    and length — the model of the library over contextlib behaves as the try/finally specification, in both modes. -/
theorem exec_eq_spec (m : Mode) (p : Prog) :
    p.docForm m = true → p.quirkFree m = true →
      ∀ fresh, (exec m p fresh).1 = (spec p).1 ∧ (exec m p fresh).2.1 = (spec p).2 := by
  induction p with
  | body n b => intro _ _ fresh; simp [exec, spec]
  | seq p q ihp ihq =>
    intro hd hq fresh
    simp only [Prog.docForm, Prog.quirkFree, Bool.and_eq_true] at hd hq
    have hp := ihp hd.1 hq.1 fresh
    have hq2 := ihq hd.2 hq.2 (exec m p fresh).2.2
    simp only [exec, spec]
    rw [hp.2]
    cases h : (spec p).2 <;> simp [hp.1, hq2.1, hq2.2]
  | withCm g args inner ih =>
    intro hd hq fresh
    simp only [Prog.docForm, Prog.quirkFree, Bool.and_eq_true] at hd hq
    have hin := ih hd.2 hq.1 (fresh + 5)
    simp only [exec, spec, passArgs_id]
    cases hs : g.setupExc with
    | some e => simp [enter_fail m g args fresh e hd.1 hs]
    | none =>
      have hx := exitWith_doc m g args fresh (exec m inner (fresh + 5)).2.1 hd.1 (by
        intro c e hc hf
        have := hq.2
        rw [hs, hc, ← hin.2, hf] at this
        simpa using this)
      simp only [enter_ok m g args fresh hd.1 hs, hx, hin.1]
      cases hc : g.cleanupExc <;> simp [hin.2]

theorem run_eq_spec (m : Mode) (p : Prog) (hd : p.docForm m = true) (hq : p.quirkFree m = true) : run m p = spec p := by
  have := exec_eq_spec m p hd hq 1000
  simp [run, this.1, this.2]

/-! ## The clauses of the property, one theorem each

`inner` is an arbitrary program (any nesting depth, any length) of documented-form managers; `g` is the manager under
consideration; `m` ranges over sync and async. -/

/-- *cleanup exactly once and after the body*: whatever the block does (normal end, return/break, any exception — `inner` is
    arbitrary), the journal of `with g(args) as v: inner` is setup, bind, the block's own journal, cleanup: the code after the
    yield runs once, and it is the last event. -/
theorem cleanup_once_after_body (m : Mode) (g : UserGen) (args : Nat) (inner : Prog)
    (hd : (Prog.withCm g args inner).docForm m = true) (hq : (Prog.withCm g args inner).quirkFree m = true)
    (hs : g.setupExc = none) :
    (run m (.withCm g args inner)).1 = [.setup g.tag args, .bind g.tag g.value] ++ (run m inner).1 ++ [.cleanup g.tag] := by
  simp only [Prog.docForm, Prog.quirkFree, Bool.and_eq_true] at hd hq
  rw [run_eq_spec m _ (by simp [Prog.docForm, hd]) (by simp [Prog.quirkFree, hq]), run_eq_spec m inner hd.2 hq.1]
  simp [spec, hs]

/-- the leaf instance, with the count spelled out: for every body outcome and every cleanup outcome the journal is
    `[setup, bind, body, cleanup]`; the cleanup event occurs exactly once and after the body event -/
theorem cleanup_exactly_once_leaf (m : Mode) (g : UserGen) (args n : Nat) (b : BodyOut) (hd : g.docForm m = true)
    (hs : g.setupExc = none)
    (hq : ∀ c e, g.cleanupExc = some c → b = .raises e → quirk m c e = false) :
    (run m (.withCm g args (.body n b))).1 = [.setup g.tag args, .bind g.tag g.value, .body n, .cleanup g.tag]
    ∧ count (fun ev => decide (ev = .cleanup g.tag)) (run m (.withCm g args (.body n b))).1 = 1 := by
  have hq' : (Prog.withCm g args (.body n b)).quirkFree m = true := by
    simp only [Prog.quirkFree, spec, hs, Bool.true_and]
    cases hc : g.cleanupExc with
    | none => rfl
    | some c =>
      cases b with
      | raises e => simp [BodyOut.final, hq c e hc rfl]
      | _ => rfl
  have h := cleanup_once_after_body m g args (.body n b) (by simp [Prog.docForm, hd]) hq' hs
  have hb : (run m (.body n b)).1 = [.body n] := by simp [run, exec]
  rw [h, hb]
  simp [count]

/-- early exit (`return` / `break` inside the block) is, at the `with` level, the same as normal completion:
    `__exit__(None, None, None)` is called in both cases — same journal, and control keeps leaving (`left`) unless the cleanup raises -/
theorem early_exit_like_normal (m : Mode) (g : UserGen) (args n fresh : Nat) :
    (exec m (.withCm g args (.body n .early)) fresh).1 = (exec m (.withCm g args (.body n .normal)) fresh).1
    ∧ ((exec m (.withCm g args (.body n .normal)) fresh).2.1 = .normal →
        (exec m (.withCm g args (.body n .early)) fresh).2.1 = .left) := by
  simp only [exec, BodyOut.final, exitWith]
  split <;> simp
  split <;> simp

/-- *a body exception propagates unchanged unless the cleanup raises*: with a cleanup that does not raise, the `with` statement ends
    exactly as its block ended — the same exception object (kind, identity), for every kind incl. BaseException subclasses,
    GeneratorExit, Stop(Async)Iteration, RuntimeError, CancelledError; also `return`/`break` and normal end are passed on. -/
theorem body_outcome_unchanged (m : Mode) (g : UserGen) (args : Nat) (inner : Prog)
    (hd : (Prog.withCm g args inner).docForm m = true) (hqi : inner.quirkFree m = true)
    (hs : g.setupExc = none) (hc : g.cleanupExc = none) :
    (run m (.withCm g args inner)).2 = (run m inner).2 := by
  simp only [Prog.docForm, Bool.and_eq_true] at hd
  rw [run_eq_spec m _ (by simp [Prog.docForm, hd]) (by simp [Prog.quirkFree, hqi, hs, hc]), run_eq_spec m inner hd.2 hqi]
  simp [spec, hs, hc]

theorem body_exception_unchanged (m : Mode) (g : UserGen) (args n : Nat) (e : Exc) (hd : g.docForm m = true)
    (hs : g.setupExc = none) (hc : g.cleanupExc = none) :
    (run m (.withCm g args (.body n (.raises e)))).2 = .raised e := by
  rw [body_outcome_unchanged m g args _ (by simp [Prog.docForm, hd]) rfl hs hc]
  simp [run, exec, BodyOut.final]

/-- *the cleanup's exception wins* — full statement (no guard).  It is **false** for contextlib (see the witness below). -/
def cleanup_exception_wins_full : Prop :=
  ∀ (m : Mode) (g : UserGen) (args n : Nat) (b : BodyOut) (c : Exc), g.docForm m = true → g.setupExc = none →
    g.cleanupExc = some c → (run m (.withCm g args (.body n b))).2 = .raised c

/-- … proved under the explicit guard `quirk m c e = false`: the cleanup does not raise a RuntimeError chained by hand
    (`raise … from`) to the very Stop(Async)Iteration object the block raised -/
theorem cleanup_exception_wins_partial (m : Mode) (g : UserGen) (args : Nat) (inner : Prog) (c : Exc)
    (hd : (Prog.withCm g args inner).docForm m = true) (hq : (Prog.withCm g args inner).quirkFree m = true)
    (hs : g.setupExc = none) (hc : g.cleanupExc = some c) :
    (run m (.withCm g args inner)).2 = .raised c := by
  rw [run_eq_spec m _ hd hq]; simp [spec, hs, hc]

/-- the complement really is violated (by contextlib's PEP-479 special case, which the library inherits): the block raises the
    StopIteration object 7, the cleanup raises `RuntimeError(…) from <object 7>` — the caller gets object 7, not the cleanup's exception -/
theorem cleanup_exception_wins_witness :
    let g : UserGen := ⟨1, none, 1, some ⟨.runtimeError, 8, some 7⟩, 3⟩
    g.docForm .sync = true ∧ (run .sync (.withCm g 5 (.body 0 (.raises ⟨.stopIteration, 7, none⟩)))).2 = .raised ⟨.stopIteration, 7, none⟩ := by
  decide

theorem cleanup_exception_wins_full_false : ¬ cleanup_exception_wins_full := by
  intro h
  have := h .sync ⟨1, none, 1, some ⟨.runtimeError, 8, some 7⟩, 3⟩ 5 0 (.raises ⟨.stopIteration, 7, none⟩) ⟨.runtimeError, 8, some 7⟩
    (by decide) rfl rfl
  revert this; decide

/-- *`as` binds the yielded value*: the block is entered with exactly the object the generator yielded -/
theorem as_binds_yielded (m : Mode) (g : UserGen) (args : Nat) (inner : Prog) (fresh : Nat) (hd : g.docForm m = true)
    (hs : g.setupExc = none) :
    (exec m (.withCm g args inner) fresh).1.take 2 = [.setup g.tag args, .bind g.tag g.value] := by
  simp [exec, passArgs_id, enter_ok m g args fresh hd hs]

/-- *arguments are forwarded unchanged*: the generator function receives the caller's argument object (whatever the setup then does) -/
theorem args_forwarded (m : Mode) (g : UserGen) (args : Nat) (inner : Prog) (fresh : Nat) :
    (exec m (.withCm g args inner) fresh).1.head? = some (.setup g.tag args) := by
  have h : ∃ rest, (wrapNext m g args fresh .notStarted).1 = .setup g.tag args :: rest := by
    simp only [wrapNext, userNext]
    cases g.setupExc with
    | some e => simp
    | none => by_cases hy : 0 < g.yields <;> simp [hy]
  obtain ⟨rest, hr⟩ := h
  simp only [exec, passArgs_id]
  split <;> simp_all

/-- *a failing setup propagates without cleanup*: one setup event, no bind/body/cleanup event, the setup's exception object reaches
    the caller; the block (any program) is never entered -/
theorem failing_setup_no_cleanup (m : Mode) (g : UserGen) (args : Nat) (inner : Prog) (e : Exc) (fresh : Nat)
    (hd : g.docForm m = true) (hs : g.setupExc = some e) :
    (exec m (.withCm g args inner) fresh).1 = [.setup g.tag args] ∧ (exec m (.withCm g args inner) fresh).2.1 = .raised e := by
  simp [exec, passArgs_id, enter_fail m g args fresh e hd hs]

/-- *decoration-time rejection*: `safe_contextmanager` accepts exactly generator functions, `safe_async_contextmanager` exactly async
    generator functions (and hands `wrapper` to the matching contextlib factory); plain functions, coroutine functions and the
    generator kind of the other flavour raise at decoration time — `AssertionError` whenever `f.__name__` exists -/
theorem decoration_dispatch (m : Mode) (k : FnKind) (hasName : Bool) :
    (mustAccept m k = true → decorate m k hasName = .manager (expectedWrap m)) ∧
    (mustAccept m k = false → (decorate m k hasName).isRejected = true) ∧
    (mustAccept m k = false → hasName = true → decorate m k hasName = .rejected "AssertionError") := by
  cases m <;> cases k <;> cases hasName <;> decide

/-- syntactic facts the model relies on, re-read from the source on every run: the sync decorator wraps a plain generator function,
    the async one an `async def` (so that the sync/async instance of the machine is the right one), both forward `*args, **kwargs` -/
theorem source_shape :
    syncShape.wrapperIsAsync = false ∧ asyncShape.wrapperIsAsync = true
    ∧ syncShape.forwardsArgs = true ∧ asyncShape.forwardsArgs = true := by decide

/-! ## Nested and repeated use: journals compose (induction over depth / count) -/

/-- the events of entering the managers `gs` from the outside in -/
def opens (gs : List (UserGen × Nat)) : List Ev :=
  gs.flatMap (fun ga => [.setup ga.1.tag ga.2, .bind ga.1.tag ga.1.value])
/-- their cleanups, innermost first -/
def closes (gs : List (UserGen × Nat)) : List Ev := (gs.map (fun ga => Ev.cleanup ga.1.tag)).reverse
/-- the cleanup exception of the outermost manager that has one -/
def outermostCleanupExc : List (UserGen × Nat) → Option Exc
  | [] => none
  | (g, _) :: gs => match g.cleanupExc with | some c => some c | none => outermostCleanupExc gs

theorem spec_nest (gs : List (UserGen × Nat)) (inner : Prog) (hs : ∀ ga ∈ gs, ga.1.setupExc = none) :
    spec (nest gs inner) = (opens gs ++ (spec inner).1 ++ closes gs,
      match outermostCleanupExc gs with | some c => .raised c | none => (spec inner).2) := by
  induction gs with
  | nil => simp [nest, opens, closes, outermostCleanupExc]
  | cons ga gs ih =>
    obtain ⟨g, a⟩ := ga
    have hg : g.setupExc = none := hs (g, a) (by simp)
    have ih' := ih (fun x hx => hs x (by simp [hx]))
    simp only [nest, spec, hg, ih', outermostCleanupExc]
    cases hc : g.cleanupExc <;> simp [opens, closes]

/-- **nested use, any depth**: `with g₀: with g₁: … with gₖ: inner` journals all setups/binds outside-in, then the block, then every
    cleanup exactly once in reverse order; the caller sees the outermost failing cleanup's exception, else what the block did -/
theorem nested_use (m : Mode) (gs : List (UserGen × Nat)) (inner : Prog)
    (hd : (nest gs inner).docForm m = true) (hq : (nest gs inner).quirkFree m = true)
    (hs : ∀ ga ∈ gs, ga.1.setupExc = none) :
    run m (nest gs inner) = (opens gs ++ (spec inner).1 ++ closes gs,
      match outermostCleanupExc gs with | some c => .raised c | none => (spec inner).2) := by
  rw [run_eq_spec m _ hd hq, spec_nest gs inner hs]

theorem chain_docForm (m : Mode) (ps : List Prog) (h : ∀ p ∈ ps, p.docForm m = true) : (chain ps).docForm m = true := by
  induction ps with
  | nil => rfl
  | cons p ps ih => simp [chain, Prog.docForm, h p (by simp), ih (fun q hq => h q (by simp [hq]))]

theorem chain_quirkFree (m : Mode) (ps : List Prog) (h : ∀ p ∈ ps, p.quirkFree m = true) : (chain ps).quirkFree m = true := by
  induction ps with
  | nil => rfl
  | cons p ps ih => simp [chain, Prog.quirkFree, h p (by simp), ih (fun q hq => h q (by simp [hq]))]

theorem spec_chain_normal (ps : List Prog) (hn : ∀ p ∈ ps, (spec p).2 = .normal) :
    spec (chain ps) = ((ps.map (fun p => (spec p).1)).flatten ++ [.body 0], .normal) := by
  induction ps with
  | nil => simp [chain, spec, BodyOut.final]
  | cons p ps ih =>
    have := ih (fun q hq => hn q (by simp [hq]))
    simp [chain, spec, hn p (by simp), this]

theorem spec_chain_stop (pre : List Prog) (p : Prog) (post : List Prog) (hn : ∀ q ∈ pre, (spec q).2 = .normal)
    (hp : (spec p).2 ≠ .normal) :
    spec (chain (pre ++ p :: post)) = ((pre.map (fun q => (spec q).1)).flatten ++ (spec p).1, (spec p).2) := by
  induction pre with
  | nil =>
    simp only [List.nil_append, chain, spec, List.map_nil, List.flatten_nil]
  | cons q pre ih =>
    have := ih (fun r hr => hn r (by simp [hr]))
    simp [chain, spec, hn q (by simp), this]

/-- **repeated use, any count**: statements `p₀; p₁; …; pₖ` (each e.g. a `with` over the same decorated function — every call makes a
    new generator) that end normally journal the concatenation of their journals -/
theorem repeated_use (m : Mode) (ps : List Prog) (hd : ∀ p ∈ ps, p.docForm m = true) (hq : ∀ p ∈ ps, p.quirkFree m = true)
    (hn : ∀ p ∈ ps, (run m p).2 = .normal) :
    run m (chain ps) = ((ps.map (fun p => (run m p).1)).flatten ++ [.body 0], .normal) := by
  rw [run_eq_spec m _ (chain_docForm m ps hd) (chain_quirkFree m ps hq)]
  have hn' : ∀ p ∈ ps, (spec p).2 = .normal := fun p hp => by rw [← run_eq_spec m p (hd p hp) (hq p hp)]; exact hn p hp
  rw [spec_chain_normal ps hn']
  have : ps.map (fun p => (spec p).1) = ps.map (fun p => (run m p).1) :=
    List.map_congr_left (fun p hp => by rw [run_eq_spec m p (hd p hp) (hq p hp)])
  rw [this]

/-- … and the first statement that does not end normally (exception, return) ends the sequence: later managers are never entered -/
theorem repeated_use_stops (m : Mode) (pre : List Prog) (p : Prog) (post : List Prog)
    (hd : ∀ q ∈ pre ++ p :: post, q.docForm m = true) (hq : ∀ q ∈ pre ++ p :: post, q.quirkFree m = true)
    (hn : ∀ q ∈ pre, (spec q).2 = .normal) (hp : (spec p).2 ≠ .normal) :
    run m (chain (pre ++ p :: post)) = ((pre.map (fun q => (spec q).1)).flatten ++ (spec p).1, (spec p).2) := by
  rw [run_eq_spec m _ (chain_docForm m _ hd) (chain_quirkFree m _ hq), spec_chain_stop pre p post hn hp]

/-- `n` uses of the same manager one after the other: `n` copies of `[setup, bind, body, cleanup]` -/
theorem repeated_same (m : Mode) (g : UserGen) (args k n : Nat) (hd : g.docForm m = true) (hs : g.setupExc = none)
    (hc : g.cleanupExc = none) :
    run m (chain (List.replicate n (.withCm g args (.body k .normal)))) =
      ((List.replicate n [Ev.setup g.tag args, .bind g.tag g.value, .body k, .cleanup g.tag]).flatten ++ [.body 0], .normal) := by
  have h1 : run m (.withCm g args (.body k .normal)) = ([Ev.setup g.tag args, .bind g.tag g.value, .body k, .cleanup g.tag], .normal) := by
    rw [run_eq_spec m _ (by simp [Prog.docForm, hd]) (by simp [Prog.quirkFree, hs, hc])]
    simp [spec, hs, hc, BodyOut.final]
  rw [repeated_use m _ (by intro p hp; rw [(List.mem_replicate.mp hp).2]; simp [Prog.docForm, hd])
    (by intro p hp; rw [(List.mem_replicate.mp hp).2]; simp [Prog.quirkFree, hs, hc])
    (by intro p hp; rw [(List.mem_replicate.mp hp).2, h1])]
  simp [List.map_replicate, h1]

/-- in every program, for every manager tag: as many cleanups as entered blocks (each entered block is cleaned up exactly once) -/
theorem cleanups_match_entries (m : Mode) (p : Prog) (hd : p.docForm m = true) (hq : p.quirkFree m = true) (t : Nat) :
    count (Ev.isCleanup t) (run m p).1 = count (Ev.isBind t) (run m p).1 := by
  rw [run_eq_spec m p hd hq]
  clear hd hq
  induction p with
  | body n b => simp [spec, count, Ev.isCleanup, Ev.isBind]
  | seq p q ihp ihq =>
    simp only [spec]
    cases h : (spec p).2 <;> simp_all [count, List.filter_append]
  | withCm g args inner ih =>
    simp only [spec]
    cases hs : g.setupExc with
    | some e => simp [count, Ev.isCleanup, Ev.isBind]
    | none =>
      simp only [count, List.filter_append, List.length_append] at ih ⊢
      by_cases ht : g.tag = t
      · simp [List.filter, Ev.isCleanup, Ev.isBind, ht, ih]; omega
      · have : (g.tag == t) = false := by simpa using ht
        simp [List.filter, Ev.isCleanup, Ev.isBind, this, ih]

/-! ## Non-vacuity: concrete instances that meet the hypotheses -/

def gOk (t : Nat) : UserGen := ⟨t, none, 1, none, 40 + t⟩
def gCleanupFails (t : Nat) : UserGen := ⟨t, none, 1, some ⟨.baseExc, 90 + t, none⟩, 40 + t⟩
def gSetupFails (t : Nat) : UserGen := ⟨t, some ⟨.cancelled, 80 + t, none⟩, 1, none, 40 + t⟩

-- the body raises KeyboardInterrupt-like object 7 / GeneratorExit / StopIteration / StopAsyncIteration: cleanup once, same object out
example : run .sync (.withCm (gOk 1) 5 (.body 0 (.raises ⟨.baseExc, 7, none⟩)))
    = ([.setup 1 5, .bind 1 41, .body 0, .cleanup 1], .raised ⟨.baseExc, 7, none⟩) := by decide
example : run .sync (.withCm (gOk 1) 5 (.body 0 (.raises ⟨.stopIteration, 7, none⟩)))
    = ([.setup 1 5, .bind 1 41, .body 0, .cleanup 1], .raised ⟨.stopIteration, 7, none⟩) := by decide
example : run .async (.withCm (gOk 1) 5 (.body 0 (.raises ⟨.stopAsyncIteration, 7, none⟩)))
    = ([.setup 1 5, .bind 1 41, .body 0, .cleanup 1], .raised ⟨.stopAsyncIteration, 7, none⟩) := by decide
example : run .async (.withCm (gOk 1) 5 (.body 0 (.raises ⟨.generatorExit, 7, none⟩)))
    = ([.setup 1 5, .bind 1 41, .body 0, .cleanup 1], .raised ⟨.generatorExit, 7, none⟩) := by decide
-- early exit
example : run .sync (.withCm (gOk 1) 5 (.body 0 .early)) = ([.setup 1 5, .bind 1 41, .body 0, .cleanup 1], .left) := by decide
-- cleanup exception wins over the body's
example : run .async (.withCm (gCleanupFails 1) 5 (.body 0 (.raises ⟨.exception, 7, none⟩)))
    = ([.setup 1 5, .bind 1 41, .body 0, .cleanup 1], .raised ⟨.baseExc, 91, none⟩) := by decide
-- failing setup
example : run .sync (.withCm (gSetupFails 1) 5 (.body 0 .normal)) = ([.setup 1 5], .raised ⟨.cancelled, 81, none⟩) := by decide
-- hypotheses of `nested_use` / `repeated_use` are satisfiable at depth 3 / count 3, with a failing cleanup in the middle
example : (nest [(gOk 1, 5), (gCleanupFails 2, 5), (gOk 3, 5)] (.body 0 (.raises ⟨.stopIteration, 7, none⟩))).docForm .sync = true
    ∧ (nest [(gOk 1, 5), (gCleanupFails 2, 5), (gOk 3, 5)] (.body 0 (.raises ⟨.stopIteration, 7, none⟩))).quirkFree .sync = true
    ∧ run .sync (nest [(gOk 1, 5), (gCleanupFails 2, 5), (gOk 3, 5)] (.body 0 (.raises ⟨.stopIteration, 7, none⟩)))
      = ([.setup 1 5, .bind 1 41, .setup 2 5, .bind 2 42, .setup 3 5, .bind 3 43, .body 0, .cleanup 3, .cleanup 2, .cleanup 1],
         .raised ⟨.baseExc, 92, none⟩) := by decide
example : run .async (chain [.withCm (gOk 1) 5 (.body 1 .normal), .withCm (gOk 1) 5 (.body 2 .normal)])
    = ([.setup 1 5, .bind 1 41, .body 1, .cleanup 1, .setup 1 5, .bind 1 41, .body 2, .cleanup 1, .body 0], .normal) := by decide
-- decoration
example : decorate .sync .plain true = .rejected "AssertionError" ∧ decorate .sync .asyncGenerator true = .rejected "AssertionError"
    ∧ decorate .async .generator true = .rejected "AssertionError" ∧ decorate .async .coroutine true = .rejected "AssertionError"
    ∧ decorate .sync .generator true = .manager .contextmanager ∧ decorate .async .asyncGenerator false = .manager .asynccontextmanager
    ∧ decorate .sync .plain false = .rejected "AttributeError" := by decide

end PedVerif.CtxMgr
