import PedVerif.Spec.CtxMgr
/-!
# C16 — safe_contextmanager / safe_async_contextmanager run the cleanup exactly once

Property theorems only.  `exec`/`run` is the model of the library's wrapper generator under CPython's contextlib and the `with`
statement, instantiated with the wrapper shape and the decoration-time checks that the translator read from the source
(`PedVerif.Gen.CtxMgr`).  The proofs therefore re-check against what the code says now: a cleanup that is no longer in a `finally`,
a wider `except` around the cleanup `next`, dropped argument forwarding or a changed decoration-time test make them fail.

The user generator may have try / with blocks of its own around its yield and statements behind them (`GenBody`): "the cleanup" in every
theorem is ALL the code after the yield run as ordinary code (`UserGen.after`), see `guarded_generator_full_cleanup`,
`exit_journal_whatever_the_block_did` and the witnesses `direct_contextmanager_*` (what handing `f` to contextlib directly would do —
excluded by the generated fact `no_bypass`).  Decoration time is modelled per interpreter mode (`opt`: python -O), see
`rejections_are_raise_statements`.

All theorems are for both modes (`m : Mode`), every exception object (kind × identity × cause), every nesting depth and length.
Hypotheses used: `docForm` (the generator has the documented one-yield form — zero- and multi-yield generators are modelled and
compared with the implementation but nothing is claimed about them) and `quirkFree` (see `cleanup_exception_wins_*`).
-/
namespace PedVerif.CtxMgr
open PedVerif.Gen.CtxMgr

/-- the state of a documented-form user generator that is suspended at its yield -/
def atYield : UState := { served := 1, done := false }

/-- a concrete call used in the witnesses / examples: `cm(<object 5>, k=<object 6>)` (keyword name 1) -/
def a5 : CallArgs := { pos := [5], kw := [(1, 6)] }

theorem passArgs_id (m : Mode) (args : CallArgs) : passArgs m args = args := by
  cases m <;> simp [passArgs, shape, syncShape, asyncShape]

/-- generated fact: the `except` clauses around the cleanup `next` calls do nothing (`pass`): what the user generator returns is never
    looked at, let alone taken for a verdict on the pending exception -/
theorem verdict_false (m : Mode) (g : UserGen) (u u' : UState) : verdict m g u u' = false := by
  cases m <;> simp [verdict, shape, syncShape, asyncShape]

/-- generated fact: the wrapper yields the object `next(iterator)` returned -/
theorem yields_next_result (m : Mode) : (shape m).yieldsNextResult = true := by cases m <;> rfl

theorem leave_of_not_converted (m : Mode) (fresh : Nat) (e : Exc) (h : converted m e.kind = false) :
    leave m fresh e = e := by simp [leave, h]

/-- the generator's own blocks journal `piece` events of its own tag only -/
theorem runActs_pieces (tag : Nat) (l : List Act) : ∀ ev ∈ (runActs tag l).1, ∃ q, ev = .piece tag q := by
  induction l with
  | nil => intro ev h; simp [runActs] at h
  | cons a rest ih =>
    cases a with
    | ev q =>
      intro ev h
      simp only [runActs, List.mem_cons] at h
      rcases h with h | h
      · exact ⟨q, h⟩
      · exact ih ev h
    | raise e => intro ev h; simp [runActs] at h

theorem resume_pieces (tag : Nat) (fs : List Frame) : ∀ (p : Option Exc) (tr : List Act),
    ∀ ev ∈ (resume tag p fs tr).1, ∃ q, ev = .piece tag q := by
  induction fs with
  | nil =>
    intro p tr ev h
    cases p with
    | none => exact runActs_pieces tag tr ev (by simpa [resume] using h)
    | some e => simp [resume] at h
  | cons f fs ih =>
    intro p tr ev h
    cases p with
    | none =>
      simp only [resume, List.mem_append] at h
      rcases h with ((h | h) | h) | h
      · exact runActs_pieces tag _ ev h
      · split at h
        · exact runActs_pieces tag _ ev h
        · split at h
          · simp at h
          · exact runActs_pieces tag _ ev h
      · exact runActs_pieces tag _ ev h
      · exact ih _ _ ev h
    | some e =>
      simp only [resume, List.mem_append] at h
      rcases h with ((h | h) | h) | h
      · simp at h
      · split at h
        · simp at h
        · exact runActs_pieces tag _ ev h
      · exact runActs_pieces tag _ ev h
      · exact ih _ _ ev h

/-- the code after the yield journals the cleanup event first, then only pieces of the generator's own blocks -/
theorem after_events (g : UserGen) : ∃ l, g.after.1 = .cleanup g.tag :: l ∧ ∀ ev ∈ l, ∃ q, ev = .piece g.tag q :=
  ⟨_, rfl, resume_pieces g.tag g.body.frames g.cleanupExc g.body.trail⟩

theorem count_after_cleanup (g : UserGen) (t : Nat) : count (Ev.isCleanup t) g.after.1 = if g.tag = t then 1 else 0 := by
  obtain ⟨l, hl, hp⟩ := after_events g
  have h0 : l.filter (Ev.isCleanup t) = [] := by
    rw [List.filter_eq_nil_iff]; intro ev hev; obtain ⟨q, rfl⟩ := hp ev hev; simp [Ev.isCleanup]
  rw [hl]
  by_cases ht : g.tag = t
  · simp [count, List.filter, Ev.isCleanup, ht, h0]
  · have : (g.tag == t) = false := by simpa using ht
    simp [count, List.filter, Ev.isCleanup, ht, h0, this]

theorem count_after_bind (g : UserGen) (t : Nat) : count (Ev.isBind t) g.after.1 = 0 := by
  obtain ⟨l, hl, hp⟩ := after_events g
  have h0 : l.filter (Ev.isBind t) = [] := by
    rw [List.filter_eq_nil_iff]; intro ev hev; obtain ⟨q, rfl⟩ := hp ev hev; simp [Ev.isBind]
  rw [hl]; simp [count, List.filter, Ev.isBind, h0]

theorem cleanupBlock_doc (m : Mode) (g : UserGen) (recv : CallArgs) (fresh : Nat) (hd : g.docForm m = true) :
    ∃ u', cleanupBlock m g recv fresh atYield = (g.after.1, g.after.2, u') := by
  cases m <;> cases hc : g.after.2 <;>
    simp_all [UserGen.docForm, cleanupBlock, shape, syncShape, asyncShape, runBlocks, runNexts, userNext, catches, stopKind,
      converted, atYield]

/-- `__enter__` on a documented-form generator whose setup succeeds: one setup event, the yielded value, suspended -/
theorem enter_ok (m : Mode) (g : UserGen) (recv : CallArgs) (fresh : Nat) (hd : g.docForm m = true) (hs : g.setupExc = none)
    (hf : recv.fits = true) :
    wrapNext m g recv fresh .notStarted = ([.setup g.tag recv], .yielded g.value, .suspended atYield) := by
  simp_all [UserGen.docForm, wrapNext, userNext, atYield, yields_next_result]

/-- … whose setup raises `e`: the cleanup `next` in the `finally` meets a finished generator, `e` comes out -/
theorem enter_fail (m : Mode) (g : UserGen) (recv : CallArgs) (fresh : Nat) (e : Exc) (hd : g.docForm m = true)
    (hs : g.setupExc = some e) (hf : recv.fits = true) :
    wrapNext m g recv fresh .notStarted = ([.setup g.tag recv], .raised e, .done) := by
  cases m <;>
    simp_all [UserGen.docForm, wrapNext, userNext, unwind, cleanupBlock, shape, syncShape, asyncShape, runBlocks, runNexts,
      catches, stopKind, leave, verdict]

/-- leaving the block of a documented-form manager: exactly the cleanup event; outcome as for try/finally -/
theorem exitWith_doc (m : Mode) (g : UserGen) (recv : CallArgs) (fresh : Nat) (fin : Final) (hd : g.docForm m = true)
    (hq : ∀ c e, g.after.2 = some c → fin = .raised e → quirk m c e = false) :
    exitWith m g recv fresh (.suspended atYield) fin =
      (g.after.1, match g.after.2 with | some c => .raised c | none => fin) := by
  obtain ⟨u', hcb⟩ := cleanupBlock_doc m g recv fresh hd
  have hfin : (shape m).cleanupInFinally = true := by cases m <;> rfl
  cases hc : g.after.2 with
  | none =>
    rw [hc] at hcb
    cases fin with
    | normal => simp [exitWith, wrapNext, hcb]
    | left => simp [exitWith, wrapNext, hcb]
    | raised e =>
      simp only [exitWith, wrapThrow, unwind, hfin, hcb, if_true, verdict_false]
      by_cases hk : converted m e.kind = true
      · -- PEP 479 turns the body's Stop(Async)Iteration into a RuntimeError chained to it; `__exit__` recognises it
        have : exitIsStop m e.kind = true := by cases m <;> simpa [exitIsStop, converted] using hk
        simp [leave, hk, exitDecision, this]
      · simp only [Bool.not_eq_true] at hk
        simp [leave_of_not_converted m fresh e hk, exitDecision]
  | some c =>
    rw [hc] at hcb
    have hcc : converted m c.kind = false := by
      simp [UserGen.docForm, hc] at hd; simpa using hd.2
    cases fin with
    | normal => simp [exitWith, wrapNext, hcb, leave_of_not_converted m fresh c hcc]
    | left => simp [exitWith, wrapNext, hcb, leave_of_not_converted m fresh c hcc]
    | raised e =>
      have hq' := hq c e hc rfl
      simp only [exitWith, wrapThrow, unwind, hfin, hcb, if_true, leave_of_not_converted m fresh c hcc]
      by_cases hce : c = e
      · subst hce; simp [exitDecision]
      · have hdec : exitDecision m fresh e (.raised c) = .error c := by
          simp only [quirk, Bool.and_eq_false_iff, bne_eq_false_iff_eq, hce, or_false, beq_eq_false_iff_ne] at hq'
          simp only [exitDecision, hce, if_false]
          by_cases hrt : c.kind = .runtimeError
          · by_cases hx : exitIsStop m e.kind = true ∧ c.cause = some e.id
            · exfalso; simp [hrt, hx.1, hx.2] at hq'
            · simp [hrt, hx]
          · simp [hrt]
        simp [hdec]

/-- **C16, main statement.**  For every program built from leaf bodies (normal end, `return`/`break`, any exception object of any
    kind), `with` over documented-form generators (any setup outcome, any cleanup outcome) and sequencing — arbitrary nesting depth
    and length — the model of the library over contextlib behaves as the try/finally specification, in both modes. -/
theorem exec_eq_spec (m : Mode) (p : Prog) :
    p.docForm m = true → p.quirkFree m = true →
      ∀ fresh, (exec m p fresh).1 = (spec p).1 ∧ (exec m p fresh).2.1 = (spec p).2 := by
  induction p with
  | body n b => intro _ _ fresh; simp [exec, spec]
  | seq p q ihp ihq =>
    intro hd hq fresh
    simp only [Prog.docForm, Prog.quirkFree, Bool.and_eq_true] at hd hq
    have hp := ihp hd.1 hq.1 fresh
    have hq2 := ihq hd.2 hq.2 (exec m p fresh).2.2
    simp only [exec, spec]
    rw [hp.2]
    cases h : (spec p).2 <;> simp [hp.1, hq2.1, hq2.2]
  | withCm g args inner ih =>
    intro hd hq fresh
    simp only [Prog.docForm, Prog.quirkFree, Bool.and_eq_true] at hd hq
    have hin := ih hd.2 hq.1 (fresh + 5)
    simp only [exec, spec, passArgs_id]
    cases hs : g.setupExc with
    | some e => simp [enter_fail m g args fresh e hd.1.1 hs hd.1.2]
    | none =>
      have hx := exitWith_doc m g args fresh (exec m inner (fresh + 5)).2.1 hd.1.1 (by
        intro c e hc hf
        have := hq.2
        rw [hs, hc, ← hin.2, hf] at this
        simpa using this)
      simp only [enter_ok m g args fresh hd.1.1 hs hd.1.2, hx, hin.1]
      cases hc : g.after.2 <;> simp [hin.2]

theorem run_eq_spec (m : Mode) (p : Prog) (hd : p.docForm m = true) (hq : p.quirkFree m = true) : run m p = spec p := by
  have := exec_eq_spec m p hd hq 1000
  simp [run, this.1, this.2]

/-! ### the journal needs no `quirkFree`

In the PEP-479 corner (`cleanup_exception_wins_witness`) only the exception the caller sees differs from try/finally semantics; the
journal — which code ran, how often, in which order — does not.  `exec_journal_eq_spec` therefore asks for the documented form only. -/

/-- how a statement ends, without the exception object -/
inductive FinClass where
  | normal | left | raised
deriving DecidableEq, Repr

def Final.cls : Final → FinClass
  | .normal => .normal
  | .left => .left
  | .raised _ => .raised

theorem cls_normal_iff (f : Final) : f.cls = .normal ↔ f = .normal := by cases f <;> simp [Final.cls]

/-- leaving the block of a documented-form manager, ANY block outcome, no guard: the journal is the code after the yield, and the `with`
    statement ends the way try/finally semantics says (normally / by return-break / with an exception) — which exception is the
    business of `exitWith_doc` -/
theorem exitWith_doc_any (m : Mode) (g : UserGen) (recv : CallArgs) (fresh : Nat) (fin : Final) (hd : g.docForm m = true) :
    (exitWith m g recv fresh (.suspended atYield) fin).1 = g.after.1
    ∧ (exitWith m g recv fresh (.suspended atYield) fin).2.cls = (match g.after.2 with | some c => Final.raised c | none => fin).cls := by
  obtain ⟨u', hcb⟩ := cleanupBlock_doc m g recv fresh hd
  have hfin : (shape m).cleanupInFinally = true := by cases m <;> rfl
  have hdec : ∀ (e exc : Exc), exitDecision m fresh e (.raised exc) ≠ .ok true := by
    intro e exc
    simp only [exitDecision]
    repeat' split
    all_goals simp
  have hcls : ∀ (e exc : Exc), (match exitDecision m fresh e (.raised exc) with
      | .ok true => Final.normal | .ok false => .raised e | .error e' => .raised e').cls = .raised := by
    intro e exc
    have := hdec e exc
    cases hx : exitDecision m fresh e (.raised exc) with
    | error e' => rfl
    | ok b => cases b with
      | false => rfl
      | true => exact absurd hx this
  cases fin with
  | normal => cases hc : g.after.2 <;> simp [exitWith, wrapNext, hcb, hc, Final.cls]
  | left => cases hc : g.after.2 <;> simp [exitWith, wrapNext, hcb, hc, Final.cls]
  | raised e =>
    cases hc : g.after.2 with
    | none =>
      simp only [exitWith, wrapThrow, unwind, hfin, hcb, hc, verdict_false, if_true, Bool.false_eq_true, if_false]
      exact ⟨trivial, hcls e (leave m fresh e)⟩
    | some c =>
      simp only [exitWith, wrapThrow, unwind, hfin, hcb, hc, if_true]
      exact ⟨trivial, hcls e (leave m fresh c)⟩

/-- **the journal**, for every program over documented-form generators — no `quirkFree`: the model journals exactly what try/finally
    semantics journals, and every statement ends normally / by return-break / with an exception exactly when it does there -/
theorem exec_journal_eq_spec (m : Mode) (p : Prog) :
    p.docForm m = true → ∀ fresh, (exec m p fresh).1 = (spec p).1 ∧ (exec m p fresh).2.1.cls = (spec p).2.cls := by
  induction p with
  | body n b => intro _ fresh; simp [exec, spec]
  | seq p q ihp ihq =>
    intro hd fresh
    simp only [Prog.docForm, Bool.and_eq_true] at hd
    have hp := ihp hd.1 fresh
    have hq2 := ihq hd.2 (exec m p fresh).2.2
    simp only [exec, spec]
    cases he : (exec m p fresh).2.1 <;> cases hsp : (spec p).2 <;> simp_all [Final.cls]
  | withCm g args inner ih =>
    intro hd fresh
    simp only [Prog.docForm, Bool.and_eq_true] at hd
    have hin := ih hd.2 (fresh + 5)
    simp only [exec, spec, passArgs_id]
    cases hs : g.setupExc with
    | some e => simp [enter_fail m g args fresh e hd.1.1 hs hd.1.2, Final.cls]
    | none =>
      have hx := exitWith_doc_any m g args fresh (exec m inner (fresh + 5)).2.1 hd.1.1
      simp only [enter_ok m g args fresh hd.1.1 hs hd.1.2, hx.1, hin.1]
      refine ⟨by simp, ?_⟩
      rw [hx.2]
      cases hc : g.after.2 with
      | some c => rfl
      | none => exact hin.2

theorem run_journal_eq_spec (m : Mode) (p : Prog) (hd : p.docForm m = true) : (run m p).1 = (spec p).1 := by
  simp [run, (exec_journal_eq_spec m p hd 1000).1]

/-! ## The clauses of the property, one theorem each

`inner` is an arbitrary program (any nesting depth, any length) of documented-form managers; `g` is the manager under
consideration; `m` ranges over sync and async. -/

/-- *cleanup exactly once and after the body*: whatever the block does (normal end, return/break, any exception — `inner` is
    arbitrary), the journal of `with g(args) as v: inner` is setup, bind, the block's own journal, then the code after the yield: it
    runs once, and last.  Documented form only — NO `quirkFree`: also in the PEP-479 corner (`cleanup_exception_wins_witness`) the
    cleanup runs exactly once, only the exception the caller sees is contextlib's choice there. -/
theorem cleanup_once_after_body (m : Mode) (g : UserGen) (args : CallArgs) (inner : Prog)
    (hd : (Prog.withCm g args inner).docForm m = true) (hs : g.setupExc = none) :
    (run m (.withCm g args inner)).1 = [.setup g.tag args, .bind g.tag g.value] ++ (run m inner).1 ++ g.after.1 := by
  have hdi : inner.docForm m = true := by simp only [Prog.docForm, Bool.and_eq_true] at hd; exact hd.2
  rw [run_journal_eq_spec m _ hd, run_journal_eq_spec m inner hdi]
  simp [spec, hs]

/-- the leaf instance, with the count spelled out: for every body outcome and every cleanup outcome (no guard) the journal is
    `[setup, bind, body]` followed by the code after the yield (the cleanup event, then the pieces of the generator's own blocks); the
    cleanup event occurs exactly once and after the body event -/
theorem cleanup_exactly_once_leaf (m : Mode) (g : UserGen) (args : CallArgs) (n : Nat) (b : BodyOut) (hd : g.docForm m = true)
    (hf : args.fits = true) (hs : g.setupExc = none) :
    (run m (.withCm g args (.body n b))).1 = [.setup g.tag args, .bind g.tag g.value, .body n] ++ g.after.1
    ∧ g.after.1.head? = some (.cleanup g.tag)
    ∧ count (Ev.isCleanup g.tag) (run m (.withCm g args (.body n b))).1 = 1 := by
  have h := cleanup_once_after_body m g args (.body n b) (by simp [Prog.docForm, hd, hf]) hs
  have hb : (run m (.body n b)).1 = [.body n] := by simp [run, exec]
  rw [h, hb]
  refine ⟨by simp, by simp [UserGen.after], ?_⟩
  have := count_after_cleanup g g.tag
  simp only [count, List.filter_append, List.length_append] at this ⊢
  simp [List.filter, Ev.isCleanup, this]

/-- `return` / `break` seen from the enclosing statement: a normal end becomes "control keeps leaving", everything else stays -/
def Final.toLeft : Final → Final
  | .normal => .left
  | f => f

/-- `__exit__(None, None, None)` is what both a normal end and `return` / `break` call: same journal; same outcome, except that control
    keeps leaving.  Any generator (also outside the documented form), any state of its wrapper — also when the cleanup raises. -/
theorem exit_early_like_normal (m : Mode) (g : UserGen) (recv : CallArgs) (fresh : Nat) (w : WState) :
    (exitWith m g recv fresh w .left).1 = (exitWith m g recv fresh w .normal).1
    ∧ (exitWith m g recv fresh w .left).2 = (exitWith m g recv fresh w .normal).2.toLeft := by
  simp only [exitWith]
  split <;> simp [Final.toLeft]

/-- early exit (`return` / `break` somewhere inside the block) is, at the `with` level, the same as normal completion: for ARBITRARY
    blocks `inner` (ends normally) and `inner'` (same journal, ends by return / break), any manager, any arguments: same journal, and the
    `with` statement ends the same way with "normal" replaced by "control keeps leaving" — in particular a raising cleanup raises in both -/
theorem early_exit_like_normal (m : Mode) (g : UserGen) (args : CallArgs) (inner inner' : Prog) (fresh : Nat)
    (hj : (exec m inner' (fresh + 5)).1 = (exec m inner (fresh + 5)).1)
    (hn : (exec m inner (fresh + 5)).2.1 = .normal) (hl : (exec m inner' (fresh + 5)).2.1 = .left) :
    (exec m (.withCm g args inner') fresh).1 = (exec m (.withCm g args inner) fresh).1
    ∧ (exec m (.withCm g args inner') fresh).2.1 = (exec m (.withCm g args inner) fresh).2.1.toLeft := by
  simp only [exec]
  split
  · simp [Final.toLeft]
  · simp [Final.toLeft]
  · rename_i evs v w _
    have h := exit_early_like_normal m g (passArgs m args) fresh w
    simp [hj, hn, hl, h.1, h.2]

/-- *a body exception propagates unchanged unless the cleanup raises*: with a cleanup that does not raise, the `with` statement ends
    exactly as its block ended — the same exception object (kind, identity), for every kind incl. BaseException subclasses,
    GeneratorExit, Stop(Async)Iteration, RuntimeError, CancelledError; also `return`/`break` and normal end are passed on. -/
theorem body_outcome_unchanged (m : Mode) (g : UserGen) (args : CallArgs) (inner : Prog)
    (hd : (Prog.withCm g args inner).docForm m = true) (hqi : inner.quirkFree m = true)
    (hs : g.setupExc = none) (hc : g.after.2 = none) :
    (run m (.withCm g args inner)).2 = (run m inner).2 := by
  simp only [Prog.docForm, Bool.and_eq_true] at hd
  rw [run_eq_spec m _ (by simp [Prog.docForm, hd]) (by simp [Prog.quirkFree, hqi, hs, hc]), run_eq_spec m inner hd.2 hqi]
  simp [spec, hs, hc]

theorem body_exception_unchanged (m : Mode) (g : UserGen) (args : CallArgs) (n : Nat) (e : Exc) (hd : g.docForm m = true)
    (hf : args.fits = true) (hs : g.setupExc = none) (hc : g.after.2 = none) :
    (run m (.withCm g args (.body n (.raises e)))).2 = .raised e := by
  rw [body_outcome_unchanged m g args _ (by simp [Prog.docForm, hd, hf]) rfl hs hc]
  simp [run, exec, BodyOut.final]

/-- *what the generator returns after its cleanup is no verdict on the block's exception*: a decorated generator may end with
    `return <anything>` (truthy, falsy, nothing) — journal and outcome of the `with` statement are the same for every returned value;
    in particular (with `body_exception_unchanged`) a body exception propagates unchanged past a cleanup that returns a truthy value.
    Rests on the generated fact `handlersPass` (`verdict_false`): the `except` clauses around the cleanup `next` are `pass`; a handler
    that does something could read `StopIteration.value`, and the model then lets a truthy value swallow the pending exception (`verdict`). -/
theorem cleanup_return_value_ignored (m : Mode) (g : UserGen) (r : Ret) (args : CallArgs) (inner : Prog) (fresh : Nat) :
    exec m (.withCm { g with returns := r } args inner) fresh = exec m (.withCm g args inner) fresh := by
  have hu : ∀ recv s, userNext { g with returns := r } recv s = userNext g recv s := by intro recv s; rfl
  have hn : ∀ recv fr n u, runNexts m { g with returns := r } recv fr n u = runNexts m g recv fr n u := by
    intro recv fr n
    induction n with
    | zero => intro u; rfl
    | succ k ih => intro u; simp only [runNexts, hu, ih]
  have hb : ∀ recv fr l u, runBlocks m { g with returns := r } recv fr l u = runBlocks m g recv fr l u := by
    intro recv fr l
    induction l with
    | nil => intro u; rfl
    | cons b rest ih => intro u; obtain ⟨n, c⟩ := b; simp only [runBlocks, hn, ih]
  have hc : ∀ recv fr u, cleanupBlock m { g with returns := r } recv fr u = cleanupBlock m g recv fr u := by
    intro recv fr u; simp only [cleanupBlock, hb]
  have hw : ∀ recv fr e u, unwind m { g with returns := r } recv fr e u = unwind m g recv fr e u := by
    intro recv fr e u; simp only [unwind, hc, verdict_false]
  have hwn : ∀ recv fr w, wrapNext m { g with returns := r } recv fr w = wrapNext m g recv fr w := by
    intro recv fr w; cases w <;> simp only [wrapNext, hu, hw, hc]
  have hwt : ∀ recv fr v w, wrapThrow m { g with returns := r } recv fr v w = wrapThrow m g recv fr v w := by
    intro recv fr v w; cases w <;> simp only [wrapThrow, hw]
  have hx : ∀ recv fr w fin, exitWith m { g with returns := r } recv fr w fin = exitWith m g recv fr w fin := by
    intro recv fr w fin; cases fin <;> simp only [exitWith, hwn, hwt]
  simp only [exec, hwn, hx]

theorem body_exception_unchanged_whatever_is_returned (m : Mode) (g : UserGen) (r : Ret) (args : CallArgs) (n : Nat) (e : Exc)
    (hd : g.docForm m = true) (hf : args.fits = true) (hs : g.setupExc = none) (hc : g.after.2 = none) :
    (run m (.withCm { g with returns := r } args (.body n (.raises e)))).2 = .raised e := by
  have h := cleanup_return_value_ignored m g r args (.body n (.raises e)) 1000
  simp only [run, h]
  exact body_exception_unchanged m g args n e hd hf hs hc

/-- *the cleanup's exception wins* — full statement (no guard).  It is **false** for contextlib (see the witness below). -/
def cleanup_exception_wins_full : Prop :=
  ∀ (m : Mode) (g : UserGen) (args : CallArgs) (n : Nat) (b : BodyOut) (c : Exc), g.docForm m = true → args.fits = true → g.setupExc = none →
    g.after.2 = some c → (run m (.withCm g args (.body n b))).2 = .raised c

/-- … proved under the explicit guard `quirk m c e = false`: the cleanup does not raise a RuntimeError chained by hand
    (`raise … from`) to the very Stop(Async)Iteration object the block raised -/
theorem cleanup_exception_wins_partial (m : Mode) (g : UserGen) (args : CallArgs) (inner : Prog) (c : Exc)
    (hd : (Prog.withCm g args inner).docForm m = true) (hq : (Prog.withCm g args inner).quirkFree m = true)
    (hs : g.setupExc = none) (hc : g.after.2 = some c) :
    (run m (.withCm g args inner)).2 = .raised c := by
  rw [run_eq_spec m _ hd hq]; simp [spec, hs, hc]

-- … while the JOURNAL of the witness below is the ordinary one (`cleanup_once_after_body` needs no guard): cleanup exactly once, after the body
example : (run .sync (.withCm ⟨1, none, 1, some ⟨.runtimeError, 8, some 7⟩, 3, .none, {}⟩ a5 (.body 0 (.raises ⟨.stopIteration, 7, none⟩)))).1
    = [.setup 1 a5, .bind 1 3, .body 0, .cleanup 1] := by decide

/-- the complement really is violated (by contextlib's PEP-479 special case, which the library inherits): the block raises the
    StopIteration object 7, the cleanup raises `RuntimeError(…) from <object 7>` — the caller gets object 7, not the cleanup's exception -/
theorem cleanup_exception_wins_witness :
    let g : UserGen := ⟨1, none, 1, some ⟨.runtimeError, 8, some 7⟩, 3, .none, {}⟩
    g.docForm .sync = true ∧ (run .sync (.withCm g a5 (.body 0 (.raises ⟨.stopIteration, 7, none⟩)))).2 = .raised ⟨.stopIteration, 7, none⟩ := by
  decide

theorem cleanup_exception_wins_full_false : ¬ cleanup_exception_wins_full := by
  intro h
  have := h .sync ⟨1, none, 1, some ⟨.runtimeError, 8, some 7⟩, 3, .none, {}⟩ a5 0 (.raises ⟨.stopIteration, 7, none⟩) ⟨.runtimeError, 8, some 7⟩
    (by decide) rfl rfl rfl
  revert this; decide

/-- *`as` binds the yielded value*: the block is entered with exactly the object the generator yielded (generated fact
    `yieldsNextResult`: the wrapper yields what `next(iterator)` returned) -/
theorem as_binds_yielded (m : Mode) (g : UserGen) (args : CallArgs) (inner : Prog) (fresh : Nat) (hd : g.docForm m = true)
    (hf : args.fits = true) (hs : g.setupExc = none) :
    (exec m (.withCm g args inner) fresh).1.take 2 = [.setup g.tag args, .bind g.tag g.value] := by
  simp [exec, passArgs_id, enter_ok m g args fresh hd hs hf]

/-- *arguments are forwarded unchanged*: for EVERY argument tuple — any number of positional objects, any keyword names (also names
    like `f`, `args`, `kwargs`, `self`, `iterator`: a name is just a number here, the wrapper has no parameter that could capture
    one), in the caller's order — that Python can bind to the generator function's parameters, the generator function is called
    with exactly that tuple (whatever the setup then does): nothing added, dropped, renamed or reordered -/
theorem args_forwarded (m : Mode) (g : UserGen) (pos : List Nat) (kw : List (Nat × Nat)) (inner : Prog) (fresh : Nat) :
    (exec m (.withCm g { pos := pos, kw := kw } inner) fresh).1.head? = some (.setup g.tag { pos := pos, kw := kw }) := by
  generalize hargs : ({ pos := pos, kw := kw } : CallArgs) = args
  have hfit : args.fits = true := by rw [← hargs]
  have h : ∃ rest, (wrapNext m g args fresh .notStarted).1 = .setup g.tag args :: rest := by
    simp only [wrapNext, userNext, hfit]
    cases g.setupExc with
    | some e => simp
    | none => by_cases hy : 0 < g.yields <;> simp [hy]
  obtain ⟨rest, hr⟩ := h
  simp only [exec, passArgs_id]
  split <;> simp_all

/-- *a failing setup propagates without cleanup*: one setup event, no bind/body/cleanup event, the setup's exception object reaches
    the caller; the block (any program) is never entered -/
theorem failing_setup_no_cleanup (m : Mode) (g : UserGen) (args : CallArgs) (inner : Prog) (e : Exc) (fresh : Nat)
    (hd : g.docForm m = true) (hf : args.fits = true) (hs : g.setupExc = some e) :
    (exec m (.withCm g args inner) fresh).1 = [.setup g.tag args] ∧ (exec m (.withCm g args inner) fresh).2.1 = .raised e := by
  simp [exec, passArgs_id, enter_fail m g args fresh e hd hs hf]

/-- a tuple that Python cannot bind to the generator function's parameters is a `TypeError` of the caller at `with` entry: the
    generator is never created — no setup, no block, no cleanup -/
theorem unbindable_call_raises (m : Mode) (g : UserGen) (args : CallArgs) (inner : Prog) (fresh : Nat) (hf : args.fits = false) :
    (exec m (.withCm g args inner) fresh).1 = [] ∧ (exec m (.withCm g args inner) fresh).2.1 = .raised ⟨.exception, fresh, none⟩ := by
  simp [exec, passArgs_id, wrapNext, hf]

/-- *decoration-time rejection*: `safe_contextmanager` accepts exactly generator functions, `safe_async_contextmanager` exactly async
    generator functions (and hands `wrapper` to the matching contextlib factory); plain functions, coroutine functions and the
    generator kind of the other flavour raise at decoration time — `AssertionError` whenever `f.__name__` exists — in every
    interpreter mode (`opt`: python -O / -OO / PYTHONOPTIMIZE, where `assert` statements do not exist) -/
theorem decoration_dispatch (m : Mode) (k uk : FnKind) (hasName opt : Bool) :
    (mustAccept m k = true → decorate m k uk hasName opt = .manager (expectedWrap m)) ∧
    (mustAccept m k = false → (decorate m k uk hasName opt).isRejected = true) ∧
    (mustAccept m k = false → hasName = true → decorate m k uk hasName opt = .rejected "AssertionError") := by
  cases m <;> cases k <;> cases uk <;> cases hasName <;> cases opt <;> decide

/-- generated fact, re-read on every run: the decoration-time rejections are `raise` statements (under `if`), not `assert` statements
    and not guarded by `__debug__` — the chain around the inner function does the same with and without `python -O` -/
theorem rejections_are_raise_statements (m : Mode) (k : FnKind) (o : Nat → Bool) : decoPre m k o true = decoPre m k o false := by
  cases m <;> cases k <;> first | rfl | simp [decoPre, syncPre, asyncPre, isGen, isAsyncGen, isCoroutine]

/-- generated fact: every test of that chain is an inspect kind test of `f` — no other predicate of `f` (its source text, its
    attributes, …) decides what the decorator returns -/
theorem decoration_chain_is_kind_tests_only (m : Mode) (k : FnKind) (o : Nat → Bool) (opt : Bool) :
    decoPre m k o opt = decoPre m k (fun _ => false) opt := by
  cases m <;> cases k <;> cases opt <;> first | rfl | simp [decoPre, syncPre, asyncPre, isGen, isAsyncGen, isCoroutine]

/-- generated fact: a call of the decorator ends in a `raise` or in `return factory(wrapper)` — there is no other `return`, so that no
    function reaches contextlib without the protecting wrapper (see `direct_contextmanager_skips_trailing_cleanup` for what that would mean) -/
theorem no_bypass (m : Mode) (k : FnKind) (o : Nat → Bool) (opt : Bool) :
    decoPre m k o opt = .build ∨ ∃ r, decoPre m k o opt = .reject r := by
  cases m <;> cases k <;> cases opt <;> simp [decoPre, syncPre, asyncPre, isGen, isAsyncGen, isCoroutine]

/-- generated fact, re-read on every run: the kind tests are applied to the object handed to the decorator, not to `inspect.unwrap` of
    it — what counts is what the callable IS (a `functools.wraps`-decorated plain function around a generator function is a plain
    function), whatever `__wrapped__` leads to (`uk` is arbitrary in `decoration_dispatch`) -/
theorem kind_tests_on_parameter : syncTestsOnParam = true ∧ asyncTestsOnParam = true := by decide

/-- syntactic facts the model relies on, re-read from the source on every run: the sync decorator wraps a plain generator function,
    the async one an `async def` (so that the sync/async instance of the machine is the right one), both forward `*args, **kwargs` -/
theorem source_shape :
    syncShape.wrapperIsAsync = false ∧ asyncShape.wrapperIsAsync = true
    ∧ syncShape.forwardsArgs = true ∧ asyncShape.forwardsArgs = true := by decide

/-! ## Generators that protect part of their cleanup themselves (try / with blocks of their own around the yield) -/

/-- the journal of leaving the block does not depend on how the block ended: it is the code after the yield run as ordinary code, for
    every block outcome — normal end, return / break, ANY exception object.  No guard on the outcome: the generator's own `except`
    clauses never see the exception of the with-block, its `finally` clauses and the statements behind its blocks always run -/
theorem exit_journal_whatever_the_block_did (m : Mode) (g : UserGen) (recv : CallArgs) (fresh : Nat) (fin : Final)
    (hd : g.docForm m = true) : (exitWith m g recv fresh (.suspended atYield) fin).1 = g.after.1 := by
  obtain ⟨u', hcb⟩ := cleanupBlock_doc m g recv fresh hd
  have hfin : (shape m).cleanupInFinally = true := by cases m <;> rfl
  cases fin with
  | normal => cases hc : g.after.2 <;> simp [exitWith, wrapNext, hcb, hc]
  | left => cases hc : g.after.2 <;> simp [exitWith, wrapNext, hcb, hc]
  | raised e => cases hc : g.after.2 <;> simp [exitWith, wrapThrow, unwind, hfin, hcb, hc, verdict_false]

def Act.isEv : Act → Bool
  | .ev _ => true
  | .raise _ => false

/-- no statement of the generator's blocks on the exception-free path raises -/
def GenBody.quiet (b : GenBody) : Bool :=
  b.frames.all (fun f => f.rest.all Act.isEv && f.orelse.all Act.isEv && f.fin.all Act.isEv) && b.trail.all Act.isEv

def piecesOf (tag : Nat) (l : List Act) : List Ev := l.filterMap (fun a => match a with | .ev p => some (.piece tag p) | .raise _ => none)

/-- every statement after the yield that is not inside an `except` clause, in source order -/
def normalPath (tag : Nat) (b : GenBody) : List Ev :=
  b.frames.flatMap (fun f => piecesOf tag f.rest ++ piecesOf tag f.orelse ++ piecesOf tag f.fin) ++ piecesOf tag b.trail

theorem runActs_quiet (tag : Nat) (l : List Act) (h : l.all Act.isEv = true) : runActs tag l = (piecesOf tag l, none) := by
  induction l with
  | nil => rfl
  | cons a rest ih =>
    cases a with
    | ev p =>
      have hr : rest.all Act.isEv = true := by simpa [Act.isEv] using h
      simp [runActs, ih hr, piecesOf]
    | raise e => simp [Act.isEv] at h

theorem resume_quiet (tag : Nat) (fs : List Frame) (tr : List Act)
    (h : (GenBody.mk fs tr).quiet = true) : resume tag none fs tr = (normalPath tag ⟨fs, tr⟩, none) := by
  induction fs with
  | nil =>
    have ht : tr.all Act.isEv = true := by simpa [GenBody.quiet] using h
    simp [resume, normalPath, runActs_quiet tag tr ht]
  | cons f fs ih =>
    simp only [GenBody.quiet, List.all_cons, Bool.and_eq_true] at h
    obtain ⟨⟨⟨⟨h1, h2⟩, h3⟩, h4⟩, h5⟩ := h
    have ih' := ih (by simp [GenBody.quiet, h4, h5])
    simp [resume, runActs_quiet tag _ h1, runActs_quiet tag _ h2, runActs_quiet tag _ h3, ih', normalPath]

/-- **a generator with its own try / with blocks around the yield**: whatever the block does — any program `inner`, ending normally, by
    return / break or with any exception — every statement after the yield that is not inside one of the generator's `except` clauses
    (rest of the try bodies, else and finally clauses, the statements BEHIND the blocks) runs exactly once, in source order, after the
    block; no `except` clause of the generator runs; and the block's outcome — the same exception object — reaches the caller -/
theorem guarded_generator_full_cleanup (m : Mode) (g : UserGen) (args : CallArgs) (inner : Prog)
    (hy : g.yields = 1) (hf : args.fits = true) (hs : g.setupExc = none) (hc : g.cleanupExc = none) (hb : g.body.quiet = true)
    (hdi : inner.docForm m = true) (hqi : inner.quirkFree m = true) :
    run m (.withCm g args inner)
      = ([.setup g.tag args, .bind g.tag g.value] ++ (run m inner).1 ++ (.cleanup g.tag :: normalPath g.tag g.body), (run m inner).2) := by
  have ha : g.after = (.cleanup g.tag :: normalPath g.tag g.body, none) := by
    simp [UserGen.after, hc, resume_quiet g.tag g.body.frames g.body.trail hb]
  have hd : g.docForm m = true := by simp [UserGen.docForm, hy, hs, ha]
  rw [run_eq_spec m _ (by simp [Prog.docForm, hd, hf, hdi]) (by simp [Prog.quirkFree, hqi, hs, ha]), run_eq_spec m inner hdi hqi]
  simp [spec, hs, ha]

/-- `try: yield v finally: <piece 1>` followed by `<piece 2>` -/
def gGuarded : UserGen :=
  { tag := 1, setupExc := none, yields := 1, cleanupExc := none, value := 41,
    body := { frames := [{ fin := [.ev 1], finExc := [.ev 1] }], trail := [.ev 2] } }
/-- `try: yield v except Exception: <piece 3> finally: <piece 1>` followed by `<piece 2>` -/
def gCatching : UserGen :=
  { tag := 1, setupExc := none, yields := 1, cleanupExc := none, value := 41,
    body := { frames := [{ handlers := [⟨.exception, [.ev 3], false⟩], fin := [.ev 1], finExc := [.ev 1] }], trail := [.ev 2] } }

/-- why `no_bypass` matters: `contextlib.contextmanager` applied to such a generator function ITSELF throws the block's exception into
    it — only the `finally` piece runs, neither the statement after the yield nor the statement behind the block; through the
    library's wrapper everything runs and the same exception object comes out -/
theorem direct_contextmanager_skips_trailing_cleanup :
    gGuarded.docForm .sync = true
    ∧ directExit .sync gGuarded 1000 (.raised ⟨.baseExc, 7, none⟩) = ([.piece 1 1], .raised ⟨.baseExc, 7, none⟩)
    ∧ exitWith .sync gGuarded a5 1000 (.suspended atYield) (.raised ⟨.baseExc, 7, none⟩)
        = ([.cleanup 1, .piece 1 1, .piece 1 2], .raised ⟨.baseExc, 7, none⟩) := by decide

/-- … and an `except` clause next to the yield sees and swallows the block's exception (the `with` statement ends normally) -/
theorem direct_contextmanager_lets_handler_swallow :
    directExit .sync gCatching 1000 (.raised ⟨.exception, 7, none⟩) = ([.piece 1 3, .piece 1 1, .piece 1 2], .normal)
    ∧ exitWith .sync gCatching a5 1000 (.suspended atYield) (.raised ⟨.exception, 7, none⟩)
        = ([.cleanup 1, .piece 1 1, .piece 1 2], .raised ⟨.exception, 7, none⟩) := by decide

-- the hypotheses of `guarded_generator_full_cleanup` are met by both; nested in itself with a KeyboardInterrupt-like object in the block
example : gGuarded.body.quiet = true ∧ gCatching.body.quiet = true
    ∧ run .sync (.withCm gGuarded a5 (.withCm gCatching a5 (.body 0 (.raises ⟨.baseExc, 7, none⟩))))
      = ([.setup 1 a5, .bind 1 41, .setup 1 a5, .bind 1 41, .body 0, .cleanup 1, .piece 1 1, .piece 1 2, .cleanup 1, .piece 1 1, .piece 1 2],
         .raised ⟨.baseExc, 7, none⟩) := by decide
-- a cleanup statement that raises inside the generator's own try: its own `except` clause handles it (that is the generator's business)
example : run .async (.withCm { gCatching with cleanupExc := some ⟨.exception, 9, none⟩ } a5 (.body 0 (.raises ⟨.cancelled, 7, none⟩)))
      = ([.setup 1 a5, .bind 1 41, .body 0, .cleanup 1, .piece 1 3, .piece 1 1, .piece 1 2], .raised ⟨.cancelled, 7, none⟩) := by decide

/-! ## Generators outside the documented form: no yield, more than one yield -/

/-- a generator function that finishes without yielding: `with` raises a RuntimeError at entry (the wrapper's `next(iterator)` raises
    Stop(Async)Iteration, which cannot leave the wrapper's frame: PEP 479), after the setup, without block and without further events -/
theorem no_yield_is_runtime_error (m : Mode) (g : UserGen) (args : CallArgs) (inner : Prog) (fresh : Nat)
    (hy : g.yields = 0) (hs : g.setupExc = none) (hf : args.fits = true) :
    (exec m (.withCm g args inner) fresh).1 = [.setup g.tag args]
    ∧ (exec m (.withCm g args inner) fresh).2.1 = .raised ⟨.runtimeError, fresh + 2, some fresh⟩ := by
  cases m <;>
    simp [exec, passArgs_id, wrapNext, userNext, hf, hs, hy, unwind, cleanupBlock, shape, syncShape, asyncShape, runBlocks, runNexts,
      catches, stopKind, leave, converted, verdict]

/-- a generator with MORE than one yield: the wrapper's cleanup is one `next(iterator)` — it runs the code between the first and the
    second yield and leaves the generator suspended there: the code after the second yield never runs (no `extra` event), and the `with`
    statement behaves exactly as for the generator cut after its first cleanup section.  (contextlib itself would raise "generator
    didn't stop"; the library's wrapper does not notice.) -/
theorem extra_yield_never_resumed (m : Mode) (g : UserGen) (args : CallArgs) (inner : Prog) (fresh : Nat) (hy : 2 ≤ g.yields) :
    (exec m (.withCm g args inner) fresh).1 = (exec m (.withCm { g with yields := 1 } args inner) fresh).1
    ∧ (exec m (.withCm g args inner) fresh).2.1 = (exec m (.withCm { g with yields := 1 } args inner) fresh).2.1 := by
  have h0 : 0 < g.yields := by omega
  have h1 : 1 < g.yields := by omega
  have hcb : ∀ recv, (cleanupBlock m g recv fresh atYield).1 = (cleanupBlock m { g with yields := 1 } recv fresh atYield).1
      ∧ (cleanupBlock m g recv fresh atYield).2.1 = (cleanupBlock m { g with yields := 1 } recv fresh atYield).2.1 := by
    intro recv
    have ha : UserGen.after { g with yields := 1 } = g.after := rfl
    cases m <;> cases hc : g.after.2 <;>
      simp [cleanupBlock, shape, syncShape, asyncShape, runBlocks, runNexts, userNext, atYield, ha, hc, h1, catches, stopKind]
  have hx : ∀ recv fin, exitWith m g recv fresh (.suspended atYield) fin = exitWith m { g with yields := 1 } recv fresh (.suspended atYield) fin := by
    intro recv fin
    have hfin : (shape m).cleanupInFinally = true := by cases m <;> rfl
    obtain ⟨c1, c2⟩ := hcb recv
    cases fin with
    | normal =>
      simp only [exitWith, wrapNext]
      rcases hA : cleanupBlock m g recv fresh atYield with ⟨ea, xa, ua⟩
      rcases hB : cleanupBlock m { g with yields := 1 } recv fresh atYield with ⟨eb, xb, ub⟩
      rw [hA, hB] at c1 c2; simp only at c1 c2; subst c1; subst c2
      cases xa <;> rfl
    | left =>
      simp only [exitWith, wrapNext]
      rcases hA : cleanupBlock m g recv fresh atYield with ⟨ea, xa, ua⟩
      rcases hB : cleanupBlock m { g with yields := 1 } recv fresh atYield with ⟨eb, xb, ub⟩
      rw [hA, hB] at c1 c2; simp only at c1 c2; subst c1; subst c2
      cases xa <;> rfl
    | raised e =>
      simp only [exitWith, wrapThrow, unwind, hfin, if_true]
      rcases hA : cleanupBlock m g recv fresh atYield with ⟨ea, xa, ua⟩
      rcases hB : cleanupBlock m { g with yields := 1 } recv fresh atYield with ⟨eb, xb, ub⟩
      rw [hA, hB] at c1 c2; simp only at c1 c2; subst c1; subst c2
      cases xa <;> simp [verdict_false]
  have hen : wrapNext m g (passArgs m args) fresh .notStarted = wrapNext m { g with yields := 1 } (passArgs m args) fresh .notStarted := by
    cases hs : g.setupExc with
    | none => simp [wrapNext, userNext, hs, h0]
    | some e =>
      cases m <;>
        simp [wrapNext, userNext, hs, unwind, cleanupBlock, shape, syncShape, asyncShape, runBlocks, runNexts, catches, stopKind, verdict]
  have hst : ∀ evs v w, wrapNext m g (passArgs m args) fresh .notStarted = (evs, .yielded v, w) → w = .suspended atYield := by
    intro evs v w h
    by_cases hf : (passArgs m args).fits = true
    · cases hs : g.setupExc with
      | none =>
        simp only [wrapNext, userNext, hs, h0, hf] at h
        simp at h
        exact h.2.2.symm
      | some e =>
        exfalso
        revert h
        cases m <;>
          simp [wrapNext, userNext, hs, hf, unwind, cleanupBlock, shape, syncShape, asyncShape, runBlocks, runNexts, catches, stopKind, verdict]
    · simp [wrapNext, hf] at h
  simp only [exec, ← hen]
  rcases hw : wrapNext m g (passArgs m args) fresh .notStarted with ⟨evs, res, w⟩
  cases res with
  | yielded v =>
    have := hst evs v w hw
    subst this
    simp [hx]
  | stop => simp
  | raised e => simp

example : (run .sync (.withCm ⟨1, none, 2, none, 41, .none, {}⟩ a5 (.body 0 (.raises ⟨.exception, 7, none⟩))))
    = ([.setup 1 a5, .bind 1 41, .body 0, .cleanup 1], .raised ⟨.exception, 7, none⟩) := by decide
example : (run .async (.withCm ⟨1, none, 0, none, 41, .none, {}⟩ a5 (.body 0 .normal)))
    = ([.setup 1 a5], .raised ⟨.runtimeError, 1002, some 1000⟩) := by decide

/-! ## Nested and repeated use: journals compose (induction over depth / count) -/

/-- the events of entering the managers `gs` from the outside in -/
def opens (gs : List (UserGen × CallArgs)) : List Ev :=
  gs.flatMap (fun ga => [.setup ga.1.tag ga.2, .bind ga.1.tag ga.1.value])
/-- their cleanups (all the code after each generator's yield), innermost first -/
def closes : List (UserGen × CallArgs) → List Ev
  | [] => []
  | (g, _) :: gs => closes gs ++ g.after.1
/-- the cleanup exception of the outermost manager that has one -/
def outermostCleanupExc : List (UserGen × CallArgs) → Option Exc
  | [] => none
  | (g, _) :: gs => match g.after.2 with | some c => some c | none => outermostCleanupExc gs

theorem spec_nest (gs : List (UserGen × CallArgs)) (inner : Prog) (hs : ∀ ga ∈ gs, ga.1.setupExc = none) :
    spec (nest gs inner) = (opens gs ++ (spec inner).1 ++ closes gs,
      match outermostCleanupExc gs with | some c => .raised c | none => (spec inner).2) := by
  induction gs with
  | nil => simp [nest, opens, closes, outermostCleanupExc]
  | cons ga gs ih =>
    obtain ⟨g, a⟩ := ga
    have hg : g.setupExc = none := hs (g, a) (by simp)
    have ih' := ih (fun x hx => hs x (by simp [hx]))
    simp only [nest, spec, hg, ih', outermostCleanupExc]
    cases hc : g.after.2 <;> simp [opens, closes]

/-- **nested use, any depth**: `with g₀: with g₁: … with gₖ: inner` journals all setups/binds outside-in, then the block, then every
    cleanup exactly once in reverse order; the caller sees the outermost failing cleanup's exception, else what the block did -/
theorem nested_use (m : Mode) (gs : List (UserGen × CallArgs)) (inner : Prog)
    (hd : (nest gs inner).docForm m = true) (hq : (nest gs inner).quirkFree m = true)
    (hs : ∀ ga ∈ gs, ga.1.setupExc = none) :
    run m (nest gs inner) = (opens gs ++ (spec inner).1 ++ closes gs,
      match outermostCleanupExc gs with | some c => .raised c | none => (spec inner).2) := by
  rw [run_eq_spec m _ hd hq, spec_nest gs inner hs]

theorem chain_docForm (m : Mode) (ps : List Prog) (h : ∀ p ∈ ps, p.docForm m = true) : (chain ps).docForm m = true := by
  induction ps with
  | nil => rfl
  | cons p ps ih => simp [chain, Prog.docForm, h p (by simp), ih (fun q hq => h q (by simp [hq]))]

theorem chain_quirkFree (m : Mode) (ps : List Prog) (h : ∀ p ∈ ps, p.quirkFree m = true) : (chain ps).quirkFree m = true := by
  induction ps with
  | nil => rfl
  | cons p ps ih => simp [chain, Prog.quirkFree, h p (by simp), ih (fun q hq => h q (by simp [hq]))]

theorem spec_chain_normal (ps : List Prog) (hn : ∀ p ∈ ps, (spec p).2 = .normal) :
    spec (chain ps) = ((ps.map (fun p => (spec p).1)).flatten ++ [.body 0], .normal) := by
  induction ps with
  | nil => simp [chain, spec, BodyOut.final]
  | cons p ps ih =>
    have := ih (fun q hq => hn q (by simp [hq]))
    simp [chain, spec, hn p (by simp), this]

theorem spec_chain_stop (pre : List Prog) (p : Prog) (post : List Prog) (hn : ∀ q ∈ pre, (spec q).2 = .normal)
    (hp : (spec p).2 ≠ .normal) :
    spec (chain (pre ++ p :: post)) = ((pre.map (fun q => (spec q).1)).flatten ++ (spec p).1, (spec p).2) := by
  induction pre with
  | nil =>
    simp only [List.nil_append, chain, spec, List.map_nil, List.flatten_nil]
  | cons q pre ih =>
    have := ih (fun r hr => hn r (by simp [hr]))
    simp [chain, spec, hn q (by simp), this]

/-- **repeated use, any count**: statements `p₀; p₁; …; pₖ` (each e.g. a `with` over the same decorated function — every call makes a
    new generator) that end normally journal the concatenation of their journals -/
theorem repeated_use (m : Mode) (ps : List Prog) (hd : ∀ p ∈ ps, p.docForm m = true) (hq : ∀ p ∈ ps, p.quirkFree m = true)
    (hn : ∀ p ∈ ps, (run m p).2 = .normal) :
    run m (chain ps) = ((ps.map (fun p => (run m p).1)).flatten ++ [.body 0], .normal) := by
  rw [run_eq_spec m _ (chain_docForm m ps hd) (chain_quirkFree m ps hq)]
  have hn' : ∀ p ∈ ps, (spec p).2 = .normal := fun p hp => by rw [← run_eq_spec m p (hd p hp) (hq p hp)]; exact hn p hp
  rw [spec_chain_normal ps hn']
  have : ps.map (fun p => (spec p).1) = ps.map (fun p => (run m p).1) :=
    List.map_congr_left (fun p hp => by rw [run_eq_spec m p (hd p hp) (hq p hp)])
  rw [this]

/-- … and the first statement that does not end normally (exception, return) ends the sequence: later managers are never entered -/
theorem repeated_use_stops (m : Mode) (pre : List Prog) (p : Prog) (post : List Prog)
    (hd : ∀ q ∈ pre ++ p :: post, q.docForm m = true) (hq : ∀ q ∈ pre ++ p :: post, q.quirkFree m = true)
    (hn : ∀ q ∈ pre, (spec q).2 = .normal) (hp : (spec p).2 ≠ .normal) :
    run m (chain (pre ++ p :: post)) = ((pre.map (fun q => (spec q).1)).flatten ++ (spec p).1, (spec p).2) := by
  rw [run_eq_spec m _ (chain_docForm m _ hd) (chain_quirkFree m _ hq), spec_chain_stop pre p post hn hp]

/-- `n` uses of the same manager one after the other: `n` copies of `[setup, bind, body] ++ <the code after the yield>` -/
theorem repeated_same (m : Mode) (g : UserGen) (args : CallArgs) (k n : Nat) (hd : g.docForm m = true) (hf : args.fits = true)
    (hs : g.setupExc = none) (hc : g.after.2 = none) :
    run m (chain (List.replicate n (.withCm g args (.body k .normal)))) =
      ((List.replicate n ([Ev.setup g.tag args, .bind g.tag g.value, .body k] ++ g.after.1)).flatten ++ [.body 0], .normal) := by
  have h1 : run m (.withCm g args (.body k .normal)) = ([Ev.setup g.tag args, .bind g.tag g.value, .body k] ++ g.after.1, .normal) := by
    rw [run_eq_spec m _ (by simp [Prog.docForm, hd, hf]) (by simp [Prog.quirkFree, hs, hc])]
    simp [spec, hs, hc, BodyOut.final]
  rw [repeated_use m _ (by intro p hp; rw [(List.mem_replicate.mp hp).2]; simp [Prog.docForm, hd, hf])
    (by intro p hp; rw [(List.mem_replicate.mp hp).2]; simp [Prog.quirkFree, hs, hc])
    (by intro p hp; rw [(List.mem_replicate.mp hp).2, h1])]
  simp [List.map_replicate, h1]

/-- in every program, for every manager tag: as many cleanups as entered blocks (each entered block is cleaned up exactly once); no
    `quirkFree` -/
theorem cleanups_match_entries (m : Mode) (p : Prog) (hd : p.docForm m = true) (t : Nat) :
    count (Ev.isCleanup t) (run m p).1 = count (Ev.isBind t) (run m p).1 := by
  rw [run_journal_eq_spec m p hd]
  clear hd
  induction p with
  | body n b => simp [spec, count, Ev.isCleanup, Ev.isBind]
  | seq p q ihp ihq =>
    simp only [spec]
    cases h : (spec p).2 <;> simp_all [count, List.filter_append]
  | withCm g args inner ih =>
    simp only [spec]
    cases hs : g.setupExc with
    | some e => simp [count, Ev.isCleanup, Ev.isBind]
    | none =>
      have hca := count_after_cleanup g t
      have hcb := count_after_bind g t
      simp only [count, List.filter_append, List.length_append] at ih hca hcb ⊢
      by_cases ht : g.tag = t
      · simp [List.filter, Ev.isCleanup, Ev.isBind, ht, ih, hca, hcb]; omega
      · have : (g.tag == t) = false := by simpa using ht
        simp [List.filter, Ev.isCleanup, Ev.isBind, this, ih, hca, hcb, ht]

/-! ## Overlapping uses of ONE decorated manager (histories of enter / exit events, any interleaving) -/

/-- read from the source on every run: in both wrappers the variable that holds the user generator between the yield and the
    cleanup is a plain local of the wrapper call — one per use, not a `nonlocal` / `global` cell shared by the live uses -/
theorem iterator_per_use (m : Mode) : (shape m).iteratorPerUse = true := by cases m <;> rfl

theorem target_own (m : Mode) (n i : Nat) : target m n i = i := by simp [target, iterator_per_use]

/-- frame lemma: an operation that is not the exit of use `i` (an enter, the exit of any other use) leaves the record of use `i`
    — its generator's state included — untouched -/
theorem stepOp_frame (m : Mode) (us : List UseRec) (op : Op) (i : Nat) (r : UseRec) (h : us[i]? = some r)
    (hop : ∀ fin, op ≠ .exit i fin) : (stepOp m us op).2.2[i]? = some r := by
  cases op with
  | enter g args =>
    have hi : i < us.length := by
      rcases Nat.lt_or_ge i us.length with h1 | h1
      · exact h1
      · rw [List.getElem?_eq_none h1] at h; cases h
    simp only [stepOp]
    split <;> simp [List.getElem?_append_left hi, h]
  | exit j fin =>
    have hji : j ≠ i := fun e => hop fin (by rw [e])
    simp only [stepOp, target_own]
    split
    · exact h
    · split
      · exact h
      · split
        · exact h
        · simp [hji, h]

/-- **per-use state**: whatever the other uses of the same manager do — any history `ops` of enters and exits, any length, any
    interleaving — the state of use `i` (its own user generator, its wrapper frame) is exactly what its own operations left -/
theorem uses_independent (m : Mode) (ops : List Op) : ∀ (us : List UseRec) (i : Nat) (r : UseRec), us[i]? = some r →
    (∀ op ∈ ops, ∀ fin, op ≠ .exit i fin) → (runOps m us ops).2[i]? = some r := by
  induction ops with
  | nil => intro us i r h _; simpa [runOps] using h
  | cons op rest ih =>
    intro us i r h hno
    simp only [runOps]
    exact ih _ i r (stepOp_frame m us op i r h (hno op (by simp))) (fun o ho => hno o (by simp [ho]))

/-- the exit of a live use resumes / throws into ITS OWN generator (`r.g` in the state `r.u`): journal and outcome are those of
    `exitWith` on its own record, whatever else is in the state -/
theorem exit_own (m : Mode) (us : List UseRec) (i : Nat) (r : UseRec) (fin : Final) (h : us[i]? = some r) (hl : r.live = true) :
    (stepOp m us (.exit i fin)).1 = (exitWith m r.g r.recv r.fresh (.suspended r.u) fin).1
    ∧ (stepOp m us (.exit i fin)).2.1 = .exited (exitWith m r.g r.recv r.fresh (.suspended r.u) fin).2 := by
  simp [stepOp, target_own, h, hl]


theorem enter_record (m : Mode) (us : List UseRec) (g : UserGen) (args : CallArgs) (evs : List Ev) (v : Nat) (u : UState)
    (he : wrapNext m g args (freshOf us.length) .notStarted = (evs, .yielded v, .suspended u)) :
    (stepOp m us (.enter g args)).2.2[us.length]? = some ⟨g, args, freshOf us.length, u, true⟩ := by
  simp [stepOp, passArgs_id, he]

/-- **overlapping uses of one manager**: use `i` is entered (its `__enter__` yields), then ANY history `ops` of other uses of the
    same manager follows (enters and exits in any order and number: tasks inside `async with m()` at the same time, the manager
    nested in itself, …; `ops` just does not exit use `i`), then the block of use `i` ends with `fin`: the journal and the outcome
    of that exit are those of the single use — `exitWith` on the wrapper state its own `__enter__` returned.  Together with
    `exitWith_doc` / `hist_eq_spec`: each use's events depend only on its own generator. -/
theorem overlapping_uses_independent (m : Mode) (us : List UseRec) (g : UserGen) (args : CallArgs) (ops : List Op) (fin : Final)
    (evs : List Ev) (v : Nat) (u : UState)
    (he : wrapNext m g args (freshOf us.length) .notStarted = (evs, .yielded v, .suspended u))
    (hno : ∀ op ∈ ops, ∀ f, op ≠ .exit us.length f) :
    (stepOp m (runOps m (stepOp m us (.enter g args)).2.2 ops).2 (.exit us.length fin)).1
      = (exitWith m g args (freshOf us.length) (.suspended u) fin).1
    ∧ (stepOp m (runOps m (stepOp m us (.enter g args)).2.2 ops).2 (.exit us.length fin)).2.1
      = .exited (exitWith m g args (freshOf us.length) (.suspended u) fin).2 := by
  have h := uses_independent m ops _ us.length _ (enter_record m us g args evs v u he) hno
  exact exit_own m _ us.length _ fin h rfl

/-- invariant linking the machine state with what the specification remembers -/
def HistInv (m : Mode) (us : List UseRec) (en : List (UserGen × Bool)) : Prop :=
  en = us.map (fun r => (r.g, r.live)) ∧ ∀ (j : Nat) (r : UseRec), us[j]? = some r → r.live = true → r.u = atYield ∧ r.g.docForm m = true

theorem stepOp_eq_specOp (m : Mode) (us : List UseRec) (en : List (UserGen × Bool)) (op : Op) (rest : List Op)
    (hinv : HistInv m us en) (hok : histOk m en (op :: rest) = true) :
    (stepOp m us op).1 = (specOp en op).1 ∧ (stepOp m us op).2.1 = (specOp en op).2.1
    ∧ HistInv m (stepOp m us op).2.2 (specOp en op).2.2 := by
  obtain ⟨hen, hlive⟩ := hinv
  simp only [histOk, Bool.and_eq_true] at hok
  cases op with
  | enter g args =>
    simp only [Bool.and_eq_true] at hok
    obtain ⟨⟨hd, hf⟩, _⟩ := hok
    cases hs : g.setupExc with
    | some e =>
      simp only [stepOp, specOp, passArgs_id, enter_fail m g args _ e hd hs hf, hs]
      refine ⟨trivial, trivial, ?_, ?_⟩
      · simp [hen]
      · intro j r hj hl
        rcases Nat.lt_or_ge j us.length with h1 | h1
        · rw [List.getElem?_append_left h1] at hj; exact hlive j r hj hl
        · rcases Nat.eq_or_lt_of_le h1 with h2 | h2
          · subst h2; simp at hj; subst hj; simp at hl
          · rw [List.getElem?_eq_none (by simp; omega)] at hj; cases hj
    | none =>
      simp only [stepOp, specOp, passArgs_id, enter_ok m g args _ hd hs hf, hs]
      refine ⟨by simp, trivial, ?_, ?_⟩
      · simp [hen]
      · intro j r hj hl
        rcases Nat.lt_or_ge j us.length with h1 | h1
        · rw [List.getElem?_append_left h1] at hj; exact hlive j r hj hl
        · rcases Nat.eq_or_lt_of_le h1 with h2 | h2
          · subst h2; simp at hj; subst hj; exact ⟨rfl, hd⟩
          · rw [List.getElem?_eq_none (by simp; omega)] at hj; cases hj
  | exit i fin =>
    have hget : en[i]? = (us[i]?).map (fun r => (r.g, r.live)) := by rw [hen]; simp
    cases hu : us[i]? with
    | none =>
      rw [hu] at hget
      simp only [stepOp, specOp, hu, hget, Option.map_none]
      exact ⟨trivial, trivial, hen, hlive⟩
    | some r =>
      rw [hu] at hget
      simp only [Option.map_some] at hget
      cases hl : r.live with
      | false =>
        rw [hl] at hget
        simp only [stepOp, specOp, hu, hget, hl]
        exact ⟨by simp, by simp, by simpa using hen, by simpa using hlive⟩
      | true =>
        rw [hl] at hget
        obtain ⟨hat, hd⟩ := hlive i r hu hl
        have hq : ∀ c e, r.g.after.2 = some c → fin = .raised e → quirk m c e = false := by
          intro c e hc hf
          have := hok.1
          simp only [hget, hf, hc] at this
          simpa using this
        have hx := exitWith_doc m r.g r.recv r.fresh fin hd hq
        rw [← hat] at hx
        simp only [stepOp, specOp, target_own, hu, hget, hl, hx]
        refine ⟨by simp, by cases r.g.after.2 <;> simp, ?_, ?_⟩
        · rw [hen]
          apply List.ext_getElem?
          intro j
          by_cases hji : i = j
          · subst hji
            have hi : i < us.length := by
              rcases Nat.lt_or_ge i us.length with h1 | h1
              · exact h1
              · rw [List.getElem?_eq_none h1] at hu; cases hu
            simp [hi]
          · simp [hji]
        · intro j r' hj hl'
          by_cases hji : i = j
          · subst hji
            have hi : i < us.length := by
              rcases Nat.lt_or_ge i us.length with h1 | h1
              · exact h1
              · rw [List.getElem?_eq_none h1] at hu; cases hu
            simp [hi] at hj; subst hj; simp at hl'
          · simp [hji] at hj; exact hlive j r' hj hl'


/-- **histories meet the specification**: for every history of enters and exits over one manager (any number of live uses, any
    interleaving) of documented-form generators, each operation journals and returns what try/finally semantics of ITS OWN use
    says: an enter journals its setup (and binds the yielded value), an exit journals exactly one cleanup — that of the use being
    left — and ends as its block ended unless its cleanup raises -/
theorem hist_eq_spec (m : Mode) (ops : List Op) : ∀ (us : List UseRec) (en : List (UserGen × Bool)), HistInv m us en →
    histOk m en ops = true → (runOps m us ops).1 = specOps en ops := by
  induction ops with
  | nil => intro us en _ _; simp [runOps, specOps]
  | cons op rest ih =>
    intro us en hinv hok
    obtain ⟨h1, h2, h3⟩ := stepOp_eq_specOp m us en op rest hinv hok
    have hok' : histOk m (specOp en op).2.2 rest = true := by
      simp only [histOk, Bool.and_eq_true] at hok; exact hok.2
    simp only [runOps, specOps, ih _ _ h3 hok', h1, h2]

theorem hist_eq_spec_initial (m : Mode) (ops : List Op) (hok : histOk m [] ops = true) : (runOps m [] ops).1 = specOps [] ops :=
  hist_eq_spec m ops [] [] ⟨rfl, by intro j r hj; simp at hj⟩ hok


/-! ## Non-vacuity: concrete instances that meet the hypotheses -/

def gOk (t : Nat) : UserGen := ⟨t, none, 1, none, 40 + t, .none, {}⟩
def gCleanupFails (t : Nat) : UserGen := ⟨t, none, 1, some ⟨.baseExc, 90 + t, none⟩, 40 + t, .none, {}⟩
def gSetupFails (t : Nat) : UserGen := ⟨t, some ⟨.cancelled, 80 + t, none⟩, 1, none, 40 + t, .none, {}⟩

-- the body raises KeyboardInterrupt-like object 7 / GeneratorExit / StopIteration / StopAsyncIteration: cleanup once, same object out
example : run .sync (.withCm (gOk 1) a5 (.body 0 (.raises ⟨.baseExc, 7, none⟩)))
    = ([.setup 1 a5, .bind 1 41, .body 0, .cleanup 1], .raised ⟨.baseExc, 7, none⟩) := by decide
example : run .sync (.withCm (gOk 1) a5 (.body 0 (.raises ⟨.stopIteration, 7, none⟩)))
    = ([.setup 1 a5, .bind 1 41, .body 0, .cleanup 1], .raised ⟨.stopIteration, 7, none⟩) := by decide
example : run .async (.withCm (gOk 1) a5 (.body 0 (.raises ⟨.stopAsyncIteration, 7, none⟩)))
    = ([.setup 1 a5, .bind 1 41, .body 0, .cleanup 1], .raised ⟨.stopAsyncIteration, 7, none⟩) := by decide
example : run .async (.withCm (gOk 1) a5 (.body 0 (.raises ⟨.generatorExit, 7, none⟩)))
    = ([.setup 1 a5, .bind 1 41, .body 0, .cleanup 1], .raised ⟨.generatorExit, 7, none⟩) := by decide
-- early exit
example : run .sync (.withCm (gOk 1) a5 (.body 0 .early)) = ([.setup 1 a5, .bind 1 41, .body 0, .cleanup 1], .left) := by decide
-- cleanup exception wins over the body's
example : run .async (.withCm (gCleanupFails 1) a5 (.body 0 (.raises ⟨.exception, 7, none⟩)))
    = ([.setup 1 a5, .bind 1 41, .body 0, .cleanup 1], .raised ⟨.baseExc, 91, none⟩) := by decide
-- failing setup
example : run .sync (.withCm (gSetupFails 1) a5 (.body 0 .normal)) = ([.setup 1 a5], .raised ⟨.cancelled, 81, none⟩) := by decide
-- hypotheses of `nested_use` / `repeated_use` are satisfiable at depth 3 / count 3, with a failing cleanup in the middle
example : (nest [(gOk 1, a5), (gCleanupFails 2, a5), (gOk 3, a5)] (.body 0 (.raises ⟨.stopIteration, 7, none⟩))).docForm .sync = true
    ∧ (nest [(gOk 1, a5), (gCleanupFails 2, a5), (gOk 3, a5)] (.body 0 (.raises ⟨.stopIteration, 7, none⟩))).quirkFree .sync = true
    ∧ run .sync (nest [(gOk 1, a5), (gCleanupFails 2, a5), (gOk 3, a5)] (.body 0 (.raises ⟨.stopIteration, 7, none⟩)))
      = ([.setup 1 a5, .bind 1 41, .setup 2 a5, .bind 2 42, .setup 3 a5, .bind 3 43, .body 0, .cleanup 3, .cleanup 2, .cleanup 1],
         .raised ⟨.baseExc, 92, none⟩) := by decide
example : run .async (chain [.withCm (gOk 1) a5 (.body 1 .normal), .withCm (gOk 1) a5 (.body 2 .normal)])
    = ([.setup 1 a5, .bind 1 41, .body 1, .cleanup 1, .setup 1 a5, .bind 1 41, .body 2, .cleanup 1, .body 0], .normal) := by decide

-- two tasks interleaved A-enter, B-enter, A-exit, B-exit (B's block raises), and the manager nested in itself (LIFO): hypotheses hold, every use
-- is cleaned up once, by its own cleanup, after its own block
example : histOk .async [] [.enter (gOk 1) a5, .enter (gOk 2) a5, .exit 0 .normal, .exit 1 (.raised ⟨.exception, 7, none⟩)] = true
    ∧ (runOps .async [] [.enter (gOk 1) a5, .enter (gOk 2) a5, .exit 0 .normal, .exit 1 (.raised ⟨.exception, 7, none⟩)]).1
      = [([.setup 1 a5, .bind 1 41], .entered 41), ([.setup 2 a5, .bind 2 42], .entered 42),
         ([.cleanup 1], .exited .normal), ([.cleanup 2], .exited (.raised ⟨.exception, 7, none⟩))] := by decide
example : (runOps .sync [] [.enter (gOk 1) a5, .enter (gCleanupFails 2) a5, .enter (gOk 3) a5, .exit 2 .left, .exit 1 .left, .exit 0 .left]).1
      = [([.setup 1 a5, .bind 1 41], .entered 41), ([.setup 2 a5, .bind 2 42], .entered 42), ([.setup 3 a5, .bind 3 43], .entered 43),
         ([.cleanup 3], .exited .left), ([.cleanup 2], .exited (.raised ⟨.baseExc, 92, none⟩)), ([.cleanup 1], .exited .left)] := by decide
-- keyword names are just numbers for the wrapper: a tuple with several positional objects and five keywords arrives as it is
example : (run .sync (.withCm (gOk 1) { pos := [5, 6, 7], kw := [(2, 8), (5, 9), (6, 10), (7, 11), (9, 12)] } (.body 0 .normal))).1.head?
    = some (.setup 1 { pos := [5, 6, 7], kw := [(2, 8), (5, 9), (6, 10), (7, 11), (9, 12)] }) := by decide
example : run .async (.withCm (gOk 1) { pos := [5], kw := [], fits := false } (.body 0 .normal)) = ([], .raised ⟨.exception, 1000, none⟩) := by decide
-- decoration
example : decorate .sync .plain .plain true = .rejected "AssertionError" ∧ decorate .sync .asyncGenerator .asyncGenerator true = .rejected "AssertionError"
    ∧ decorate .async .generator .generator true = .rejected "AssertionError" ∧ decorate .async .coroutine .coroutine true = .rejected "AssertionError"
    ∧ decorate .sync .generator .generator true = .manager .contextmanager ∧ decorate .async .asyncGenerator .asyncGenerator false = .manager .asynccontextmanager
    ∧ decorate .sync .plain .plain false = .rejected "AttributeError"
    -- wrappers: a plain function / a coroutine function that `functools.wraps` a generator function is rejected, a generator function that wraps a plain one accepted
    ∧ decorate .sync .plain .generator true = .rejected "AssertionError" ∧ decorate .async .coroutine .asyncGenerator true = .rejected "AssertionError"
    ∧ decorate .sync .asyncGenerator .generator true = .rejected "AssertionError" ∧ decorate .sync .generator .plain true = .manager .contextmanager := by decide

end PedVerif.CtxMgr
