import PedVerif.Lemmas.CheckerEnvs
import PedVerif.Lemmas.CheckerNoTV
/-!
# C08 — checking failures surface only as PedanticException (checker level)

`Out.escape` is the only outcome of the model that is not "returns" or "raises an exception derived from
PedanticException".  For unsupported or malformed annotation objects the model does not pretend to know what
`_is_instance` does: `special k` is answered by an oracle, and the theorem quantifies over **every** oracle (whatever
`_is_instance` returns or raises - any `Exception` - for such an object).  The statement holds at full strength since
the repair of the string branch (`object()` against a string annotation); the generated facts it rests on are
`cfg_catchesAll` (the last `except` arm names `Exception`) and `cfg_strGuard` (the `__base__ is None` guard).
(The wrapper-level clause of C08 lives with the call-layer model.)
-/
namespace PedVerif.Checker
open PedVerif.Gen.TypeTables

/-- **C08 (checker level), full strength.** `assert_value_matches_type` returns or raises a PedanticException, for every
    annotation object, every value, every class table and every behaviour of unsupported annotation objects. -/
theorem contained (env : Env) (orc : Nat → Val → Raw) (a : Ann) (v : Val) : checkType env orc a v ≠ .escape :=
  checkType_ne_escape env orc a v

/-- what the caller of `assert_value_matches_type` can observe -/
theorem outcome_is_return_or_pedantic (env : Env) (orc : Nat → Val → Raw) (a : Ann) (v : Val) :
    checkType env orc a v = .accept ∨ checkType env orc a v = .reject ∨ checkType env orc a v = .pedErr ∨
    checkType env orc a v = .tvMismatch := by
  have := contained env orc a v
  cases h : checkType env orc a v <;> simp_all

/-- on the guarded vocabulary of C02 there is not even an internal error: the outcome is a verdict -/
theorem total (env : Env) (orc : Nat → Val → Raw) (hw : WfEnv env) (a : Ann) (v : Val)
    (hok : a.okC env = true) (hwf : v.wf env = true) (hp : v.plain = true) :
    checkType env orc a v = .accept ∨ checkType env orc a v = .reject := by
  have := (exact_raw env orc hw).1 false a v hok hwf hp
  cases a <;> simp_all [checkType, Ann.okC, wrap_ok] <;> (cases conforms env _ v <;> simp)

/-- the witness of the repaired region `strAnnObjectValue`: on a tree without the `__base__ is None` guard the model
    escapes for `object()` against a string annotation; with the guard it answers `reject` -/
example : checkType envW (fun _ _ => .raisedOther) (.strAnn 7) (.inst 0) = .reject := by decide
-- non-vacuity: an oracle that raises / answers arbitrarily is covered
example : checkType envW (fun _ _ => .raisedOther) (.special 3) (.inst 0) = .pedErr := by decide
example : checkType envW (fun k _ => .ok (k == 3)) (.seq .typing .list (.special 3)) (.coll 4 [.inst 0]) = .accept := by decide

end PedVerif.Checker
