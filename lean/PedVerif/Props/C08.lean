import PedVerif.Props.CheckerIR
import PedVerif.Lemmas.CheckerEnvs
import PedVerif.Lemmas.CheckerNoTV
import PedVerif.Lemmas.CallLayer4
import PedVerif.Gen.TypeVars
/-!
# C08 — checking failures surface only as PedanticException (checker level)

`Out.escape` is the only outcome of the model that is not "returns" or "raises an exception derived from
PedanticException".  For unsupported or malformed annotation objects the model does not pretend to know what
`_is_instance` does: `special k` is answered by an oracle, and the theorem quantifies over **every** oracle (whatever
`_is_instance` returns or raises - any `Exception` - for such an object).  The statement holds at full strength since
the repair of the string branch (`object()` against a string annotation); the generated facts it rests on are
`cfg_catchesAll` (the last `except` arm names `Exception`) and `cfg_strBranch` (the string branch reads no attribute that can be missing: context lookup, isinstance, names of the MRO).
(The wrapper-level clause of C08 lives with the call-layer model.)
-/
namespace PedVerif.Checker
open PedVerif.Gen.TypeTables

/-- **C08 (checker level), full strength.** `assert_value_matches_type` returns or raises a PedanticException, for every
    annotation object, every value, every class table and every behaviour of unsupported annotation objects. -/
theorem contained (env : Env) (orc : Nat → Val → Raw) (a : Ann) (v : Val) : checkType env orc a v ≠ .escape :=
  checkType_ne_escape env orc a v

/-- what the caller of `assert_value_matches_type` can observe -/
theorem outcome_is_return_or_pedantic (env : Env) (orc : Nat → Val → Raw) (a : Ann) (v : Val) :
    checkType env orc a v = .accept ∨ checkType env orc a v = .reject ∨ checkType env orc a v = .pedErr ∨
    checkType env orc a v = .tvMismatch := by
  have := contained env orc a v
  cases h : checkType env orc a v <;> simp_all

/-- on the guarded vocabulary of C02 there is not even an internal error: the outcome is a verdict -/
theorem total (env : Env) (orc : Nat → Val → Raw) (hw : WfEnv env) (a : Ann) (v : Val)
    (hok : a.okC env = true) (hwf : v.wf env = true) (hp : v.plain = true) :
    checkType env orc a v = .accept ∨ checkType env orc a v = .reject := by
  have := (exact_raw env orc hw).1 false a v hok hwf hp
  cases a <;> simp_all [checkType, Ann.okC, wrap_ok] <;> (cases conforms env _ v <;> simp)

/-- the repaired region `strAnnObjectValue`: `object()` against a string annotation is a verdict (the branch that read
    `__base__.__name__` is gone; the pre-repair shape of the branch still escapes in the model, see `strAnnByName`) -/
example : checkType envW (fun _ _ => .raisedOther) (.strAnn 7) (.inst 0) = .reject := by decide
-- non-vacuity: an oracle that raises / answers arbitrarily is covered
example : checkType envW (fun _ _ => .raisedOther) (.special 3) (.inst 0) = .pedErr := by decide
example : checkType envW (fun k _ => .ok (k == 3)) (.seq .typing .list (.special 3)) (.coll 4 [.inst 0]) = .accept := by decide

end PedVerif.Checker

/-! ## wrapper level: the @pedantic / @require_kwargs wrapper adds no exception type of its own -/
namespace PedVerif.Call
open PedVerif.Checker PedVerif.Gen.CallTables

/-- the outcomes the property allows: a value, a PedanticException, or the very exception the body raised -/
def Caller.allowed : Caller → Bool
  | .ret | .retGen | .pedCallWithArgs | .pedTypeCheck | .pedTVMismatch | .bodyExc _ => true
  | .bindTypeError | .escape _ => false

/-- the property as stated, without the guards of `wrapper_adds_nothing` below (`hinit`: `__init__` finds the receiver; `hc`: `clazz` does not
    fail).  False: regions `bodyMentionsStaticmethod` (a module-level function decorated `@staticmethod @pedantic`) and - until the repair
    `receiverMayBeKeyword` - `receiverByKeywordIndexError` (`K.m(self=k, a=1)`). -/
def WrapperAddsNothing_full : Prop :=
  ∀ (env : Env) (orc : Nat → Val → Raw) (f : Fn) (args : List Val) (kw : List (NameId × Val)) (body : BodyOut),
    (∀ k v, orc k v ≠ .raisedTV) →
    f.binds (fwdPosOf f args).length (kw.map (·.1)) = true → (runCall env orc f args kw body).caller.allowed = true

/-- **C08 (wrapper level).** For every call that Python itself accepts - whatever the annotations (supported or not: the
    oracle is arbitrary) and whatever the values - the caller sees a value, a PedanticException or the body's own
    exception; never an IndexError / TypeError / … of the checking machinery.  Guard: the `clazz` evaluation does not fail
    (its complement is the region `bodyMentionsStaticmethod`: a plain function whose text contains the static needle). -/
theorem wrapper_adds_nothing (env : Env) (orc : Nat → Val → Raw) (horc : ∀ k v, orc k v ≠ .raisedTV) (f : Fn) (args : List Val)
    (kw : List (NameId × Val)) (body : BodyOut)
    (hinit : f.initFails args = false)                       -- Python itself supplies self
    (hc : f.clazzFails args = false)
    (hbinds : f.binds (fwdPosOf f args).length (kw.map (·.1)) = true) :     -- Python accepts the invocation
    (runCall env orc f args kw body).caller.allowed = true := by
  have hinv : (invoke env orc f args kw body).caller.allowed = true := by
    unfold invoke
    simp only [hbinds, Bool.not_true, Bool.false_eq_true, ↓reduceIte]
    cases f.mode with
    | requireKwargs => cases body <;> rfl
    | pedantic =>
      simp only [retCheck]
      cases body with
      | raises e => rfl
      | ret r =>
        simp only
        cases f.retAnn with
        | none => rfl
        | some a =>
          simp only [hc, Bool.false_eq_true, ↓reduceIte]
          split
          · cases f.genRet <;> rfl
          · rcases checkVal_cases env orc horc f args hc a r with ⟨h, _⟩ | ⟨h, _⟩ <;> simp [h, Caller.allowed]
  by_cases hkw : (f.shouldHaveKwargs && !(f.argsWithoutSelf args).isEmpty) = true
  · unfold runCall; simp [hinit, hkw, Caller.allowed]
  · have hkw' : (f.shouldHaveKwargs && !(f.argsWithoutSelf args).isEmpty) = false := by simpa using hkw
    cases hm : f.mode with
    | requireKwargs => rw [runCall_requireKwargs' _ _ _ _ _ _ hm hinit hkw']; exact hinv
    | pedantic =>
      rw [runCall_pedantic' _ _ _ _ _ _ hm hinit hkw']
      cases hca : checkArguments env orc f args kw with
      | none => exact hinv
      | some c => rw [checkArguments_some_tc env orc horc f args kw hc c hca]; rfl

/-- (was: `pedantic(obj.m)(a=1)` ended in IndexError, repaired by 86bfec9) a bound method is no instance method for the call
    layer, whatever `getfullargspec` lists first … -/
theorem cfg_instanceMethod : instanceMethodExcludesBound = true := by decide
theorem bound_is_not_instance_method (firstParamIsSelf : Bool) : isInstanceMethodOf firstParamIsSelf true = false := by
  simp [isInstanceMethodOf, cfg_instanceMethod]
/-- … so for a bound method handed to `pedantic` / `require_kwargs` the guard "Python itself supplies self" of
    `wrapper_adds_nothing` is met by every call, also one without positional arguments -/
theorem wrapper_adds_nothing_bound_method (env : Env) (orc : Nat → Val → Raw) (horc : ∀ k v, orc k v ≠ .raisedTV) (f : Fn)
    (s : Bool) (hb : f.firstIsSelf = isInstanceMethodOf s true) (args : List Val) (kw : List (NameId × Val)) (body : BodyOut)
    (hc : f.clazzFails args = false) (hbinds : f.binds (fwdPosOf f args).length (kw.map (·.1)) = true) :
    (runCall env orc f args kw body).caller.allowed = true :=
  wrapper_adds_nothing env orc horc f args kw body (by simp [Fn.initFails, hb, bound_is_not_instance_method]) hc hbinds

/-- a module-level function that really is decorated `@staticmethod @pedantic` (its qualified name has no dot).  The body-text
    variant of this witness - a comment mentioning `@staticmethod` - is repaired: see `header_flags_ignore_body` (C04). -/
def witnessStaticText : Fn :=
  { name := "f", flags := flagsOfSource "f" "@staticmethod\n@pedantic\ndef f(a: int) -> int:\n    return a\n",
    qualDotted := false, params := [{ name := 1, kind := .posOrKw, ann := some (.cls 2), dflt := none }], selfName := 0,
    firstIsSelf := false, isBound := false, retAnn := some (.cls 2), genRet := .notGenType, flavour := .sync, mode := .pedantic }
/-- the guard `clazzFails = false` of `wrapper_adds_nothing` is needed: for that function the keyword call `f(a=1)`, which
    Python (3.10+) accepts, ends in an IndexError (`full_name.split('.')[-2]`) -/
theorem wrapper_escapes_moduleLevelStaticmethod :
    (runCall envW (fun _ _ => .raisedOther) witnessStaticText [] [(1, .lit (.int 1))] (.ret (.lit (.int 1)))).caller = .escape "IndexError" ∧
    witnessStaticText.clazzFails ([] : List Val) = true ∧
    witnessStaticText.binds (fwdPosOf witnessStaticText []).length [1] = true := by decide
theorem WrapperAddsNothing_full_is_false : ¬ WrapperAddsNothing_full := by
  intro h
  have w := wrapper_escapes_moduleLevelStaticmethod
  have := h envW (fun _ _ => .raisedOther) witnessStaticText [] [(1, .lit (.int 1))] (.ret (.lit (.int 1))) (by intro _ _; simp) w.2.2
  rw [w.1] at this; simp [Caller.allowed] at this

/-! ### the receiver of a method passed by keyword (X2.4) -/
/-- `@pedantic def m(self, a: int) -> int` in a class `K` -/
def witnessMethod : Fn :=
  { name := "m", flags := flagsOfSource "m" "    @pedantic\n    def m(self, a: int) -> int:\n        return a\n",
    qualDotted := true, params := [{ name := 0, kind := .posOrKw, ann := none, dflt := none }, { name := 1, kind := .posOrKw, ann := some (.cls 2), dflt := none }],
    selfName := 0, firstIsSelf := true, isBound := false, retAnn := some (.cls 2), genRet := .notGenType, flavour := .sync, mode := .pedantic }
/-- **region `receiverByKeywordIndexError`**: `K.m(self=k, a=1)` - a keyword call that Python accepts for the undecorated method (`hbinds`
    holds, `clazz` does not fail) - ends in IndexError out of `FunctionCall.__init__`, as long as the receiver is only looked for in `args` -/
theorem wrapper_escapes_receiverByKeyword (h : receiverMayBeKeyword = false) :
    (runCall envW (fun _ _ => .raisedOther) witnessMethod [] [(0, .inst 7), (1, .lit (.int 1))] (.ret (.lit (.int 1)))).caller = .escape "IndexError" ∧
    witnessMethod.clazzFails ([] : List Val) = false ∧
    witnessMethod.binds (fwdPosOf witnessMethod []).length [0, 1] = true := by
  first
    | exact absurd h (by decide)
    | decide
/-- … and since the repair `receiverMayBeKeyword` the hypothesis `hinit` of `wrapper_adds_nothing` is met by every call -/
theorem wrapper_adds_nothing_any_receiver (hfix : receiverMayBeKeyword = true) (env : Env) (orc : Nat → Val → Raw) (horc : ∀ k v, orc k v ≠ .raisedTV)
    (f : Fn) (args : List Val) (kw : List (NameId × Val)) (body : BodyOut) (hc : f.clazzFails args = false)
    (hbinds : f.binds (fwdPosOf f args).length (kw.map (·.1)) = true) :
    (runCall env orc f args kw body).caller.allowed = true :=
  wrapper_adds_nothing env orc horc f args kw body (by simp [Fn.initFails, hfix]) hc hbinds
theorem receiver_by_keyword_accepted (hfix : receiverMayBeKeyword = true) :
    (runCall envW (fun _ _ => .raisedOther) witnessMethod [] [(0, .inst 7), (1, .lit (.int 1))] (.ret (.lit (.int 1)))).caller = .ret := by
  first
    | exact absurd hfix (by decide)
    | decide

end PedVerif.Call

/-! ### Reads of what the library stored on an instance, when the class defines `__getattr__`

In a `@pedantic_class` the user's `__getattr__` is a checked method: before its body runs, the wrapper asks for the type variables of
the instance, i.e. reads `TYPE_VAR_ATTR_NAME` / `__orig_class__` / the already-checked mark again.  A read with `getattr` / `hasattr`
of an attribute that is not there yet falls back to that `__getattr__` - and never comes back (RecursionError out of the very first
call, the constructor).  The repaired code reads with `object.__getattribute__` (fact `storedStateReadDirect`). -/
namespace PedVerif.StoredRead
open PedVerif.Gen.TypeVars

inductive Out where
  | value (stored : Bool)     -- the stored object (`true`) or the default (`false`)
  | recursionError
deriving DecidableEq, Repr

/-- `direct`: the read does not fall back to `__getattr__`; `present`: the attribute is on the instance; the `Nat`: frames left -/
def read (direct present : Bool) : Nat → Out
  | 0 => .recursionError
  | fuel + 1 =>
    if present then .value true
    else if direct then .value false
    else read direct present fuel     -- `__getattr__`'s wrapper performs the same read before the body of `__getattr__` runs

theorem read_direct (present : Bool) (fuel : Nat) : read true present (fuel + 1) = .value present := by
  cases present <;> simp [read]

/-- the unrepaired read: with the attribute missing no stack depth suffices -/
theorem read_fallback_never_returns (fuel : Nat) : read false false fuel = .recursionError := by
  induction fuel with
  | zero => rfl
  | succ n ih => simpa [read] using ih

theorem cfg_storedStateReadDirect : storedStateReadDirect = true := by decide

/-- the current code: the read returns what is stored, or the default - user code is not entered, whatever the stack depth left -/
theorem stored_read_returns (present : Bool) (fuel : Nat) : read storedStateReadDirect present (fuel + 1) = .value present := by
  rw [cfg_storedStateReadDirect]; exact read_direct present fuel

end PedVerif.StoredRead
