import PedVerif.Lemmas.CallLayerIR
import PedVerif.Lemmas.CallLayerIRTrace
import PedVerif.Lemmas.CheckerEnvs
/-!
# The call layer, statement by statement: the translated code refines to the hand-written model

`Gen/CallLayerIR.lean` is the statement-by-statement translation of `FunctionCall` (16 methods), of the predicates of
`DecoratedFunction` (10) and of the wrapper bodies (`pedantic.wrapper`, `async_wrapper`, the choice between them,
`require_kwargs.wrapper`), regenerated from the source on every run.  `Model/CallLayerIR.lean` interprets it.  This file states,
for ALL inputs, that the interpretation of each translated function is the corresponding definition of the hand-written model
(`Model/CallLayer.lean`) on which the property theorems C03 C04 C05 C06 C08 are proved (`ir_*_refines`), facts about the
translated code that do not go through the tables of `Gen/CallTables.lean` (`ir_*_semantics`), and non-vacuity examples.
The corollaries that restate the property theorems about the interpreted code are in `Props/C03IR.lean` … `Props/C08IR.lean`.

Proofs: `Lemmas/CallLayerIR.lean` - each unfolds the generated definition, so a source edit that changes what a function does
breaks the lemma about that function, and an edit that keeps the behaviour (renamed locals, other messages, `not (a >= b)` for
`a < b`, `append` moved behind the check it precedes) re-proves.
-/
set_option linter.unusedVariables false
namespace PedVerif.CallIR
open PedVerif.Checker PedVerif.Call PedVerif.Gen.CallLayerIR PedVerif.Gen.CallTables

/-! ## the whole call -/
/-- **Refinement of the decorated call.**  Interpreting the translated wrapper body (and everything it calls) gives what `runCall` gives. -/
theorem ir_runCall_refines (env : Env) (orc : Nat → Val → Raw) (f : Fn) (args : List Val) (kw : List (NameId × Val)) (body : BodyOut)
    (w : World) (up : Val → Bool)
    (hP : (∀ v, up v = false) ∨ messagesUseSafeDescribe = true)       -- no value that cannot be formatted, or every message uses `_describe`
    (hrecv : receiverMayBeKeyword = true → f.firstIsSelf = true → args.isEmpty = true → (lookup kw f.selfName).isSome = true)
    (hnd : (kw.map (·.1)).Nodup) :
    runCallIR env orc f args kw body w up = runCall env orc f args kw body := runCallIR_eq env orc f args kw body w up hP hrecv hnd
/-- the usual case: printable values, the receiver of a method is positional -/
theorem ir_runCall_refines_plain (env : Env) (orc : Nat → Val → Raw) (f : Fn) (args : List Val) (kw : List (NameId × Val)) (body : BodyOut)
    (w : World) (hrecv : (f.firstIsSelf && args.isEmpty) = false) (hnd : (kw.map (·.1)).Nodup) :
    runCallIR env orc f args kw body w = runCall env orc f args kw body :=
  runCallIR_eq env orc f args kw body w _ (.inl fun _ => rfl) (fun _ h1 h2 => by simp [h1, h2] at hrecv) hnd
/-- **since the repair `messagesUseSafeDescribe`** the refinement - hence every property theorem restated below - holds for values that cannot
    be formatted as well: building a message never raises -/
theorem ir_runCall_refines_unprintable (hsafe : messagesUseSafeDescribe = true) (env : Env) (orc : Nat → Val → Raw) (f : Fn) (args : List Val)
    (kw : List (NameId × Val)) (body : BodyOut) (w : World) (up : Val → Bool)
    (hrecv : receiverMayBeKeyword = true → f.firstIsSelf = true → args.isEmpty = true → (lookup kw f.selfName).isSome = true)
    (hnd : (kw.map (·.1)).Nodup) :
    runCallIR env orc f args kw body w up = runCall env orc f args kw body := runCallIR_eq env orc f args kw body w up (.inr hsafe) hrecv hnd

/-- **Recording the path does not change the result** (for every program of the IR, by induction on the statement): the run whose path
    the harness compares with the lines CPython executes returns what `runCallIR` returns … -/
theorem ir_traced_result (env : Env) (orc : Nat → Val → Raw) (f : Fn) (args : List Val) (kw : List (NameId × Val)) (body : BodyOut) (w : World)
    (up : Val → Bool) :
    (runCallTraced env orc f args kw body w up).1 = runCallIR env orc f args kw body w up := runCallTraced_result env orc f args kw body w up
/-- … hence what the hand-written model returns. -/
theorem ir_traced_refines (env : Env) (orc : Nat → Val → Raw) (f : Fn) (args : List Val) (kw : List (NameId × Val)) (body : BodyOut) (w : World)
    (hrecv : (f.firstIsSelf && args.isEmpty) = false) (hnd : (kw.map (·.1)).Nodup) :
    (runCallTraced env orc f args kw body w).1 = runCall env orc f args kw body := by
  rw [ir_traced_result, ir_runCall_refines_plain env orc f args kw body w hrecv hnd]

/-- **exactly once.**  The interpretation counts the executed statements that invoke the function (`self.func.func(…)` in `_get_return_value` /
    `_async_get_return_value`, `func(*args, **kwargs)` in `require_kwargs.wrapper`) in a `Nat`: the function is invoked once when the hand model
    says the body ran, and not at all otherwise - never twice -/
theorem ir_body_invoked_exactly_once (c : Ctx) (ht : c.tracing = false) (hP : Printable c) (hrecv : receiverSupplied c) (hnd : (c.kw.map (·.1)).Nodup) :
    (runWrapper c).obs.bodyCalls = if (runCall c.env c.orc c.f c.args c.kw c.body).bodyRan then 1 else 0 := runWrapper_calls c ht hP hrecv hnd
/-- **coroutine functions** get `async_wrapper` (an `async def`, as are `async_check_types` and `_async_get_return_value`), whose interpretation -
    `await` where the callee is a coroutine function and only there, else the interpreter answers `IR:await-mismatch` - is the same hand model
    `runCall` that describes the synchronous wrapper: arguments checked before the coroutine of the function is created, the awaited result checked -/
theorem ir_coroutine_clause (c : Ctx) (ht : c.tracing = false) (hP : Printable c) (hrecv : receiverSupplied c) (hnd : (c.kw.map (·.1)).Nodup)
    (hm : c.f.mode = .pedantic) (hfl : c.f.flavour = .coroutine) :
    toResult (runFn c (cs4 c) pedAsyncWrapperIR 2800 {} {}) = runCall c.env c.orc c.f c.args c.kw c.body ∧
    pedAsyncWrapperIsAsync = true ∧ asyncCheckTypesIsAsync = true ∧ asyncGetReturnValueIsAsync = true ∧ pedWrapperIsAsync = false := by
  refine ⟨?_, by decide⟩
  have h := runWrapper_eq c ht hP hrecv hnd
  simp only [runWrapper, hm, selectsAsync_eq c ht, hfl, beq_self_eq_true, if_true] at h
  exact h
/-- **no `try` around the invocation**: an exception of the body reaches the caller as the very exception (translated fact `invocationInTry`, and
    the interpretation of the translated statements: `callBody` has no handler) -/
theorem ir_body_exception_unchanged (env : Env) (orc : Nat → Val → Raw) (f : Fn) (args : List Val) (kw : List (NameId × Val)) (e : Nat) (w : World)
    (up : Val → Bool) (hP : (∀ v, up v = false) ∨ messagesUseSafeDescribe = true)
    (hrecv : receiverMayBeKeyword = true → f.firstIsSelf = true → args.isEmpty = true → (lookup kw f.selfName).isSome = true)
    (hnd : (kw.map (·.1)).Nodup) (hran : (runCallIR env orc f args kw (.raises e) w up).bodyRan = true) :
    (runCallIR env orc f args kw (.raises e) w up).caller = .bodyExc e ∧ invocationInTry = false := by
  refine ⟨?_, by decide⟩
  rw [ir_runCall_refines env orc f args kw _ w up hP hrecv hnd] at hran ⊢
  unfold runCall at hran ⊢
  by_cases h1 : f.initFails args = true
  · simp [h1] at hran
  · by_cases h2 : (f.shouldHaveKwargs && !(f.argsWithoutSelf args).isEmpty) = true
    · simp [h1, h2] at hran
    · simp only [h1, h2, Bool.false_eq_true, if_false] at hran ⊢
      cases hm : f.mode with
      | requireKwargs =>
        simp only [hm, invoke] at hran ⊢
        split at hran <;> simp_all
      | pedantic =>
        simp only [hm, argsCheckedBeforeBody, if_true] at hran ⊢
        cases hca : checkArguments env orc f args kw with
        | some cl => simp [hca] at hran
        | none =>
          simp only [hca, invoke, hm, retCheck] at hran ⊢
          split at hran <;> simp_all

/-! ## function by function (`c.tracing = false`: the path is not recorded; `Ready`: the object is as `__init__` leaves it) -/
theorem ir_flags_refine (name source : String) : flagsIR name source = flagsOfSource name source := flagsIR_eq name source
theorem ir_shouldHaveKwargs_refines (f : Fn) : shouldHaveKwargsOf f = f.shouldHaveKwargs := shouldHaveKwargsOf_eq f
theorem ir_isInstanceMethod_refines (firstParamIsSelf isBound : Bool) :
    isInstanceMethodIRof firstParamIsSelf isBound = isInstanceMethodOf firstParamIsSelf isBound := isInstanceMethodIR_eq _ _
theorem ir_selectsAsync (c : Ctx) (ht : c.tracing = false) : selectsAsync c = (c.f.flavour == .coroutine) := selectsAsync_eq c ht
theorem ir_init_refines (c : Ctx) (ht : c.tracing = false) (hrecv : receiverSupplied c) (o : Obj) :
    fnInit c o = if c.f.initFails c.args then .fail (.escape "IndexError") o.obs else .done .none (constructed c o) := fnInit_eq c ht hrecv o
theorem ir_argsWithoutSelf_refines (c : Ctx) (ht : c.tracing = false) (o : Obj) :
    fnArgsWithoutSelf c o = .done (.vals (c.f.argsWithoutSelf c.args)) o := fnArgsWithoutSelf_eq c ht o
theorem ir_assertUsesKwargs_refines (c : Ctx) (ht : c.tracing = false) (hP : Printable c) (o : Obj) :
    fnAssertUsesKwargs c o =
      if (c.f.shouldHaveKwargs && !(c.f.argsWithoutSelf c.args).isEmpty) = true then .fail .pedCallWithArgs o.obs else .done .none o :=
  fnAssertUsesKwargs_eq c ht hP o
theorem ir_clazz_refines (c : Ctx) (ht : c.tracing = false) (o : Obj) (hi : o.inst = some c.f.firstIsSelf) :
    (c.f.clazzFails c.args = true → fnClazz c o = .fail (.escape "IndexError") o.obs) ∧
    (c.f.clazzFails c.args = false → ∃ v, fnClazz c o = .done v o) := fnClazz_spec c ht o hi
theorem ir_typeVars_refines (c : Ctx) (ht : c.tracing = false) (o : Obj) (hi : o.inst = some c.f.firstIsSelf) (hg : o.hasGetter = true) :
    fnTypeVars c o =
      if o.resolved = some true then .done .typeVars o
      else if c.f.clazzFails c.args then .fail (.escape "IndexError") o.obs
      else .done .typeVars { o with resolved := some true } := fnTypeVars_eq c ht o hi hg
theorem ir_assertHasAnnotation_refines (c : Ctx) (ht : c.tracing = false) (p : Param) (o : Obj) :
    fnAssertHasAnnotation c p o = if p.ann.isNone then .fail .pedTypeCheck o.obs else .done .none o := fnAssertHasAnnotation_eq c ht p o
theorem ir_assertComplete_refines (c : Ctx) (ht : c.tracing = false) (a : Ann) (o : Obj) :
    fnAssertComplete c (some a) o = if incompleteTop a then .fail .pedTypeCheck o.obs else .done .none o := fnAssertComplete_eq c ht a o
/-- `_check_type_param` is the hand model's fold `checkParams` (per-parameter decision tree, positional index, order) and records the names it visited -/
theorem ir_checkTypeParam_refines (c : Ctx) (ht : c.tracing = false) (hP : Printable c) (ps : List Param) (o : Obj) (hR : Ready c o) (l : List NameId)
    (hl : o.checked = some l) :
    match checkParams c.env c.orc c.f c.args c.kw ps (if c.f.firstIsSelf then 1 else 0) with
    | some cl => fnCheckTypeParam c ps o = .fail cl o.obs
    | none => ∃ o', fnCheckTypeParam c ps o = .done .none o' ∧ Ready c o' ∧ o'.checked = some (l ++ ps.map (·.name)) ∧
        o'.paramsWS = o.paramsWS ∧ o'.obs = o.obs := fnCheckTypeParam_spec c ht hP ps o hR l hl
theorem ir_checkTypesArgs_refines (c : Ctx) (ht : c.tracing = false) (hP : Printable c) (ps : List Param) (o : Obj) (hR : Ready c o) :
    match starDecision c ps (c.args.drop c.f.nPositional) with
    | some cl => fnCheckTypesArgs c ps o = .fail cl o.obs
    | none => ∃ o', fnCheckTypesArgs c ps o = .done .none o' ∧ Ready c o' ∧ o'.checked = o.checked ∧ o'.paramsWS = o.paramsWS ∧ o'.obs = o.obs :=
  fnCheckTypesArgs_spec c ht hP ps o hR
theorem ir_checkTypesKwargs_refines (c : Ctx) (ht : c.tracing = false) (hP : Printable c) (ps : List Param) (o : Obj) (hR : Ready c o)
    (hnd : (c.kw.map (·.1)).Nodup) (l : List NameId) (hl : o.checked = some l) :
    match starDecision c ps ((pendingKw c l).map (·.2)) with
    | some cl => fnCheckTypesKwargs c ps o = .fail cl o.obs
    | none => ∃ o', fnCheckTypesKwargs c ps o = .done .none o' ∧ Ready c o' ∧ o'.checked = o.checked ∧ o'.paramsWS = o.paramsWS ∧ o'.obs = o.obs :=
  fnCheckTypesKwargs_spec c ht hP ps o hR hnd l hl
/-- the star decisions are the hand model's `checkStar` / `checkDStar` -/
theorem ir_starDecision_is_checkStar (c : Ctx) :
    checkStar c.env c.orc c.f c.args = starDecision c (c.f.withoutSelf.filter fun p => p.kind == .varPos) (c.args.drop c.f.nPositional) := checkStar_eq c
theorem ir_starDecision_is_checkDStar (c : Ctx) :
    checkDStar c.env c.orc c.f c.args c.kw =
      starDecision c (c.f.withoutSelf.filter fun p => p.kind == .varKw) ((pendingKw c (c.f.plain.map (·.name))).map (·.2)) :=
  checkDStar_eq c
/-- `not_yet_check_kwargs` -/
theorem ir_notYetChecked_refines (c : Ctx) (ht : c.tracing = false) (o : Obj) (l : List NameId) (hl : o.checked = some l) :
    fnNotYetChecked c o = .done (.keys ((pendingKw c l).map (·.1))) o := fnNotYetChecked_eq c ht o l hl
/-- `_check_types_of_arguments` (the three checks, in the order they are called, on the parameters each one selects) is `checkArguments` -/
theorem ir_checkArguments_refines (c : Ctx) (ht : c.tracing = false) (hP : Printable c) (o : Obj) (hR : Ready c o) (hp : o.paramsWS = some c.f.withoutSelf)
    (hc : o.checked = some []) (hnd : (c.kw.map (·.1)).Nodup) :
    match checkArguments c.env c.orc c.f c.args c.kw with
    | some cl => fnCheckArguments c o = .fail cl o.obs
    | none => ∃ o', fnCheckArguments c o = .done .none o' ∧ Ready c o' ∧ o'.obs = o.obs := fnCheckArguments_spec c ht hP o hR hp hc hnd
theorem ir_checkTypesReturn_refines (c : Ctx) (ht : c.tracing = false) (hP : Printable c) (v : Val) (o : Obj) (hR : Ready c o) (hb : o.obs.bodyRan = true) :
    toResult (fnCheckTypesReturn c v o) = retCheck c.env c.orc c.f c.args (.ret v) o.obs.fwdPos o.obs.fwdKw := fnCheckTypesReturn_eq c ht hP v o hR hb
/-- `check_types` / `async_check_types`: arguments first, then the body, then the result -/
theorem ir_checkTypes_refines (c : Ctx) (ht : c.tracing = false) (hP : Printable c) (hm : c.f.mode = .pedantic) (o : Obj) (hR : Ready c o)
    (hp : o.paramsWS = some c.f.withoutSelf) (hc : o.checked = some []) (hobs : o.obs = {}) (hnd : (c.kw.map (·.1)).Nodup) :
    toResult (fnCheckTypes c (c.f.flavour == .coroutine) o) =
      match checkArguments c.env c.orc c.f c.args c.kw with
      | some cl => ⟨cl, false, [], []⟩
      | none => invoke c.env c.orc c.f c.args c.kw c.body := fnCheckTypes_eq c ht hP hm o hR hp hc hobs hnd

/-! ## facts about the translated code that do not go through `Gen/CallTables.lean` -/
/-- `args_without_self`: the first positional argument is dropped for an instance method, for a callable whose decorator lines contain
    the static needle, and when there are more decorator lines than allowed (1 with a pedantic decorator among them, else 0) -/
theorem ir_argsWithoutSelf_semantics (c : Ctx) (ht : c.tracing = false) (o : Obj) :
    fnArgsWithoutSelf c o =
      .done (.vals (if c.f.firstIsSelf || c.f.isStatic || decide (c.f.numDecorators > (if c.f.isPedantic then 1 else 0)) then c.args.drop 1 else c.args)) o := by
  ir_unfold [fnArgsWithoutSelf, argsWithoutSelfIR, ht]
  by_cases h1 : c.f.isPedantic = true <;> by_cases h2 : c.f.firstIsSelf = true <;> by_cases h3 : c.f.isStatic = true <;>
    simp [h1, h2, h3] <;> split <;> simp_all
/-- `should_have_kwargs`: never for a property setter or a function whose source mentions the args needle; always for a name that is not
    `__dunder__`; for a dunder name exactly when it is one of the 17 listed ones -/
theorem ir_shouldHaveKwargs_semantics (f : Fn) :
    shouldHaveKwargsOf f =
      (!(f.isSetter || f.wantsArgs) && (!(f.startsDunder && f.endsDunder) ||
        ["__new__", "__init__", "__str__", "__del__", "__int__", "__float__", "__complex__", "__oct__", "__hex__", "__index__", "__trunc__",
         "__repr__", "__unicode__", "__hash__", "__nonzero__", "__dir__", "__sizeof__"].contains f.name)) := by
  simp only [shouldHaveKwargsOf, shouldHaveKwargsIR, Stmt.ofList, dfBool, dfRun, dfGuard, dfAtom, fnView, Fn.startsDunder, Fn.endsDunder]
  by_cases h1 : f.isSetter = true <;> by_cases h2 : f.wantsArgs = true <;> by_cases h3 : startsWithS f.name "__" = true <;>
    by_cases h4 : endsWithS f.name "__" = true <;> simp [h1, h2, h3, h4]
/-- the context a name is resolved in: the sources `__init__` merges, later ones overriding earlier ones -/
def ctxLookup (caller globals : NameId → Option ClsId) : List CtxSrc → NameId → Option ClsId
  | [], _ => none
  | s :: rest, n =>
    match ctxLookup caller globals rest n with
    | some x => some x
    | none => (match s with | .callerContext => caller n | .funcGlobals => globals n)
/-- `__init__` merges the caller's names and the names of the module that defines the function, and a name both bind means what the
    defining module says -/
theorem ir_context_prefers_function_globals (c : Ctx) (ht : c.tracing = false) (hrecv : receiverSupplied c) (o o' : Obj) (h : fnInit c o = .done .none o')
    (caller globals : NameId → Option ClsId) (n : NameId) :
    ∃ srcs, o'.ctxSrcs = some srcs ∧
      ctxLookup caller globals srcs n = (match globals n with | some x => some x | none => caller n) := by
  rw [fnInit_eq c ht hrecv o] at h
  split at h
  · cases h
  · injection h with _ h
    subst h
    refine ⟨_, rfl, ?_⟩
    cases hg : globals n <;> cases hc : caller n <;> simp [ctxLookup, hg, hc]

/-! ## messages: values that cannot be formatted (`str()` / `repr()` / `format()` raise) -/
/-- every user value a statement interpolates into a message, with the bit "through `_describe`" -/
def fmtArgsOfAction : Action → List FmtArg
  | .assignText l => l | .defineLazyText l => l | .raisePed l => l | .raiseCallWithArgs l => l | _ => []
def fmtArgsOf : Stmt → List FmtArg
  | .skip => [] | .seq a b => fmtArgsOf a ++ fmtArgsOf b | .act _ a => fmtArgsOfAction a | .ite _ _ t e => fmtArgsOf t ++ fmtArgsOf e
  | .forParams _ b => fmtArgsOf b | .forStarValues _ b => fmtArgsOf b | .forUncheckedKwargs _ b => fmtArgsOf b | .ret _ _ => []
/-- all translated bodies of the call layer -/
def allIR : List Stmt :=
  [initIR, typeVarsIR, clazzIR, argsWithoutSelfIR, assertUsesKwargsIR, checkTypesIR, asyncCheckTypesIR, checkArgumentsIR, checkTypeParamIR, checkTypesArgsIR,
   checkTypesKwargsIR, checkTypesReturnIR, assertHasAnnotationIR, assertCompleteIR, getReturnValueIR, asyncGetReturnValueIR, notYetCheckedIR, pedWrapperIR,
   pedAsyncWrapperIR, rkWrapperIR]
/-- the two facts the translator prints about the messages are what the translated code says: `messagesUseSafeDescribe` = no interpolation of
    a user value without `_describe` in any translated body, and the same in `assert_value_matches_type` / the handler of `_check_type`;
    `returnMsgFormattedBeforeCheck` = `_check_types_return` builds a text about the result before the check -/
theorem cfg_messagesUseSafeDescribe :
    messagesUseSafeDescribe = ((allIR.all fun p => (fmtArgsOf p).all (·.2)) && assertMsgSafe && handlerMsgSafe) := by decide
def buildsTextEagerly : Stmt → Bool
  | .seq a b => buildsTextEagerly a || buildsTextEagerly b | .act _ (.assignText l) => l.any (·.1 == .result) | .ite _ _ t e => buildsTextEagerly t || buildsTextEagerly e
  | _ => false
theorem cfg_returnMsgFormattedBeforeCheck : returnMsgFormattedBeforeCheck = buildsTextEagerly checkTypesReturnIR := by decide
/-- a `msg` that is a function is only used where `assert_value_matches_type` accepts one -/
theorem cfg_lazyMsgSupported : (fmtArgsOf checkTypesReturnIR ≠ [] ∧ returnMsgFormattedBeforeCheck = false) → assertMsgMayBeLazy = true := by decide

/-- `@pedantic def g(a: int, b: str = 5) -> int` (defined here so that the witnesses can use it) -/
def exFn : Fn :=
  { name := "g", flags := flagsIR "g" "@pedantic\ndef g(a: int, b: str = 5) -> int:\n    return 1\n", qualDotted := false,
    params := [{ name := 1, kind := .posOrKw, ann := some (.cls 2), dflt := none },
               { name := 2, kind := .posOrKw, ann := some (.cls 3), dflt := some (.lit (.int 5)) }], selfName := 0,
    firstIsSelf := false, isBound := false, retAnn := some (.cls 2), genRet := .notGenType, flavour := .sync, mode := .pedantic }
def exW : World := ⟨false, false⟩
/-- **finding `unprintableValueEscapes` (X3), as long as the return message is built before the check**: a CONFORMING result that cannot be
    formatted does not reach the caller - the formatting error escapes from the wrapper, after the body ran -/
theorem ir_unprintable_conforming_result_escapes (h : returnMsgFormattedBeforeCheck = true ∧ messagesUseSafeDescribe = false) :
    (runCallIR envW (fun _ _ => .raisedOther) exFn [] [(1, .lit (.int 1)), (2, .lit (.str [98]))] (.ret (.lit (.int 1))) exW (fun _ => true)).caller
      = .escape "format" ∧
    (runCallIR envW (fun _ _ => .raisedOther) exFn [] [(1, .lit (.int 1)), (2, .lit (.str [98]))] (.ret (.lit (.int 1))) exW (fun _ => true)).bodyRan = true := by
  first
    | exact absurd h (by decide)
    | decide
/-- … and once the message is built only on failure (and through `_describe`) the same call returns the result -/
theorem ir_unprintable_conforming_result_returned (h : returnMsgFormattedBeforeCheck = false ∧ messagesUseSafeDescribe = true) :
    (runCallIR envW (fun _ _ => .raisedOther) exFn [] [(1, .lit (.int 1)), (2, .lit (.str [98]))] (.ret (.lit (.int 1))) exW (fun _ => true)).caller = .ret := by
  first
    | exact absurd h (by decide)
    | decide
/-- a NON-conforming argument that cannot be formatted: the formatting error instead of PedanticTypeCheckException, while the messages
    interpolate the value directly -/
theorem ir_unprintable_bad_argument_escapes (h : assertMsgSafe = false) :
    (runCallIR envW (fun _ _ => .raisedOther) exFn [] [(1, .lit (.str [97])), (2, .lit (.str [98]))] (.ret (.lit (.int 1))) exW (fun _ => true)).caller
      = .escape "format" := by
  first
    | exact absurd h (by decide)
    | decide
theorem ir_unprintable_bad_argument_rejected (h : messagesUseSafeDescribe = true) :
    (runCallIR envW (fun _ _ => .raisedOther) exFn [] [(1, .lit (.str [97])), (2, .lit (.str [98]))] (.ret (.lit (.int 1))) exW (fun _ => true)).caller
      = .pedTypeCheck := by
  first
    | exact absurd h (by decide)
    | decide

/-! ## the receiver of a method passed by keyword (`K.m(self=k, a=1)`) -/
/-- `@pedantic def m(self, a: int) -> int` in a class -/
def exMeth : Fn :=
  { exFn with
    name := "m"
    qualDotted := true
    firstIsSelf := true
    params := [{ name := 0, kind := .posOrKw, ann := none, dflt := none }, { name := 1, kind := .posOrKw, ann := some (.cls 2), dflt := none }] }
/-- **finding `receiverByKeywordIndexError` (X2.4), as long as `__init__` takes the receiver from `args[0]` only** -/
theorem ir_receiver_by_keyword_indexerror (h : receiverMayBeKeyword = false) :
    (runCallIR envW (fun _ _ => .raisedOther) exMeth [] [(0, .inst 7), (1, .lit (.int 1))] (.ret (.lit (.int 1))) exW).caller = .escape "IndexError" := by
  first
    | exact absurd h (by decide)
    | decide
theorem ir_receiver_by_keyword_accepted (h : receiverMayBeKeyword = true) :
    (runCallIR envW (fun _ _ => .raisedOther) exMeth [] [(0, .inst 7), (1, .lit (.int 1))] (.ret (.lit (.int 1))) exW).caller = .ret ∧
    (runCallIR envW (fun _ _ => .raisedOther) exMeth [] [(0, .inst 7), (1, .lit (.str [97]))] (.ret (.lit (.int 1))) exW).caller = .pedTypeCheck := by
  first
    | exact absurd h (by decide)
    | decide

/-! ## non-vacuity: the interpretation runs, on concrete calls, through every outcome class -/
example : (runCallIR envW (fun _ _ => .raisedOther) exFn [] [(1, .lit (.int 1)), (2, .lit (.str [98]))] (.ret (.lit (.int 1))) exW).caller = .ret ∧
    (runCallIR envW (fun _ _ => .raisedOther) exFn [] [(1, .lit (.int 1)), (2, .lit (.str [98]))] (.ret (.lit (.int 1))) exW).bodyRan = true := by decide
-- the declared default `5` of `b: str` is checked when `b` is omitted
example : (runCallIR envW (fun _ _ => .raisedOther) exFn [] [(1, .lit (.int 1))] (.ret (.lit (.int 1))) exW).caller = .pedTypeCheck ∧
    (runCallIR envW (fun _ _ => .raisedOther) exFn [] [(1, .lit (.int 1))] (.ret (.lit (.int 1))) exW).bodyRan = false := by decide
example : (runCallIR envW (fun _ _ => .raisedOther) exFn [.lit (.int 1)] [] (.ret (.lit (.int 1))) exW).caller = .pedCallWithArgs := by decide
example : (runCallIR envW (fun _ _ => .raisedOther) exFn [] [(1, .lit (.int 1)), (2, .lit (.str [98]))] (.ret (.lit (.str []))) exW).caller = .pedTypeCheck ∧
    (runCallIR envW (fun _ _ => .raisedOther) exFn [] [(1, .lit (.int 1)), (2, .lit (.str [98]))] (.ret (.lit (.str []))) exW).bodyRan = true := by decide
example : (runCallIR envW (fun _ _ => .raisedOther) exFn [] [(1, .lit (.int 1)), (2, .lit (.str [98]))] (.raises 7) exW).caller = .bodyExc 7 := by decide
example : (runCallIR envW (fun _ _ => .raisedOther) exFn [] [(2, .lit (.str [98]))] (.ret (.lit (.int 1))) exW).caller = .pedTypeCheck := by decide   -- "is unfilled"
example : (runCallIR envW (fun _ _ => .raisedOther) { exFn with mode := .requireKwargs } [] [(9, .lit (.int 1))] (.ret (.lit (.int 1))) exW).caller = .bindTypeError := by decide
-- the path of the first example: wrapper, __init__, assert_uses_kwargs (args_without_self inside its guard), check_types, …
example : ((runCallTraced envW (fun _ _ => .raisedOther) exFn [] [(1, .lit (.int 1)), (2, .lit (.str [98]))] (.ret (.lit (.int 1))) exW).2.take 4) = [2700, 2701, 100, 101] := by decide
example : flagsIR "g" "@staticmethod\n@pedantic\ndef g(*args: int) -> int:  # x\n    return 1\n" = ⟨true, true, false, true, 2⟩ := by decide

end PedVerif.CallIR
