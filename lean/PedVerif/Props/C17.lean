import PedVerif.Spec.Subproc
/-!
# C17 — in_subprocess: faithful result, own result, non-blocking, always terminates, releases everything

All theorems are about `PedVerif.Gen.Subproc.prog` — the instruction list the translator compiled from the *current*
source of `calculate_in_subprocess` — and the flags it read off `_inner`.  The finite facts about one invocation are
checked by evaluation on the computed reachable set of the local machine (`local_ok`, `decide +kernel`); everything
about **any number of concurrent invocations, any assignment of callee behaviours / child deaths and any interleaving**
is proved from them by induction (invariant `WF` of the global machine with the fd-keyed selector map).
-/
namespace PedVerif.Subproc
open PedVerif.Gen.Subproc

/-! ## facts about one invocation, checked on the reachable set -/

def cfgs : List (Beh × Bool) :=
  [(.sendOk, false), (.sendOk, true), (.sendErr, false), (.sendErr, true), (.die, false), (.die, true),
   (.dieMidSend, false), (.dieMidSend, true)]

theorem cfgs_all (b : Beh) (big : Bool) : (b, big) ∈ cfgs := by cases b <;> cases big <;> decide

/-- what a parent step may do to the fields the shared tables depend on -/
def effOk (s t : St) : Eff → Bool
  | .none => t.reader == s.reader && t.rxOpen == s.rxOpen && t.parentTx == s.parentTx
  | .allocPipe => !s.rxOpen && !s.parentTx && !s.reader && t.rxOpen && t.parentTx && !t.reader
  | .freeTx => s.parentTx && !t.parentTx && t.reader == s.reader && t.rxOpen == s.rxOpen
  | .addReader => s.rxOpen && t.rxOpen && t.reader && t.parentTx == s.parentTx
  | .removeReader => s.rxOpen && t.rxOpen && !t.reader && t.parentTx == s.parentTx
  | .freeRx => s.rxOpen && !t.rxOpen && !s.reader && !t.reader && t.parentTx == s.parentTx
  | .start => t.reader == s.reader && t.rxOpen == s.rxOpen && t.parentTx == s.parentTx

def frameOk (s t : St) : Bool := t.reader == s.reader && t.rxOpen == s.rxOpen && t.parentTx == s.parentTx

/-- the outcome the protocol must produce for a child behaviour -/
def outOk : Beh → Option Outcome → Bool
  | .sendOk, o => o == some .retOk
  | .sendErr, o => o == some .raisedCallee
  | .die, o => o == some .raisedCPE
  | .dieMidSend, o => o == some .raisedErr || o == some .retOk

/-- … and for an invocation whose awaiting task was cancelled: the cancellation, nothing else -/
def outOkC (b : Beh) (s : St) : Bool := if s.cancelled then s.out == some .cancelled else outOk b s.out

def isWait (P : List Instr) (s : St) : Bool :=
  match P[s.pc]? with | some i => i.op == .pollWait || i.op == .selectWait || i.op == .wait | none => false

def isJoin (P : List Instr) (s : St) : Bool := match P[s.pc]? with | some i => i.op == .join | none => false

/-- everything we need to know about one reachable local state, clause by clause -/
-- closed (cancellations by the environment included); every step decreases the rank
def okClosed (P : List Instr) (Rk : List Nat) (b : Beh) (big : Bool) (R : Buckets) (s : St) : Bool :=
  (next P b big s).all (fun t => memB R t && decide (rank Rk t < rank Rk s))
-- never stuck before the end: a step of its own (parent, child, event loop), not a cancellation
def okProgress (P : List Instr) (b : Beh) (big : Bool) (s : St) : Bool := s.final || !(sysNext P b big s).isEmpty
-- at the end — cancelled or not —: everything released, the right outcome
def okFinal (b : Beh) (s : St) : Bool := !s.final || (s.released && outOkC b s)
def okEff (P : List Instr) (s : St) : Bool := match parentStep P s with | some (t, eff) => effOk s t eff | none => true
def okChildFrame (b : Beh) (big : Bool) (s : St) : Bool := match childStep b big s with | some t => frameOk s t | none => true
-- a cancellation touches no table by itself
def okCancelFrame (P : List Instr) (s : St) : Bool := match cancelStep P s with | some t => frameOk s t | none => true
-- the reader is removed before rx is closed
def okReader (s : St) : Bool := !s.reader || s.rxOpen
-- the only synchronous wait: join after the child has sent
def okSync (P : List Instr) (s : St) : Bool := !syncBlocked P s || (isJoin P s && s.cpc == .sent)
-- suspended only at an `await event.wait()`
def okParked (P : List Instr) (s : St) : Bool := !s.parked || isWait P s
-- a synchronous wait ends with the exit of the invocation's own child and with nothing else: that step is enabled, after it the parent
-- can go on, and every other step of the invocation (and a cancellation cannot happen: the coroutine is not suspended) leaves it blocked
def okUnblock (P : List Instr) (b : Beh) (big : Bool) (s : St) : Bool :=
  !syncBlocked P s ||
    ((childStep b big s).isSome && (childStep b big s).all (fun t => t.cpc == .exited && (parentStep P t).isSome && !syncBlocked P t)
      && (next P b big s).all (fun t => t.cpc == .exited || syncBlocked P t))
-- no local step makes a foreign copy of the write end
def okNoForeign (s : St) : Bool := !s.foreignTx

def stateOk (P : List Instr) (Rk : List Nat) (b : Beh) (big : Bool) (R : Buckets) (s : St) : Bool :=
  [okClosed P Rk b big R s, okProgress P b big s, okFinal b s, okEff P s, okChildFrame b big s, okCancelFrame P s, okReader s,
   okSync P s, okParked P s, okUnblock P b big s, okNoForeign s].all id

/-- the checks of `stateOk` that do not involve cancellation, on the states a protocol reaches by itself -/
def sysCheck (P : List Instr) (Rk : List Nat) (b : Beh) (big : Bool) : Bool :=
  (reachSysB P b big).all (fun bk => bk.all fun s =>
    (sysNext P b big s).all (fun t => memB (reachSysB P b big) t && decide (rank Rk t < rank Rk s))
    && (s.final || !(sysNext P b big s).isEmpty) && (!s.final || (s.released && outOk b s.out)))

def localCheck (P : List Instr) (Rk : List Nat) (c : Beh × Bool) : Bool :=
  memB (reachB P c.1 c.2) St.init && (reachB P c.1 c.2).all (fun bk => bk.all (stateOk P Rk c.1 c.2 (reachB P c.1 c.2)))

/-- **the finite core**: for every child behaviour, on the reachable set of the generated protocol -/
theorem local_ok : cfgs.all (localCheck prog progRank) = true := by decide +kernel

/-- reachable local states of an invocation with child behaviour `b` -/
def LReach (b : Beh) (big : Bool) (s : St) : Prop := s ∈ reach prog b big

theorem lcheck (b : Beh) (big : Bool) : localCheck prog progRank (b, big) = true := by
  have h := local_ok
  rw [List.all_eq_true] at h
  exact h _ (cfgs_all b big)

/-- `memB` is membership: the bucketing only decides which states are compared -/
theorem memB_sound {R : Buckets} {t : St} (h : memB R t = true) : t ∈ R.flatten := by
  unfold memB at h
  split at h
  · next bk hbk =>
    simp only [List.any_eq_true, beq_iff_eq] at h
    obtain ⟨p, hp, rfl⟩ := h
    exact List.mem_flatten.2 ⟨bk, List.mem_of_getElem? hbk, hp⟩
  · simp at h

theorem init_reach (b : Beh) (big : Bool) : LReach b big St.init := by
  have h := lcheck b big
  simp only [localCheck, Bool.and_eq_true] at h
  exact memB_sound h.1

theorem state_ok {b : Beh} {big : Bool} {s : St} (hs : LReach b big s) :
    stateOk prog progRank b big (reachB prog b big) s = true := by
  have h := lcheck b big
  simp only [localCheck, Bool.and_eq_true, List.all_eq_true] at h
  obtain ⟨bk, hbk, hs'⟩ := List.mem_flatten.1 hs
  exact h.2 bk hbk s hs'

/-- one clause of `stateOk` -/
theorem state_ok_clause {b : Beh} {big : Bool} {s : St} (hs : LReach b big s) (c : Bool)
    (hc : c ∈ [okClosed prog progRank b big (reachB prog b big) s, okProgress prog b big s, okFinal b s, okEff prog s, okChildFrame b big s,
               okCancelFrame prog s, okReader s, okSync prog s, okParked prog s, okUnblock prog b big s, okNoForeign s]) : c = true := by
  have h := state_ok hs
  simp only [stateOk, List.all_eq_true] at h
  exact h c hc

theorem local_closed {b big s t} (hs : LReach b big s) (ht : t ∈ next prog b big s) : LReach b big t := by
  have h := state_ok_clause hs (okClosed prog progRank b big (reachB prog b big) s) (by simp)
  simp only [okClosed, Bool.and_eq_true, List.all_eq_true, decide_eq_true_eq] at h
  exact memB_sound (h t ht).1

theorem local_rank {b big s t} (hs : LReach b big s) (ht : t ∈ next prog b big s) : rank progRank t < rank progRank s := by
  have h := state_ok_clause hs (okClosed prog progRank b big (reachB prog b big) s) (by simp)
  simp only [okClosed, Bool.and_eq_true, List.all_eq_true, decide_eq_true_eq] at h
  exact (h t ht).2

theorem sys_in_next {P : List Instr} {b : Beh} {big : Bool} {s t : St} (h : t ∈ sysNext P b big s) : t ∈ next P b big s := by
  simp [next, h]

/-- a pending invocation has a step of its own — of its parent, its child or the event loop; not merely a cancellation -/
theorem local_progress {b big s} (hs : LReach b big s) (hnf : s.final = false) : ∃ t, t ∈ sysNext prog b big s := by
  have h := state_ok_clause hs (okProgress prog b big s) (by simp)
  simp [okProgress, hnf] at h
  exact List.exists_mem_of_ne_nil _ h

theorem local_final {b big s} (hs : LReach b big s) (hf : s.final = true) : s.released = true ∧ outOkC b s = true := by
  have h := state_ok_clause hs (okFinal b s) (by simp)
  simpa [okFinal, hf] using h

theorem local_eff {b big s t eff} (hs : LReach b big s) (hp : parentStep prog s = some (t, eff)) : effOk s t eff = true := by
  have h := state_ok_clause hs (okEff prog s) (by simp)
  simpa [okEff, hp] using h

theorem local_child_frame {b big s t} (hs : LReach b big s) (hc : childStep b big s = some t) : frameOk s t = true := by
  have h := state_ok_clause hs (okChildFrame b big s) (by simp)
  simpa [okChildFrame, hc] using h

theorem local_cancel_frame {b big s t} (hs : LReach b big s) (hc : cancelStep prog s = some t) : frameOk s t = true := by
  have h := state_ok_clause hs (okCancelFrame prog s) (by simp)
  simpa [okCancelFrame, hc] using h

theorem local_reader_open {b big s} (hs : LReach b big s) (hr : s.reader = true) : s.rxOpen = true := by
  have h := state_ok_clause hs (okReader s) (by simp)
  simpa [okReader, hr] using h

theorem local_sync {b big s} (hs : LReach b big s) (hb : syncBlocked prog s = true) : isJoin prog s = true ∧ s.cpc = .sent := by
  have h := state_ok_clause hs (okSync prog s) (by simp)
  simpa [okSync, hb] using h

theorem local_parked {b big s} (hs : LReach b big s) (hp : s.parked = true) : isWait prog s = true := by
  have h := state_ok_clause hs (okParked prog s) (by simp)
  simpa [okParked, hp] using h

theorem local_unblock {b big s} (hs : LReach b big s) (hb : syncBlocked prog s = true) :
    (∃ t, childStep b big s = some t ∧ t.cpc = .exited ∧ (parentStep prog t).isSome = true ∧ syncBlocked prog t = false) ∧
    (∀ t ∈ next prog b big s, t.cpc = .exited ∨ syncBlocked prog t = true) := by
  have h := state_ok_clause hs (okUnblock prog b big s) (by simp)
  simp only [okUnblock, hb, Bool.not_true, Bool.false_or, Bool.and_eq_true, List.all_eq_true, Bool.or_eq_true, beq_iff_eq] at h
  obtain ⟨⟨h1, h2⟩, h3⟩ := h
  refine ⟨?_, h3⟩
  cases hc : childStep b big s with
  | none => simp [hc] at h1
  | some t =>
    simp only [hc, Option.all_some, Bool.and_eq_true, beq_iff_eq, Bool.not_eq_true'] at h2
    exact ⟨t, rfl, h2.1.1, h2.1.2, h2.2⟩

theorem local_no_foreign {b big s} (hs : LReach b big s) : s.foreignTx = false := by
  have h := state_ok_clause hs (okNoForeign s) (by simp)
  simpa [okNoForeign] using h

/-! ## the global machine: list and table lemmas -/

theorem get_set {α : Type} {xs : List α} {i : Nat} {a : α} (x : α) (h : xs[i]? = some a) (j : Nat) :
    (xs.set i x)[j]? = if i = j then some x else xs[j]? := by
  have hlt : i < xs.length := (List.getElem?_eq_some_iff.1 h).1
  rw [List.getElem?_set]
  split
  · simp
  · rfl

theorem maxOf_ge {xs : List Nat} {x : Nat} (h : x ∈ xs) : x ≤ maxOf xs := by
  induction xs with
  | nil => simp at h
  | cons y ys ih =>
    simp only [List.mem_cons] at h
    simp only [maxOf]
    rcases h with rfl | h
    · omega
    · have := ih h; omega

/-- the allocator returns an fd number that is not in use -/
theorem lowestFree_fresh (used : List Nat) : lowestFree used ∉ used := by
  unfold lowestFree
  split
  · next n hn => have := List.find?_some hn; simpa using this
  · intro h; have := maxOf_ge h; omega

/-- … also above any number of descriptors the process holds besides -/
theorem allocFd_fresh (base : Nat) (used : List Nat) : allocFd base used ∉ used := by
  intro h
  apply lowestFree_fresh ((used.filter (fun u => base ≤ u)).map (fun u => u - base))
  simp only [List.mem_map, List.mem_filter, decide_eq_true_eq]
  exact ⟨allocFd base used, ⟨h, by simp [allocFd]⟩, by simp [allocFd]⟩

theorem allocFd_ge (base : Nat) (used : List Nat) : base ≤ allocFd base used := by simp [allocFd]

theorem rx_mem_used {invs : List Loc} {j : Nat} {lj : Loc} {fd : Nat} (h : invs[j]? = some lj) (hrx : lj.rx = some fd) :
    fd ∈ usedFds invs := by
  simp only [usedFds, List.mem_flatMap]
  exact ⟨lj, List.mem_of_getElem? h, by simp [hrx]⟩

theorem mem_tblErase {fd : Nat} {t : List Entry} {e : Entry} : e ∈ tblErase fd t ↔ e ∈ t ∧ e.fd ≠ fd := by
  simp [tblErase]

theorem mem_tblPut {fd o : Nat} {t : List Entry} (hlive : ∀ e ∈ t, e.fd = fd → e.live = true) {e : Entry} :
    e ∈ tblPut fd o t ↔ e = ⟨fd, o, true⟩ ∨ (e ∈ t ∧ e.fd ≠ fd) := by
  unfold tblPut
  split
  · next old hold =>
    have hm := List.mem_of_find?_eq_some hold
    have hp := List.find?_some hold
    have hl := hlive old hm (by simpa using hp)
    simp [hl, mem_tblErase]
  · next hnone =>
    rw [List.find?_eq_none] at hnone
    simp only [List.mem_cons]
    constructor
    · rintro (h | h)
      · exact Or.inl h
      · exact Or.inr ⟨h, by have := hnone e h; simpa using this⟩
    · rintro (h | h)
      · exact Or.inl h
      · exact Or.inr h.1

theorem tblMarkDead_id {fd : Nat} {t : List Entry} (h : ∀ e ∈ t, e.fd ≠ fd) : tblMarkDead fd t = t := by
  unfold tblMarkDead
  induction t with
  | nil => rfl
  | cons x xs ih =>
    have hx := h x (by simp)
    simp only [List.map_cons]
    rw [ih (fun e he => h e (by simp [he]))]
    simp [hx]

/-! ## invariant of the global machine -/

/-- the local state of an invocation is a reachable state of the local machine for its child behaviour -/
def LR (l : Loc) : Prop := LReach (childBeh l.callee) l.big l.st

/-- **table invariant**: fd numbers of open read ends are pairwise distinct, and the selector map holds exactly one
    live entry per registered invocation, at the fd number that invocation currently owns -/
structure WF (g : G) : Prop where
  reach : ∀ (i : Nat) (l : Loc), g.invs[i]? = some l → LR l
  rxIff : ∀ (i : Nat) (l : Loc), g.invs[i]? = some l → l.rx.isSome = l.st.rxOpen
  txIff : ∀ (i : Nat) (l : Loc), g.invs[i]? = some l → l.tx.isSome = l.st.parentTx
  rxInj : ∀ (i j : Nat) (li lj : Loc) (fd : Nat), g.invs[i]? = some li → g.invs[j]? = some lj → li.rx = some fd → lj.rx = some fd → i = j
  entOk : ∀ e ∈ g.tbl, e.live = true ∧ ∃ l : Loc, g.invs[e.owner]? = some l ∧ l.rx = some e.fd ∧ l.st.reader = true
  rdOk : ∀ (i : Nat) (l : Loc), g.invs[i]? = some l → l.st.reader = true → ∃ fd, l.rx = some fd ∧ (⟨fd, i, true⟩ : Entry) ∈ g.tbl

/-- replacing invocation `i` and the table keeps the invariant, under the obligations listed -/
theorem wf_update {g : G} (hwf : WF g) {i : Nat} {l l' : Loc} {tbl' : List Entry}
    (hi : g.invs[i]? = some l) (hreach : LR l')
    (hrx : l'.rx.isSome = l'.st.rxOpen) (htx : l'.tx.isSome = l'.st.parentTx)
    (hfresh : ∀ fd, l'.rx = some fd → l.rx = some fd ∨ (∀ (j : Nat) (lj : Loc), g.invs[j]? = some lj → lj.rx ≠ some fd))
    (hent : ∀ e ∈ tbl', e.live = true ∧ ((e.owner = i ∧ l'.rx = some e.fd ∧ l'.st.reader = true) ∨ (e.owner ≠ i ∧ e ∈ g.tbl)))
    (hrdi : l'.st.reader = true → ∃ fd, l'.rx = some fd ∧ (⟨fd, i, true⟩ : Entry) ∈ tbl')
    (hrdo : ∀ e ∈ g.tbl, e.owner ≠ i → e ∈ tbl') :
    WF { invs := g.invs.set i l', tbl := tbl' } := by
  have gs := fun j => get_set l' hi j
  refine ⟨?_, ?_, ?_, ?_, ?_, ?_⟩
  · intro j lj hj
    rw [gs j] at hj
    split at hj
    · cases hj; exact hreach
    · exact hwf.reach j lj hj
  · intro j lj hj
    rw [gs j] at hj
    split at hj
    · cases hj; exact hrx
    · exact hwf.rxIff j lj hj
  · intro j lj hj
    rw [gs j] at hj
    split at hj
    · cases hj; exact htx
    · exact hwf.txIff j lj hj
  · intro a b la lb fd ha hb hra hrb
    rw [gs a] at ha
    rw [gs b] at hb
    split at ha <;> split at hb
    · omega
    · next hia hib =>
      cases ha
      rcases hfresh fd hra with h | h
      · have := hwf.rxInj i b l lb fd hi hb h hrb; omega
      · exact absurd hrb (h b lb hb)
    · next hia hib =>
      cases hb
      rcases hfresh fd hrb with h | h
      · have := hwf.rxInj a i la l fd ha hi hra h; omega
      · exact absurd hra (h a la ha)
    · exact hwf.rxInj a b la lb fd ha hb hra hrb
  · intro e he
    obtain ⟨hl, h⟩ := hent e he
    refine ⟨hl, ?_⟩
    rcases h with ⟨ho, hr, hrd⟩ | ⟨ho, hm⟩
    · exact ⟨l', by rw [gs e.owner]; simp [ho], hr, hrd⟩
    · obtain ⟨_, lo, hlo, h1, h2⟩ := hwf.entOk e hm
      refine ⟨lo, ?_, h1, h2⟩
      rw [gs e.owner]
      have : ¬ i = e.owner := fun h => ho h.symm
      simp [this, hlo]
  · intro j lj hj hr
    rw [gs j] at hj
    split at hj
    · next hij => cases hj; subst hij; exact hrdi hr
    · next hij =>
      obtain ⟨fd, h1, h2⟩ := hwf.rdOk j lj hj hr
      exact ⟨fd, h1, hrdo _ h2 (fun h => hij h.symm)⟩

/-- the common case: the table is untouched, and a registered invocation keeps its fd and its registration -/
theorem wf_same_tbl {g : G} (hwf : WF g) {i : Nat} {l l' : Loc}
    (hi : g.invs[i]? = some l) (hreach : LR l')
    (hrx : l'.rx.isSome = l'.st.rxOpen) (htx : l'.tx.isSome = l'.st.parentTx)
    (hfresh : ∀ fd, l'.rx = some fd → l.rx = some fd ∨ (∀ (j : Nat) (lj : Loc), g.invs[j]? = some lj → lj.rx ≠ some fd))
    (hrd : l'.st.reader = l.st.reader) (hkeep : l.st.reader = true → l'.rx = l.rx) :
    WF { invs := g.invs.set i l', tbl := g.tbl } := by
  refine wf_update hwf hi hreach hrx htx hfresh ?_ ?_ (fun e he _ => he)
  · intro e he
    obtain ⟨hl, lo, hlo, h1, h2⟩ := hwf.entOk e he
    refine ⟨hl, ?_⟩
    by_cases ho : e.owner = i
    · left
      rw [ho, hi] at hlo
      cases hlo
      exact ⟨ho, by rw [hkeep h2]; exact h1, by rw [hrd]; exact h2⟩
    · right; exact ⟨ho, he⟩
  · intro hr
    rw [hrd] at hr
    obtain ⟨fd, h1, h2⟩ := hwf.rdOk i l hi hr
    exact ⟨fd, by rw [hkeep hr]; exact h1, h2⟩

/-! ## steps of the global machine keep the invariant -/

/-! ### no child inherits another invocation's write end (generated fact) — a step rewrites ONE invocation -/

/-- the coroutine is never suspended between `Pipe()` and the parent's `tx.close()` (generated fact `awaitsWhileWriteEndOpen = []`),
    so no child is forked while another invocation's write end is open in the parent -/
theorem inheritOthers_false : inheritOthers = false := by decide

theorem postExit_false (i : Nat) (s t : St) (g : G) : postExit false i s t g = g := by
  simp [postExit, releaseHeir]

/-- what a parent step does to the global state, given that fact: the invocation's own entry and the reader table -/
def applyEffC (r w : Nat) (i : Nat) (l : Loc) (t : St) (eff : Eff) (g : G) : G :=
  match eff with
  | .none => { g with invs := g.invs.set i { l with st := t } }
  | .start => { g with invs := g.invs.set i { l with st := t } }
  | .allocPipe =>
      { g with invs := g.invs.set i { l with st := { t with rxHigh := decide (fdSetSize ≤ r) }, rx := some r, tx := some w } }
  | .freeTx => { g with invs := g.invs.set i { l with st := t, tx := none } }
  | .addReader =>
      { invs := g.invs.set i { l with st := t },
        tbl := match l.rx with | some fd => tblPut fd i g.tbl | none => g.tbl }
  | .removeReader =>
      { invs := g.invs.set i { l with st := t },
        tbl := match l.rx with | some fd => tblErase fd g.tbl | none => g.tbl }
  | .freeRx =>
      { invs := g.invs.set i { l with st := t, rx := none },
        tbl := match l.rx with | some fd => tblMarkDead fd g.tbl | none => g.tbl }

theorem applyEff_eq (r w i : Nat) (l : Loc) (t : St) (eff : Eff) (g : G) : applyEff r w i l t eff g = applyEffC r w i l t eff g := by
  cases eff <;> simp [applyEff, applyEffI, applyEffC, inheritOthers_false, postExit_false, applyStart] <;> rfl

theorem gParent_some {i r w : Nat} {g g' : G} (h : gParentAt prog i r w g = some g') :
    ∃ l t eff, g.invs[i]? = some l ∧ parentStep prog l.st = some (t, eff) ∧ g' = applyEffC r w i l t eff g := by
  unfold gParentAt gParentAtI at h
  split at h
  · simp at h
  · next l hl =>
    split at h
    · simp at h
    · next t eff hp =>
      refine ⟨l, t, eff, hl, hp, ?_⟩
      rw [← applyEff_eq]
      simpa [applyEff] using h.symm

theorem gCancel_some {i : Nat} {g g' : G} (h : gCancel prog i g = some g') :
    ∃ l t, g.invs[i]? = some l ∧ cancelStep prog l.st = some t ∧ g' = { g with invs := g.invs.set i { l with st := t } } := by
  unfold gCancel at h
  split at h
  · simp at h
  · next l hl =>
    split at h
    · simp at h
    · next t hc => exact ⟨l, t, hl, hc, by simpa using h.symm⟩

theorem gChild_some {i : Nat} {g g' : G} (h : gChild i g = some g') :
    ∃ l t, g.invs[i]? = some l ∧ childStep (childBeh l.callee) l.big l.st = some t ∧
      g' = { g with invs := g.invs.set i { l with st := t } } := by
  unfold gChild gChildI at h
  split at h
  · simp at h
  · next l hl =>
    split at h
    · simp at h
    · next t hc => exact ⟨l, t, hl, hc, by simpa [inheritOthers_false, postExit_false] using h.symm⟩

theorem gCallback_some {k : Nat} {g g' : G} (h : gCallback k g = some g') :
    ∃ e p o, g.tbl[k]? = some e ∧ e.live = true ∧ g.invs.find? (fun l => l.rx == some e.fd) = some p ∧
      p.st.readable = true ∧ g.invs[e.owner]? = some o ∧ o.st.event = false ∧
      g' = { g with invs := g.invs.set e.owner { o with st := { o.st with event := true } } } := by
  unfold gCallback at h
  split at h
  · simp at h
  · next e he =>
    split at h
    · simp at h
    · next hlive =>
      split at h
      · simp at h
      · next p hp =>
        split at h
        · simp at h
        · next hread =>
          split at h
          · simp at h
          · next o ho =>
            split at h
            · simp at h
            · next hev =>
              refine ⟨e, p, o, he, by simpa using hlive, hp, by simpa using hread, ho, by simpa using hev, by simpa using h.symm⟩

theorem parent_in_next {b : Beh} {big : Bool} {s t : St} {eff : Eff} (h : parentStep prog s = some (t, eff)) (hne : eff ≠ .allocPipe) :
    t ∈ next prog b big s := by
  simp [next, sysNext, parentNext, h, hne]

/-- the step that makes the pipe: both descriptor ranges are successors -/
theorem parent_alloc_in_next {b : Beh} {big : Bool} {s t : St} (h : parentStep prog s = some (t, .allocPipe)) (hi : Bool) :
    { t with rxHigh := hi } ∈ next prog b big s := by
  cases hi <;> simp [next, sysNext, parentNext, h]

theorem parentNext_some {P : List Instr} {s t : St} (h : t ∈ parentNext P s) : ∃ r, parentStep P s = some r := by
  unfold parentNext at h
  split at h
  · simp at h
  · next t' eff hp => exact ⟨_, hp⟩

theorem child_in_next {b : Beh} {big : Bool} {s t : St} (h : childStep b big s = some t) : t ∈ next prog b big s := by
  simp [next, sysNext, h]

theorem loop_in_next {b : Beh} {big : Bool} {s t : St} (h : loopStep s = some t) : t ∈ next prog b big s := by
  simp [next, sysNext, h]

theorem cancel_in_next {b : Beh} {big : Bool} {s t : St} (h : cancelStep prog s = some t) : t ∈ next prog b big s := by
  simp [next, h]

/-- under the invariant, the pipe whose readability triggers the callback of entry `e` is the pipe of `e.owner` -/
theorem callback_owner {g : G} (hwf : WF g) {e : Entry} {p o : Loc} (he : e ∈ g.tbl)
    (hp : g.invs.find? (fun l => l.rx == some e.fd) = some p) (ho : g.invs[e.owner]? = some o) :
    p = o ∧ o.rx = some e.fd ∧ o.st.reader = true := by
  obtain ⟨_, lo, hlo, h1, h2⟩ := hwf.entOk e he
  rw [ho] at hlo; cases hlo
  have hpm := List.mem_of_find?_eq_some hp
  have hpp := List.find?_some hp
  obtain ⟨j, hj⟩ := List.getElem?_of_mem hpm
  have hprx : p.rx = some e.fd := by simpa using hpp
  have := hwf.rxInj j e.owner p o e.fd hj ho hprx h1
  subst this
  rw [ho] at hj; cases hj
  exact ⟨rfl, h1, h2⟩

theorem wf_parent {g g' : G} (hwf : WF g) {i r w : Nat} (hr : r ∉ usedFds g.invs) (h : gParentAt prog i r w g = some g') : WF g' := by
  obtain ⟨l, t, eff, hi, hp, rfl⟩ := gParent_some h
  have hlr := hwf.reach i l hi
  have hrx := hwf.rxIff i l hi
  have htx := hwf.txIff i l hi
  have heff := local_eff hlr hp
  have hreach' : eff ≠ .allocPipe → LReach (childBeh l.callee) l.big t := fun hne => local_closed hlr (parent_in_next hp hne)
  -- entries at another invocation's fd do not exist
  have hown : ∀ e ∈ g.tbl, ∀ fd, l.rx = some fd → e.fd = fd → e.owner = i := by
    intro e he fd hfd hefd
    obtain ⟨_, lo, hlo, h1, _⟩ := hwf.entOk e he
    exact hwf.rxInj e.owner i lo l fd hlo hi (by rw [h1, hefd]) hfd
  have hownrd : ∀ e ∈ g.tbl, e.owner = i → l.st.reader = true ∧ l.rx = some e.fd := by
    intro e he ho
    obtain ⟨_, lo, hlo, h1, h2⟩ := hwf.entOk e he
    rw [ho, hi] at hlo; cases hlo
    exact ⟨h2, h1⟩
  cases eff with
  | none =>
    have hreach' := hreach' (by decide)
    simp only [effOk, Bool.and_eq_true, beq_iff_eq] at heff
    exact wf_same_tbl hwf hi hreach' (by simp [hrx, heff.1.2]) (by simp [htx, heff.2]) (fun fd h => Or.inl h) heff.1.1 (fun _ => rfl)
  | freeTx =>
    have hreach' := hreach' (by decide)
    simp only [effOk, Bool.and_eq_true, beq_iff_eq, Bool.not_eq_true'] at heff
    exact wf_same_tbl hwf hi hreach' (by simp [hrx, heff.2]) (by simp [heff.1.1.2]) (fun fd h => Or.inl h) heff.1.2 (fun _ => rfl)
  | start =>
    have hreach' := hreach' (by decide)
    simp only [effOk, Bool.and_eq_true, beq_iff_eq] at heff
    exact wf_same_tbl hwf hi hreach' (by simp [hrx, heff.1.2]) (by simp [htx, heff.2]) (fun fd h => Or.inl h) heff.1.1 (fun _ => rfl)
  | allocPipe =>
    have hreachA : LReach (childBeh l.callee) l.big { t with rxHigh := decide (fdSetSize ≤ r) } :=
      local_closed hlr (parent_alloc_in_next hp _)
    simp only [effOk, Bool.and_eq_true, Bool.not_eq_true'] at heff
    refine wf_same_tbl hwf hi hreachA (by simp [heff.1.1.2]) (by simp [heff.1.2]) ?_ (by simp [heff.2, heff.1.1.1.2]) ?_
    · intro fd hfd
      right
      intro j lj hj hrj
      have hmem := rx_mem_used hj hrj
      simp only [Option.some.injEq] at hfd
      rw [← hfd] at hmem
      exact hr hmem
    · intro hrd; rw [heff.1.1.1.2] at hrd; cases hrd
  | addReader =>
    have hreach' := hreach' (by decide)
    simp only [effOk, Bool.and_eq_true, beq_iff_eq] at heff
    obtain ⟨⟨⟨hso, hto⟩, htr⟩, htp⟩ := heff
    have : l.rx.isSome = true := by rw [hrx, hso]
    obtain ⟨fd, hfd⟩ := Option.isSome_iff_exists.1 this
    simp only [applyEffC, hfd]
    have hlive : ∀ e ∈ g.tbl, e.fd = fd → e.live = true := fun e he _ => (hwf.entOk e he).1
    refine wf_update hwf hi hreach' (by simp [hto]) (by simp [htx, htp]) (fun fd' h => Or.inl (by rw [hfd]; exact h)) ?_ ?_ ?_
    · intro e he
      rw [mem_tblPut hlive] at he
      rcases he with rfl | ⟨hm, hne⟩
      · exact ⟨rfl, Or.inl ⟨rfl, rfl, htr⟩⟩
      · refine ⟨(hwf.entOk e hm).1, Or.inr ⟨?_, hm⟩⟩
        intro ho
        have := (hownrd e hm ho).2
        rw [hfd] at this
        exact hne (by simpa using this.symm)
    · intro _
      exact ⟨fd, rfl, by rw [mem_tblPut hlive]; exact Or.inl rfl⟩
    · intro e he ho
      rw [mem_tblPut hlive]
      exact Or.inr ⟨he, fun hefd => ho (hown e he fd hfd hefd)⟩
  | removeReader =>
    have hreach' := hreach' (by decide)
    simp only [effOk, Bool.and_eq_true, beq_iff_eq, Bool.not_eq_true'] at heff
    obtain ⟨⟨⟨hso, hto⟩, htr⟩, htp⟩ := heff
    have : l.rx.isSome = true := by rw [hrx, hso]
    obtain ⟨fd, hfd⟩ := Option.isSome_iff_exists.1 this
    simp only [applyEffC, hfd]
    refine wf_update hwf hi hreach' (by simp [hto]) (by simp [htx, htp]) (fun fd' h => Or.inl (by rw [hfd]; exact h)) ?_ ?_ ?_
    · intro e he
      rw [mem_tblErase] at he
      refine ⟨(hwf.entOk e he.1).1, Or.inr ⟨?_, he.1⟩⟩
      intro ho
      have := (hownrd e he.1 ho).2
      rw [hfd] at this
      exact he.2 (by simpa using this.symm)
    · intro hr; simp [htr] at hr
    · intro e he ho
      rw [mem_tblErase]
      exact ⟨he, fun hefd => ho (hown e he fd hfd hefd)⟩
  | freeRx =>
    have hreach' := hreach' (by decide)
    simp only [effOk, Bool.and_eq_true, beq_iff_eq, Bool.not_eq_true'] at heff
    obtain ⟨⟨⟨⟨hso, hto⟩, hsr⟩, htr⟩, htp⟩ := heff
    have : l.rx.isSome = true := by rw [hrx, hso]
    obtain ⟨fd, hfd⟩ := Option.isSome_iff_exists.1 this
    simp only [applyEffC, hfd]
    have hno : ∀ e ∈ g.tbl, e.fd ≠ fd := by
      intro e he hefd
      have ho := hown e he fd hfd hefd
      have := (hownrd e he ho).1
      rw [hsr] at this; cases this
    rw [tblMarkDead_id hno]
    exact wf_same_tbl hwf hi hreach' (by simp [hto]) (by simp [htx, htp]) (fun fd' h => by simp at h) (by simp [htr, hsr])
      (fun hr => by rw [hsr] at hr; cases hr)

theorem wf_child {g g' : G} (hwf : WF g) {i : Nat} (h : gChild i g = some g') : WF g' := by
  obtain ⟨l, t, hi, hc, rfl⟩ := gChild_some h
  have hlr := hwf.reach i l hi
  have hf := local_child_frame hlr hc
  simp only [frameOk, Bool.and_eq_true, beq_iff_eq] at hf
  exact wf_same_tbl hwf hi (local_closed hlr (child_in_next hc)) (by simp [hwf.rxIff i l hi, hf.1.2])
    (by simp [hwf.txIff i l hi, hf.2]) (fun fd h => Or.inl h) hf.1.1 (fun _ => rfl)

/-- under the invariant a callback step is the local event-loop step of the entry's owner -/
theorem callback_local {g g' : G} (hwf : WF g) {k : Nat} (h : gCallback k g = some g') :
    ∃ e o, g.tbl[k]? = some e ∧ g.invs[e.owner]? = some o ∧ o.rx = some e.fd ∧
      loopStep o.st = some { o.st with event := true } ∧
      g' = { g with invs := g.invs.set e.owner { o with st := { o.st with event := true } } } := by
  obtain ⟨e, p, o, he, _, hp, hread, ho, hev, rfl⟩ := gCallback_some h
  obtain ⟨rfl, hrx, hrd⟩ := callback_owner hwf (List.mem_of_getElem? he) hp ho
  have hopen : p.st.rxOpen = true := by rw [← hwf.rxIff e.owner p ho, hrx]; rfl
  exact ⟨e, p, he, ho, hrx, by simp [loopStep, hrd, hopen, hread, hev], rfl⟩

theorem wf_callback {g g' : G} (hwf : WF g) {k : Nat} (h : gCallback k g = some g') : WF g' := by
  obtain ⟨e, o, _, ho, _, hl, rfl⟩ := callback_local hwf h
  have hlr := hwf.reach e.owner o ho
  exact wf_same_tbl hwf ho (local_closed hlr (loop_in_next hl)) (by simp [hwf.rxIff e.owner o ho])
    (by simp [hwf.txIff e.owner o ho]) (fun fd h => Or.inl h) rfl (fun _ => rfl)

theorem wf_cancel {g g' : G} (hwf : WF g) {i : Nat} (h : gCancel prog i g = some g') : WF g' := by
  obtain ⟨l, t, hi, hc, rfl⟩ := gCancel_some h
  have hlr := hwf.reach i l hi
  have hf := local_cancel_frame hlr hc
  simp only [frameOk, Bool.and_eq_true, beq_iff_eq] at hf
  exact wf_same_tbl hwf hi (local_closed hlr (cancel_in_next hc)) (by simp [hwf.rxIff i l hi, hf.1.2])
    (by simp [hwf.txIff i l hi, hf.2]) (fun fd h => Or.inl h) hf.1.1 (fun _ => rfl)

theorem wf_step {g g' : G} (hwf : WF g) (h : GStep prog g g') : WF g' := by
  cases h with
  | parent i r w hr _ h => exact wf_parent hwf hr h
  | child i h => exact wf_child hwf h
  | callback k h => exact wf_callback hwf h
  | cancel i h => exact wf_cancel hwf h

theorem wf_init (cs : List (Callee × Bool)) : WF (G.init cs) := by
  have hfresh : ∀ (i : Nat) (l : Loc), (G.init cs).invs[i]? = some l → ∃ c big, l = Loc.fresh c big := by
    intro i l h
    have := List.mem_of_getElem? h
    simp only [G.init, List.mem_map] at this
    obtain ⟨c, _, rfl⟩ := this
    exact ⟨c.1, c.2, rfl⟩
  refine ⟨?_, ?_, ?_, ?_, ?_, ?_⟩
  · intro i l h; obtain ⟨c, big, rfl⟩ := hfresh i l h; exact init_reach _ _
  · intro i l h; obtain ⟨c, big, rfl⟩ := hfresh i l h; rfl
  · intro i l h; obtain ⟨c, big, rfl⟩ := hfresh i l h; rfl
  · intro i j li lj fd hi _ hr _; obtain ⟨c, big, rfl⟩ := hfresh i li hi; simp [Loc.fresh] at hr
  · intro e he; simp [G.init] at he
  · intro i l h hr; obtain ⟨c, big, rfl⟩ := hfresh i l h; simp [Loc.fresh, St.init] at hr

theorem wf_run {cs : List (Callee × Bool)} {g : G} (h : GRun prog (G.init cs) g) : WF g := by
  generalize hg0 : G.init cs = g0 at h
  induction h with
  | refl => subst hg0; exact wf_init cs
  | step _ hs ih => exact wf_step ih hs

/-! ## every global step is a local step of one invocation; the sum of the local ranks decreases -/

def rankSum (invs : List Loc) : Nat := (invs.map (fun l => rank progRank l.st)).sum

theorem rankSum_set {invs : List Loc} {i : Nat} {l l' : Loc} (h : invs[i]? = some l) :
    rankSum (invs.set i l') + rank progRank l.st = rankSum invs + rank progRank l'.st := by
  induction invs generalizing i with
  | nil => simp at h
  | cons x xs ih =>
    cases i with
    | zero =>
      simp only [List.getElem?_cons_zero, Option.some.injEq] at h
      subst h
      simp only [rankSum, List.set_cons_zero, List.map_cons, List.sum_cons]; omega
    | succ n =>
      simp only [List.getElem?_cons_succ] at h
      have := ih h
      simp only [rankSum, List.set_cons_succ, List.map_cons, List.sum_cons] at *; omega

theorem gstep_local {g g' : G} (hwf : WF g) (h : GStep prog g g') :
    ∃ (i : Nat) (l l' : Loc), g.invs[i]? = some l ∧ g'.invs = g.invs.set i l' ∧ l'.callee = l.callee ∧ l'.big = l.big ∧
      l'.st ∈ next prog (childBeh l.callee) l.big l.st := by
  cases h with
  | parent i r w _ _ h =>
    obtain ⟨l, t, eff, hi, hp, rfl⟩ := gParent_some h
    cases eff with
    | allocPipe => exact ⟨i, l, _, hi, rfl, rfl, rfl, parent_alloc_in_next hp _⟩
    | none => exact ⟨i, l, _, hi, rfl, rfl, rfl, parent_in_next hp (by decide)⟩
    | freeTx => exact ⟨i, l, _, hi, rfl, rfl, rfl, parent_in_next hp (by decide)⟩
    | addReader => exact ⟨i, l, _, hi, rfl, rfl, rfl, parent_in_next hp (by decide)⟩
    | removeReader => exact ⟨i, l, _, hi, rfl, rfl, rfl, parent_in_next hp (by decide)⟩
    | freeRx => exact ⟨i, l, _, hi, rfl, rfl, rfl, parent_in_next hp (by decide)⟩
    | start => exact ⟨i, l, _, hi, rfl, rfl, rfl, parent_in_next hp (by decide)⟩
  | child i h =>
    obtain ⟨l, t, hi, hc, rfl⟩ := gChild_some h
    exact ⟨i, l, _, hi, rfl, rfl, rfl, child_in_next hc⟩
  | callback k h =>
    obtain ⟨e, o, _, ho, _, hl, rfl⟩ := callback_local hwf h
    exact ⟨e.owner, o, _, ho, rfl, rfl, rfl, loop_in_next hl⟩
  | cancel i h =>
    obtain ⟨l, t, hi, hc, rfl⟩ := gCancel_some h
    exact ⟨i, l, _, hi, rfl, rfl, rfl, cancel_in_next hc⟩

theorem gstep_rank {g g' : G} (hwf : WF g) (h : GStep prog g g') : rankSum g'.invs < rankSum g.invs := by
  obtain ⟨i, l, l', hi, hset, _, _, hn⟩ := gstep_local hwf h
  have := local_rank (hwf.reach i l hi) hn
  have h2 := rankSum_set (l' := l') hi
  rw [hset]; omega

/-! ## no invocation is ever stuck: a pending invocation always has an enabled step of its own -/

/-- a step of the component `i`: its parent, its child, or the callback of a selector entry it owns -/
def StepOf (i : Nat) (g g' : G) : Prop :=
  gParent prog i g = some g' ∨ gChild i g = some g' ∨ ∃ k e, g.tbl[k]? = some e ∧ e.owner = i ∧ gCallback k g = some g'

theorem stepOf_gstep {i : Nat} {g g' : G} (h : StepOf i g g') : GStep prog g g' := by
  rcases h with h | h | ⟨k, _, _, _, h⟩
  · exact .parent i _ _ (allocFd_fresh 0 _) (allocFd_fresh 0 _) h
  · exact .child i h
  · exact .callback k h

theorem progress_of {g : G} (hwf : WF g) {i : Nat} {l : Loc} (hi : g.invs[i]? = some l) (hnf : l.st.final = false) :
    ∃ g', StepOf i g g' := by
  obtain ⟨t, ht⟩ := local_progress (hwf.reach i l hi) hnf
  simp only [sysNext, List.mem_append, Option.mem_toList] at ht
  rcases ht with (hpn | hc) | hl
  · obtain ⟨⟨t', eff⟩, hp⟩ := parentNext_some hpn
    exact ⟨_, Or.inl (by simp only [gParent, gParentB, gParentAt, gParentAtI, hi, hp]; rfl)⟩
  · exact ⟨_, Or.inr (Or.inl (by simp only [gChild, gChildI, hi, hc]; rfl))⟩
  · have hcond : l.st.reader = true ∧ l.st.rxOpen = true ∧ l.st.readable = true ∧ l.st.event = false := by
      unfold loopStep at hl
      split at hl
      · next hc => simpa [Bool.and_eq_true, and_assoc] using hc
      · simp at hl
    obtain ⟨hrd, _, hread, hev⟩ := hcond
    obtain ⟨fd, hfd, hent⟩ := hwf.rdOk i l hi hrd
    obtain ⟨k, hk⟩ := List.getElem?_of_mem hent
    have hfind : g.invs.find? (fun x => x.rx == some fd) = some l := by
      cases hf : g.invs.find? (fun x => x.rx == some fd) with
      | none =>
        rw [List.find?_eq_none] at hf
        have := hf l (List.mem_of_getElem? hi)
        simp [hfd] at this
      | some p =>
        have hpm := List.mem_of_find?_eq_some hf
        have hpp := List.find?_some hf
        obtain ⟨j, hj⟩ := List.getElem?_of_mem hpm
        have := hwf.rxInj j i p l fd hj hi (by simpa using hpp) hfd
        subst this
        rw [hi] at hj; cases hj; rfl
    refine ⟨{ g with invs := g.invs.set i { l with st := { l.st with event := true } } }, Or.inr (Or.inr ⟨k, _, hk, rfl, ?_⟩)⟩
    simp [gCallback, hk, hfind, hread, hi, hev]

/-! ## when every invocation has finished, nothing is left -/

theorem all_released {g : G} (hwf : WF g) (hfin : ∀ l ∈ g.invs, l.st.final = true) :
    (∀ l ∈ g.invs, l.st.released = true ∧ l.rx = none ∧ l.tx = none) ∧ g.tbl = [] := by
  have hrel : ∀ (i : Nat) (l : Loc), g.invs[i]? = some l → l.st.released = true := fun i l hi =>
    (local_final (hwf.reach i l hi) (hfin l (List.mem_of_getElem? hi))).1
  constructor
  · intro l hl
    obtain ⟨i, hi⟩ := List.getElem?_of_mem hl
    have hr := hrel i l hi
    have h1 := hwf.rxIff i l hi
    have h2 := hwf.txIff i l hi
    simp only [St.released, Bool.and_eq_true, Bool.not_eq_true'] at hr
    refine ⟨hrel i l hi, ?_, ?_⟩
    · rw [hr.1.1.1.1.1] at h1; simpa using h1
    · rw [hr.1.1.1.1.2] at h2; simpa using h2
  · rw [List.eq_nil_iff_forall_not_mem]
    intro e he
    obtain ⟨_, lo, hlo, _, hrd⟩ := hwf.entOk e he
    have hr := hrel e.owner lo hlo
    simp only [St.released, Bool.and_eq_true, Bool.not_eq_true'] at hr
    rw [hr.1.1.2] at hrd; cases hrd

/-! ## the scheduler used by the driver only takes steps of the machine -/

theorem grun_trans {P : List Instr} {a b c : G} (h1 : GRun P a b) (h2 : GRun P b c) : GRun P a c := by
  induction h2 with
  | refl => exact h1
  | step _ hs ih => exact .step ih hs

theorem runParent_run (P : List Instr) (base i : Nat) : ∀ (n : Nat) (g : G), GRun P g (runParent P base i n g) := by
  intro n
  induction n with
  | zero => intro g; exact .refl g
  | succ n ih =>
    intro g
    simp only [runParent]
    split
    · next g' h => exact grun_trans (.step (.refl g) (.parent i _ _ (allocFd_fresh base _) (allocFd_fresh base _) h)) (ih g')
    · exact .refl g

theorem runChild_run (P : List Instr) (i : Nat) : ∀ (n : Nat) (g : G), GRun P g (runChild i n g) := by
  intro n
  induction n with
  | zero => intro g; exact .refl g
  | succ n ih =>
    intro g
    simp only [runChild]
    split
    · next g' h => exact grun_trans (.step (.refl g) (.child i h)) (ih g')
    · exact .refl g

theorem parentPhase_run (P : List Instr) (sc : List Sched) : ∀ (is : List Nat) (g : G), GRun P g (parentPhase P sc is g) := by
  intro is
  induction is with
  | nil => intro g; exact .refl g
  | cons i is ih =>
    intro g
    simp only [parentPhase]
    split
    · exact .refl g
    · split
      · exact grun_trans (runParent_run P _ i 64 g) (ih _)
      · exact ih g

theorem callbackPhase_run (P : List Instr) : ∀ (k : Nat) (g : G), GRun P g (callbackPhase k g) := by
  intro k
  induction k with
  | zero => intro g; exact .refl g
  | succ k ih =>
    intro g
    simp only [callbackPhase]
    split
    · next g'' h => exact .step (ih g) (.callback k h)
    · exact ih g

theorem loopPhase_run (P : List Instr) (sc : List Sched) (g : G) : GRun P g (loopPhase P sc g) := by
  simp only [loopPhase]
  split
  · exact parentPhase_run P sc _ g
  · exact grun_trans (parentPhase_run P sc _ g) (callbackPhase_run P _ _)

theorem gCancel_getD_run (P : List Instr) (i : Nat) (g : G) : GRun P g ((gCancel P i g).getD g) := by
  cases h : gCancel P i g with
  | none => exact .refl g
  | some g' => exact .step (.refl g) (.cancel i h)

theorem schedule_run (P : List Instr) (sc : List Sched) : ∀ (n : Nat) (rem : List Nat) (g : G), GRun P g (schedule P sc n rem g) := by
  intro n
  induction n with
  | zero => intro rem g; exact .refl g
  | succ n ih =>
    intro rem g
    simp only [schedule]
    split
    · exact grun_trans (loopPhase_run P sc g) (ih rem _)
    · split
      · exact grun_trans (gCancel_getD_run P _ g) (ih rem _)
      · split
        · exact grun_trans (runChild_run P _ 8 g) (ih rem _)
        · split
          · split
            · exact .refl g
            · exact ih _ g
          · exact .refl g

theorem scheduleH_run (hold : List Nat) (P : List Instr) (sc : List Sched) :
    ∀ (n : Nat) (rem : List Nat) (g : G), GRun P g (scheduleH hold P sc n rem g) := by
  intro n
  induction n with
  | zero => intro rem g; exact .refl g
  | succ n ih =>
    intro rem g
    simp only [scheduleH]
    split
    · exact grun_trans (loopPhase_run P sc g) (ih rem _)
    · split
      · exact grun_trans (gCancel_getD_run P _ g) (ih rem _)
      · split
        · exact grun_trans (runChild_run P _ _ g) (ih rem _)
        · split
          · split
            · exact .refl g
            · exact ih _ g
          · exact .refl g

/-- whether a parent step is enabled does not depend on the descriptor numbers a new pipe would get -/
theorem gParentAt_enabled {P : List Instr} {i r w : Nat} {g g' : G} (h : gParentAt P i r w g = some g') (r' w' : Nat) :
    ∃ g'', gParentAt P i r' w' g = some g'' := by
  unfold gParentAt gParentAtI at h ⊢
  split at h
  · simp at h
  · next l hl =>
    split at h
    · simp at h
    · next t eff hp => exact ⟨_, rfl⟩

/-- `gsucc` has a successor whenever the system has a step of its own: child and callback steps are listed as they are, a parent step
    with the kernel's choice of descriptor numbers.  The only steps it does not list are cancellations by the environment. -/
theorem gstep_gsucc_ne_nil {P : List Instr} {g g' : G} (h : GStep P g g') : gsucc P g ≠ [] ∨ ∃ i, gCancel P i g = some g' := by
  cases h with
  | cancel i h => exact Or.inr ⟨i, h⟩
  | parent i r w _ _ h =>
    left
    obtain ⟨g'', h'⟩ := gParentAt_enabled h (allocFd 0 (usedFds g.invs)) (allocFd 0 (allocFd 0 (usedFds g.invs) :: usedFds g.invs))
    have hi : i < g.invs.length := by
      unfold gParentAt gParentAtI at h
      split at h
      · simp at h
      · next l hl => exact (List.getElem?_eq_some_iff.1 hl).1
    apply List.ne_nil_of_mem (a := g'')
    simp only [gsucc, List.mem_append, List.mem_filterMap, List.mem_range]
    exact Or.inl (Or.inl ⟨i, hi, h'⟩)
  | child i h =>
    left
    have hi : i < g.invs.length := by
      unfold gChild gChildI at h
      split at h
      · simp at h
      · next l hl => exact (List.getElem?_eq_some_iff.1 hl).1
    apply List.ne_nil_of_mem (a := g')
    simp only [gsucc, List.mem_append, List.mem_filterMap, List.mem_range]
    exact Or.inl (Or.inr ⟨i, hi, h⟩)
  | callback k h =>
    left
    have hk : k < g.tbl.length := by
      unfold gCallback at h
      split at h
      · simp at h
      · next e he => exact (List.getElem?_eq_some_iff.1 he).1
    apply List.ne_nil_of_mem (a := g')
    simp only [gsucc, List.mem_append, List.mem_filterMap, List.mem_range]
    exact Or.inr ⟨k, hk, h⟩

/-! # The property theorems -/

/-- the invocations keep the callee they were started with -/
theorem run_callees {cs : List (Callee × Bool)} {g : G} (hrun : GRun prog (G.init cs) g) :
    g.invs.map (fun l => (l.callee, l.big)) = cs := by
  generalize hg0 : G.init cs = g0 at hrun
  induction hrun with
  | refl => subst hg0; simp [G.init, Loc.fresh, Function.comp_def]
  | step hr hs ih =>
    subst hg0
    obtain ⟨i, l, l', hi, hset, hc, hb, _⟩ := gstep_local (wf_run hr) hs
    rw [hset, ← ih]
    apply List.ext_getElem?
    intro j
    simp only [List.getElem?_map]
    rw [get_set l' hi j]
    split
    · next hij => subst hij; simp [hi, hc, hb]
    · rfl

/-- what `_inner` does with each callee behaviour, from the flags read off its try statement -/
theorem childBeh_table :
    (∀ v, childBeh (.ret v) = .sendOk) ∧ (∀ e, childBeh (.raiseExc e) = .sendErr) ∧ (∀ e, childBeh (.raiseBase e) = .die) ∧
    (∀ d, childBeh (.hardDeath d) = .die) ∧ childBeh .unpicklable = .die ∧ (∀ v, childBeh (.afterSendDeath v) = .sendOk) ∧
    (∀ v, childBeh (.midSendDeath v) = .dieMidSend) ∧ (∀ v, childBeh (.spawns v) = .sendOk) := by
  refine ⟨?_, ?_, ?_, ?_, ?_, ?_, ?_, ?_⟩ <;> intros <;> simp only [childBeh, childBehD] <;> decide

theorem outOk_allowed (c : Callee) (o : Outcome) (h : outOk (childBeh c) (some o) = true) : observe c o ∈ Spec.allowed c := by
  obtain ⟨h1, h2, h3, h4, h5, h6, h7, h8⟩ := childBeh_table
  cases c with
  | ret v => rw [h1] at h; simp [outOk] at h; subst h; simp [observe, Spec.allowed]
  | raiseExc e => rw [h2] at h; simp [outOk] at h; subst h; simp [observe, Spec.allowed]
  | raiseBase e => rw [h3] at h; simp [outOk] at h; subst h; simp [observe, Spec.allowed]
  | hardDeath d => rw [h4] at h; simp [outOk] at h; subst h; simp [observe, Spec.allowed]
  | unpicklable => rw [h5] at h; simp [outOk] at h; subst h; simp [observe, Spec.allowed]
  | afterSendDeath v => rw [h6] at h; simp [outOk] at h; subst h; simp [observe, Spec.allowed]
  | midSendDeath v =>
    rw [h7] at h; simp [outOk] at h
    rcases h with h | h <;> subst h <;> simp [observe, Spec.allowed]
  | spawns v => rw [h8] at h; simp [outOk] at h; subst h; simp [observe, Spec.allowed]

theorem outOkC_allowed (c : Callee) (s : St) (o : Outcome) (ho : s.out = some o) (h : outOkC (childBeh c) s = true) :
    if s.cancelled = true then o = .cancelled else observe c o ∈ Spec.allowed c := by
  unfold outOkC at h
  split
  · next hc => simpa [hc, ho] using h
  · next hc =>
    have hc' : s.cancelled = false := by simpa using hc
    rw [hc', ho] at h
    exact outOk_allowed _ _ (by simpa using h)

/-- **faithful result, each invocation its own**: in every reachable state of any number of concurrent invocations, an
    invocation that has finished hands its caller an observation the specification allows for *its own* callee:
    the value the function returned, the exception it raised, ChildProcessError when the child ended without reporting
    (exit, signal, SystemExit/KeyboardInterrupt, value that cannot be sent), an error or the value when the child was
    killed in the middle of the transfer. -/
theorem faithful_result (cs : List (Callee × Bool)) (g : G) (hrun : GRun prog (G.init cs) g)
    (i : Nat) (l : Loc) (hi : g.invs[i]? = some l) (o : Outcome) (ho : l.st.out = some o) :
    (∃ c, cs[i]? = some c ∧ l.callee = c.1) ∧
    (if l.st.cancelled = true then o = .cancelled else observe l.callee o ∈ Spec.allowed l.callee) := by
  have hwf := wf_run hrun
  constructor
  · have h := run_callees hrun
    have : (g.invs.map (fun l => (l.callee, l.big)))[i]? = some (l.callee, l.big) := by simp [hi]
    rw [h] at this
    exact ⟨_, this, rfl⟩
  · have hf : l.st.final = true := by simp [St.final, ho]
    exact outOkC_allowed _ _ _ ho (local_final (hwf.reach i l hi) hf).2

/-- **own result (no cross-talk through the event loop)**: whenever the event loop runs a reader callback, the selector
    entry it belongs to sits at the fd number that the entry's owner currently holds as its read end, the pipe whose
    readability triggered it is that owner's pipe, and the only thing that changes is the owner's event. -/
theorem own_result (cs : List (Callee × Bool)) (g g' : G) (hrun : GRun prog (G.init cs) g) (k : Nat)
    (h : gCallback k g = some g') :
    ∃ e o, g.tbl[k]? = some e ∧ g.invs[e.owner]? = some o ∧ o.rx = some e.fd ∧
      g.invs.find? (fun l => l.rx == some e.fd) = some o ∧
      g' = { g with invs := g.invs.set e.owner { o with st := { o.st with event := true } } } := by
  have hwf := wf_run hrun
  obtain ⟨e, p, o, he, _, hp, _, ho, _, rfl⟩ := gCallback_some h
  obtain ⟨rfl, hrx, _⟩ := callback_owner hwf (List.mem_of_getElem? he) hp ho
  exact ⟨e, p, he, ho, hrx, hp, rfl⟩

/-- the table invariant itself, for every reachable state: one live entry per registered invocation, at its own fd -/
theorem reader_table_invariant (cs : List (Callee × Bool)) (g : G) (hrun : GRun prog (G.init cs) g) : WF g := wf_run hrun

/-- **other tasks run**: a pending coroutine is either able to continue, or suspended at `await event.wait()` (a yield
    point), or — the only synchronous wait — inside `process.join()` *after* its child has delivered the message, and
    then the child's exit is enabled.  (Not modelled: how long the child needs from the end of `send` to its exit.) -/
theorem other_tasks_run (cs : List (Callee × Bool)) (g : G) (hrun : GRun prog (G.init cs) g)
    (i : Nat) (l : Loc) (hi : g.invs[i]? = some l) (hnf : l.st.final = false) :
    (∃ g', gParent prog i g = some g') ∨
    (l.st.parked = true ∧ isWait prog l.st = true) ∨
    (isJoin prog l.st = true ∧ l.st.cpc = .sent ∧ ∃ g', gChild i g = some g') := by
  have hlr := (wf_run hrun).reach i l hi
  cases hp : parentStep prog l.st with
  | some r => exact Or.inl ⟨_, by simp only [gParent, gParentB, gParentAt, gParentAtI, hi, hp]; rfl⟩
  | none =>
    by_cases hpk : l.st.parked = true
    · exact Or.inr (Or.inl ⟨hpk, local_parked hlr hpk⟩)
    · have hb : syncBlocked prog l.st = true := by
        have : l.st.out.isSome = false := by simpa [St.final] using hnf
        simp [syncBlocked, hp, hpk, this]
      obtain ⟨hj, hc⟩ := local_sync hlr hb
      obtain ⟨⟨t, hct, _⟩, _⟩ := local_unblock hlr hb
      exact Or.inr (Or.inr ⟨hj, hc, _, by simp only [gChild, gChildI, hi, hct]; rfl⟩)

/-- the clause "while it is pending the event loop keeps running other tasks" at full strength: in no reachable state does a
    coroutine sit in a synchronously blocking call (a single-threaded event loop runs nothing else meanwhile) -/
def other_tasks_run_full : Prop :=
  ∀ (cs : List (Callee × Bool)) (g : G), GRun prog (G.init cs) g → frozen prog g = false

/-- explicit guard: no child is in the phase between the end of its `send` and its exit — "the child exits promptly after sending" -/
def promptExit (g : G) : Bool := g.invs.all (fun l => l.st.cpc != .sent)

/-- **other tasks run — proved part**: as long as every child that has sent its message exits promptly, no coroutine of any
    reachable state sits in a synchronously blocking call: every pending invocation is runnable or suspended at an `await` -/
theorem other_tasks_run_partial (cs : List (Callee × Bool)) (g : G) (hrun : GRun prog (G.init cs) g) (hp : promptExit g = true) :
    frozen prog g = false := by
  cases hf : frozen prog g with
  | false => rfl
  | true =>
    exfalso
    simp only [frozen, List.any_eq_true] at hf
    obtain ⟨l, hl, hb⟩ := hf
    obtain ⟨i, hi⟩ := List.getElem?_of_mem hl
    have hlr := (wf_run hrun).reach i l hi
    have hc := (local_sync hlr hb).2
    simp only [promptExit, List.all_eq_true] at hp
    have := hp l hl
    simp [hc] at this

/-- the witness: two concurrent invocations of ordinary returning callees; the child of invocation 0 has sent its result and
    lingers (its exit step is withheld), everything else has moved as far as it can -/
def lingerCs : List (Callee × Bool) := [(.ret 0, false), (.ret 1, false)]
def lingerSc : List Sched := [⟨1, none, [], 0, none⟩, ⟨3, none, [], 0, none⟩]
def blockG : G := scheduleH [0] prog lingerSc 200 [1, 3] (G.init lingerCs)

/-- **negation witness for the full clause — `process.join()` blocks the event loop while the child lingers.**  A reachable
    state in which invocation 0 sits inside the synchronous `join` (its child has sent and not exited), invocation 1 is
    pending with its result already in the pipe and its reader callback enabled — the loop has work to do — and yet an
    iteration of the event loop changes nothing: everything waits for the child of invocation 0 to exit. -/
theorem join_blocks_other_tasks :
    GRun prog (G.init lingerCs) blockG ∧
    (∃ l, blockG.invs[0]? = some l ∧ syncBlocked prog l.st = true ∧ isJoin prog l.st = true ∧ l.st.cpc = .sent) ∧
    (∃ l, blockG.invs[1]? = some l ∧ l.st.final = false ∧ l.st.readable = true) ∧
    (∃ k g', gCallback k blockG = some g') ∧
    loopPhase prog lingerSc blockG = blockG ∧ frozen prog blockG = true ∧ promptExit blockG = false := by
  refine ⟨scheduleH_run _ _ _ _ _ _, ?_, ?_, ?_, ?_, ?_, ?_⟩
  · have h : (match blockG.invs[0]? with
        | some l => syncBlocked prog l.st && isJoin prog l.st && l.st.cpc == .sent | none => false) = true := by decide +kernel
    cases h0 : blockG.invs[0]? with
    | none => simp [h0] at h
    | some l =>
      simp only [h0, Bool.and_eq_true, beq_iff_eq] at h
      exact ⟨l, rfl, h.1.1, h.1.2, h.2⟩
  · have h : (match blockG.invs[1]? with | some l => !l.st.final && l.st.readable | none => false) = true := by decide +kernel
    cases h1 : blockG.invs[1]? with
    | none => simp [h1] at h
    | some l =>
      simp only [h1, Bool.and_eq_true, Bool.not_eq_true'] at h
      exact ⟨l, rfl, h.1, h.2⟩
  · have h : ((List.range blockG.tbl.length).filterMap (fun k => gCallback k blockG)).isEmpty = false := by decide +kernel
    cases hk : (List.range blockG.tbl.length).filterMap (fun k => gCallback k blockG) with
    | nil => simp [hk] at h
    | cons g' rest =>
      have hm : g' ∈ (List.range blockG.tbl.length).filterMap (fun k => gCallback k blockG) := by simp [hk]
      obtain ⟨k, _, hk'⟩ := List.mem_filterMap.1 hm
      exact ⟨k, g', hk'⟩
  · decide +kernel
  · decide +kernel
  · decide +kernel

theorem other_tasks_run_full_false : ¬ other_tasks_run_full := by
  intro h
  have h1 := h lingerCs blockG join_blocks_other_tasks.1
  have h2 := join_blocks_other_tasks.2.2.2.2.2.1
  rw [h1] at h2
  cases h2

/-- **always terminates, releases everything** — for every number of concurrent invocations, every assignment of callee
    behaviours and child deaths, every interleaving:
    1. no run can be extended forever (every step decreases the rank sum),
    2. an invocation that has not finished always has an enabled step of its own (parent, child, or its callback),
    3. when all have finished: both pipe ends closed and their fd numbers given back, child exited and reaped, no
       reader entry — the selector map is empty. -/
theorem terminates_and_releases (cs : List (Callee × Bool)) (g : G) (hrun : GRun prog (G.init cs) g) :
    (∀ g', GStep prog g g' → rankSum g'.invs < rankSum g.invs) ∧
    (∀ (i : Nat) (l : Loc), g.invs[i]? = some l → l.st.final = false → ∃ g', StepOf i g g') ∧
    ((∀ l ∈ g.invs, l.st.final = true) →
      (∀ l ∈ g.invs, l.st.released = true ∧ l.rx = none ∧ l.tx = none) ∧ g.tbl = []) := by
  have hwf := wf_run hrun
  exact ⟨fun g' h => gstep_rank hwf h, fun i l hi hnf => progress_of hwf hi hnf, all_released hwf⟩

/-- the length of every run is bounded by the initial rank sum (a number that depends only on the program and on how
    many invocations there are) -/
theorem run_length_bounded (cs : List (Callee × Bool)) : ∀ (n : Nat) (g : G), GRunN prog n (G.init cs) g →
    n + rankSum g.invs ≤ rankSum (G.init cs).invs ∧ GRun prog (G.init cs) g := by
  intro n
  induction n with
  | zero => intro g h; cases h; exact ⟨by omega, .refl _⟩
  | succ n ih =>
    intro g h
    cases h with
    | step hr hs =>
      obtain ⟨hb, hrun⟩ := ih _ hr
      have := gstep_rank (wf_run hrun) hs
      exact ⟨by omega, .step hrun hs⟩


/-! ## several event loops one after the other (`asyncio.run` again and again in one interpreter), any number of invocations in each -/

/-- runs over any number of event loops: the interpreter starts with nothing; the machine steps; when every invocation made so
    far has finished (the `asyncio.run` of that loop can return) a **new event loop** may be started with any further invocations.
    `cs` collects the callee behaviours of all invocations made so far, in order. -/
inductive MRun : List (Callee × Bool) → G → Prop where
  | start : MRun [] (G.init [])
  | step {cs : List (Callee × Bool)} {g g' : G} : MRun cs g → GStep prog g g' → MRun cs g'
  | newLoop {cs : List (Callee × Bool)} {g : G} (cs' : List (Callee × Bool)) :
      MRun cs g → (∀ l ∈ g.invs, l.st.final = true) → MRun (cs ++ cs') (G.newLoop g cs')

theorem newLoop_get {g : G} {cs : List (Callee × Bool)} {i : Nat} {l : Loc} (h : (G.newLoop g cs).invs[i]? = some l) :
    g.invs[i]? = some l ∨ (g.invs[i]? = none ∧ ∃ c big, l = Loc.fresh c big) := by
  simp only [G.newLoop] at h
  rw [List.getElem?_append] at h
  split at h
  · exact Or.inl h
  · next hlt =>
    right
    refine ⟨by simpa using hlt, ?_⟩
    have := List.mem_of_getElem? h
    simp only [List.mem_map] at this
    obtain ⟨c, _, rfl⟩ := this
    exact ⟨c.1, c.2, rfl⟩

/-- starting a new event loop after all invocations have finished keeps the invariant — and loses nothing: the old loop's selector
    map was empty already (`all_released`) -/
theorem wf_newLoop {g : G} (hwf : WF g) (hfin : ∀ l ∈ g.invs, l.st.final = true) (cs : List (Callee × Bool)) :
    WF (G.newLoop g cs) := by
  have hold : ∀ (i : Nat) (l : Loc), g.invs[i]? = some l → l.st.reader = false ∧ l.rx = none := by
    intro i l hi
    have hl := List.mem_of_getElem? hi
    have hr := ((all_released hwf hfin).1 l hl)
    have h1 := hr.1
    simp only [St.released, Bool.and_eq_true, Bool.not_eq_true'] at h1
    exact ⟨h1.1.1.2, hr.2.1⟩
  refine ⟨?_, ?_, ?_, ?_, ?_, ?_⟩
  · intro i l h
    rcases newLoop_get h with h | ⟨_, c, big, rfl⟩
    · exact hwf.reach i l h
    · exact init_reach _ _
  · intro i l h
    rcases newLoop_get h with h | ⟨_, c, big, rfl⟩
    · exact hwf.rxIff i l h
    · rfl
  · intro i l h
    rcases newLoop_get h with h | ⟨_, c, big, rfl⟩
    · exact hwf.txIff i l h
    · rfl
  · intro i j li lj fd hi hj hri hrj
    rcases newLoop_get hi with hi | ⟨_, c, big, rfl⟩
    · rw [(hold i li hi).2] at hri; cases hri
    · simp [Loc.fresh] at hri
  · intro e he; simp [G.newLoop] at he
  · intro i l h hr
    rcases newLoop_get h with h | ⟨_, c, big, rfl⟩
    · rw [(hold i l h).1] at hr; cases hr
    · simp [Loc.fresh, St.init] at hr

theorem wf_mrun {cs : List (Callee × Bool)} {g : G} (h : MRun cs g) : WF g := by
  induction h with
  | start => exact wf_init []
  | step _ hs ih => exact wf_step ih hs
  | newLoop cs' _ hfin ih => exact wf_newLoop ih hfin cs'

/-- a run inside one event loop is a run over event loops -/
theorem grun_mrun {cs : List (Callee × Bool)} {g : G} (h : GRun prog (G.init cs) g) : MRun cs g := by
  generalize hg0 : G.init cs = g0 at h
  induction h with
  | refl =>
    subst hg0
    have := MRun.newLoop cs MRun.start (by simp [G.init])
    simpa [G.newLoop, G.init] using this
  | step _ hs ih => exact .step ih hs

theorem mrun_trans_grun {cs : List (Callee × Bool)} {g g' : G} (h : MRun cs g) (h2 : GRun prog g g') : MRun cs g' := by
  induction h2 with
  | refl => exact h
  | step _ hs ih => exact .step ih hs

/-- the invocations keep the callee they were started with, over all loops -/
theorem mrun_callees {cs : List (Callee × Bool)} {g : G} (h : MRun cs g) :
    g.invs.map (fun l => (l.callee, l.big)) = cs := by
  induction h with
  | start => simp [G.init]
  | step hr hs ih =>
    obtain ⟨i, l, l', hi, hset, hc, hb, _⟩ := gstep_local (wf_mrun hr) hs
    rw [hset, ← ih]
    apply List.ext_getElem?
    intro j
    simp only [List.getElem?_map]
    rw [get_set l' hi j]
    split
    · next hij => subst hij; simp [hi, hc, hb]
    · rfl
  | newLoop cs' _ _ ih =>
    simp only [G.newLoop, List.map_append, ih, List.map_map]
    congr 1
    simp [Function.comp_def, Loc.fresh]

/-- **faithful result, each invocation its own — in every event loop**: for every number of event loops run one after the other
    in the same interpreter, every number of concurrent invocations in each of them, every interleaving: an invocation that
    has finished handed its caller an observation the specification allows for *its own* callee. -/
theorem faithful_result_rounds (cs : List (Callee × Bool)) (g : G) (hrun : MRun cs g)
    (i : Nat) (l : Loc) (hi : g.invs[i]? = some l) (o : Outcome) (ho : l.st.out = some o) :
    (∃ c, cs[i]? = some c ∧ l.callee = c.1) ∧
    (if l.st.cancelled = true then o = .cancelled else observe l.callee o ∈ Spec.allowed l.callee) := by
  have hwf := wf_mrun hrun
  constructor
  · have h := mrun_callees hrun
    have : (g.invs.map (fun l => (l.callee, l.big)))[i]? = some (l.callee, l.big) := by simp [hi]
    rw [h] at this
    exact ⟨_, this, rfl⟩
  · have hf : l.st.final = true := by simp [St.final, ho]
    exact outOkC_allowed _ _ _ ho (local_final (hwf.reach i l hi) hf).2

/-- **always terminates, releases everything — in every event loop**: the three clauses of `terminates_and_releases` for runs
    over any number of event loops (within a loop every step decreases the rank sum; a pending invocation always has an enabled
    step of its own; when all have finished nothing is left). -/
theorem terminates_and_releases_rounds (cs : List (Callee × Bool)) (g : G) (hrun : MRun cs g) :
    (∀ g', GStep prog g g' → rankSum g'.invs < rankSum g.invs) ∧
    (∀ (i : Nat) (l : Loc), g.invs[i]? = some l → l.st.final = false → ∃ g', StepOf i g g') ∧
    ((∀ l ∈ g.invs, l.st.final = true) →
      (∀ l ∈ g.invs, l.st.released = true ∧ l.rx = none ∧ l.tx = none) ∧ g.tbl = []) := by
  have hwf := wf_mrun hrun
  exact ⟨fun g' h => gstep_rank hwf h, fun i l hi hnf => progress_of hwf hi hnf, all_released hwf⟩

/-- **a new event loop starts from the initial state**: when every invocation of the earlier loops has finished, what an
    invocation of a new loop can find — the selector map and the fd numbers in use — is what the very first invocation of the
    interpreter found: the old loop's map is empty (so the new, empty map loses no registration), no fd number is taken, and the
    new loop's shared tables are those of `G.init`. -/
theorem new_loop_starts_from_initial_state (cs : List (Callee × Bool)) (g : G) (hrun : MRun cs g)
    (hfin : ∀ l ∈ g.invs, l.st.final = true) (cs' : List (Callee × Bool)) :
    g.tbl = [] ∧ usedFds g.invs = [] ∧
    (G.newLoop g cs').tbl = (G.init cs').tbl ∧ usedFds (G.newLoop g cs').invs = usedFds (G.init cs').invs ∧
    (∀ l ∈ (G.newLoop g cs').invs.drop g.invs.length, l ∈ (G.init cs').invs) := by
  have hrel := all_released (wf_mrun hrun) hfin
  have hfresh : usedFds (cs'.map (fun c => Loc.fresh c.1 c.2)) = [] := by
    simp only [usedFds, List.flatMap_eq_nil_iff, List.mem_map]
    rintro l ⟨c, _, rfl⟩
    rfl
  have hold : usedFds g.invs = [] := by
    simp only [usedFds, List.flatMap_eq_nil_iff]
    intro l hl
    have := hrel.1 l hl
    simp [this.2.1, this.2.2]
  refine ⟨hrel.2, hold, rfl, ?_, ?_⟩
  · simp only [usedFds, G.newLoop, G.init, List.flatMap_append] at *
    rw [hold, hfresh]; rfl
  · intro l hl
    simpa [G.newLoop, G.init] using hl

/-- **invocations share no state beyond the event loop's reader table**: a step of the system rewrites the local state of ONE
    invocation (and possibly the reader table); every other invocation — of this and of every earlier loop — is left exactly as
    it was.  (What the step may do to the table is `reader_table_invariant` / `own_result`.) -/
theorem step_touches_one_invocation (cs : List (Callee × Bool)) (g g' : G) (hrun : MRun cs g) (hs : GStep prog g g') :
    ∃ i : Nat, g'.invs.length = g.invs.length ∧ ∀ j : Nat, j ≠ i → g'.invs[j]? = g.invs[j]? := by
  obtain ⟨i, l, l', hi, hset, _, _, _⟩ := gstep_local (wf_mrun hrun) hs
  refine ⟨i, by simp [hset], ?_⟩
  intro j hj
  rw [hset, get_set l' hi j]
  simp [Ne.symm hj]

/-- … and the module offers nothing else to share: no module-level name is bound by anything but imports, classes, functions and
    the TypeVar (no semaphore, lock, pool, cache or counter created at import time), no function of the module enters a context
    manager, takes a lock or mentions a synchronisation primitive, none keeps anything beyond its activation (`global`, stores
    through non-locals, non-constant defaults, caching decorators).  Generated from the module's source on every run. -/
theorem no_state_between_invocations :
    PedVerif.Gen.SubprocModule.moduleState = [] ∧ PedVerif.Gen.SubprocModule.bodyGuards = [] ∧
    PedVerif.Gen.SubprocModule.sharedStores = [] ∧ PedVerif.Gen.SubprocModule.sharedExecutors = [] := by decide

/-- **the write end belongs to the invocation's own child only**: between `Pipe()` and the parent's `tx.close()` the coroutine is never
    suspended, so no other invocation can fork a child while this invocation's write end is open in the parent — what the model's
    `start` (the write end is copied to the child of the SAME invocation) and the EOF argument of `local_ok` rest on.  Generated from the
    source on every run. -/
theorem no_await_while_write_end_open : PedVerif.Gen.SubprocModule.awaitsWhileWriteEndOpen = [] := by decide

/-- **the callee's exception passes no handler of the parent**: the statements that hand the child's answer to the caller
    (`raise result.exception`, `return result`) stand outside every try statement of `calculate_in_subprocess`.  So an exception the
    callee raised is re-raised as it is whatever its class — also an EOFError, an OSError, a ChildProcessError or a class derived from
    one, which the parent's own handlers (`except EOFError` around `recv`) would otherwise take for a failure of the protocol: this is
    what lets `Callee.raiseExc e` stand for an exception of ANY class in `faithful_result`.  Generated from the source on every run. -/
theorem result_dispatch_outside_try : PedVerif.Gen.SubprocModule.dispatchInsideTry = [] := by decide

/-- … and in the compiled program: the instructions `raiseIfError` and `ret` have no handler (an exception raised there leaves the
    coroutine), and the only instructions that can be entered with an exception in flight are those of handlers / `finally` copies -/
theorem dispatch_has_no_handler :
    prog.all (fun i => !(i.op == .raiseIfError || i.op == .ret) || (i.onEof.isNone && i.onErr.isNone)) = true := by decide

/-- **an invocation never waits for another invocation**: a step of the system either leaves invocation `i` exactly as it was or is a
    step of `i` itself, which strictly decreases `i`'s own rank — and while `i` is pending it always has an enabled step of its own
    (`terminates_and_releases_rounds`, clause 2).  So `i` ends after at most `rank progRank St.init` steps of its own, whatever the other
    invocations do: also when their callees never end, or end only after `i` has (a callee that waits for an event the caller sets when
    `i` has handed over its result), in every event loop. -/
theorem progress_independent_of_siblings (cs : List (Callee × Bool)) (g g' : G) (hrun : MRun cs g) (hs : GStep prog g g')
    (i : Nat) (l : Loc) (hi : g.invs[i]? = some l) :
    (∃ l', g'.invs[i]? = some l' ∧ (l' = l ∨ rank progRank l'.st < rank progRank l.st)) ∧
    (l.st.final = false → ∃ g'', StepOf i g g'') := by
  have hwf := wf_mrun hrun
  refine ⟨?_, fun hnf => progress_of hwf hi hnf⟩
  obtain ⟨k, lk, lk', hk, hset, _, _, hn⟩ := gstep_local hwf hs
  by_cases hki : k = i
  · subst hki
    rw [hi] at hk; cases hk
    refine ⟨lk', by rw [hset, get_set lk' hi k]; simp, Or.inr ?_⟩
    exact local_rank (hwf.reach k l hi) hn
  · exact ⟨l, by rw [hset, get_set lk' hk i]; simp [hki, hi], Or.inl rfl⟩

/-! ## cancellation: the awaiting task is cancelled / times out while the invocation is pending -/

/-- **the environment can cancel whenever the coroutine is suspended**: in every reachable state, for every invocation whose coroutine
    sits in `await event.wait()`, the cancellation step is enabled (it is a step of the machine: every theorem about all runs covers
    runs with any number of cancellations at any such moment), and it marks the invocation as cancelled. -/
theorem cancel_enabled_when_suspended (cs : List (Callee × Bool)) (g : G) (hrun : MRun cs g)
    (i : Nat) (l : Loc) (hi : g.invs[i]? = some l) (hp : l.st.parked = true) (hnf : l.st.final = false) :
    ∃ g', gCancel prog i g = some g' ∧ GStep prog g g' ∧ MRun cs g' ∧ ∃ l', g'.invs[i]? = some l' ∧ l'.st.cancelled = true := by
  have hw := local_parked ((wf_mrun hrun).reach i l hi) hp
  have hout : l.st.out.isSome = false := by simpa [St.final] using hnf
  cases hpc : prog[l.st.pc]? with
  | none => simp [isWait, hpc] at hw
  | some ins =>
    have hc : cancelStep prog l.st = some (raiseAt ins .cancel { l.st with cancelled := true }) := by
      simp [cancelStep, hout, hp, hpc]
    have hg : gCancel prog i g = some { g with invs := g.invs.set i { l with st := raiseAt ins .cancel { l.st with cancelled := true } } } := by
      simp only [gCancel, hi, hc]
    have hget : ({ g with invs := g.invs.set i { l with st := raiseAt ins .cancel { l.st with cancelled := true } } } : G).invs[i]? =
        some { l with st := raiseAt ins .cancel { l.st with cancelled := true } } := by
      simp only; rw [get_set _ hi i]; simp
    refine ⟨_, hg, .cancel i hg, .step hrun (.cancel i hg), _, hget, ?_⟩
    simp only [raiseAt]
    split <;> rfl

/-- **a cancelled invocation ends and leaves nothing behind**: in every event loop, every interleaving, wherever the cancellation hit —
    as long as it has not finished it has a step of its own (its parent's clean-up, never a wait for anything); when it has, the caller
    got the cancellation, the read end is closed and its fd number given back, the child has exited AND been reaped, no reader entry of
    the invocation is left in the selector map. -/
theorem cancellation_releases (cs : List (Callee × Bool)) (g : G) (hrun : MRun cs g)
    (i : Nat) (l : Loc) (hi : g.invs[i]? = some l) (hc : l.st.cancelled = true) :
    (l.st.final = false → ∃ g', StepOf i g g') ∧
    (l.st.final = true → l.st.out = some .cancelled ∧ l.st.released = true ∧ l.st.reaped = true ∧ l.st.cpc = .exited ∧
      l.rx = none ∧ l.tx = none ∧ ∀ e ∈ g.tbl, e.owner ≠ i) := by
  have hwf := wf_mrun hrun
  refine ⟨fun hnf => progress_of hwf hi hnf, fun hf => ?_⟩
  obtain ⟨hrel, hout⟩ := local_final (hwf.reach i l hi) hf
  have hr := hrel
  simp only [St.released, Bool.and_eq_true, Bool.not_eq_true', beq_iff_eq] at hr
  obtain ⟨⟨⟨⟨⟨hrx, hptx⟩, _⟩, hrd⟩, hreap⟩, hcpc⟩ := hr
  have h1 := hwf.rxIff i l hi
  have h2 := hwf.txIff i l hi
  refine ⟨by simpa [outOkC, hc] using hout, hrel, hreap, hcpc, by rw [hrx] at h1; simpa using h1, by rw [hptx] at h2; simpa using h2, ?_⟩
  intro e he ho
  obtain ⟨_, lo, hlo, _, hrd'⟩ := hwf.entOk e he
  rw [ho, hi] at hlo
  cases hlo
  rw [hrd] at hrd'
  cases hrd'

/-- `calculate_in_subprocess` before the repair of the cancellation path (the translator's output for that source): the wait is protected
    by `try … finally: remove_reader; event.clear()` only — a CancelledError raised at `await event.wait()` runs that `finally` and leaves the
    coroutine before `process.join()` and `rx.close()` -/
def preCancelProg : List Instr := [
  ⟨.pipe, none, none, none⟩, ⟨.start, none, none, none⟩, ⟨.closeTx, none, none, none⟩, ⟨.addReader, none, none, none⟩,
  ⟨.pollWait, some 8, some 8, some 8⟩, ⟨.removeReader, none, none, none⟩, ⟨.clearEvent, none, none, none⟩, ⟨.jump 11, none, none, none⟩,
  ⟨.removeReader, none, none, none⟩, ⟨.clearEvent, none, none, none⟩, ⟨.reraise, none, none, none⟩,
  ⟨.recv, some 13, some 18, some 18⟩, ⟨.jump 15, none, none, none⟩, ⟨.caught, none, none, none⟩,
  ⟨.setChildProcessError, some 18, some 18, some 18⟩, ⟨.join, none, none, none⟩, ⟨.closeRx, none, none, none⟩, ⟨.jump 21, none, none, none⟩,
  ⟨.join, none, none, none⟩, ⟨.closeRx, none, none, none⟩, ⟨.reraise, none, none, none⟩, ⟨.raiseIfError, none, none, none⟩, ⟨.ret, none, none, none⟩]

def preCancelRank : List Nat := [16, 15, 14, 13, 12, 11, 10, 9, 11, 10, 9, 8, 6, 7, 6, 5, 4, 3, 5, 4, 3, 2, 1]

/-- **negation witness: before the repair a cancelled invocation left its child and its pipe end behind.**  Without cancellations that
    protocol passes every check for every child behaviour; with the environment's `cancel` step it has a reachable FINAL state — the
    caller already holds the CancelledError — in which the read end is still open and the child is still running, un-reaped (and, the other
    way round, final states that were not cancelled are fine). -/
theorem cancel_leaks_before_repair :
    cfgs.all (fun c => sysCheck preCancelProg preCancelRank c.1 c.2) = true ∧
    (reach preCancelProg .sendOk false).any (fun s => s.final && s.cancelled && s.out == some .cancelled && s.rxOpen && !s.reader &&
      !s.reaped && s.cpc == .running && !s.released) = true ∧
    (reach preCancelProg .sendOk false).all (fun s => !s.final || s.cancelled || s.released) = true := by
  decide +kernel

/-- non-vacuity, and the scenario the correspondence check runs: invocation 1 is cancelled while its callee is still working (the callee ends
    only after invocation 1 itself has finished: `gate := [1]`), next to an ordinary invocation; invocation 2 is cancelled once invocation 0
    has finished.  Scheduled to the end: the cancelled ones got the cancellation, everything is released. -/
def cancelCs : List (Callee × Bool) := [(.ret 0, false), (.ret 1, false), (.raiseExc 2, true)]
def cancelSc : List Sched := [⟨1, none, [], 0, none⟩, ⟨0, none, [1], 0, some []⟩, ⟨0, none, [2], 0, some [0]⟩]
def cancelG : G := schedule prog cancelSc 400 [1, 0, 0] (G.init cancelCs)
example : GRun prog (G.init cancelCs) cancelG := schedule_run _ _ _ _ _
example : cancelG.invs.map (fun l => (l.st.out, l.st.cancelled, l.st.released, l.st.cpc)) =
    [(some .retOk, false, true, .exited), (some .cancelled, true, true, .exited), (some .cancelled, true, true, .exited)] ∧ cancelG.tbl = [] := by
  decide +kernel
/-- the same scenario on the protocol before the repair: the cancelled invocations end, but not released -/
example : ((schedule preCancelProg cancelSc 400 [1, 0, 0] (G.init cancelCs)).invs.map (fun l => (l.st.out, l.st.released, l.st.reaped))) =
    [(some .retOk, true, true), (some .cancelled, false, false), (some .cancelled, false, false)] := by decide +kernel

/-! ## how long the event loop can be blocked -/

/-- **a synchronous wait lasts exactly until the invocation's own child has exited** (run-level form of the non-blocking clause): if, in
    any reachable state of any run over any number of event loops, the coroutine of invocation `i` sits in a synchronously blocking call,
    then (1) the exit of `i`'s own child is enabled — it depends on no other component —, after it the coroutine is no longer blocked and
    its next step is enabled; and (2) no other step of the system — of any parent, any other child, the event loop, a cancellation — ends
    the wait: after any step the coroutine is still blocked or its child has exited.  So the loop is blocked behind `i` from the moment the
    parent reaches `join` (its child has sent: `other_tasks_run`) to the child's exit, and by nothing else; on runs in which a child's exit
    precedes its parent's arrival at `join` no state is blocked at all. -/
theorem join_blocks_only_until_own_child_exits (cs : List (Callee × Bool)) (g : G) (hrun : MRun cs g)
    (i : Nat) (l : Loc) (hi : g.invs[i]? = some l) (hb : syncBlocked prog l.st = true) :
    (∃ g' l', gChild i g = some g' ∧ g'.invs[i]? = some l' ∧ l'.st.cpc = .exited ∧ syncBlocked prog l'.st = false ∧
      ∃ g'', gParent prog i g' = some g'') ∧
    (∀ g', GStep prog g g' → ∃ l', g'.invs[i]? = some l' ∧ (syncBlocked prog l'.st = true ∨ l'.st.cpc = .exited)) := by
  have hwf := wf_mrun hrun
  have hlr := hwf.reach i l hi
  obtain ⟨⟨t, hct, hex, hps, hnb⟩, hall⟩ := local_unblock hlr hb
  constructor
  · refine ⟨{ g with invs := g.invs.set i { l with st := t } }, { l with st := t }, ?_, ?_, hex, hnb, ?_⟩
    · simp only [gChild, gChildI, hi, hct, inheritOthers_false, postExit_false]
    · simp only; rw [get_set _ hi i]; simp
    · obtain ⟨⟨t', eff⟩, hp⟩ := Option.isSome_iff_exists.1 hps
      have : ({ g with invs := g.invs.set i { l with st := t } } : G).invs[i]? = some { l with st := t } := by
        simp only; rw [get_set _ hi i]; simp
      exact ⟨_, by simp only [gParent, gParentB, gParentAt, gParentAtI, this, hp]; rfl⟩
  · intro g' hs
    obtain ⟨k, lk, lk', hk, hset, _, _, hn⟩ := gstep_local hwf hs
    by_cases hki : k = i
    · subst hki
      rw [hi] at hk; cases hk
      refine ⟨lk', by rw [hset, get_set lk' hi k]; simp, ?_⟩
      rcases hall _ hn with h | h
      · exact Or.inr h
      · exact Or.inl h
    · exact ⟨l, by rw [hset, get_set lk' hk i]; simp [hki, hi], Or.inl hb⟩

/-! ## fork inheritance: what `awaitsWhileWriteEndOpen = []` excludes -/

/-- **why there must be no `await` between `Pipe()` and `tx.close()`** (witness with inheritance switched on: `playI true`): invocation 0
    makes its pipe; before it closes its write end, invocation 1 forks its child — which inherits a copy of that write end; invocation 0
    goes on (start, `tx.close()`, `add_reader`, wait), its own child dies without a result.  Now invocation 0 is pending, its child is
    gone, nothing is in the pipe, and it has NO step of its own: no EOF while the child of invocation 1 lives.  Only when that child has
    ended does invocation 0 get its EOF.  With the generated fact (`inheritOthers_false`) the same moves leave invocation 0 runnable. -/
def inhCs : List (Callee × Bool) := [(.hardDeath .osExit, false), (.ret 1, false)]
def inhMoves : List Mv := [.p 0, .p 1, .p 1, .p 0, .p 0, .p 0, .p 0, .c 0]

theorem inherited_write_end_blocks_eof :
    (match playI true prog inhMoves (G.init inhCs) with
     | some g => (match g.invs[0]?, g.invs[1]? with
        | some l0, some l1 => !l0.st.final && l0.st.parked && l0.st.cpc == .exited && l0.st.buf == .empty && l0.st.foreignTx &&
            l0.heirs == [1] && (sysNext prog (childBeh l0.callee) l0.big l0.st).isEmpty && l1.st.cpc == .running
        | _, _ => false)
     | none => false) = true ∧
    (match playI true prog (inhMoves ++ [.c 1, .c 1]) (G.init inhCs) with
     | some g => (match g.invs[0]? with
        | some l0 => !l0.st.foreignTx && l0.st.readable && l0.heirs == []
        | none => false)
     | none => false) = true ∧
    (match playI false prog inhMoves (G.init inhCs) with
     | some g => (match g.invs[0]? with
        | some l0 => !l0.st.foreignTx && l0.st.readable && !(loopStep l0.st).isNone
        | none => false)
     | none => false) = true := by
  decide +kernel

/-! ## descriptor numbers: whatever else the process holds open -/

/-- **a pipe may get any descriptor numbers**: in every reachable state, an invocation that has not begun can make its pipe with ANY
    two numbers not in use by the invocations — as low as the kernel's rule gives in an otherwise idle process, or beyond FD_SETSIZE in a
    process that holds a thousand other descriptors (or has some hundred invocations pending) — and the state reached is again a
    reachable state: every theorem of this file (`faithful_result`, `terminates_and_releases`, … — stated for all runs) covers it.  The
    invocation remembers on which side of FD_SETSIZE its read end lies (`rxHigh`); no instruction of the generated program reads it
    (`readiness_by_connection_poll`). -/
theorem pipe_gets_any_free_descriptors (cs : List (Callee × Bool)) (g : G) (hrun : GRun prog (G.init cs) g)
    (i : Nat) (l : Loc) (hi : g.invs[i]? = some l) (h0 : l.st = St.init)
    (r w : Nat) (hr : r ∉ usedFds g.invs) (hw : w ∉ r :: usedFds g.invs) :
    ∃ g', GStep prog g g' ∧ GRun prog (G.init cs) g' ∧
      ∃ l', g'.invs[i]? = some l' ∧ l'.rx = some r ∧ l'.tx = some w ∧ l'.st.rxHigh = decide (fdSetSize ≤ r) := by
  have hp : ∃ t, parentStep prog St.init = some (t, .allocPipe) := by
    have : ((parentStep prog St.init).map (·.2)) = some Eff.allocPipe := by decide
    cases hps : parentStep prog St.init with
    | none => simp [hps] at this
    | some x => obtain ⟨t, eff⟩ := x; simp [hps] at this; subst this; exact ⟨t, rfl⟩
  obtain ⟨t, hp⟩ := hp
  have hstep : gParentAt prog i r w g = some (applyEffC r w i l t .allocPipe g) := by
    rw [← applyEff_eq]
    simp only [gParentAt, gParentAtI, hi, h0, hp]
    rfl
  have hgs : GStep prog g (applyEffC r w i l t .allocPipe g) := .parent i r w hr hw hstep
  refine ⟨_, hgs, .step hrun hgs, { l with st := { t with rxHigh := decide (fdSetSize ≤ r) }, rx := some r, tx := some w }, ?_, rfl, rfl, rfl⟩
  simp only [applyEffC]
  rw [get_set _ hi i]
  simp

/-- **readiness is tested on the connection**: the generated program contains no `selectWait` — `if not rx.poll()` asks the Connection
    (multiprocess waits with `selectors.PollSelector`: any descriptor number), not `select.select([rx], [], [], 0)`, which raises
    ValueError for a descriptor number ≥ FD_SETSIZE.  (The translator reads HOW readiness is tested; anything else is not translated.) -/
theorem readiness_by_connection_poll : prog.all (fun i => i.op != .selectWait) = true := by decide

/-- the current program with the readiness test replaced by a zero-timeout `select()` -/
def selectProg : List Instr := prog.map (fun x => if x.op == .pollWait then { x with op := .selectWait } else x)

/-- **why the readiness test must not be `select()`**: with `select.select([rx], [], [], 0)` an invocation whose read end got a
    descriptor number ≥ FD_SETSIZE ends with an error although its callee returns (negation witness for "yields exactly what the function
    returns"; the clean-up arm of the wait — `except BaseException: terminate, join, close` — at least leaves nothing behind).  With a low
    descriptor number the same program behaves — which is why no test with few descriptors open can tell the difference. -/
theorem select_breaks_high_descriptors :
    (reach selectProg .sendOk false).any (fun s => s.final && s.rxHigh && !s.cancelled && s.out == some .raisedErr) = true ∧
    (reach selectProg .sendOk false).all (fun s => !s.final || s.rxHigh || s.cancelled || (s.out == some .retOk && s.released)) = true := by
  decide +kernel

/-- non-vacuity, and the scenario the correspondence check runs with `held = 1100`: two invocations in a process that holds 1100 other
    descriptors open; their pipes get the numbers 1100 … (both read ends ≥ FD_SETSIZE); the first returns, the second's child dies -/
def highCs : List (Callee × Bool) := [(.ret 0, false), (.hardDeath .osExit, false)]
def highSc : List Sched := [⟨1, none, [], 1100, none⟩, ⟨2, none, [], 1100, none⟩]
def highMidG : G := loopPhase prog highSc (G.init highCs)
def highG : G := schedule prog highSc 200 [1, 2] (G.init highCs)

example : GRun prog (G.init highCs) highMidG := loopPhase_run _ _ _
example : highMidG.invs.map (fun l => (l.rx, l.st.rxHigh, l.st.parked)) = [(some 1100, true, true), (some 1101, true, true)] ∧
    highMidG.tbl.map (fun e => (e.fd, e.owner)) = [(1101, 1), (1100, 0)] := by decide +kernel
example : GRun prog (G.init highCs) highG := schedule_run _ _ _ _ _
example : highG.invs.map (fun l => (l.st.out, l.st.rxHigh)) = [(some .retOk, true), (some .raisedCPE, true)] ∧ highG.tbl = [] ∧
    highG.invs.all (fun l => l.st.released && l.rx.isNone && l.tx.isNone) = true := by decide +kernel

/-! ## the call: what the callable accepts, not what introspection reports -/

/-- **the parent decides nothing about the call**: `in_subprocess` (at decoration time), its wrapper (at call time) and
    `calculate_in_subprocess` use the callee and the caller's `*args` / `**kwargs` for nothing but passing them on — `@wraps(func)`,
    `calculate_in_subprocess(func, *args, **kwargs)`, `Process(target=_inner, args=(tx, func, *args), kwargs=kwargs)`.  No
    `inspect.signature(func)`, no `bind`, no look at the arguments: whether a call fits is found out by `fun(*a, **kw_args)` in the child.
    Generated from the source on every run. -/
theorem callee_and_arguments_only_passed_on : PedVerif.Gen.SubprocModule.calleeTouchedInParent = [] := by decide

/-- the facts the translator read off the argument path — the wrapper is `async def` and returns
    `await calculate_in_subprocess(func, *args, **kwargs)`, the process is made with `args=(tx, func, *args), kwargs=kwargs`, `_inner` runs
    coroutine functions to their end — make the child run the caller's call: the callee's behaviour if the arguments fit the callable,
    the TypeError of the call if they do not.  (Does not re-prove when one of them is false.) -/
theorem childRuns_eq (v a : Bool) (k : Call) (c : Callee) (e : Nat) : childRuns v a k c e = effective k c e := by
  have h1 : processArgsForwarded = true := by decide
  have h2 : wrapperForwards = true := by decide
  have h3 : wrapperIsAsync = true := by decide
  have h4 : innerRunsCoroutines = true := by decide
  simp [childRuns, h1, h2, h3, h4]

/-- **faithful result for every callable and every call, whatever introspection reports**: the invocations are made as `xs` says —
    through the wrapper or through `calculate_in_subprocess`, sync or async callee, `call.fits`: do the arguments fit what the callable
    accepts, `call.sigFits`: do they fit what `inspect.signature` says (a `functools.wraps` decorator that renames keywords, takes an extra
    argument or supplies one: the two differ), `callee`: what the callable does once entered.  In every event loop, every interleaving: a
    finished invocation that was not cancelled hands its caller what the specification allows for that call — the callee's own outcome if
    the arguments fit, the TypeError of the call itself if they do not; a cancelled one the cancellation.  `call.sigFits` occurs nowhere in
    the conclusion. -/
theorem faithful_result_whatever_introspection_reports (xs : List Invocation) (g : G)
    (hrun : MRun (xs.mapIdx (fun i x => (x.runs i, x.big))) g)
    (i : Nat) (l : Loc) (hi : g.invs[i]? = some l) (o : Outcome) (ho : l.st.out = some o) :
    ∃ x, xs[i]? = some x ∧
      (if l.st.cancelled = true then o = .cancelled else observe l.callee o ∈ Spec.allowedCall x.call.fits x.callee i) ∧
      l.callee = (if x.call.fits then x.callee else .raiseExc i) := by
  obtain ⟨⟨c, hc, hlc⟩, hobs⟩ := faithful_result_rounds _ g hrun i l hi o ho
  rw [List.getElem?_mapIdx] at hc
  cases hx : xs[i]? with
  | none => simp [hx] at hc
  | some x =>
    simp only [hx, Option.map_some, Option.some.injEq] at hc
    subst hc
    simp only [Invocation.runs, childRuns_eq] at hlc
    refine ⟨x, rfl, ?_, by rw [hlc]; rfl⟩
    rw [hlc] at hobs ⊢
    split
    · next hcn => simpa [hcn] using hobs
    · next hcn =>
      simp only [hcn] at hobs
      cases hf : x.call.fits <;> simp only [effective, hf, Spec.allowedCall] at hobs ⊢
      · simpa [Spec.allowed] using hobs
      · simpa using hobs

/-- non-vacuity: a call the introspected signature rejects but the callable accepts (`@rename_kwargs` called with the alias), one it
    accepts but the callable does not, one neither accepts — three invocations, scheduled to the end -/
def callsDemo : List Invocation :=
  [⟨true, false, ⟨true, false⟩, .ret 0, false⟩, ⟨true, true, ⟨false, true⟩, .ret 1, false⟩, ⟨false, false, ⟨false, false⟩, .hardDeath .osExit, false⟩]
def callsG : G :=
  schedule prog [⟨1, none, [], 0, none⟩, ⟨0, none, [], 0, none⟩, ⟨1, none, [], 0, none⟩] 300 [1, 0, 1]
    (G.newLoop (G.init []) (callsDemo.mapIdx (fun i x => (x.runs i, x.big))))
example : MRun ([] ++ callsDemo.mapIdx (fun i x => (x.runs i, x.big))) callsG :=
  mrun_trans_grun (.newLoop _ .start (by simp [G.init])) (schedule_run _ _ _ _ _)
example : callsG.invs.map (fun l => l.st.out.map (observe l.callee)) = [some (.returns 0), some (.raises 1), some (.raises 2)] := by
  decide +kernel

/-- non-vacuity, and the scenario the gated callees of the correspondence check run: invocation 1's child dies without a result
    (`os._exit`); the callees of invocations 0, 2, 3 end only after invocation 1 has finished (`gate := [1]`).  Scheduled with the gates
    respected, invocation 1 raises ChildProcessError, then the others return their own values; nothing is left. -/
def gatedCs : List (Callee × Bool) := [(.ret 0, false), (.hardDeath .osExit, false), (.raiseExc 2, false), (.ret 3, true)]
def gatedSc : List Sched := [⟨0, none, [1], 0, none⟩, ⟨0, none, [], 0, none⟩, ⟨0, none, [1], 0, none⟩, ⟨1, none, [1], 0, none⟩]
def gatedG : G := schedule prog gatedSc 400 [0, 0, 0, 1] (G.init gatedCs)
/-- the state in which the gated callees are still waiting: invocation 1 has finished, none of the others has -/
def gatedMidG : G := schedule prog gatedSc 4 [0, 0, 0, 1] (G.init gatedCs)

example : GRun prog (G.init gatedCs) gatedG := schedule_run _ _ _ _ _
example : gatedG.invs.map (fun l => l.st.out) = [some .retOk, some .raisedCPE, some .raisedCallee, some .retOk] ∧ gatedG.tbl = [] ∧
    gatedG.invs.all (fun l => l.st.released) = true := by decide +kernel
example : GRun prog (G.init gatedCs) gatedMidG := schedule_run _ _ _ _ _
example : gatedMidG.invs.map (fun l => (l.st.out, l.st.cpc)) =
    [(none, .running), (some .raisedCPE, .exited), (none, .running), (none, .running)] := by decide +kernel

/-- non-vacuity: three event loops, in each more invocations than the first had, every kind of callee; scheduled to the end -/
def roundsCs1 : List (Callee × Bool) := [(.ret 0, false), (.raiseExc 1, false)]
def roundsCs2 : List (Callee × Bool) := [(.hardDeath .signal, false), (.ret 3, true), (.ret 4, false)]
def roundsSc : List Sched := [⟨1, none, [], 0, none⟩, ⟨1, none, [], 0, none⟩, ⟨1, none, [], 0, none⟩, ⟨2, none, [], 0, none⟩, ⟨0, some 3, [], 0, none⟩]
def roundsG1 : G := schedule prog roundsSc 400 [1, 1, 1, 2, 0] (G.newLoop (G.init []) roundsCs1)
def roundsG2 : G := schedule prog roundsSc 400 [1, 1, 1, 2, 0] (G.newLoop roundsG1 roundsCs2)

example : roundsG1.invs.all (fun l => l.st.final) = true := by decide +kernel
example : MRun (([] ++ roundsCs1) ++ roundsCs2) roundsG2 := by
  have h1 : MRun ([] ++ roundsCs1) roundsG1 := mrun_trans_grun (.newLoop roundsCs1 .start (by simp [G.init])) (schedule_run _ _ _ _ _)
  have hf : ∀ l ∈ roundsG1.invs, l.st.final = true := by
    have : roundsG1.invs.all (fun l => l.st.final) = true := by decide +kernel
    simpa [List.all_eq_true] using this
  exact mrun_trans_grun (.newLoop roundsCs2 h1 hf) (schedule_run _ _ _ _ _)
example : roundsG2.invs.map (fun l => l.st.out) =
    [some .retOk, some .raisedCallee, some .raisedCPE, some .retOk, some .retOk] ∧ roundsG2.tbl = [] := by decide +kernel


/-! ## negation witnesses: the protocol before the repair, and a protocol that forgets `remove_reader` -/

/-- `calculate_in_subprocess` before commit 47f1196 (the translator's output for that source): the parent keeps its copy
    of the write end until the very end, no EOF handler, no `finally` -/
def oldProg : List Instr := [
  ⟨.pipe, none, none, none⟩, ⟨.start, none, none, none⟩, ⟨.addReader, none, none, none⟩, ⟨.pollWait, none, none, none⟩,
  ⟨.removeReader, none, none, none⟩, ⟨.clearEvent, none, none, none⟩, ⟨.recv, none, none, none⟩, ⟨.join, none, none, none⟩,
  ⟨.closeRx, none, none, none⟩, ⟨.closeTx, none, none, none⟩, ⟨.raiseIfError, none, none, none⟩, ⟨.ret, none, none, none⟩]

def oldRank : List Nat := [12, 11, 10, 9, 8, 7, 6, 5, 4, 3, 2, 1]

/-- the current program with every `remove_reader` turned into a no-op -/
def noRemoveProg : List Instr :=
  prog.mapIdx (fun i x => if x.op == .removeReader then ⟨.jump (i + 1), none, none, none⟩ else x)

def deadG : G := schedule oldProg [⟨1, none, [], 0, none⟩] 64 [1] (G.init [(.hardDeath .osExit, false)])
def staleG : G := schedule noRemoveProg [⟨1, none, [], 0, none⟩, ⟨1, some 0, [], 0, none⟩] 200 [1, 1] (G.init [(.ret 0, false), (.ret 1, false)])

/-- before the repair a normal run was fine (as long as nobody cancels the awaiting task) … -/
theorem unfixed_normal_ok : sysCheck oldProg oldRank .sendOk false = true ∧ sysCheck oldProg oldRank .sendErr false = true := by
  decide +kernel

/-- … but with a child that dies before sending, the local machine has a reachable state that is not final and has no
    successor: {parent suspended in the wait, child exited, no message, parent's write end OPEN, reader registered,
    event unset} — the observed hang -/
theorem unfixed_deadlock_local :
    (reachSys oldProg .die false).any (fun s => !s.final && (sysNext oldProg .die false s).isEmpty && s.parked && s.parentTx &&
      s.cpc == .exited && s.buf == .empty) = true := by
  decide +kernel

/-- **negation witness for the old protocol** in the global machine: a run of one invocation whose child calls
    `os._exit` ends in a state where the invocation is pending and *no* step of the system is enabled — the only thing that can still
    happen is that the environment cancels the awaiting task -/
theorem unfixed_deadlock :
    ∃ g, GRun oldProg (G.init [(.hardDeath .osExit, false)]) g ∧ (∃ l ∈ g.invs, l.st.final = false) ∧
      ∀ g', GStep oldProg g g' → ∃ i, gCancel oldProg i g = some g' := by
  refine ⟨deadG, schedule_run _ _ _ _ _, ?_, ?_⟩
  · have : deadG.invs.any (fun l => !l.st.final) = true := by decide +kernel
    obtain ⟨l, hl, h⟩ := List.any_eq_true.1 this
    exact ⟨l, hl, by simpa using h⟩
  · intro g' h
    have he : gsucc oldProg deadG = [] := by decide +kernel
    rcases gstep_gsucc_ne_nil h with h1 | h1
    · exact absurd he h1
    · exact h1

/-- **why the reader must be removed before the fd is closed**: with `remove_reader` dropped, two invocations *one after
    the other* (the second re-uses the fd number of the first) end with the second one pending for ever — its
    `add_reader` found the stale selector entry and never reached the kernel.  No callback ever reaches a wrong event
    (epoll forgets closed fds), the damage is a hang. -/
theorem stale_reader_hang :
    ∃ g, GRun noRemoveProg (G.init [(.ret 0, false), (.ret 1, false)]) g ∧ (∃ l ∈ g.invs, l.st.final = false) ∧
      (∃ e ∈ g.tbl, e.live = false) ∧ ∀ g', GStep noRemoveProg g g' → ∃ i, gCancel noRemoveProg i g = some g' := by
  refine ⟨staleG, schedule_run _ _ _ _ _, ?_, ?_, ?_⟩
  · have : staleG.invs.any (fun l => !l.st.final) = true := by decide +kernel
    obtain ⟨l, hl, h⟩ := List.any_eq_true.1 this
    exact ⟨l, hl, by simpa using h⟩
  · have : staleG.tbl.any (fun e => !e.live) = true := by decide +kernel
    obtain ⟨e, he, h⟩ := List.any_eq_true.1 this
    exact ⟨e, he, by simpa using h⟩
  · intro g' h
    have he : gsucc noRemoveProg staleG = [] := by decide +kernel
    rcases gstep_gsucc_ne_nil h with h1 | h1
    · exact absurd he h1
    · exact h1

/-! ## non-vacuity: concrete runs that meet the hypotheses of the theorems above -/

/-- six invocations — concurrent and sequential, every kind of callee — scheduled to the end -/
def demoCs : List (Callee × Bool) :=
  [(.ret 0, false), (.raiseExc 1, false), (.hardDeath .osExit, false), (.ret 3, true), (.raiseBase 4, false), (.midSendDeath 5, true)]
def demoG : G :=
  schedule prog [⟨2, none, [], 0, none⟩, ⟨1, none, [], 0, none⟩, ⟨1, some 0, [], 0, none⟩, ⟨0, none, [], 0, none⟩, ⟨3, some 3, [], 0, none⟩, ⟨0, none, [], 0, none⟩] 400 [2, 1, 1, 0, 3, 0] (G.init demoCs)

/-- `GRun prog (G.init demoCs) demoG` holds, all six have finished, with the outcomes the specification names -/
example : GRun prog (G.init demoCs) demoG := schedule_run _ _ _ _ _
example : demoG.invs.map (fun l => l.st.out) =
    [some .retOk, some .raisedCallee, some .raisedCPE, some .retOk, some .raisedCPE, some .raisedErr] := by decide +kernel
example : demoG.tbl = [] ∧ demoG.invs.all (fun l => l.st.released && l.rx.isNone && l.tx.isNone) = true := by decide +kernel
/-- the guard of `other_tasks_run_partial` is met by these states -/
example : promptExit demoG = true := by decide +kernel
/-- a state in the middle of a run: three invocations pending, three selector entries at three different fd numbers -/
def midG : G := loopPhase prog [⟨1, none, [], 0, none⟩, ⟨1, none, [], 0, none⟩, ⟨1, none, [], 0, none⟩] (G.init [(.ret 0, false), (.ret 1, false), (.unpicklable, false)])
example : GRun prog (G.init [(.ret 0, false), (.ret 1, false), (.unpicklable, false)]) midG := loopPhase_run _ _ _
example : midG.tbl.map (fun e => (e.fd, e.owner)) = [(2, 2), (1, 1), (0, 0)] ∧ midG.invs.all (fun l => l.st.parked) = true := by
  decide +kernel

/-- **the object in the pipe is the object the caller gets**: the pipe carries WHICH object was sent (`Obj.own`: the one the callee produced),
    `recv` copies it into `result`, `raise result.exception` / `return result` hand over what `result` holds — `local_ok` checks the outcome
    against that token.  Witness that the check can fail: the current program with `result` overwritten by anything else before it is
    returned hands the caller a foreign object (`retForeign`), which `local_ok` rejects. -/
def overwriteProg : List Instr := prog.map (fun x => if x.op == .raiseIfError then { x with op := .setForeign } else x)

theorem payload_must_arrive :
    (reach prog .sendOk false).all (fun s => !s.final || s.cancelled || (s.res == .ok .own && s.out == some .retOk)) = true ∧
    (reach prog .sendErr true).all (fun s => !s.final || s.cancelled || (s.res == .err .own && s.out == some .raisedCallee)) = true ∧
    (reach overwriteProg .sendOk false).any (fun s => s.final && !s.cancelled && s.out == some .retForeign) = true ∧
    localCheck overwriteProg progRank (.sendOk, false) = false := by
  decide +kernel

/-- what the translator read off the rest of the module (the child is an ordinary, non-daemonic process: the callee may start
    processes of its own) -/
theorem source_shape :
    processArgsForwarded = true ∧ processDaemon = false ∧ innerRunsCoroutines = true ∧ wrapperIsAsync = true ∧ wrapperWraps = true ∧
    wrapperForwards = true := by decide

/-- every `join` of the generated program waits for the child without a time limit -/
theorem join_waits : prog.all (fun i => i.op != .joinTimeout) = true := by decide

/-- **why `join` must not give up**: the current program with every `join` given a timeout has a reachable final state of the
    one-invocation machine — the caller already holds its result — in which the child has neither exited nor been reaped
    (negation witness for "no un-reaped child process behind") -/
def joinTimeoutProg : List Instr := prog.map (fun x => if x.op == .join then { x with op := .joinTimeout } else x)

theorem join_timeout_leaves_child :
    (reach joinTimeoutProg .sendOk false).any (fun s => s.final && s.out == some .retOk && !s.reaped && s.cpc == .sent && !s.released) = true := by
  decide +kernel

/-- **why the child must not be daemonic**: with `daemon=True` a callee that starts a process of its own does not get its value
    through — the caller is handed an error although the function, run directly, returns -/
theorem daemon_breaks_spawning_callee (v : Nat) :
    childBehD true (.spawns v) = .sendErr ∧ observe (.spawns v) .raisedCallee ∉ Spec.allowed (.spawns v) := by
  constructor
  · simp only [childBehD]; decide
  · simp [observe, Spec.allowed]

end PedVerif.Subproc
