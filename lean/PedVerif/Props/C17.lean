import PedVerif.Spec.Subproc
/-!
# C17 — in_subprocess: faithful result, own result, non-blocking, always terminates, releases everything

All theorems are about `PedVerif.Gen.Subproc.prog` — the instruction list the translator compiled from the *current*
source of `calculate_in_subprocess` — and the flags it read off `_inner`.  The finite facts about one invocation are
checked by evaluation on the computed reachable set of the local machine (`local_ok`, `decide +kernel`); everything
about **any number of concurrent invocations, any assignment of callee behaviours / child deaths and any interleaving**
is proved from them by induction (invariant `WF` of the global machine with the fd-keyed selector map).
-/
namespace PedVerif.Subproc
open PedVerif.Gen.Subproc

/-! ## facts about one invocation, checked on the reachable set -/

def cfgs : List (Beh × Bool) :=
  [(.sendOk, false), (.sendOk, true), (.sendErr, false), (.sendErr, true), (.die, false), (.die, true),
   (.dieMidSend, false), (.dieMidSend, true)]

theorem cfgs_all (b : Beh) (big : Bool) : (b, big) ∈ cfgs := by cases b <;> cases big <;> decide

/-- what a parent step may do to the fields the shared tables depend on -/
def effOk (s t : St) : Eff → Bool
  | .none => t.reader == s.reader && t.rxOpen == s.rxOpen && t.parentTx == s.parentTx
  | .allocPipe => !s.rxOpen && !s.parentTx && !s.reader && t.rxOpen && t.parentTx && !t.reader
  | .freeTx => s.parentTx && !t.parentTx && t.reader == s.reader && t.rxOpen == s.rxOpen
  | .addReader => s.rxOpen && t.rxOpen && t.reader && t.parentTx == s.parentTx
  | .removeReader => s.rxOpen && t.rxOpen && !t.reader && t.parentTx == s.parentTx
  | .freeRx => s.rxOpen && !t.rxOpen && !s.reader && !t.reader && t.parentTx == s.parentTx

def frameOk (s t : St) : Bool := t.reader == s.reader && t.rxOpen == s.rxOpen && t.parentTx == s.parentTx

/-- the outcome the protocol must produce for a child behaviour -/
def outOk : Beh → Option Outcome → Bool
  | .sendOk, o => o == some .retOk
  | .sendErr, o => o == some .raisedCallee
  | .die, o => o == some .raisedCPE
  | .dieMidSend, o => o == some .raisedErr || o == some .retOk

def isWait (P : List Instr) (s : St) : Bool :=
  match P[s.pc]? with | some i => i.op == .pollWait || i.op == .wait | none => false

def isJoin (P : List Instr) (s : St) : Bool := match P[s.pc]? with | some i => i.op == .join | none => false

/-- everything we need to know about one reachable local state -/
def stateOk (P : List Instr) (Rk : List Nat) (b : Beh) (big : Bool) (R : List St) (s : St) : Bool :=
  (next P b big s).all (fun t => R.contains t && decide (rank Rk t < rank Rk s))   -- closed; every step decreases the rank
  && (s.final || !(next P b big s).isEmpty)                                        -- never stuck before the end
  && (!s.final || (s.released && outOk b s.out))                                   -- at the end: released, right outcome
  && (match parentStep P s with | some (t, eff) => effOk s t eff | none => true)
  && (match childStep b big s with | some t => frameOk s t | none => true)
  && (!s.reader || s.rxOpen)                                                       -- the reader is removed before rx is closed
  && (!syncBlocked P s || (isJoin P s && s.cpc == .sent))                          -- the only synchronous wait: join after the child has sent
  && (!s.parked || isWait P s)                                                     -- suspended only at an `await event.wait()`

def localCheck (P : List Instr) (Rk : List Nat) (c : Beh × Bool) : Bool :=
  (reach P c.1 c.2).contains St.init && (reach P c.1 c.2).all (stateOk P Rk c.1 c.2 (reach P c.1 c.2))

/-- **the finite core**: for every child behaviour, on the reachable set of the generated protocol -/
theorem local_ok : cfgs.all (localCheck prog progRank) = true := by decide +kernel

/-- reachable local states of an invocation with child behaviour `b` -/
def LReach (b : Beh) (big : Bool) (s : St) : Prop := s ∈ reach prog b big

theorem lcheck (b : Beh) (big : Bool) : localCheck prog progRank (b, big) = true := by
  have h := local_ok
  rw [List.all_eq_true] at h
  exact h _ (cfgs_all b big)

theorem init_reach (b : Beh) (big : Bool) : LReach b big St.init := by
  have h := lcheck b big
  simp only [localCheck, Bool.and_eq_true] at h
  simpa [LReach] using h.1

theorem state_ok {b : Beh} {big : Bool} {s : St} (hs : LReach b big s) :
    stateOk prog progRank b big (reach prog b big) s = true := by
  have h := lcheck b big
  simp only [localCheck, Bool.and_eq_true, List.all_eq_true] at h
  exact h.2 s hs

theorem local_closed {b big s t} (hs : LReach b big s) (ht : t ∈ next prog b big s) : LReach b big t := by
  have h := state_ok hs
  simp only [stateOk, Bool.and_eq_true, List.all_eq_true, decide_eq_true_eq] at h
  have := (h.1.1.1.1.1.1.1 t ht).1
  simpa [LReach] using this

theorem local_rank {b big s t} (hs : LReach b big s) (ht : t ∈ next prog b big s) : rank progRank t < rank progRank s := by
  have h := state_ok hs
  simp only [stateOk, Bool.and_eq_true, List.all_eq_true, decide_eq_true_eq] at h
  exact (h.1.1.1.1.1.1.1 t ht).2

theorem local_progress {b big s} (hs : LReach b big s) (hnf : s.final = false) : ∃ t, t ∈ next prog b big s := by
  have h := state_ok hs
  simp only [stateOk, Bool.and_eq_true] at h
  have h2 := h.1.1.1.1.1.1.2
  simp [hnf] at h2
  exact List.exists_mem_of_ne_nil _ h2

theorem local_final {b big s} (hs : LReach b big s) (hf : s.final = true) : s.released = true ∧ outOk b s.out = true := by
  have h := state_ok hs
  simp only [stateOk, Bool.and_eq_true] at h
  have h2 := h.1.1.1.1.1.2
  simpa [hf] using h2

theorem local_eff {b big s t eff} (hs : LReach b big s) (hp : parentStep prog s = some (t, eff)) : effOk s t eff = true := by
  have h := state_ok hs
  simp only [stateOk, Bool.and_eq_true] at h
  have h2 := h.1.1.1.1.2
  simpa [hp] using h2

theorem local_child_frame {b big s t} (hs : LReach b big s) (hc : childStep b big s = some t) : frameOk s t = true := by
  have h := state_ok hs
  simp only [stateOk, Bool.and_eq_true] at h
  have h2 := h.1.1.1.2
  simpa [hc] using h2

theorem local_reader_open {b big s} (hs : LReach b big s) (hr : s.reader = true) : s.rxOpen = true := by
  have h := state_ok hs
  simp only [stateOk, Bool.and_eq_true] at h
  have h2 := h.1.1.2
  simpa [hr] using h2

theorem local_sync {b big s} (hs : LReach b big s) (hb : syncBlocked prog s = true) : isJoin prog s = true ∧ s.cpc = .sent := by
  have h := state_ok hs
  simp only [stateOk, Bool.and_eq_true] at h
  have h2 := h.1.2
  simpa [hb] using h2

theorem local_parked {b big s} (hs : LReach b big s) (hp : s.parked = true) : isWait prog s = true := by
  have h := state_ok hs
  simp only [stateOk, Bool.and_eq_true] at h
  have h2 := h.2
  simpa [hp] using h2

/-! ## the global machine: list and table lemmas -/

theorem get_set {α : Type} {xs : List α} {i : Nat} {a : α} (x : α) (h : xs[i]? = some a) (j : Nat) :
    (xs.set i x)[j]? = if i = j then some x else xs[j]? := by
  have hlt : i < xs.length := (List.getElem?_eq_some_iff.1 h).1
  rw [List.getElem?_set]
  split
  · simp
  · rfl

theorem maxOf_ge {xs : List Nat} {x : Nat} (h : x ∈ xs) : x ≤ maxOf xs := by
  induction xs with
  | nil => simp at h
  | cons y ys ih =>
    simp only [List.mem_cons] at h
    simp only [maxOf]
    rcases h with rfl | h
    · omega
    · have := ih h; omega

/-- the allocator returns an fd number that is not in use -/
theorem lowestFree_fresh (used : List Nat) : lowestFree used ∉ used := by
  unfold lowestFree
  split
  · next n hn => have := List.find?_some hn; simpa using this
  · intro h; have := maxOf_ge h; omega

theorem rx_mem_used {invs : List Loc} {j : Nat} {lj : Loc} {fd : Nat} (h : invs[j]? = some lj) (hrx : lj.rx = some fd) :
    fd ∈ usedFds invs := by
  simp only [usedFds, List.mem_flatMap]
  exact ⟨lj, List.mem_of_getElem? h, by simp [hrx]⟩

theorem mem_tblErase {fd : Nat} {t : List Entry} {e : Entry} : e ∈ tblErase fd t ↔ e ∈ t ∧ e.fd ≠ fd := by
  simp [tblErase]

theorem mem_tblPut {fd o : Nat} {t : List Entry} (hlive : ∀ e ∈ t, e.fd = fd → e.live = true) {e : Entry} :
    e ∈ tblPut fd o t ↔ e = ⟨fd, o, true⟩ ∨ (e ∈ t ∧ e.fd ≠ fd) := by
  unfold tblPut
  split
  · next old hold =>
    have hm := List.mem_of_find?_eq_some hold
    have hp := List.find?_some hold
    have hl := hlive old hm (by simpa using hp)
    simp [hl, mem_tblErase]
  · next hnone =>
    rw [List.find?_eq_none] at hnone
    simp only [List.mem_cons]
    constructor
    · rintro (h | h)
      · exact Or.inl h
      · exact Or.inr ⟨h, by have := hnone e h; simpa using this⟩
    · rintro (h | h)
      · exact Or.inl h
      · exact Or.inr h.1

theorem tblMarkDead_id {fd : Nat} {t : List Entry} (h : ∀ e ∈ t, e.fd ≠ fd) : tblMarkDead fd t = t := by
  unfold tblMarkDead
  induction t with
  | nil => rfl
  | cons x xs ih =>
    have hx := h x (by simp)
    simp only [List.map_cons]
    rw [ih (fun e he => h e (by simp [he]))]
    simp [hx]

/-! ## invariant of the global machine -/

/-- the local state of an invocation is a reachable state of the local machine for its child behaviour -/
def LR (l : Loc) : Prop := LReach (childBeh l.callee) l.big l.st

/-- **table invariant**: fd numbers of open read ends are pairwise distinct, and the selector map holds exactly one
    live entry per registered invocation, at the fd number that invocation currently owns -/
structure WF (g : G) : Prop where
  reach : ∀ (i : Nat) (l : Loc), g.invs[i]? = some l → LR l
  rxIff : ∀ (i : Nat) (l : Loc), g.invs[i]? = some l → l.rx.isSome = l.st.rxOpen
  txIff : ∀ (i : Nat) (l : Loc), g.invs[i]? = some l → l.tx.isSome = l.st.parentTx
  rxInj : ∀ (i j : Nat) (li lj : Loc) (fd : Nat), g.invs[i]? = some li → g.invs[j]? = some lj → li.rx = some fd → lj.rx = some fd → i = j
  entOk : ∀ e ∈ g.tbl, e.live = true ∧ ∃ l : Loc, g.invs[e.owner]? = some l ∧ l.rx = some e.fd ∧ l.st.reader = true
  rdOk : ∀ (i : Nat) (l : Loc), g.invs[i]? = some l → l.st.reader = true → ∃ fd, l.rx = some fd ∧ (⟨fd, i, true⟩ : Entry) ∈ g.tbl

/-- replacing invocation `i` and the table keeps the invariant, under the obligations listed -/
theorem wf_update {g : G} (hwf : WF g) {i : Nat} {l l' : Loc} {tbl' : List Entry}
    (hi : g.invs[i]? = some l) (hreach : LR l')
    (hrx : l'.rx.isSome = l'.st.rxOpen) (htx : l'.tx.isSome = l'.st.parentTx)
    (hfresh : ∀ fd, l'.rx = some fd → l.rx = some fd ∨ (∀ (j : Nat) (lj : Loc), g.invs[j]? = some lj → lj.rx ≠ some fd))
    (hent : ∀ e ∈ tbl', e.live = true ∧ ((e.owner = i ∧ l'.rx = some e.fd ∧ l'.st.reader = true) ∨ (e.owner ≠ i ∧ e ∈ g.tbl)))
    (hrdi : l'.st.reader = true → ∃ fd, l'.rx = some fd ∧ (⟨fd, i, true⟩ : Entry) ∈ tbl')
    (hrdo : ∀ e ∈ g.tbl, e.owner ≠ i → e ∈ tbl') :
    WF { invs := g.invs.set i l', tbl := tbl' } := by
  have gs := fun j => get_set l' hi j
  refine ⟨?_, ?_, ?_, ?_, ?_, ?_⟩
  · intro j lj hj
    rw [gs j] at hj
    split at hj
    · cases hj; exact hreach
    · exact hwf.reach j lj hj
  · intro j lj hj
    rw [gs j] at hj
    split at hj
    · cases hj; exact hrx
    · exact hwf.rxIff j lj hj
  · intro j lj hj
    rw [gs j] at hj
    split at hj
    · cases hj; exact htx
    · exact hwf.txIff j lj hj
  · intro a b la lb fd ha hb hra hrb
    rw [gs a] at ha
    rw [gs b] at hb
    split at ha <;> split at hb
    · omega
    · next hia hib =>
      cases ha
      rcases hfresh fd hra with h | h
      · have := hwf.rxInj i b l lb fd hi hb h hrb; omega
      · exact absurd hrb (h b lb hb)
    · next hia hib =>
      cases hb
      rcases hfresh fd hrb with h | h
      · have := hwf.rxInj a i la l fd ha hi hra h; omega
      · exact absurd hra (h a la ha)
    · exact hwf.rxInj a b la lb fd ha hb hra hrb
  · intro e he
    obtain ⟨hl, h⟩ := hent e he
    refine ⟨hl, ?_⟩
    rcases h with ⟨ho, hr, hrd⟩ | ⟨ho, hm⟩
    · exact ⟨l', by rw [gs e.owner]; simp [ho], hr, hrd⟩
    · obtain ⟨_, lo, hlo, h1, h2⟩ := hwf.entOk e hm
      refine ⟨lo, ?_, h1, h2⟩
      rw [gs e.owner]
      have : ¬ i = e.owner := fun h => ho h.symm
      simp [this, hlo]
  · intro j lj hj hr
    rw [gs j] at hj
    split at hj
    · next hij => cases hj; subst hij; exact hrdi hr
    · next hij =>
      obtain ⟨fd, h1, h2⟩ := hwf.rdOk j lj hj hr
      exact ⟨fd, h1, hrdo _ h2 (fun h => hij h.symm)⟩

/-- the common case: the table is untouched, and a registered invocation keeps its fd and its registration -/
theorem wf_same_tbl {g : G} (hwf : WF g) {i : Nat} {l l' : Loc}
    (hi : g.invs[i]? = some l) (hreach : LR l')
    (hrx : l'.rx.isSome = l'.st.rxOpen) (htx : l'.tx.isSome = l'.st.parentTx)
    (hfresh : ∀ fd, l'.rx = some fd → l.rx = some fd ∨ (∀ (j : Nat) (lj : Loc), g.invs[j]? = some lj → lj.rx ≠ some fd))
    (hrd : l'.st.reader = l.st.reader) (hkeep : l.st.reader = true → l'.rx = l.rx) :
    WF { invs := g.invs.set i l', tbl := g.tbl } := by
  refine wf_update hwf hi hreach hrx htx hfresh ?_ ?_ (fun e he _ => he)
  · intro e he
    obtain ⟨hl, lo, hlo, h1, h2⟩ := hwf.entOk e he
    refine ⟨hl, ?_⟩
    by_cases ho : e.owner = i
    · left
      rw [ho, hi] at hlo
      cases hlo
      exact ⟨ho, by rw [hkeep h2]; exact h1, by rw [hrd]; exact h2⟩
    · right; exact ⟨ho, he⟩
  · intro hr
    rw [hrd] at hr
    obtain ⟨fd, h1, h2⟩ := hwf.rdOk i l hi hr
    exact ⟨fd, by rw [hkeep hr]; exact h1, h2⟩

/-! ## steps of the global machine keep the invariant -/

theorem gParent_some {i : Nat} {g g' : G} (h : gParent prog i g = some g') :
    ∃ l t eff, g.invs[i]? = some l ∧ parentStep prog l.st = some (t, eff) ∧ g' = applyEff i l t eff g := by
  unfold gParent at h
  split at h
  · simp at h
  · next l hl =>
    split at h
    · simp at h
    · next t eff hp => exact ⟨l, t, eff, hl, hp, by simpa using h.symm⟩

theorem gChild_some {i : Nat} {g g' : G} (h : gChild i g = some g') :
    ∃ l t, g.invs[i]? = some l ∧ childStep (childBeh l.callee) l.big l.st = some t ∧
      g' = { g with invs := g.invs.set i { l with st := t } } := by
  unfold gChild at h
  split at h
  · simp at h
  · next l hl =>
    split at h
    · simp at h
    · next t hc => exact ⟨l, t, hl, hc, by simpa using h.symm⟩

theorem gCallback_some {k : Nat} {g g' : G} (h : gCallback k g = some g') :
    ∃ e p o, g.tbl[k]? = some e ∧ e.live = true ∧ g.invs.find? (fun l => l.rx == some e.fd) = some p ∧
      p.st.readable = true ∧ g.invs[e.owner]? = some o ∧ o.st.event = false ∧
      g' = { g with invs := g.invs.set e.owner { o with st := { o.st with event := true } } } := by
  unfold gCallback at h
  split at h
  · simp at h
  · next e he =>
    split at h
    · simp at h
    · next hlive =>
      split at h
      · simp at h
      · next p hp =>
        split at h
        · simp at h
        · next hread =>
          split at h
          · simp at h
          · next o ho =>
            split at h
            · simp at h
            · next hev =>
              refine ⟨e, p, o, he, by simpa using hlive, hp, by simpa using hread, ho, by simpa using hev, by simpa using h.symm⟩

theorem parent_in_next {b : Beh} {big : Bool} {s t : St} {eff : Eff} (h : parentStep prog s = some (t, eff)) :
    t ∈ next prog b big s := by
  simp [next, h]

theorem child_in_next {b : Beh} {big : Bool} {s t : St} (h : childStep b big s = some t) : t ∈ next prog b big s := by
  simp [next, h]

theorem loop_in_next {b : Beh} {big : Bool} {s t : St} (h : loopStep s = some t) : t ∈ next prog b big s := by
  simp [next, h]

/-- under the invariant, the pipe whose readability triggers the callback of entry `e` is the pipe of `e.owner` -/
theorem callback_owner {g : G} (hwf : WF g) {e : Entry} {p o : Loc} (he : e ∈ g.tbl)
    (hp : g.invs.find? (fun l => l.rx == some e.fd) = some p) (ho : g.invs[e.owner]? = some o) :
    p = o ∧ o.rx = some e.fd ∧ o.st.reader = true := by
  obtain ⟨_, lo, hlo, h1, h2⟩ := hwf.entOk e he
  rw [ho] at hlo; cases hlo
  have hpm := List.mem_of_find?_eq_some hp
  have hpp := List.find?_some hp
  obtain ⟨j, hj⟩ := List.getElem?_of_mem hpm
  have hprx : p.rx = some e.fd := by simpa using hpp
  have := hwf.rxInj j e.owner p o e.fd hj ho hprx h1
  subst this
  rw [ho] at hj; cases hj
  exact ⟨rfl, h1, h2⟩

theorem wf_parent {g g' : G} (hwf : WF g) {i : Nat} (h : gParent prog i g = some g') : WF g' := by
  obtain ⟨l, t, eff, hi, hp, rfl⟩ := gParent_some h
  have hlr := hwf.reach i l hi
  have hrx := hwf.rxIff i l hi
  have htx := hwf.txIff i l hi
  have heff := local_eff hlr hp
  have hreach' : LReach (childBeh l.callee) l.big t := local_closed hlr (parent_in_next hp)
  -- entries at another invocation's fd do not exist
  have hown : ∀ e ∈ g.tbl, ∀ fd, l.rx = some fd → e.fd = fd → e.owner = i := by
    intro e he fd hfd hefd
    obtain ⟨_, lo, hlo, h1, _⟩ := hwf.entOk e he
    exact hwf.rxInj e.owner i lo l fd hlo hi (by rw [h1, hefd]) hfd
  have hownrd : ∀ e ∈ g.tbl, e.owner = i → l.st.reader = true ∧ l.rx = some e.fd := by
    intro e he ho
    obtain ⟨_, lo, hlo, h1, h2⟩ := hwf.entOk e he
    rw [ho, hi] at hlo; cases hlo
    exact ⟨h2, h1⟩
  cases eff with
  | none =>
    simp only [effOk, Bool.and_eq_true, beq_iff_eq] at heff
    exact wf_same_tbl hwf hi hreach' (by simp [hrx, heff.1.2]) (by simp [htx, heff.2]) (fun fd h => Or.inl h) heff.1.1 (fun _ => rfl)
  | freeTx =>
    simp only [effOk, Bool.and_eq_true, beq_iff_eq, Bool.not_eq_true'] at heff
    exact wf_same_tbl hwf hi hreach' (by simp [hrx, heff.2]) (by simp [heff.1.1.2]) (fun fd h => Or.inl h) heff.1.2 (fun _ => rfl)
  | allocPipe =>
    simp only [effOk, Bool.and_eq_true, Bool.not_eq_true'] at heff
    refine wf_same_tbl hwf hi hreach' (by simp [heff.1.1.2]) (by simp [heff.1.2]) ?_ (by simp [heff.2, heff.1.1.1.2]) ?_
    · intro fd hfd
      right
      intro j lj hj hr
      have hmem := rx_mem_used hj hr
      simp only [Option.some.injEq] at hfd
      rw [← hfd] at hmem
      exact lowestFree_fresh _ hmem
    · intro hr; rw [heff.1.1.1.2] at hr; cases hr
  | addReader =>
    simp only [effOk, Bool.and_eq_true, beq_iff_eq] at heff
    obtain ⟨⟨⟨hso, hto⟩, htr⟩, htp⟩ := heff
    have : l.rx.isSome = true := by rw [hrx, hso]
    obtain ⟨fd, hfd⟩ := Option.isSome_iff_exists.1 this
    simp only [applyEff, hfd]
    have hlive : ∀ e ∈ g.tbl, e.fd = fd → e.live = true := fun e he _ => (hwf.entOk e he).1
    refine wf_update hwf hi hreach' (by simp [hto]) (by simp [htx, htp]) (fun fd' h => Or.inl (by rw [hfd]; exact h)) ?_ ?_ ?_
    · intro e he
      rw [mem_tblPut hlive] at he
      rcases he with rfl | ⟨hm, hne⟩
      · exact ⟨rfl, Or.inl ⟨rfl, rfl, htr⟩⟩
      · refine ⟨(hwf.entOk e hm).1, Or.inr ⟨?_, hm⟩⟩
        intro ho
        have := (hownrd e hm ho).2
        rw [hfd] at this
        exact hne (by simpa using this.symm)
    · intro _
      exact ⟨fd, rfl, by rw [mem_tblPut hlive]; exact Or.inl rfl⟩
    · intro e he ho
      rw [mem_tblPut hlive]
      exact Or.inr ⟨he, fun hefd => ho (hown e he fd hfd hefd)⟩
  | removeReader =>
    simp only [effOk, Bool.and_eq_true, beq_iff_eq, Bool.not_eq_true'] at heff
    obtain ⟨⟨⟨hso, hto⟩, htr⟩, htp⟩ := heff
    have : l.rx.isSome = true := by rw [hrx, hso]
    obtain ⟨fd, hfd⟩ := Option.isSome_iff_exists.1 this
    simp only [applyEff, hfd]
    refine wf_update hwf hi hreach' (by simp [hto]) (by simp [htx, htp]) (fun fd' h => Or.inl (by rw [hfd]; exact h)) ?_ ?_ ?_
    · intro e he
      rw [mem_tblErase] at he
      refine ⟨(hwf.entOk e he.1).1, Or.inr ⟨?_, he.1⟩⟩
      intro ho
      have := (hownrd e he.1 ho).2
      rw [hfd] at this
      exact he.2 (by simpa using this.symm)
    · intro hr; simp [htr] at hr
    · intro e he ho
      rw [mem_tblErase]
      exact ⟨he, fun hefd => ho (hown e he fd hfd hefd)⟩
  | freeRx =>
    simp only [effOk, Bool.and_eq_true, beq_iff_eq, Bool.not_eq_true'] at heff
    obtain ⟨⟨⟨⟨hso, hto⟩, hsr⟩, htr⟩, htp⟩ := heff
    have : l.rx.isSome = true := by rw [hrx, hso]
    obtain ⟨fd, hfd⟩ := Option.isSome_iff_exists.1 this
    simp only [applyEff, hfd]
    have hno : ∀ e ∈ g.tbl, e.fd ≠ fd := by
      intro e he hefd
      have ho := hown e he fd hfd hefd
      have := (hownrd e he ho).1
      rw [hsr] at this; cases this
    rw [tblMarkDead_id hno]
    exact wf_same_tbl hwf hi hreach' (by simp [hto]) (by simp [htx, htp]) (fun fd' h => by simp at h) (by simp [htr, hsr])
      (fun hr => by rw [hsr] at hr; cases hr)

theorem wf_child {g g' : G} (hwf : WF g) {i : Nat} (h : gChild i g = some g') : WF g' := by
  obtain ⟨l, t, hi, hc, rfl⟩ := gChild_some h
  have hlr := hwf.reach i l hi
  have hf := local_child_frame hlr hc
  simp only [frameOk, Bool.and_eq_true, beq_iff_eq] at hf
  exact wf_same_tbl hwf hi (local_closed hlr (child_in_next hc)) (by simp [hwf.rxIff i l hi, hf.1.2])
    (by simp [hwf.txIff i l hi, hf.2]) (fun fd h => Or.inl h) hf.1.1 (fun _ => rfl)

/-- under the invariant a callback step is the local event-loop step of the entry's owner -/
theorem callback_local {g g' : G} (hwf : WF g) {k : Nat} (h : gCallback k g = some g') :
    ∃ e o, g.tbl[k]? = some e ∧ g.invs[e.owner]? = some o ∧ o.rx = some e.fd ∧
      loopStep o.st = some { o.st with event := true } ∧
      g' = { g with invs := g.invs.set e.owner { o with st := { o.st with event := true } } } := by
  obtain ⟨e, p, o, he, _, hp, hread, ho, hev, rfl⟩ := gCallback_some h
  obtain ⟨rfl, hrx, hrd⟩ := callback_owner hwf (List.mem_of_getElem? he) hp ho
  have hopen : p.st.rxOpen = true := by rw [← hwf.rxIff e.owner p ho, hrx]; rfl
  exact ⟨e, p, he, ho, hrx, by simp [loopStep, hrd, hopen, hread, hev], rfl⟩

theorem wf_callback {g g' : G} (hwf : WF g) {k : Nat} (h : gCallback k g = some g') : WF g' := by
  obtain ⟨e, o, _, ho, _, hl, rfl⟩ := callback_local hwf h
  have hlr := hwf.reach e.owner o ho
  exact wf_same_tbl hwf ho (local_closed hlr (loop_in_next hl)) (by simp [hwf.rxIff e.owner o ho])
    (by simp [hwf.txIff e.owner o ho]) (fun fd h => Or.inl h) rfl (fun _ => rfl)

theorem wf_step {g g' : G} (hwf : WF g) (h : GStep prog g g') : WF g' := by
  cases h with
  | parent i h => exact wf_parent hwf h
  | child i h => exact wf_child hwf h
  | callback k h => exact wf_callback hwf h

theorem wf_init (cs : List (Callee × Bool)) : WF (G.init cs) := by
  have hfresh : ∀ (i : Nat) (l : Loc), (G.init cs).invs[i]? = some l → ∃ c big, l = Loc.fresh c big := by
    intro i l h
    have := List.mem_of_getElem? h
    simp only [G.init, List.mem_map] at this
    obtain ⟨c, _, rfl⟩ := this
    exact ⟨c.1, c.2, rfl⟩
  refine ⟨?_, ?_, ?_, ?_, ?_, ?_⟩
  · intro i l h; obtain ⟨c, big, rfl⟩ := hfresh i l h; exact init_reach _ _
  · intro i l h; obtain ⟨c, big, rfl⟩ := hfresh i l h; rfl
  · intro i l h; obtain ⟨c, big, rfl⟩ := hfresh i l h; rfl
  · intro i j li lj fd hi _ hr _; obtain ⟨c, big, rfl⟩ := hfresh i li hi; simp [Loc.fresh] at hr
  · intro e he; simp [G.init] at he
  · intro i l h hr; obtain ⟨c, big, rfl⟩ := hfresh i l h; simp [Loc.fresh, St.init] at hr

theorem wf_run {cs : List (Callee × Bool)} {g : G} (h : GRun prog (G.init cs) g) : WF g := by
  generalize hg0 : G.init cs = g0 at h
  induction h with
  | refl => subst hg0; exact wf_init cs
  | step _ hs ih => exact wf_step ih hs

/-! ## every global step is a local step of one invocation; the sum of the local ranks decreases -/

def rankSum (invs : List Loc) : Nat := (invs.map (fun l => rank progRank l.st)).sum

theorem rankSum_set {invs : List Loc} {i : Nat} {l l' : Loc} (h : invs[i]? = some l) :
    rankSum (invs.set i l') + rank progRank l.st = rankSum invs + rank progRank l'.st := by
  induction invs generalizing i with
  | nil => simp at h
  | cons x xs ih =>
    cases i with
    | zero =>
      simp only [List.getElem?_cons_zero, Option.some.injEq] at h
      subst h
      simp only [rankSum, List.set_cons_zero, List.map_cons, List.sum_cons]; omega
    | succ n =>
      simp only [List.getElem?_cons_succ] at h
      have := ih h
      simp only [rankSum, List.set_cons_succ, List.map_cons, List.sum_cons] at *; omega

theorem gstep_local {g g' : G} (hwf : WF g) (h : GStep prog g g') :
    ∃ (i : Nat) (l l' : Loc), g.invs[i]? = some l ∧ g'.invs = g.invs.set i l' ∧ l'.callee = l.callee ∧ l'.big = l.big ∧
      l'.st ∈ next prog (childBeh l.callee) l.big l.st := by
  cases h with
  | parent i h =>
    obtain ⟨l, t, eff, hi, hp, rfl⟩ := gParent_some h
    have hn : t ∈ next prog (childBeh l.callee) l.big l.st := parent_in_next hp
    cases eff <;> exact ⟨i, l, _, hi, rfl, rfl, rfl, hn⟩
  | child i h =>
    obtain ⟨l, t, hi, hc, rfl⟩ := gChild_some h
    exact ⟨i, l, _, hi, rfl, rfl, rfl, child_in_next hc⟩
  | callback k h =>
    obtain ⟨e, o, _, ho, _, hl, rfl⟩ := callback_local hwf h
    exact ⟨e.owner, o, _, ho, rfl, rfl, rfl, loop_in_next hl⟩

theorem gstep_rank {g g' : G} (hwf : WF g) (h : GStep prog g g') : rankSum g'.invs < rankSum g.invs := by
  obtain ⟨i, l, l', hi, hset, _, _, hn⟩ := gstep_local hwf h
  have := local_rank (hwf.reach i l hi) hn
  have h2 := rankSum_set (l' := l') hi
  rw [hset]; omega

/-! ## no invocation is ever stuck: a pending invocation always has an enabled step of its own -/

/-- a step of the component `i`: its parent, its child, or the callback of a selector entry it owns -/
def StepOf (i : Nat) (g g' : G) : Prop :=
  gParent prog i g = some g' ∨ gChild i g = some g' ∨ ∃ k e, g.tbl[k]? = some e ∧ e.owner = i ∧ gCallback k g = some g'

theorem stepOf_gstep {i : Nat} {g g' : G} (h : StepOf i g g') : GStep prog g g' := by
  rcases h with h | h | ⟨k, _, _, _, h⟩
  · exact .parent i h
  · exact .child i h
  · exact .callback k h

theorem progress_of {g : G} (hwf : WF g) {i : Nat} {l : Loc} (hi : g.invs[i]? = some l) (hnf : l.st.final = false) :
    ∃ g', StepOf i g g' := by
  obtain ⟨t, ht⟩ := local_progress (hwf.reach i l hi) hnf
  simp only [next, List.mem_append, Option.mem_toList, Option.map_eq_some_iff] at ht
  rcases ht with (⟨⟨t', eff⟩, hp, _⟩ | hc) | hl
  · exact ⟨applyEff i l t' eff g, Or.inl (by simp [gParent, hi, hp])⟩
  · exact ⟨{ g with invs := g.invs.set i { l with st := t } }, Or.inr (Or.inl (by simp only [gChild, hi, hc]))⟩
  · have hcond : l.st.reader = true ∧ l.st.rxOpen = true ∧ l.st.readable = true ∧ l.st.event = false := by
      unfold loopStep at hl
      split at hl
      · next hc => simpa [Bool.and_eq_true, and_assoc] using hc
      · simp at hl
    obtain ⟨hrd, _, hread, hev⟩ := hcond
    obtain ⟨fd, hfd, hent⟩ := hwf.rdOk i l hi hrd
    obtain ⟨k, hk⟩ := List.getElem?_of_mem hent
    have hfind : g.invs.find? (fun x => x.rx == some fd) = some l := by
      cases hf : g.invs.find? (fun x => x.rx == some fd) with
      | none =>
        rw [List.find?_eq_none] at hf
        have := hf l (List.mem_of_getElem? hi)
        simp [hfd] at this
      | some p =>
        have hpm := List.mem_of_find?_eq_some hf
        have hpp := List.find?_some hf
        obtain ⟨j, hj⟩ := List.getElem?_of_mem hpm
        have := hwf.rxInj j i p l fd hj hi (by simpa using hpp) hfd
        subst this
        rw [hi] at hj; cases hj; rfl
    refine ⟨{ g with invs := g.invs.set i { l with st := { l.st with event := true } } }, Or.inr (Or.inr ⟨k, _, hk, rfl, ?_⟩)⟩
    simp [gCallback, hk, hfind, hread, hi, hev]

/-! ## when every invocation has finished, nothing is left -/

theorem all_released {g : G} (hwf : WF g) (hfin : ∀ l ∈ g.invs, l.st.final = true) :
    (∀ l ∈ g.invs, l.st.released = true ∧ l.rx = none ∧ l.tx = none) ∧ g.tbl = [] := by
  have hrel : ∀ (i : Nat) (l : Loc), g.invs[i]? = some l → l.st.released = true := fun i l hi =>
    (local_final (hwf.reach i l hi) (hfin l (List.mem_of_getElem? hi))).1
  constructor
  · intro l hl
    obtain ⟨i, hi⟩ := List.getElem?_of_mem hl
    have hr := hrel i l hi
    have h1 := hwf.rxIff i l hi
    have h2 := hwf.txIff i l hi
    simp only [St.released, Bool.and_eq_true, Bool.not_eq_true'] at hr
    refine ⟨hrel i l hi, ?_, ?_⟩
    · rw [hr.1.1.1.1.1] at h1; simpa using h1
    · rw [hr.1.1.1.1.2] at h2; simpa using h2
  · rw [List.eq_nil_iff_forall_not_mem]
    intro e he
    obtain ⟨_, lo, hlo, _, hrd⟩ := hwf.entOk e he
    have hr := hrel e.owner lo hlo
    simp only [St.released, Bool.and_eq_true, Bool.not_eq_true'] at hr
    rw [hr.1.1.2] at hrd; cases hrd

/-! ## the scheduler used by the driver only takes steps of the machine -/

theorem grun_trans {P : List Instr} {a b c : G} (h1 : GRun P a b) (h2 : GRun P b c) : GRun P a c := by
  induction h2 with
  | refl => exact h1
  | step _ hs ih => exact .step ih hs

theorem runParent_run (P : List Instr) (i : Nat) : ∀ (n : Nat) (g : G), GRun P g (runParent P i n g) := by
  intro n
  induction n with
  | zero => intro g; exact .refl g
  | succ n ih =>
    intro g
    simp only [runParent]
    split
    · next g' h => exact grun_trans (.step (.refl g) (.parent i h)) (ih g')
    · exact .refl g

theorem runChild_run (P : List Instr) (i : Nat) : ∀ (n : Nat) (g : G), GRun P g (runChild i n g) := by
  intro n
  induction n with
  | zero => intro g; exact .refl g
  | succ n ih =>
    intro g
    simp only [runChild]
    split
    · next g' h => exact grun_trans (.step (.refl g) (.child i h)) (ih g')
    · exact .refl g

theorem parentPhase_run (P : List Instr) (sc : List Sched) : ∀ (is : List Nat) (g : G), GRun P g (parentPhase P sc is g) := by
  intro is
  induction is with
  | nil => intro g; exact .refl g
  | cons i is ih =>
    intro g
    simp only [parentPhase]
    split
    · exact .refl g
    · split
      · exact grun_trans (runParent_run P i 64 g) (ih _)
      · exact ih g

theorem callbackPhase_run (P : List Instr) : ∀ (k : Nat) (g : G), GRun P g (callbackPhase k g) := by
  intro k
  induction k with
  | zero => intro g; exact .refl g
  | succ k ih =>
    intro g
    simp only [callbackPhase]
    split
    · next g'' h => exact .step (ih g) (.callback k h)
    · exact ih g

theorem loopPhase_run (P : List Instr) (sc : List Sched) (g : G) : GRun P g (loopPhase P sc g) := by
  simp only [loopPhase]
  split
  · exact parentPhase_run P sc _ g
  · exact grun_trans (parentPhase_run P sc _ g) (callbackPhase_run P _ _)

theorem schedule_run (P : List Instr) (sc : List Sched) : ∀ (n : Nat) (rem : List Nat) (g : G), GRun P g (schedule P sc n rem g) := by
  intro n
  induction n with
  | zero => intro rem g; exact .refl g
  | succ n ih =>
    intro rem g
    simp only [schedule]
    split
    · exact grun_trans (loopPhase_run P sc g) (ih rem _)
    · split
      · exact grun_trans (runChild_run P _ 8 g) (ih rem _)
      · split
        · split
          · exact .refl g
          · exact ih _ g
        · exact .refl g

theorem scheduleH_run (hold : List Nat) (P : List Instr) (sc : List Sched) :
    ∀ (n : Nat) (rem : List Nat) (g : G), GRun P g (scheduleH hold P sc n rem g) := by
  intro n
  induction n with
  | zero => intro rem g; exact .refl g
  | succ n ih =>
    intro rem g
    simp only [scheduleH]
    split
    · exact grun_trans (loopPhase_run P sc g) (ih rem _)
    · split
      · exact grun_trans (runChild_run P _ _ g) (ih rem _)
      · split
        · split
          · exact .refl g
          · exact ih _ g
        · exact .refl g

/-- `gsucc` lists every successor -/
theorem gstep_mem_gsucc {P : List Instr} {g g' : G} (h : GStep P g g') : g' ∈ gsucc P g := by
  simp only [gsucc, List.mem_append, List.mem_filterMap, List.mem_range]
  cases h with
  | parent i h =>
    refine Or.inl (Or.inl ⟨i, ?_, h⟩)
    unfold gParent at h
    split at h
    · simp at h
    · next l hl => exact (List.getElem?_eq_some_iff.1 hl).1
  | child i h =>
    refine Or.inl (Or.inr ⟨i, ?_, h⟩)
    unfold gChild at h
    split at h
    · simp at h
    · next l hl => exact (List.getElem?_eq_some_iff.1 hl).1
  | callback k h =>
    refine Or.inr ⟨k, ?_, h⟩
    unfold gCallback at h
    split at h
    · simp at h
    · next e he => exact (List.getElem?_eq_some_iff.1 he).1

/-! # The property theorems -/

/-- the invocations keep the callee they were started with -/
theorem run_callees {cs : List (Callee × Bool)} {g : G} (hrun : GRun prog (G.init cs) g) :
    g.invs.map (fun l => (l.callee, l.big)) = cs := by
  generalize hg0 : G.init cs = g0 at hrun
  induction hrun with
  | refl => subst hg0; simp [G.init, Loc.fresh, Function.comp_def]
  | step hr hs ih =>
    subst hg0
    obtain ⟨i, l, l', hi, hset, hc, hb, _⟩ := gstep_local (wf_run hr) hs
    rw [hset, ← ih]
    apply List.ext_getElem?
    intro j
    simp only [List.getElem?_map]
    rw [get_set l' hi j]
    split
    · next hij => subst hij; simp [hi, hc, hb]
    · rfl

/-- what `_inner` does with each callee behaviour, from the flags read off its try statement -/
theorem childBeh_table :
    (∀ v, childBeh (.ret v) = .sendOk) ∧ (∀ e, childBeh (.raiseExc e) = .sendErr) ∧ (∀ e, childBeh (.raiseBase e) = .die) ∧
    (∀ d, childBeh (.hardDeath d) = .die) ∧ childBeh .unpicklable = .die ∧ (∀ v, childBeh (.afterSendDeath v) = .sendOk) ∧
    (∀ v, childBeh (.midSendDeath v) = .dieMidSend) ∧ (∀ v, childBeh (.spawns v) = .sendOk) := by
  refine ⟨?_, ?_, ?_, ?_, ?_, ?_, ?_, ?_⟩ <;> intros <;> simp only [childBeh, childBehD] <;> decide

theorem outOk_allowed (c : Callee) (o : Outcome) (h : outOk (childBeh c) (some o) = true) : observe c o ∈ Spec.allowed c := by
  obtain ⟨h1, h2, h3, h4, h5, h6, h7, h8⟩ := childBeh_table
  cases c with
  | ret v => rw [h1] at h; simp [outOk] at h; subst h; simp [observe, Spec.allowed]
  | raiseExc e => rw [h2] at h; simp [outOk] at h; subst h; simp [observe, Spec.allowed]
  | raiseBase e => rw [h3] at h; simp [outOk] at h; subst h; simp [observe, Spec.allowed]
  | hardDeath d => rw [h4] at h; simp [outOk] at h; subst h; simp [observe, Spec.allowed]
  | unpicklable => rw [h5] at h; simp [outOk] at h; subst h; simp [observe, Spec.allowed]
  | afterSendDeath v => rw [h6] at h; simp [outOk] at h; subst h; simp [observe, Spec.allowed]
  | midSendDeath v =>
    rw [h7] at h; simp [outOk] at h
    rcases h with h | h <;> subst h <;> simp [observe, Spec.allowed]
  | spawns v => rw [h8] at h; simp [outOk] at h; subst h; simp [observe, Spec.allowed]

/-- **faithful result, each invocation its own**: in every reachable state of any number of concurrent invocations, an
    invocation that has finished hands its caller an observation the specification allows for *its own* callee:
    the value the function returned, the exception it raised, ChildProcessError when the child ended without reporting
    (exit, signal, SystemExit/KeyboardInterrupt, value that cannot be sent), an error or the value when the child was
    killed in the middle of the transfer. -/
theorem faithful_result (cs : List (Callee × Bool)) (g : G) (hrun : GRun prog (G.init cs) g)
    (i : Nat) (l : Loc) (hi : g.invs[i]? = some l) (o : Outcome) (ho : l.st.out = some o) :
    (∃ c, cs[i]? = some c ∧ l.callee = c.1) ∧ observe l.callee o ∈ Spec.allowed l.callee := by
  have hwf := wf_run hrun
  constructor
  · have h := run_callees hrun
    have : (g.invs.map (fun l => (l.callee, l.big)))[i]? = some (l.callee, l.big) := by simp [hi]
    rw [h] at this
    exact ⟨_, this, rfl⟩
  · have hf : l.st.final = true := by simp [St.final, ho]
    have := (local_final (hwf.reach i l hi) hf).2
    rw [ho] at this
    exact outOk_allowed _ _ this

/-- **own result (no cross-talk through the event loop)**: whenever the event loop runs a reader callback, the selector
    entry it belongs to sits at the fd number that the entry's owner currently holds as its read end, the pipe whose
    readability triggered it is that owner's pipe, and the only thing that changes is the owner's event. -/
theorem own_result (cs : List (Callee × Bool)) (g g' : G) (hrun : GRun prog (G.init cs) g) (k : Nat)
    (h : gCallback k g = some g') :
    ∃ e o, g.tbl[k]? = some e ∧ g.invs[e.owner]? = some o ∧ o.rx = some e.fd ∧
      g.invs.find? (fun l => l.rx == some e.fd) = some o ∧
      g' = { g with invs := g.invs.set e.owner { o with st := { o.st with event := true } } } := by
  have hwf := wf_run hrun
  obtain ⟨e, p, o, he, _, hp, _, ho, _, rfl⟩ := gCallback_some h
  obtain ⟨rfl, hrx, _⟩ := callback_owner hwf (List.mem_of_getElem? he) hp ho
  exact ⟨e, p, he, ho, hrx, hp, rfl⟩

/-- the table invariant itself, for every reachable state: one live entry per registered invocation, at its own fd -/
theorem reader_table_invariant (cs : List (Callee × Bool)) (g : G) (hrun : GRun prog (G.init cs) g) : WF g := wf_run hrun

/-- **other tasks run**: a pending coroutine is either able to continue, or suspended at `await event.wait()` (a yield
    point), or — the only synchronous wait — inside `process.join()` *after* its child has delivered the message, and
    then the child's exit is enabled.  (Not modelled: how long the child needs from the end of `send` to its exit.) -/
theorem other_tasks_run (cs : List (Callee × Bool)) (g : G) (hrun : GRun prog (G.init cs) g)
    (i : Nat) (l : Loc) (hi : g.invs[i]? = some l) (hnf : l.st.final = false) :
    (∃ g', gParent prog i g = some g') ∨
    (l.st.parked = true ∧ isWait prog l.st = true) ∨
    (isJoin prog l.st = true ∧ l.st.cpc = .sent ∧ ∃ g', gChild i g = some g') := by
  have hlr := (wf_run hrun).reach i l hi
  cases hp : parentStep prog l.st with
  | some r => exact Or.inl ⟨applyEff i l r.1 r.2 g, by simp [gParent, hi, hp]⟩
  | none =>
    by_cases hpk : l.st.parked = true
    · exact Or.inr (Or.inl ⟨hpk, local_parked hlr hpk⟩)
    · have hb : syncBlocked prog l.st = true := by
        have : l.st.out.isSome = false := by simpa [St.final] using hnf
        simp [syncBlocked, hp, hpk, this]
      obtain ⟨hj, hc⟩ := local_sync hlr hb
      refine Or.inr (Or.inr ⟨hj, hc, { g with invs := g.invs.set i { l with st := { l.st with cpc := .exited, childTx := false } } }, ?_⟩)
      simp [gChild, hi, childStep, hc]

/-- the clause "while it is pending the event loop keeps running other tasks" at full strength: in no reachable state does a
    coroutine sit in a synchronously blocking call (a single-threaded event loop runs nothing else meanwhile) -/
def other_tasks_run_full : Prop :=
  ∀ (cs : List (Callee × Bool)) (g : G), GRun prog (G.init cs) g → frozen prog g = false

/-- explicit guard: no child is in the phase between the end of its `send` and its exit — "the child exits promptly after sending" -/
def promptExit (g : G) : Bool := g.invs.all (fun l => l.st.cpc != .sent)

/-- **other tasks run — proved part**: as long as every child that has sent its message exits promptly, no coroutine of any
    reachable state sits in a synchronously blocking call: every pending invocation is runnable or suspended at an `await` -/
theorem other_tasks_run_partial (cs : List (Callee × Bool)) (g : G) (hrun : GRun prog (G.init cs) g) (hp : promptExit g = true) :
    frozen prog g = false := by
  cases hf : frozen prog g with
  | false => rfl
  | true =>
    exfalso
    simp only [frozen, List.any_eq_true] at hf
    obtain ⟨l, hl, hb⟩ := hf
    obtain ⟨i, hi⟩ := List.getElem?_of_mem hl
    have hlr := (wf_run hrun).reach i l hi
    have hc := (local_sync hlr hb).2
    simp only [promptExit, List.all_eq_true] at hp
    have := hp l hl
    simp [hc] at this

/-- the witness: two concurrent invocations of ordinary returning callees; the child of invocation 0 has sent its result and
    lingers (its exit step is withheld), everything else has moved as far as it can -/
def lingerCs : List (Callee × Bool) := [(.ret 0, false), (.ret 1, false)]
def lingerSc : List Sched := [⟨1, none, []⟩, ⟨3, none, []⟩]
def blockG : G := scheduleH [0] prog lingerSc 200 [1, 3] (G.init lingerCs)

/-- **negation witness for the full clause — `process.join()` blocks the event loop while the child lingers.**  A reachable
    state in which invocation 0 sits inside the synchronous `join` (its child has sent and not exited), invocation 1 is
    pending with its result already in the pipe and its reader callback enabled — the loop has work to do — and yet an
    iteration of the event loop changes nothing: everything waits for the child of invocation 0 to exit. -/
theorem join_blocks_other_tasks :
    GRun prog (G.init lingerCs) blockG ∧
    (∃ l, blockG.invs[0]? = some l ∧ syncBlocked prog l.st = true ∧ isJoin prog l.st = true ∧ l.st.cpc = .sent) ∧
    (∃ l, blockG.invs[1]? = some l ∧ l.st.final = false ∧ l.st.readable = true) ∧
    (∃ k g', gCallback k blockG = some g') ∧
    loopPhase prog lingerSc blockG = blockG ∧ frozen prog blockG = true ∧ promptExit blockG = false := by
  refine ⟨scheduleH_run _ _ _ _ _ _, ?_, ?_, ?_, ?_, ?_, ?_⟩
  · have h : (match blockG.invs[0]? with
        | some l => syncBlocked prog l.st && isJoin prog l.st && l.st.cpc == .sent | none => false) = true := by decide +kernel
    cases h0 : blockG.invs[0]? with
    | none => simp [h0] at h
    | some l =>
      simp only [h0, Bool.and_eq_true, beq_iff_eq] at h
      exact ⟨l, rfl, h.1.1, h.1.2, h.2⟩
  · have h : (match blockG.invs[1]? with | some l => !l.st.final && l.st.readable | none => false) = true := by decide +kernel
    cases h1 : blockG.invs[1]? with
    | none => simp [h1] at h
    | some l =>
      simp only [h1, Bool.and_eq_true, Bool.not_eq_true'] at h
      exact ⟨l, rfl, h.1, h.2⟩
  · have h : ((List.range blockG.tbl.length).filterMap (fun k => gCallback k blockG)).isEmpty = false := by decide +kernel
    cases hk : (List.range blockG.tbl.length).filterMap (fun k => gCallback k blockG) with
    | nil => simp [hk] at h
    | cons g' rest =>
      have hm : g' ∈ (List.range blockG.tbl.length).filterMap (fun k => gCallback k blockG) := by simp [hk]
      obtain ⟨k, _, hk'⟩ := List.mem_filterMap.1 hm
      exact ⟨k, g', hk'⟩
  · decide +kernel
  · decide +kernel
  · decide +kernel

theorem other_tasks_run_full_false : ¬ other_tasks_run_full := by
  intro h
  have h1 := h lingerCs blockG join_blocks_other_tasks.1
  have h2 := join_blocks_other_tasks.2.2.2.2.2.1
  rw [h1] at h2
  cases h2

/-- **always terminates, releases everything** — for every number of concurrent invocations, every assignment of callee
    behaviours and child deaths, every interleaving:
    1. no run can be extended forever (every step decreases the rank sum),
    2. an invocation that has not finished always has an enabled step of its own (parent, child, or its callback),
    3. when all have finished: both pipe ends closed and their fd numbers given back, child exited and reaped, no
       reader entry — the selector map is empty. -/
theorem terminates_and_releases (cs : List (Callee × Bool)) (g : G) (hrun : GRun prog (G.init cs) g) :
    (∀ g', GStep prog g g' → rankSum g'.invs < rankSum g.invs) ∧
    (∀ (i : Nat) (l : Loc), g.invs[i]? = some l → l.st.final = false → ∃ g', StepOf i g g') ∧
    ((∀ l ∈ g.invs, l.st.final = true) →
      (∀ l ∈ g.invs, l.st.released = true ∧ l.rx = none ∧ l.tx = none) ∧ g.tbl = []) := by
  have hwf := wf_run hrun
  exact ⟨fun g' h => gstep_rank hwf h, fun i l hi hnf => progress_of hwf hi hnf, all_released hwf⟩

/-- the length of every run is bounded by the initial rank sum (a number that depends only on the program and on how
    many invocations there are) -/
theorem run_length_bounded (cs : List (Callee × Bool)) : ∀ (n : Nat) (g : G), GRunN prog n (G.init cs) g →
    n + rankSum g.invs ≤ rankSum (G.init cs).invs ∧ GRun prog (G.init cs) g := by
  intro n
  induction n with
  | zero => intro g h; cases h; exact ⟨by omega, .refl _⟩
  | succ n ih =>
    intro g h
    cases h with
    | step hr hs =>
      obtain ⟨hb, hrun⟩ := ih _ hr
      have := gstep_rank (wf_run hrun) hs
      exact ⟨by omega, .step hrun hs⟩


/-! ## several event loops one after the other (`asyncio.run` again and again in one interpreter), any number of invocations in each -/

/-- runs over any number of event loops: the interpreter starts with nothing; the machine steps; when every invocation made so
    far has finished (the `asyncio.run` of that loop can return) a **new event loop** may be started with any further invocations.
    `cs` collects the callee behaviours of all invocations made so far, in order. -/
inductive MRun : List (Callee × Bool) → G → Prop where
  | start : MRun [] (G.init [])
  | step {cs : List (Callee × Bool)} {g g' : G} : MRun cs g → GStep prog g g' → MRun cs g'
  | newLoop {cs : List (Callee × Bool)} {g : G} (cs' : List (Callee × Bool)) :
      MRun cs g → (∀ l ∈ g.invs, l.st.final = true) → MRun (cs ++ cs') (G.newLoop g cs')

theorem newLoop_get {g : G} {cs : List (Callee × Bool)} {i : Nat} {l : Loc} (h : (G.newLoop g cs).invs[i]? = some l) :
    g.invs[i]? = some l ∨ (g.invs[i]? = none ∧ ∃ c big, l = Loc.fresh c big) := by
  simp only [G.newLoop] at h
  rw [List.getElem?_append] at h
  split at h
  · exact Or.inl h
  · next hlt =>
    right
    refine ⟨by simpa using hlt, ?_⟩
    have := List.mem_of_getElem? h
    simp only [List.mem_map] at this
    obtain ⟨c, _, rfl⟩ := this
    exact ⟨c.1, c.2, rfl⟩

/-- starting a new event loop after all invocations have finished keeps the invariant — and loses nothing: the old loop's selector
    map was empty already (`all_released`) -/
theorem wf_newLoop {g : G} (hwf : WF g) (hfin : ∀ l ∈ g.invs, l.st.final = true) (cs : List (Callee × Bool)) :
    WF (G.newLoop g cs) := by
  have hold : ∀ (i : Nat) (l : Loc), g.invs[i]? = some l → l.st.reader = false ∧ l.rx = none := by
    intro i l hi
    have hl := List.mem_of_getElem? hi
    have hr := ((all_released hwf hfin).1 l hl)
    have h1 := hr.1
    simp only [St.released, Bool.and_eq_true, Bool.not_eq_true'] at h1
    exact ⟨h1.1.1.2, hr.2.1⟩
  refine ⟨?_, ?_, ?_, ?_, ?_, ?_⟩
  · intro i l h
    rcases newLoop_get h with h | ⟨_, c, big, rfl⟩
    · exact hwf.reach i l h
    · exact init_reach _ _
  · intro i l h
    rcases newLoop_get h with h | ⟨_, c, big, rfl⟩
    · exact hwf.rxIff i l h
    · rfl
  · intro i l h
    rcases newLoop_get h with h | ⟨_, c, big, rfl⟩
    · exact hwf.txIff i l h
    · rfl
  · intro i j li lj fd hi hj hri hrj
    rcases newLoop_get hi with hi | ⟨_, c, big, rfl⟩
    · rw [(hold i li hi).2] at hri; cases hri
    · simp [Loc.fresh] at hri
  · intro e he; simp [G.newLoop] at he
  · intro i l h hr
    rcases newLoop_get h with h | ⟨_, c, big, rfl⟩
    · rw [(hold i l h).1] at hr; cases hr
    · simp [Loc.fresh, St.init] at hr

theorem wf_mrun {cs : List (Callee × Bool)} {g : G} (h : MRun cs g) : WF g := by
  induction h with
  | start => exact wf_init []
  | step _ hs ih => exact wf_step ih hs
  | newLoop cs' _ hfin ih => exact wf_newLoop ih hfin cs'

/-- a run inside one event loop is a run over event loops -/
theorem grun_mrun {cs : List (Callee × Bool)} {g : G} (h : GRun prog (G.init cs) g) : MRun cs g := by
  generalize hg0 : G.init cs = g0 at h
  induction h with
  | refl =>
    subst hg0
    have := MRun.newLoop cs MRun.start (by simp [G.init])
    simpa [G.newLoop, G.init] using this
  | step _ hs ih => exact .step ih hs

/-- the invocations keep the callee they were started with, over all loops -/
theorem mrun_callees {cs : List (Callee × Bool)} {g : G} (h : MRun cs g) :
    g.invs.map (fun l => (l.callee, l.big)) = cs := by
  induction h with
  | start => simp [G.init]
  | step hr hs ih =>
    obtain ⟨i, l, l', hi, hset, hc, hb, _⟩ := gstep_local (wf_mrun hr) hs
    rw [hset, ← ih]
    apply List.ext_getElem?
    intro j
    simp only [List.getElem?_map]
    rw [get_set l' hi j]
    split
    · next hij => subst hij; simp [hi, hc, hb]
    · rfl
  | newLoop cs' _ _ ih =>
    simp only [G.newLoop, List.map_append, ih, List.map_map]
    congr 1
    simp [Function.comp_def, Loc.fresh]

/-- **faithful result, each invocation its own — in every event loop**: for every number of event loops run one after the other
    in the same interpreter, every number of concurrent invocations in each of them, every interleaving: an invocation that
    has finished handed its caller an observation the specification allows for *its own* callee. -/
theorem faithful_result_rounds (cs : List (Callee × Bool)) (g : G) (hrun : MRun cs g)
    (i : Nat) (l : Loc) (hi : g.invs[i]? = some l) (o : Outcome) (ho : l.st.out = some o) :
    (∃ c, cs[i]? = some c ∧ l.callee = c.1) ∧ observe l.callee o ∈ Spec.allowed l.callee := by
  have hwf := wf_mrun hrun
  constructor
  · have h := mrun_callees hrun
    have : (g.invs.map (fun l => (l.callee, l.big)))[i]? = some (l.callee, l.big) := by simp [hi]
    rw [h] at this
    exact ⟨_, this, rfl⟩
  · have hf : l.st.final = true := by simp [St.final, ho]
    have := (local_final (hwf.reach i l hi) hf).2
    rw [ho] at this
    exact outOk_allowed _ _ this

/-- **always terminates, releases everything — in every event loop**: the three clauses of `terminates_and_releases` for runs
    over any number of event loops (within a loop every step decreases the rank sum; a pending invocation always has an enabled
    step of its own; when all have finished nothing is left). -/
theorem terminates_and_releases_rounds (cs : List (Callee × Bool)) (g : G) (hrun : MRun cs g) :
    (∀ g', GStep prog g g' → rankSum g'.invs < rankSum g.invs) ∧
    (∀ (i : Nat) (l : Loc), g.invs[i]? = some l → l.st.final = false → ∃ g', StepOf i g g') ∧
    ((∀ l ∈ g.invs, l.st.final = true) →
      (∀ l ∈ g.invs, l.st.released = true ∧ l.rx = none ∧ l.tx = none) ∧ g.tbl = []) := by
  have hwf := wf_mrun hrun
  exact ⟨fun g' h => gstep_rank hwf h, fun i l hi hnf => progress_of hwf hi hnf, all_released hwf⟩

/-- **a new event loop starts from the initial state**: when every invocation of the earlier loops has finished, what an
    invocation of a new loop can find — the selector map and the fd numbers in use — is what the very first invocation of the
    interpreter found: the old loop's map is empty (so the new, empty map loses no registration), no fd number is taken, and the
    new loop's shared tables are those of `G.init`. -/
theorem new_loop_starts_from_initial_state (cs : List (Callee × Bool)) (g : G) (hrun : MRun cs g)
    (hfin : ∀ l ∈ g.invs, l.st.final = true) (cs' : List (Callee × Bool)) :
    g.tbl = [] ∧ usedFds g.invs = [] ∧
    (G.newLoop g cs').tbl = (G.init cs').tbl ∧ usedFds (G.newLoop g cs').invs = usedFds (G.init cs').invs ∧
    (∀ l ∈ (G.newLoop g cs').invs.drop g.invs.length, l ∈ (G.init cs').invs) := by
  have hrel := all_released (wf_mrun hrun) hfin
  have hfresh : usedFds (cs'.map (fun c => Loc.fresh c.1 c.2)) = [] := by
    simp only [usedFds, List.flatMap_eq_nil_iff, List.mem_map]
    rintro l ⟨c, _, rfl⟩
    rfl
  have hold : usedFds g.invs = [] := by
    simp only [usedFds, List.flatMap_eq_nil_iff]
    intro l hl
    have := hrel.1 l hl
    simp [this.2.1, this.2.2]
  refine ⟨hrel.2, hold, rfl, ?_, ?_⟩
  · simp only [usedFds, G.newLoop, G.init, List.flatMap_append] at *
    rw [hold, hfresh]; rfl
  · intro l hl
    simpa [G.newLoop, G.init] using hl

/-- **invocations share no state beyond the event loop's reader table**: a step of the system rewrites the local state of ONE
    invocation (and possibly the reader table); every other invocation — of this and of every earlier loop — is left exactly as
    it was.  (What the step may do to the table is `reader_table_invariant` / `own_result`.) -/
theorem step_touches_one_invocation (cs : List (Callee × Bool)) (g g' : G) (hrun : MRun cs g) (hs : GStep prog g g') :
    ∃ i : Nat, g'.invs.length = g.invs.length ∧ ∀ j : Nat, j ≠ i → g'.invs[j]? = g.invs[j]? := by
  obtain ⟨i, l, l', hi, hset, _, _, _⟩ := gstep_local (wf_mrun hrun) hs
  refine ⟨i, by simp [hset], ?_⟩
  intro j hj
  rw [hset, get_set l' hi j]
  simp [Ne.symm hj]

/-- … and the module offers nothing else to share: no module-level name is bound by anything but imports, classes, functions and
    the TypeVar (no semaphore, lock, pool, cache or counter created at import time), no function of the module enters a context
    manager, takes a lock or mentions a synchronisation primitive, none keeps anything beyond its activation (`global`, stores
    through non-locals, non-constant defaults, caching decorators).  Generated from the module's source on every run. -/
theorem no_state_between_invocations :
    PedVerif.Gen.SubprocModule.moduleState = [] ∧ PedVerif.Gen.SubprocModule.bodyGuards = [] ∧
    PedVerif.Gen.SubprocModule.sharedStores = [] ∧ PedVerif.Gen.SubprocModule.sharedExecutors = [] := by decide

/-- **the write end belongs to the invocation's own child only**: between `Pipe()` and the parent's `tx.close()` the coroutine is never
    suspended, so no other invocation can fork a child while this invocation's write end is open in the parent — what the model's
    `start` (the write end is copied to the child of the SAME invocation) and the EOF argument of `local_ok` rest on.  Generated from the
    source on every run. -/
theorem no_await_while_write_end_open : PedVerif.Gen.SubprocModule.awaitsWhileWriteEndOpen = [] := by decide

/-- **the callee's exception passes no handler of the parent**: the statements that hand the child's answer to the caller
    (`raise result.exception`, `return result`) stand outside every try statement of `calculate_in_subprocess`.  So an exception the
    callee raised is re-raised as it is whatever its class — also an EOFError, an OSError, a ChildProcessError or a class derived from
    one, which the parent's own handlers (`except EOFError` around `recv`) would otherwise take for a failure of the protocol: this is
    what lets `Callee.raiseExc e` stand for an exception of ANY class in `faithful_result`.  Generated from the source on every run. -/
theorem result_dispatch_outside_try : PedVerif.Gen.SubprocModule.dispatchInsideTry = [] := by decide

/-- … and in the compiled program: the instructions `raiseIfError` and `ret` have no handler (an exception raised there leaves the
    coroutine), and the only instructions that can be entered with an exception in flight are those of handlers / `finally` copies -/
theorem dispatch_has_no_handler :
    prog.all (fun i => !(i.op == .raiseIfError || i.op == .ret) || (i.onEof.isNone && i.onErr.isNone)) = true := by decide

/-- **an invocation never waits for another invocation**: a step of the system either leaves invocation `i` exactly as it was or is a
    step of `i` itself, which strictly decreases `i`'s own rank — and while `i` is pending it always has an enabled step of its own
    (`terminates_and_releases_rounds`, clause 2).  So `i` ends after at most `rank progRank St.init` steps of its own, whatever the other
    invocations do: also when their callees never end, or end only after `i` has (a callee that waits for an event the caller sets when
    `i` has handed over its result), in every event loop. -/
theorem progress_independent_of_siblings (cs : List (Callee × Bool)) (g g' : G) (hrun : MRun cs g) (hs : GStep prog g g')
    (i : Nat) (l : Loc) (hi : g.invs[i]? = some l) :
    (∃ l', g'.invs[i]? = some l' ∧ (l' = l ∨ rank progRank l'.st < rank progRank l.st)) ∧
    (l.st.final = false → ∃ g'', StepOf i g g'') := by
  have hwf := wf_mrun hrun
  refine ⟨?_, fun hnf => progress_of hwf hi hnf⟩
  obtain ⟨k, lk, lk', hk, hset, _, _, hn⟩ := gstep_local hwf hs
  by_cases hki : k = i
  · subst hki
    rw [hi] at hk; cases hk
    refine ⟨lk', by rw [hset, get_set lk' hi k]; simp, Or.inr ?_⟩
    exact local_rank (hwf.reach k l hi) hn
  · exact ⟨l, by rw [hset, get_set lk' hk i]; simp [hki, hi], Or.inl rfl⟩

/-- non-vacuity, and the scenario the gated callees of the correspondence check run: invocation 1's child dies without a result
    (`os._exit`); the callees of invocations 0, 2, 3 end only after invocation 1 has finished (`gate := [1]`).  Scheduled with the gates
    respected, invocation 1 raises ChildProcessError, then the others return their own values; nothing is left. -/
def gatedCs : List (Callee × Bool) := [(.ret 0, false), (.hardDeath .osExit, false), (.raiseExc 2, false), (.ret 3, true)]
def gatedSc : List Sched := [⟨0, none, [1]⟩, ⟨0, none, []⟩, ⟨0, none, [1]⟩, ⟨1, none, [1]⟩]
def gatedG : G := schedule prog gatedSc 400 [0, 0, 0, 1] (G.init gatedCs)
/-- the state in which the gated callees are still waiting: invocation 1 has finished, none of the others has -/
def gatedMidG : G := schedule prog gatedSc 4 [0, 0, 0, 1] (G.init gatedCs)

example : GRun prog (G.init gatedCs) gatedG := schedule_run _ _ _ _ _
example : gatedG.invs.map (fun l => l.st.out) = [some .retOk, some .raisedCPE, some .raisedCallee, some .retOk] ∧ gatedG.tbl = [] ∧
    gatedG.invs.all (fun l => l.st.released) = true := by decide +kernel
example : GRun prog (G.init gatedCs) gatedMidG := schedule_run _ _ _ _ _
example : gatedMidG.invs.map (fun l => (l.st.out, l.st.cpc)) =
    [(none, .running), (some .raisedCPE, .exited), (none, .running), (none, .running)] := by decide +kernel

/-- non-vacuity: three event loops, in each more invocations than the first had, every kind of callee; scheduled to the end -/
def roundsCs1 : List (Callee × Bool) := [(.ret 0, false), (.raiseExc 1, false)]
def roundsCs2 : List (Callee × Bool) := [(.hardDeath .signal, false), (.ret 3, true), (.ret 4, false)]
def roundsSc : List Sched := [⟨1, none, []⟩, ⟨1, none, []⟩, ⟨1, none, []⟩, ⟨2, none, []⟩, ⟨0, some 3, []⟩]
def roundsG1 : G := schedule prog roundsSc 400 [1, 1, 1, 2, 0] (G.newLoop (G.init []) roundsCs1)
def roundsG2 : G := schedule prog roundsSc 400 [1, 1, 1, 2, 0] (G.newLoop roundsG1 roundsCs2)

theorem mrun_trans_grun {cs : List (Callee × Bool)} {g g' : G} (h : MRun cs g) (h2 : GRun prog g g') : MRun cs g' := by
  induction h2 with
  | refl => exact h
  | step _ hs ih => exact .step ih hs

example : roundsG1.invs.all (fun l => l.st.final) = true := by decide +kernel
example : MRun (([] ++ roundsCs1) ++ roundsCs2) roundsG2 := by
  have h1 : MRun ([] ++ roundsCs1) roundsG1 := mrun_trans_grun (.newLoop roundsCs1 .start (by simp [G.init])) (schedule_run _ _ _ _ _)
  have hf : ∀ l ∈ roundsG1.invs, l.st.final = true := by
    have : roundsG1.invs.all (fun l => l.st.final) = true := by decide +kernel
    simpa [List.all_eq_true] using this
  exact mrun_trans_grun (.newLoop roundsCs2 h1 hf) (schedule_run _ _ _ _ _)
example : roundsG2.invs.map (fun l => l.st.out) =
    [some .retOk, some .raisedCallee, some .raisedCPE, some .retOk, some .retOk] ∧ roundsG2.tbl = [] := by decide +kernel


/-! ## negation witnesses: the protocol before the repair, and a protocol that forgets `remove_reader` -/

/-- `calculate_in_subprocess` before commit 47f1196 (the translator's output for that source): the parent keeps its copy
    of the write end until the very end, no EOF handler, no `finally` -/
def oldProg : List Instr := [
  ⟨.pipe, none, none⟩, ⟨.start, none, none⟩, ⟨.addReader, none, none⟩, ⟨.pollWait, none, none⟩,
  ⟨.removeReader, none, none⟩, ⟨.clearEvent, none, none⟩, ⟨.recv, none, none⟩, ⟨.join, none, none⟩,
  ⟨.closeRx, none, none⟩, ⟨.closeTx, none, none⟩, ⟨.raiseIfError, none, none⟩, ⟨.ret, none, none⟩]

def oldRank : List Nat := [12, 11, 10, 9, 8, 7, 6, 5, 4, 3, 2, 1]

/-- the current program with every `remove_reader` turned into a no-op -/
def noRemoveProg : List Instr :=
  prog.mapIdx (fun i x => if x.op == .removeReader then ⟨.jump (i + 1), none, none⟩ else x)

def deadG : G := schedule oldProg [⟨1, none, []⟩] 64 [1] (G.init [(.hardDeath .osExit, false)])
def staleG : G := schedule noRemoveProg [⟨1, none, []⟩, ⟨1, some 0, []⟩] 200 [1, 1] (G.init [(.ret 0, false), (.ret 1, false)])

/-- before the repair a normal run was fine … -/
theorem unfixed_normal_ok : localCheck oldProg oldRank (.sendOk, false) = true ∧ localCheck oldProg oldRank (.sendErr, false) = true := by
  decide +kernel

/-- … but with a child that dies before sending, the local machine has a reachable state that is not final and has no
    successor: {parent suspended in the wait, child exited, no message, parent's write end OPEN, reader registered,
    event unset} — the observed hang -/
theorem unfixed_deadlock_local :
    (reach oldProg .die false).any (fun s => !s.final && (next oldProg .die false s).isEmpty && s.parked && s.parentTx &&
      s.cpc == .exited && s.buf == .empty) = true := by
  decide +kernel

/-- **negation witness for the old protocol** in the global machine: a run of one invocation whose child calls
    `os._exit` ends in a state where the invocation is pending and *no* step of the system is enabled -/
theorem unfixed_deadlock :
    ∃ g, GRun oldProg (G.init [(.hardDeath .osExit, false)]) g ∧ (∃ l ∈ g.invs, l.st.final = false) ∧
      ∀ g', ¬ GStep oldProg g g' := by
  refine ⟨deadG, schedule_run _ _ _ _ _, ?_, ?_⟩
  · have : deadG.invs.any (fun l => !l.st.final) = true := by decide +kernel
    obtain ⟨l, hl, h⟩ := List.any_eq_true.1 this
    exact ⟨l, hl, by simpa using h⟩
  · intro g' h
    have hm := gstep_mem_gsucc h
    have he : gsucc oldProg deadG = [] := by decide +kernel
    rw [he] at hm
    simp at hm

/-- **why the reader must be removed before the fd is closed**: with `remove_reader` dropped, two invocations *one after
    the other* (the second re-uses the fd number of the first) end with the second one pending for ever — its
    `add_reader` found the stale selector entry and never reached the kernel.  No callback ever reaches a wrong event
    (epoll forgets closed fds), the damage is a hang. -/
theorem stale_reader_hang :
    ∃ g, GRun noRemoveProg (G.init [(.ret 0, false), (.ret 1, false)]) g ∧ (∃ l ∈ g.invs, l.st.final = false) ∧
      (∃ e ∈ g.tbl, e.live = false) ∧ ∀ g', ¬ GStep noRemoveProg g g' := by
  refine ⟨staleG, schedule_run _ _ _ _ _, ?_, ?_, ?_⟩
  · have : staleG.invs.any (fun l => !l.st.final) = true := by decide +kernel
    obtain ⟨l, hl, h⟩ := List.any_eq_true.1 this
    exact ⟨l, hl, by simpa using h⟩
  · have : staleG.tbl.any (fun e => !e.live) = true := by decide +kernel
    obtain ⟨e, he, h⟩ := List.any_eq_true.1 this
    exact ⟨e, he, by simpa using h⟩
  · intro g' h
    have hm := gstep_mem_gsucc h
    have he : gsucc noRemoveProg staleG = [] := by decide +kernel
    rw [he] at hm
    simp at hm

/-! ## non-vacuity: concrete runs that meet the hypotheses of the theorems above -/

/-- six invocations — concurrent and sequential, every kind of callee — scheduled to the end -/
def demoCs : List (Callee × Bool) :=
  [(.ret 0, false), (.raiseExc 1, false), (.hardDeath .osExit, false), (.ret 3, true), (.raiseBase 4, false), (.midSendDeath 5, true)]
def demoG : G :=
  schedule prog [⟨2, none, []⟩, ⟨1, none, []⟩, ⟨1, some 0, []⟩, ⟨0, none, []⟩, ⟨3, some 3, []⟩, ⟨0, none, []⟩] 400 [2, 1, 1, 0, 3, 0] (G.init demoCs)

/-- `GRun prog (G.init demoCs) demoG` holds, all six have finished, with the outcomes the specification names -/
example : GRun prog (G.init demoCs) demoG := schedule_run _ _ _ _ _
example : demoG.invs.map (fun l => l.st.out) =
    [some .retOk, some .raisedCallee, some .raisedCPE, some .retOk, some .raisedCPE, some .raisedErr] := by decide +kernel
example : demoG.tbl = [] ∧ demoG.invs.all (fun l => l.st.released && l.rx.isNone && l.tx.isNone) = true := by decide +kernel
/-- the guard of `other_tasks_run_partial` is met by these states -/
example : promptExit demoG = true := by decide +kernel
/-- a state in the middle of a run: three invocations pending, three selector entries at three different fd numbers -/
def midG : G := loopPhase prog [⟨1, none, []⟩, ⟨1, none, []⟩, ⟨1, none, []⟩] (G.init [(.ret 0, false), (.ret 1, false), (.unpicklable, false)])
example : GRun prog (G.init [(.ret 0, false), (.ret 1, false), (.unpicklable, false)]) midG := loopPhase_run _ _ _
example : midG.tbl.map (fun e => (e.fd, e.owner)) = [(2, 2), (1, 1), (0, 0)] ∧ midG.invs.all (fun l => l.st.parked) = true := by
  decide +kernel

/-- what the translator read off the rest of the module (the child is an ordinary, non-daemonic process: the callee may start
    processes of its own) -/
theorem source_shape :
    processArgsForwarded = true ∧ processDaemon = false ∧ innerRunsCoroutines = true ∧ wrapperIsAsync = true ∧ wrapperWraps = true ∧
    wrapperForwards = true := by decide

/-- every `join` of the generated program waits for the child without a time limit -/
theorem join_waits : prog.all (fun i => i.op != .joinTimeout) = true := by decide

/-- **why `join` must not give up**: the current program with every `join` given a timeout has a reachable final state of the
    one-invocation machine — the caller already holds its result — in which the child has neither exited nor been reaped
    (negation witness for "no un-reaped child process behind") -/
def joinTimeoutProg : List Instr := prog.map (fun x => if x.op == .join then { x with op := .joinTimeout } else x)

theorem join_timeout_leaves_child :
    (reach joinTimeoutProg .sendOk false).any (fun s => s.final && s.out == some .retOk && !s.reaped && s.cpc == .sent && !s.released) = true := by
  decide +kernel

/-- **why the child must not be daemonic**: with `daemon=True` a callee that starts a process of its own does not get its value
    through — the caller is handed an error although the function, run directly, returns -/
theorem daemon_breaks_spawning_callee (v : Nat) :
    childBehD true (.spawns v) = .sendErr ∧ observe (.spawns v) .raisedCallee ∉ Spec.allowed (.spawns v) := by
  constructor
  · simp only [childBehD]; decide
  · simp [observe, Spec.allowed]

end PedVerif.Subproc
