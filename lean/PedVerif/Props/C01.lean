import PedVerif.Props.CheckerIR
import PedVerif.Lemmas.CheckerEnvs
import PedVerif.Props.C03
import PedVerif.Props.C10
import PedVerif.Props.Callable
/-!
# C01 — the type checker is sound: a non-conforming value is never accepted

`checkType` is the model of `_check_type` / `assert_value_matches_type` (hence of what a `@pedantic` function or a
type-safe frozen dataclass consults), `conforms` the independent specification.  The theorem quantifies over every
annotation of the vocabulary (any nesting depth, either spelling), every class table and every value.

Full statement `Sound_full`; proved as `sound_partial` under guards that speak about the annotation and the value at hand only:
* `v.iterFree` = no one-shot iterator anywhere in the value (`iterFree_eq`: `= !v.hasIter`; complement: region
  `iteratorItemsUnchecked`, the pending items of an iterator are deliberately not looked at because that would consume it (C04) -
  witness `sound_fails_iteratorSkip`).  Since the NamedTuple repair (the annotation is a NamedTuple class: isinstance + every
  annotated field) NamedTuple instances are ordinary values: `fixed_namedtupleStructural`;
* `a.strAnnOk env v` - only for a top-level *string* annotation whose name the context does not bind (outside the vocabulary
  "forward references naming a class"): no class in the MRO of this value has that name.  `true` by definition for every other
  annotation, whatever the class table (`strAnnOk_of_not_str`); complement: witness `strAnn_unbound_name_accepted`.
The driver evaluates all hypotheses on every generated case (`underC01`), the check reports how many cases fall under the theorem.
-/
namespace PedVerif.Checker

/-- the property as stated (false for the current code, see the witnesses) -/
def Sound_full : Prop :=
  ∀ (env : Env) (orc : Nat → Val → Raw) (a : Ann) (v : Val), WfEnv env → a.noSpecial = true → v.wf env = true →
    checkType env orc a v = .accept → conforms env a v = true

/-- **C01.** Whatever the checker accepts conforms. -/
theorem sound_partial (env : Env) (orc : Nat → Val → Raw) (hw : WfEnv env)
    (a : Ann) (v : Val) (hs : a.strAnnOk env v = true) (hns : a.noSpecial = true) (hwf : v.wf env = true) (hp : v.iterFree = true) :
    checkType env orc a v = .accept → conforms env a v = true :=
  sound_checkType env orc hw a v hs hns hwf hp

/-- the same with the one exclusion left named: no one-shot iterator (NamedTuple instances are covered since the repair) -/
theorem sound_partial_split (env : Env) (orc : Nat → Val → Raw) (hw : WfEnv env)
    (a : Ann) (v : Val) (hs : a.strAnnOk env v = true) (hns : a.noSpecial = true) (hwf : v.wf env = true)
    (hit : v.hasIter = false) :
    checkType env orc a v = .accept → conforms env a v = true :=
  sound_partial env orc hw a v hs hns hwf (by simp [iterFree_eq, hit])

/-- for every annotation that is not a top-level string the guard is free: the theorem holds on every class table -/
theorem sound_partial_no_str (env : Env) (orc : Nat → Val → Raw) (hw : WfEnv env)
    (a : Ann) (v : Val) (hstr : ∀ n, a ≠ .strAnn n) (hns : a.noSpecial = true) (hwf : v.wf env = true) (hp : v.iterFree = true) :
    checkType env orc a v = .accept → conforms env a v = true :=
  sound_partial env orc hw a v (strAnnOk_of_not_str hstr v) hns hwf hp

/-- contrapositive, as the property phrases it: a value that does not conform - in particular a conforming value
    corrupted at one arbitrarily deep position in a way that breaks conformance - is not accepted -/
theorem corruption_rejected (env : Env) (orc : Nat → Val → Raw) (hw : WfEnv env)
    (a : Ann) (v' : Val) (hs : a.strAnnOk env v' = true) (hns : a.noSpecial = true) (hwf : v'.wf env = true) (hp : v'.iterFree = true)
    (hbad : conforms env a v' = false) : checkType env orc a v' ≠ .accept := by
  intro h
  have := sound_partial env orc hw a v' hs hns hwf hp h
  simp [hbad] at this

/-- the element loop really is universal: one bad element of a list of any length is enough -/
theorem one_bad_element_rejected (env : Env) (orc : Nat → Val → Raw) (hw : WfEnv env)
    (sp : Spell) (o : SeqOrigin) (a : Ann) (c : ClsId) (pre post : List Val) (bad : Val)
    (hns : a.noSpecial = true) (hwf : (Val.coll c (pre ++ bad :: post)).wf env = true)
    (hp : (Val.coll c (pre ++ bad :: post)).iterFree = true) (hbad : conforms env a bad = false) :
    checkType env orc (.seq sp o a) (.coll c (pre ++ bad :: post)) ≠ .accept := by
  apply corruption_rejected env orc hw _ _ rfl (by simpa [Ann.noSpecial] using hns) hwf hp
  simp [conforms, Val.iter, hbad]

/-- (was region `strAnnNameCollision`, repaired by 9abf519) a string annotation that names a class of the context is
    checked against that very class - for every class table, value and oracle, without any guard -/
theorem strAnn_resolved_exact (env : Env) (orc : Nat → Val → Raw) (n : NameId) (c : ClsId) (v : Val) (hc : env.ctx n = some c) :
    checkType env orc (.strAnn n) v = if env.sub (v.typeOf env) c then .accept else .reject := by
  simp only [checkType, cfg_strBranch.1, ↓reduceIte, hc]
/-- … so an instance of the unrelated class A' (same `__name__` as A) is rejected for `'A'` -/
theorem strAnn_same_name_rejected :
    checkType envW (fun _ _ => .raisedOther) (.strAnn 7) (.inst 8) = .reject ∧
    conforms envW (.strAnn 7) (.inst 8) = false ∧ envW.name 8 = envW.name 7 := by decide

/-- (was region `namedtupleStructural`, repaired: the annotation is a NamedTuple class → isinstance + annotated fields) an NT2
    instance (same field names, unrelated class) is rejected for the annotation NT1, an NT1 instance and an instance of a subclass
    of NT1 are accepted, an NT1 instance with a non-conforming field value is rejected; table `envN`: 9 = NT1, 10 = NT2, 13 = Sub(NT1) -/
theorem fixed_namedtupleStructural :
    checkType envN (fun _ _ => .raisedOther) (.clsF 9 [20, 21] [.cls 2, .cls 3]) (.ntup 10 [20, 21] [.lit (.int 1), .lit (.str [97])]) = .reject ∧
    conforms envN (.clsF 9 [20, 21] [.cls 2, .cls 3]) (.ntup 10 [20, 21] [.lit (.int 1), .lit (.str [97])]) = false ∧
    checkType envN (fun _ _ => .raisedOther) (.clsF 9 [20, 21] [.cls 2, .cls 3]) (.ntup 9 [20, 21] [.lit (.int 1), .lit (.str [97])]) = .accept ∧
    checkType envN (fun _ _ => .raisedOther) (.clsF 9 [20, 21] [.cls 2, .cls 3]) (.ntup 13 [20, 21] [.lit (.int 1), .lit (.str [97])]) = .accept ∧
    checkType envN (fun _ _ => .raisedOther) (.clsF 9 [20, 21] [.cls 2, .cls 3]) (.ntup 9 [20, 21] [.lit (.str [120]), .lit (.str [97])]) = .reject ∧
    (Val.ntup 10 [20, 21] [.lit (.int 1), .lit (.str [97])]).wf envN = true ∧ (Val.ntup 10 [20, 21] [.lit (.int 1), .lit (.str [97])]).iterFree = true := by decide

/-- region `iteratorItemsUnchecked`: `Iterable[int]` accepts a one-shot iterator whose pending items are strings
    (`assert_value_matches_type(iter(['a', 'b']), Iterable[int], …)` returns; `@pedantic def g(xs: Iterable[int])` runs its body on
    `g(xs=iter(['a', 'b']))`).  Not repaired: looking at the items would consume the iterator before the function sees it (C04). -/
theorem sound_fails_iteratorSkip :
    checkType envI (fun _ _ => .raisedOther) (.seq .typing .iterable (.cls 2)) (.iterator 6 [.lit (.str [97]), .lit (.str [98])]) = .accept ∧
    conforms envI (.seq .typing .iterable (.cls 2)) (.iterator 6 [.lit (.str [97]), .lit (.str [98])]) = false ∧
    (Val.iterator 6 [.lit (.str [97]), .lit (.str [98])]).wf envI = true ∧
    (Val.iterator 6 [.lit (.str [97]), .lit (.str [98])]).hasNT = false ∧ (Val.iterator 6 [.lit (.str [97]), .lit (.str [98])]).hasIter = true ∧
    (Ann.seq .typing .iterable (.cls 2)).noSpecial = true := by decide

theorem envR_not_global : ¬ StrAnnGuard envR := by
  intro h
  have := h 2 0 (by decide)
  simp [envR] at this

/-- complement of the local guard (witness): the string annotation `'str'` - a name the context does not bind - accepts a `str`
    value by the name comparison over the MRO, while the spec (a string annotation means the class it names *in the context*) says no -/
theorem strAnn_unbound_name_accepted :
    checkType envR (fun _ _ => .raisedOther) (.strAnn 3) (.lit (.str [97])) = .accept ∧
    conforms envR (.strAnn 3) (.lit (.str [97])) = false ∧ (Ann.strAnn 3).strAnnOk envR (.lit (.str [97])) = false ∧
    (Val.lit (.str [97])).wf envR = true ∧ (Val.lit (.str [97])).iterFree = true := by decide

theorem Sound_full_is_false : ¬ Sound_full := by
  intro h
  have w := sound_fails_iteratorSkip
  have := h envI (fun _ _ => .raisedOther) _ _ envI_wf w.2.2.2.2.2 w.2.2.1 w.1
  simp [w.2.1] at this

-- non-vacuity: the hypotheses of `sound_partial` are met by a non-trivial accepted case and by a rejected near miss
example : checkType envW (fun _ _ => .raisedOther) (.seq .typing .list (.union .optional [.cls 2, .cls 0]))
    (.coll 4 [.lit (.int 1), .lit .none]) = .accept := by decide
example : checkType envW (fun _ _ => .raisedOther) (.tuple .pep585 [.cls 2, .cls 3])
    (.tup 5 [.lit (.int 1), .lit (.int 2)]) = .reject := by decide
example : (Val.coll 4 [.lit (.int 1), .lit .none]).wf envW = true ∧ (Val.coll 4 [.lit (.int 1), .lit .none]).iterFree = true := by decide

end PedVerif.Checker

namespace PedVerif.Checker
/-! non-vacuity on the realistic table `envR` (names the context does not bind occur in every MRO): all hypotheses of `sound_partial`
    hold for a generic annotation, for a string annotation the context binds, and for an unbound string against a value whose MRO
    does not carry the name; the conclusion is not trivial (accepted and rejected instances) -/
example : (Ann.seq .typing .list (.union .optional [.cls 2, .cls 0])).strAnnOk envR (.coll 4 [.lit (.int 1), .lit .none]) = true ∧
    (Ann.seq .typing .list (.union .optional [.cls 2, .cls 0])).noSpecial = true ∧
    (Val.coll 4 [.lit (.int 1), .lit .none]).wf envR = true ∧ (Val.coll 4 [.lit (.int 1), .lit .none]).iterFree = true ∧
    checkType envR (fun _ _ => .raisedOther) (.seq .typing .list (.union .optional [.cls 2, .cls 0])) (.coll 4 [.lit (.int 1), .lit .none]) = .accept := by decide
example : (Ann.strAnn 7).strAnnOk envR (.inst 7) = true ∧ checkType envR (fun _ _ => .raisedOther) (.strAnn 7) (.inst 7) = .accept ∧
    checkType envR (fun _ _ => .raisedOther) (.strAnn 7) (.inst 8) = .reject := by decide
example : (Ann.strAnn 99).strAnnOk envR (.inst 7) = true ∧ envR.ctx 99 = none ∧
    checkType envR (fun _ _ => .raisedOther) (.strAnn 99) (.inst 7) = .reject := by decide
end PedVerif.Checker


/-! ## "equivalently, if a @pedantic function or a type-safe frozen dataclass accepts the value"

The statement of C01 names the two other routes into the checker.  Both are corollaries of `sound_checkType` through the
call-layer model (C03) and the dataclass model (C10); they are restated here in acceptance form so that C01's obligations
cover all three routes, and the C01 check runs call-level and dataclass-level cases against them. -/
namespace PedVerif.Call
open PedVerif.Checker

/-- a `@pedantic` call whose body ran was given only conforming values - at every parameter position, explicit, defaulted,
    `*args` element or `**kwargs` value -/
theorem pedantic_accepts_only_conforming (env : Env) (orc : Nat → Val → Raw) (horc : ∀ k v, orc k v ≠ .raisedTV) (f : Fn)
    (args : List Val) (kw : List (NameId × Val)) (body : BodyOut) (ctx : SoundCtx env f args kw) (hmode : f.mode = .pedantic)
    (hc : f.clazzFails args = false) (hran : (runCall env orc f args kw body).bodyRan = true) :
    anyNonConforming env f args kw = false := by
  cases h : anyNonConforming env f args kw with
  | false => rfl
  | true => rw [args_guard_body_never_runs env orc horc f args kw body ctx hmode hc h] at hran; cases hran

/-- … and a value it hands back to the caller conforms to the return annotation -/
theorem pedantic_returns_only_conforming (env : Env) (orc : Nat → Val → Raw) (f : Fn) (args : List Val) (kw : List (NameId × Val))
    (r : Val) (hw : WfEnv env) (hmode : f.mode = .pedantic) (hfl : f.flavour ≠ .generator)
    (a : Ann) (ha : f.retAnn = some a) (hs : a.strAnnOk env r = true) (hns : a.noSpecial = true) (hr : r.wf env = true ∧ r.iterFree = true)
    (hret : (runCall env orc f args kw (.ret r)).caller = .ret) : conforms env a r = true :=
  result_guard env orc f args kw r hw hmode hfl a ha hs hns hr hret

end PedVerif.Call

namespace PedVerif.TypeSafe
open PedVerif.Checker

/-- a type-safe frozen dataclass whose validation passed holds only conforming field values -/
theorem dataclass_accepts_only_conforming (env : Env) (orc : Nat → Val → Raw) (hw : WfEnv env)
    (fvs : List (Field × Val)) (hok : FieldsSound env fvs) (h : validateTypes env orc fvs = none) : allConform env fvs = true :=
  instance_fields_conform env orc hw fvs hok h

end PedVerif.TypeSafe
