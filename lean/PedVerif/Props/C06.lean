import PedVerif.Lemmas.CheckerEnvs
/-!
# C06 — incomplete annotations are always rejected, independent of the value (checker level)

For each of the 15 generics named in the property (list, dict, set, frozenset, tuple, type and typing.List, Dict, Set,
FrozenSet, Tuple, Type, Callable, Iterable, Sequence; plus bare Union / Optional) the model of `_check_type` never
accepts - for **every** value and every class table.  For the typing-spelled ones this rests on the regenerated
required-type-argument tables (`cfg_req_bare`: every such name is in a table with a positive requirement, and the table
test is the first statement of `_is_instance`), for the builtins on the regenerated bare-builtin set (`cfg_bare`), for
bare `typing.Type` on the generic branch.  Deleting a table row, changing `==`/`<=`, or testing the value first breaks
one of these lemmas.  (The call-level clauses - un-annotated parameters, *args/**kwargs, return - live with the
call-layer model.)
-/
namespace PedVerif.Checker
open PedVerif.Gen.TypeTables

/-- **C06 (checker level).** A bare generic is rejected with PedanticTypeCheckException for every value. -/
theorem bare_rejects_every_value (env : Env) (orc : Nat → Val → Raw) (o : BareOrigin) (v : Val) :
    checkType env orc (.bare o) v = .reject ∨ checkType env orc (.bare o) v = .pedErr := by
  simp only [checkType, isInstance]
  rcases bareNode_cases env o v with h | h | h <;> simp [h, wrap, cfg_catchesAll]

/-- in particular never accepted, whatever the value is (`None`, `[]`, `()`, a conforming-looking container, …) -/
theorem bare_never_accepts (env : Env) (orc : Nat → Val → Raw) (o : BareOrigin) (v : Val) :
    checkType env orc (.bare o) v ≠ .accept := by
  rcases bare_rejects_every_value env orc o v with h | h <;> simp [h]

/-- the verdict of a typing-spelled bare generic does not even look at the value -/
theorem bare_typing_value_independent (env : Env) (orc : Nat → Val → Raw) (o : BareOrigin) (v v' : Val)
    (hb : o.isBuiltin = false) (ht : o ≠ .tType) :
    checkType env orc (.bare o) v = checkType env orc (.bare o) v' := by
  simp [checkType, isInstance, bareNode, cfg_req_bare o hb ht]

example : checkType envW (fun _ _ => .raisedOther) (.bare .list) (.coll 4 []) = .pedErr := by decide
example : checkType envW (fun _ _ => .raisedOther) (.bare .tTuple) (.tup 5 []) = .pedErr := by decide
example : checkType envW (fun _ _ => .raisedOther) (.bare .tType) (.clsObj 2) = .pedErr := by decide
example : checkType envW (fun _ _ => .raisedOther) (.bare .tType) (.inst 7) = .reject := by decide

end PedVerif.Checker
