import PedVerif.Lemmas.CheckerEnvs
import PedVerif.Lemmas.CallLayer4
/-!
# C06 — incomplete annotations are always rejected, independent of the value (checker level)

For each of the 15 generics named in the property (list, dict, set, frozenset, tuple, type and typing.List, Dict, Set,
FrozenSet, Tuple, Type, Callable, Iterable, Sequence; plus bare Union / Optional) the model of `_check_type` never
accepts - for **every** value and every class table.  For the typing-spelled ones this rests on the regenerated
required-type-argument tables (`cfg_req_bare`: every such name is in a table with a positive requirement, and the table
test is the first statement of `_is_instance`), for the builtins on the regenerated bare-builtin set (`cfg_bare`), for
bare `typing.Type` on the generic branch.  Deleting a table row, changing `==`/`<=`, or testing the value first breaks
one of these lemmas.  (The call-level clauses - un-annotated parameters, *args/**kwargs, return - live with the
call-layer model.)
-/
namespace PedVerif.Checker
open PedVerif.Gen.TypeTables

/-- **C06 (checker level).** A bare generic is rejected with PedanticTypeCheckException for every value. -/
theorem bare_rejects_every_value (env : Env) (orc : Nat → Val → Raw) (o : BareOrigin) (v : Val) :
    checkType env orc (.bare o) v = .reject ∨ checkType env orc (.bare o) v = .pedErr := by
  simp only [checkType, isInstance]
  rcases bareNode_cases env o v with h | h | h <;> simp [h, wrap, cfg_catchesAll]

/-- in particular never accepted, whatever the value is (`None`, `[]`, `()`, a conforming-looking container, …) -/
theorem bare_never_accepts (env : Env) (orc : Nat → Val → Raw) (o : BareOrigin) (v : Val) :
    checkType env orc (.bare o) v ≠ .accept := by
  rcases bare_rejects_every_value env orc o v with h | h <;> simp [h]

/-- the verdict of a typing-spelled bare generic does not even look at the value -/
theorem bare_typing_value_independent (env : Env) (orc : Nat → Val → Raw) (o : BareOrigin) (v v' : Val)
    (hb : o.isBuiltin = false) :
    checkType env orc (.bare o) v = checkType env orc (.bare o) v' := by
  simp [checkType, isInstance, bareNode, cfg_req_bare o hb]

example : checkType envW (fun _ _ => .raisedOther) (.bare .list) (.coll 4 []) = .pedErr := by decide
example : checkType envW (fun _ _ => .raisedOther) (.bare .tTuple) (.tup 5 []) = .pedErr := by decide
example : checkType envW (fun _ _ => .raisedOther) (.bare .tType) (.clsObj 2) = .pedErr := by decide
example : checkType envW (fun _ _ => .raisedOther) (.bare .tType) (.inst 7) = .pedErr := by decide

end PedVerif.Checker

/-! ## call level: a @pedantic function with an incomplete annotation never hands a value back -/
namespace PedVerif.Call
open PedVerif.Checker PedVerif.Gen.CallTables PedVerif.Gen.TypeTables

theorem checkVal_bare (env : Env) (orc) (f : Fn) (args : List Val) (o : BareOrigin) (v : Val) :
    checkVal env orc f args (.bare o) v ≠ none := by
  intro h
  exact bare_never_accepts env orc o v (checkVal_none env orc f args _ v h)

theorem incompleteTop_bare (o : BareOrigin) : incompleteTop (.bare o) = true := by
  by_cases hb : o.isBuiltin = true
  · have := cfg_completeBare o hb
    simp only [List.contains_iff_mem] at this
    simp [incompleteTop, hb, this]
  · simp [incompleteTop, cfg_completeUsesRequired, cfg_req_bare o (by simpa using hb)]

/-- the parameter fold never lets an un-annotated or bare parameter through - whatever the supplied values are -/
theorem checkParams_incomplete (env : Env) (orc) (f : Fn) (args : List Val) (kw : List (NameId × Val)) :
    ∀ (ps : List Param) (idx : Nat), (∃ p ∈ ps, incompleteAnn p.ann = true) → checkParams env orc f args kw ps idx ≠ none := by
  intro ps
  induction ps with
  | nil => intro idx ⟨p, hp, _⟩; simp at hp
  | cons q qs ih =>
    intro idx hinc hnone
    have hlater : incompleteAnn q.ann = false → ∀ idx', checkParams env orc f args kw qs idx' ≠ none := by
      intro hq idx'
      obtain ⟨p, hp, hb⟩ := hinc
      simp only [List.mem_cons] at hp
      rcases hp with rfl | hp
      · simp [hq] at hb
      · exact ih idx' ⟨p, hp, hb⟩
    simp only [checkParams] at hnone
    cases hann : q.ann with
    | none => simp [hann] at hnone
    | some a =>
      simp only [hann] at hnone
      have key : ∀ v idx', orElse (checkVal env orc f args a v) (fun _ => checkParams env orc f args kw qs idx') = none → False := by
        intro v idx' h
        rw [orElse_none] at h
        by_cases hb : ∃ o, a = .bare o
        · obtain ⟨o, rfl⟩ := hb; exact checkVal_bare env orc f args o v h.1
        · have : incompleteAnn q.ann = false := by
            rw [hann]; cases a <;> simp_all [incompleteAnn]
          exact hlater this idx' h.2
      split at hnone
      · split at hnone
        · split at hnone
          · simp at hnone
          · exact key _ _ hnone
        · split at hnone
          · split at hnone
            · exact key _ _ hnone
            · split at hnone
              · exact key _ _ hnone
              · simp at hnone
          · split at hnone
            · exact key _ _ hnone
            · split at hnone <;> simp at hnone
      · exact key _ _ hnone

theorem checkArguments_incomplete (env : Env) (orc) (f : Fn) (args : List Val) (kw : List (NameId × Val))
    (hinc : incompleteParam f = true) : checkArguments env orc f args kw ≠ none := by
  rw [checkArguments_eq]
  intro h
  rw [orElse_none] at h
  obtain ⟨h1, h2⟩ := h
  rw [orElse_none] at h2
  simp only [incompleteParam, Bool.or_eq_true, List.any_eq_true] at hinc
  rcases hinc with (⟨p, hp, hb⟩ | hb) | hb
  · exact checkParams_incomplete env orc f args kw f.plain _ ⟨p, hp, hb⟩ h1
  · have := h2.1
    simp only [checkStar, cfg_star, Bool.true_and, ↓reduceIte] at this
    cases hs : f.star with
    | none => simp [hs] at hb
    | some p =>
      simp only [hs] at hb this
      cases ha : p.ann with
      | none => simp [ha] at this
      | some a =>
        simp only [ha] at hb this
        cases a <;> simp [incompleteAnn] at hb
        rename_i o
        simp [incompleteTop_bare o] at this
  · have := h2.2
    simp only [checkDStar, cfg_dstar, Bool.true_and, ↓reduceIte] at this
    cases hs : f.dstar with
    | none => simp [hs] at hb
    | some p =>
      simp only [hs] at hb this
      cases ha : p.ann with
      | none => simp [ha] at this
      | some a =>
        simp only [ha] at hb this
        cases a <;> simp [incompleteAnn] at hb
        rename_i o
        simp [incompleteTop_bare o] at this

/-- **C06 (parameters).** A @pedantic function with an un-annotated or bare parameter (declared, *args or **kwargs) never
    runs its body and never returns a value - for every call, positional or keyword, and every argument value. -/
theorem incomplete_param_never_returns (env : Env) (orc) (f : Fn) (args : List Val) (kw : List (NameId × Val)) (body : BodyOut)
    (hmode : f.mode = .pedantic) (hinc : incompleteParam f = true) :
    (runCall env orc f args kw body).bodyRan = false ∧ (runCall env orc f args kw body).caller ≠ .ret ∧
    (runCall env orc f args kw body).caller ≠ .retGen := by
  by_cases hinit : f.initFails args = true
  · unfold runCall; simp [hinit]
  · by_cases hkw : (f.shouldHaveKwargs && !(f.argsWithoutSelf args).isEmpty) = true
    · unfold runCall; simp [hinit, hkw]
    · rw [runCall_pedantic' env orc f args kw body hmode (by simpa using hinit) (by simpa using hkw)]
      cases hca : checkArguments env orc f args kw with
      | none => exact absurd hca (checkArguments_incomplete env orc f args kw hinc)
      | some c =>
        have := checkArguments_fail env orc f args kw c hca
        refine ⟨rfl, ?_, ?_⟩ <;> (intro h; simp only at h; subst h; simp [Caller.isCheckFailure] at this)

/-- … and for a keyword call the exception is PedanticTypeCheckException -/
theorem incomplete_param_is_typecheck (env : Env) (orc) (horc : ∀ k v, orc k v ≠ .raisedTV) (f : Fn) (args : List Val)
    (kw : List (NameId × Val)) (body : BodyOut) (hmode : f.mode = .pedantic) (hinc : incompleteParam f = true)
    (hinit : f.initFails args = false) (hkw : (f.shouldHaveKwargs && !(f.argsWithoutSelf args).isEmpty) = false)
    (hc : f.clazzFails args = false) :
    runCall env orc f args kw body = ⟨.pedTypeCheck, false, [], []⟩ := by
  rw [runCall_pedantic' env orc f args kw body hmode hinit hkw]
  cases hca : checkArguments env orc f args kw with
  | none => exact absurd hca (checkArguments_incomplete env orc f args kw hinc)
  | some c => rw [checkArguments_some_tc env orc horc f args kw hc c hca]

/-- **C06 (return).** A missing or bare return annotation: the caller never receives the value (here the exception is
    raised after the body ran - the property allows that for the return annotation). -/
theorem incomplete_return_never_returns (env : Env) (orc) (f : Fn) (args : List Val) (kw : List (NameId × Val)) (body : BodyOut)
    (hmode : f.mode = .pedantic) (hfl : f.flavour ≠ .generator) (hinc : incompleteReturn f = true) :
    (runCall env orc f args kw body).caller ≠ .ret := by
  by_cases hinit : f.initFails args = true
  · unfold runCall; simp [hinit]
  · by_cases hkw : (f.shouldHaveKwargs && !(f.argsWithoutSelf args).isEmpty) = true
    · unfold runCall; simp [hinit, hkw]
    · rw [runCall_pedantic' env orc f args kw body hmode (by simpa using hinit) (by simpa using hkw)]
      cases hca : checkArguments env orc f args kw with
      | some c => exact fun h => absurd (by simpa using h ▸ hca) (checkArguments_ne_ret env orc f args kw).1
      | none =>
        simp only [invoke, hmode]
        split
        · simp
        · unfold retCheck
          cases body with
          | raises e => simp
          | ret r =>
            simp only [incompleteReturn] at hinc
            cases ha : f.retAnn with
            | none => simp
            | some a =>
              have hfl' : (f.flavour == .generator) = false := by cases h : f.flavour <;> simp_all
              simp only [hfl', Bool.false_eq_true, ↓reduceIte]
              rw [ha] at hinc
              cases a <;> simp [incompleteAnn] at hinc
              rename_i o
              cases hcv : checkVal env orc f args (.bare o) r with
              | none => exact absurd hcv (checkVal_bare env orc f args o r)
              | some c => simp only; intro h; subst h; exact checkVal_ne_ret env orc f args _ r hcv

-- non-vacuity: `def f(a, b: int) -> int` called `f(a=1, b=2)`; `def g(*args: list) -> int` called `g()`
def unannotated : Fn :=
  { name := "f", flags := flagsOfSource "f" "@pedantic\ndef f(a, b: int) -> int:\n    return 1\n", qualDotted := false,
    params := [{ name := 1, kind := .posOrKw, ann := none, dflt := none }, { name := 2, kind := .posOrKw, ann := some (.cls 2), dflt := none }],
    selfName := 0, firstIsSelf := false, isBound := false, retAnn := some (.cls 2), genRet := .notGenType, flavour := .sync, mode := .pedantic }
example : incompleteParam unannotated = true ∧
    (runCall envW (fun _ _ => .raisedOther) unannotated [] [(1, .lit (.int 1)), (2, .lit (.int 2))] (.ret (.lit (.int 1)))).caller = .pedTypeCheck := by decide
def bareStar : Fn :=
  { unannotated with
    flags := flagsOfSource "g" "@pedantic\ndef g(*args: list) -> int:\n    return 1\n"
    params := [{ name := 3, kind := .varPos, ann := some (.bare .list), dflt := none }] }
example : incompleteParam bareStar = true ∧
    (runCall envW (fun _ _ => .raisedOther) bareStar [] [] (.ret (.lit (.int 1)))).caller = .pedTypeCheck := by decide

end PedVerif.Call
