import PedVerif.Spec.Switch
/-!
# C09 — ENABLE_PEDANTIC switch: disabled decorators are identity; the switch is read at decoration time

Property theorems only.  `isEnabledE`, `enableWrites`, `disableWrites` and the decorator table `rows` are what the
translator read from the source (`PedVerif.Gen.Switch`), so the proofs below are re-checked against the code as it
is now: reading the switch inside the per-call wrapper, defaulting to "disabled" for an unset variable, returning
anything but the received parameter when disabled, touching the target on the way, or keeping the per-member decorator of a
class to apply it later (on attribute access) instead of while the class is decorated make them fail.
-/
namespace PedVerif.Switch
open PedVerif.Gen.Switch

/-! ## 1. `is_enabled()` -/

/-- `is_enabled()` never raises, and says exactly "the variable is unset or equals `"1"`" — every other string
    (including `""`, `"true"`, `"2"`, `" 1"`) switches the decorators off.  (The property claims only unset/"0"/"1".) -/
theorem enabled_exact (v : Option String) : isEnabledE v = some (decide (v = none ∨ v = some "1")) := by
  cases v <;> simp [isEnabledE]

theorem enabled_iff (v : Option String) : isEnabledE v = some true ↔ v = none ∨ v = some "1" := by
  rw [enabled_exact]; simp

theorem disabled_iff (v : Option String) : isEnabledE v = some false ↔ ∃ s, v = some s ∧ s ≠ "1" := by
  rw [enabled_exact]; cases v <;> simp

theorem enabled_total (v : Option String) : ∃ b, isEnabledE v = some b := ⟨_, enabled_exact v⟩

example : isEnabledE none = some true ∧ isEnabledE (some "1") = some true ∧ isEnabledE (some "0") = some false
    ∧ isEnabledE (some "true") = some false ∧ isEnabledE (some "") = some false := by decide

/-- `enable_pedantic()` / `disable_pedantic()` leave the variable in a state that `is_enabled()` reads as on / off -/
theorem enable_enables : isEnabledE enableWrites = some true := by decide
theorem disable_disables : isEnabledE disableWrites = some false := by decide

/-- on the three values the property talks about, the code's reading is the property's reading -/
theorem claim_sound (v : Option String) (b : Bool) (h : claim v = some b) : isEnabledE v = some b := by
  rw [enabled_exact]
  cases v with
  | none => simp [claim] at h; simp [h]
  | some s =>
    simp only [claim] at h
    by_cases h1 : s = "1"
    · simp [h1] at h; simp [h1, ← h]
    · by_cases h0 : s = "0"
      · simp [h0] at h; simp [h0, ← h]
      · simp [h1, h0] at h

example : claim (some "0") = some false ∧ claim none = some true ∧ claim (some "yes") = none := by decide

/-! ## 2. the decorator table -/

/-- a row honours the switch the way the property wants: consulted in the function that receives the target before
    anything touches it, the test is true exactly when switched off, and then the very parameter received comes back through
    hops that hand it on untouched; the members of a class are decorated then and there -/
def honours (r : Row) : Bool :=
  r.readAt == .decoration && r.untouchedBefore && r.guardIfDisabled && !r.guardIfEnabled && r.returnsReceived && r.passThrough
    && !r.wrapperAlsoReads && r.membersEager && r.dispatchOnNone

/-- every generated row honours the switch (fails when `is_enabled()` moves into a wrapper, the test is inverted,
    `return f` becomes `return wrapper`, a member decorator is stored in a descriptor and applied on first access, …) -/
theorem rows_honour : ∀ r ∈ rows, honours r = true := by decide

/-- **nothing but the two decoration-time guards reads the switch**: in the whole library (tests aside) `is_enabled()` is called in
    `pedantic.decorator` and in `for_all_methods.decorate` only, and nothing outside env_var_logic.py names the variable — the per-call
    wrappers and everything they reach (`FunctionCall`, the type checks, the check that an instance of a generic class was created with
    type arguments) cannot look at it -/
theorem switch_read_only_at_decoration :
    switchReaders = ["pedantic/decorators/class_decorators.py:for_all_methods.decorate",
                     "pedantic/decorators/fn_deco_pedantic.py:pedantic.decorator"] := by decide

/-- all seven decorators of the property are in the generated table -/
theorem rows_cover (d : Deco) : ∃ r, lookup d.name = some r ∧ r ∈ rows := by
  have h : ∀ n, (lookup n).isSome = true → ∃ r, lookup n = some r ∧ r ∈ rows := by
    intro n hn
    cases hl : lookup n with
    | none => simp [hl] at hn
    | some r => exact ⟨r, rfl, List.mem_of_find?_eq_some hl⟩
  cases d <;> exact h _ rfl

theorem honours_early (r : Row) (h : honours r = true) (t : Target) :
    r.readAt = .decoration ∧ guardFires r false = true ∧ early r t = .ok true true .plain := by
  simp only [honours, Bool.and_eq_true, beq_iff_eq, Bool.not_eq_true'] at h
  obtain ⟨⟨⟨⟨⟨⟨⟨⟨h1, h2⟩, h3⟩, _⟩, h5⟩, h6⟩, _⟩, _⟩, h9⟩ := h
  exact ⟨h1, by simp [guardFires, h3], by simp [early, h5, h2, h6, h9]⟩

theorem honours_fn (r : Row) (h : honours r = true) (enF : Option Bool) (t : Target) :
    applyFnRow r enF false t = .ok true true .plain := by
  obtain ⟨h1, h2, h3⟩ := honours_early r h t
  simp [applyFnRow, h1, h2, h3]

theorem honours_class (r : Row) (h : honours r = true) (arg : String) (enF : Option Bool) (t : Target) :
    applyClassRow r arg enF false t = .ok true true .plain := by
  obtain ⟨h1, h2, h3⟩ := honours_early r h t
  simp [applyClassRow, h1, h2, h3]

theorem honours_opaque (r : Row) (h : honours r = true) (enF : Option Bool) (t : Target) :
    applyOpaqueRow r enF false t = .ok true true .plain := by
  obtain ⟨h1, h2, h3⟩ := honours_early r h t
  simp [applyOpaqueRow, h1, h2, h3]

/-- **disabled ⇒ identity, whatever the object is**: for all seven decorators, however the decorator was obtained, and for EVERY
    target — functions and classes with or without docstrings, and every object the decorators are not made for (`odd`: no
    source, builtin, partial, callable instance, lambda, contradictory docstring, Enum, dataclass, …; a class handed to a function
    decorator, a function handed to a class decorator): the very object comes back (`same`), its `__dict__` is untouched
    (`dictSame`), nothing is imposed on later calls (`plain`), and the decoration itself checks nothing — it cannot be `.raised`,
    and it cannot be `.unspecified` (nothing looks at the object before the early `return`). -/
theorem disabled_is_identity (d : Deco) (t : Target) (enF : Option Bool) :
    decoOut d t enF false = .ok true true .plain := by
  obtain ⟨r, hl, hm⟩ := rows_cover d
  have hh := rows_honour r hm
  simp only [decoOut, hl]
  split
  · exact honours_opaque r hh _ _
  · split
    · exact honours_class r hh _ _ _
    · exact honours_fn r hh _ _

example : decoOut .pedanticClassDoc ⟨true, false, true, false, false, false⟩ none false = .ok true true .plain := by decide
-- an object without source text / a builtin handed to `pedantic`, an Enum handed to `pedantic_class`, a class handed to `pedantic`
example : decoOut .pedantic ⟨false, false, false, true, false, false⟩ none false = .ok true true .plain := by decide
example : decoOut .pedanticClass ⟨true, false, false, true, false, false⟩ (some true) false = .ok true true .plain := by decide
example : decoOut .pedanticDoc ⟨true, true, true, false, false, false⟩ none false = .ok true true .plain := by decide
-- objects whose truth value is False: a callable instance of an empty `list` subclass, a class whose metaclass defines `__len__`
example : decoOut .pedantic ⟨false, false, false, true, true, false⟩ none false = .ok true true .plain := by decide
example : decoOut .pedanticDoc ⟨true, false, false, true, true, false⟩ (some true) false = .ok true true .plain := by decide
example : decoOut .timerClass ⟨true, false, false, true, true, false⟩ none false = .ok true true .plain := by decide

/-- **enabled ⇒ they check**: a missing required docstring is rejected at decoration; otherwise a function decorator
    yields a new object, a class decorator the class itself with replaced members, and in both cases later calls are
    checked (pedantic family) / wrapped (trace, timer) — fixed for good (`frozen`), not consulted again -/
theorem enabled_checks (d : Deco) (t : Target) (enF : Option Bool) (hk : fits d t = true) :
    decoOut d t enF true =
      if d.requiresDoc && !t.hasDoc then .raised else .ok d.onClass (!d.onClass) (.frozen (d.effectOn t)) := by
  obtain ⟨c, hd, fu, op, fa, ge⟩ := t
  cases op
  · cases d with
    | forAll i => cases i <;> cases c <;> cases hd <;> cases ge <;> first | rfl | cases hk
    | _ => cases c <;> cases hd <;> cases ge <;> first | rfl | cases hk
  · cases hk

/-- enabled, and the object is not one the decorator is made for: the model claims nothing (and the specification neither) -/
theorem enabled_opaque_unspecified (d : Deco) (t : Target) (enF : Option Bool) (hk : fits d t = false) :
    decoOut d t enF true = .unspecified := by
  obtain ⟨c, hd, fu, op, fa, ge⟩ := t
  cases d with
  | forAll i => cases i <;> cases c <;> cases op <;> first | rfl | cases hk
  | _ => cases c <;> cases op <;> first | rfl | cases hk

example : decoOut .pedantic ⟨false, true, false, false, false, false⟩ none true = .ok false true (.frozen .checks) := by decide
example : decoOut .traceClass ⟨true, false, false, false, false, false⟩ none true = .ok true false (.frozen .prints) := by decide
example : decoOut (.forAll .pedanticDoc) ⟨true, false, true, false, false, false⟩ none true = .raised := by decide
example : fits .pedantic ⟨false, false, false, true, false, false⟩ = false ∧ fits .traceClass ⟨false, true, false, false, false, false⟩ = false := by decide

/-- the outcome of a decoration in closed form: a function of the switch value *at that moment* only -/
def closed (d : Deco) (t : Target) (en : Bool) : DecoOut :=
  if !en then .ok true true .plain
  else if !fits d t then .unspecified
  else if d.requiresDoc && !t.hasDoc then .raised
  else .ok d.onClass (!d.onClass) (.frozen (d.effectOn t))

theorem decoOut_closed (d : Deco) (t : Target) (enF : Option Bool) (en : Bool) :
    decoOut d t enF en = closed d t en := by
  cases en
  · simp [closed, disabled_is_identity d t enF]
  · cases hk : fits d t
    · simp [closed, hk, enabled_opaque_unspecified d t enF hk]
    · simp [closed, hk, enabled_checks d t enF hk]

/-! ## 3. histories -/

theorem run_append (s : St) (a b : List Op) : run s (a ++ b) = run s a ++ run (exec s a) b := by
  induction a generalizing s with
  | nil => rfl
  | cons o rest ih => simp [run, exec, ih]

theorem exec_append (s : St) (a b : List Op) : exec s (a ++ b) = exec (exec s a) b := by
  induction a generalizing s with
  | nil => rfl
  | cons o rest ih => simp [exec, ih]

/-- observation made by the last operation of a history -/
def lastObs (s : St) (ops : List Op) : Option Obs := (run s ops).getLast?

theorem lastObs_snoc (s : St) (ops : List Op) (op : Op) : lastObs s (ops ++ [op]) = some (step (exec s ops) op).2 := by
  simp [lastObs, run_append, run]

theorem finish_handles (s : St) (o : DecoOut) : ∃ m, (finish s o).1.handles = s.handles ++ [m] := by
  cases o <;> simp [finish, push]

@[simp] theorem record_handles (t : Option Target) (p : St × Obs) : (record t p).1.handles = p.1.handles := rfl
@[simp] theorem record_factories (t : Option Target) (p : St × Obs) : (record t p).1.factories = p.1.factories := rfl
@[simp] theorem record_env (t : Option Target) (p : St × Obs) : (record t p).1.env = p.1.env := rfl
@[simp] theorem record_targets (t : Option Target) (p : St × Obs) : (record t p).1.targets = p.1.targets ++ [t] := rfl
@[simp] theorem record_obs (t : Option Target) (p : St × Obs) : (record t p).2 = p.2 := rfl

theorem decorateNow_handles (s : St) (d : Deco) (t : Target) : ∃ m, (decorateNow s d t).1.handles = s.handles ++ [m] := by
  unfold decorateNow; split <;> exact finish_handles s _

theorem applyNow_handles (s : St) (k : Nat) (t : Target) : ∃ m, (applyNow s k t).1.handles = s.handles ++ [m] := by
  unfold applyNow; split
  · exact finish_handles s _
  · split <;> exact finish_handles s _

/-- creating a sub class adds one handle and one target and changes nothing else -/
theorem subclass_fields (s : St) (h : Nat) : ∃ m t, (step s (.subclass h)).1.handles = s.handles ++ [m] ∧
    (step s (.subclass h)).1.targets = s.targets ++ [t] ∧ (step s (.subclass h)).1.factories = s.factories ∧
    (step s (.subclass h)).1.env = s.env := by
  simp only [step]
  split
  · split
    · split <;> exact ⟨_, _, rfl, rfl, rfl, rfl⟩
    · exact ⟨_, _, rfl, rfl, rfl, rfl⟩
  · exact ⟨_, _, rfl, rfl, rfl, rfl⟩

/-- reaching a member changes nothing: no per-owner cache, no decoration on first access -/
theorem callm_state (s : St) (h : Nat) (m : Member) (v : Via) (k : CallKind) : (step s (.callm h m v k)).1 = s := by
  simp only [step]
  split
  · split <;> rfl
  · rfl

/-- no operation ever rewrites an existing handle: the table only grows — decorating the same function object again
    included (`redecorate` / `reapply` add a handle, they do not touch the ones made from that object before) -/
theorem step_handles_prefix (s : St) (op : Op) : ∃ extra, (step s op).1.handles = s.handles ++ extra := by
  cases op with
  | setenv v => exact ⟨[], by simp [step]⟩
  | unsetenv => exact ⟨[], by simp [step]⟩
  | enable => exact ⟨[], by simp [step]⟩
  | disable => exact ⟨[], by simp [step]⟩
  | factory d => exact ⟨[], by simp [step]⟩
  | decorate d t => obtain ⟨m, hm⟩ := decorateNow_handles s d t; exact ⟨[m], by simp [step, hm]⟩
  | apply k t => obtain ⟨m, hm⟩ := applyNow_handles s k t; exact ⟨[m], by simp [step, hm]⟩
  | redecorate d h =>
    simp only [step]
    split
    · obtain ⟨m, hm⟩ := finish_handles s .noRow; exact ⟨[m], by simp [hm]⟩
    · rename_i t _; obtain ⟨m, hm⟩ := decorateNow_handles s d t; exact ⟨[m], by simp [hm]⟩
  | reapply k h =>
    simp only [step]
    split
    · obtain ⟨m, hm⟩ := finish_handles s .noRow; exact ⟨[m], by simp [hm]⟩
    · rename_i t _; obtain ⟨m, hm⟩ := applyNow_handles s k t; exact ⟨[m], by simp [hm]⟩
  | call h k => exact ⟨[], by simp only [step]; split <;> simp⟩
  | subclass h => obtain ⟨m, t, hm, _⟩ := subclass_fields s h; exact ⟨[m], hm⟩
  | callm h m v k => exact ⟨[], by simp [callm_state]⟩

theorem exec_handles_prefix (s : St) (ops : List Op) : ∃ extra, (exec s ops).handles = s.handles ++ extra := by
  induction ops generalizing s with
  | nil => exact ⟨[], by simp [exec]⟩
  | cons o rest ih =>
    obtain ⟨e1, h1⟩ := step_handles_prefix s o
    obtain ⟨e2, h2⟩ := ih (step s o).1
    exact ⟨e1 ++ e2, by simp [exec, h2, h1]⟩

theorem exec_preserves (s : St) (ops : List Op) (h : Nat) (m : Mode) (hh : s.handles[h]? = some m) :
    (exec s ops).handles[h]? = some m := by
  obtain ⟨extra, he⟩ := exec_handles_prefix s ops
  have hlt : h < s.handles.length := (List.getElem?_eq_some_iff.mp hh).1
  rw [he, List.getElem?_append_left hlt]; exact hh

/-- the behaviour stored for a decoration result, in closed form -/
def closedMode (d : Deco) (t : Target) (en : Bool) : Mode :=
  match closed d t en with
  | .ok _ _ m => m
  | .unspecified => .unknown
  | _ => .dead

theorem finish_closed (s : St) (d : Deco) (t : Target) (en : Bool) :
    (finish s (closed d t en)).1.handles = s.handles ++ [closedMode d t en] := by
  unfold closedMode
  cases closed d t en <;> simp [finish, push]

/-- the switch as the code reads it -/
def enabledAt (v : Option String) : Bool := decide (v = none ∨ v = some "1")

theorem decorateNow_closed (s : St) (d : Deco) (t : Target) :
    (decorateNow s d t).1.handles = s.handles ++ [closedMode d t (enabledAt s.env)] := by
  simp only [decorateNow, enabled_exact, decoOut_closed]
  exact finish_closed s d t _

theorem applyNow_closed (s : St) (k : Nat) (f : Factory) (t : Target) (hf : s.factories[k]? = some f) :
    (applyNow s k t).1.handles = s.handles ++ [closedMode f.deco t (enabledAt s.env)] := by
  simp only [applyNow, hf, enabled_exact, decoOut_closed]
  exact finish_closed s f.deco t _

theorem decorate_handles (s : St) (d : Deco) (t : Target) :
    (step s (.decorate d t)).1.handles = s.handles ++ [closedMode d t (enabledAt s.env)] := by
  simp only [step, record_handles]; exact decorateNow_closed s d t

theorem apply_handles (s : St) (k : Nat) (f : Factory) (t : Target) (hf : s.factories[k]? = some f) :
    (step s (.apply k t)).1.handles = s.handles ++ [closedMode f.deco t (enabledAt s.env)] := by
  simp only [step, record_handles]; exact applyNow_closed s k f t hf

/-- decorating a function object that was decorated before: the new result is what a fresh function would give -/
theorem redecorate_handles (s : St) (d : Deco) (h : Nat) (t : Target) (ht : again s.targets h = some t) :
    (step s (.redecorate d h)).1.handles = s.handles ++ [closedMode d t (enabledAt s.env)] := by
  simp only [step, ht, record_handles]; exact decorateNow_closed s d t

theorem reapply_handles (s : St) (k h : Nat) (f : Factory) (t : Target) (hf : s.factories[k]? = some f)
    (ht : again s.targets h = some t) :
    (step s (.reapply k h)).1.handles = s.handles ++ [closedMode f.deco t (enabledAt s.env)] := by
  simp only [step, ht, record_handles]; exact applyNow_closed s k f t hf

/-- what a call on a decoration result shows, as a function of the switch **when the decorator was applied** only -/
def frozenCall (en : Bool) (d : Deco) (t : Target) (k : CallKind) : Obs :=
  if !en then .called false false false          -- decorated while off: nothing imposed, whatever the object is
  else if !fits d t then .unspecified
  else if d.requiresDoc && !t.hasDoc then .bad
  else effObs (d.effectOn t) k

theorem callObs_closedMode (d : Deco) (t : Target) (en : Bool) (now : Option Bool) (k : CallKind) :
    callObs (closedMode d t en) now k = frozenCall en d t k := by
  unfold closedMode closed frozenCall
  cases en
  · simp [callObs]
  · by_cases h1 : fits d t = true
    · by_cases h2 : (d.requiresDoc && !t.hasDoc) = true
      · simp [h1, h2, callObs]
      · simp [h1, h2, callObs]
    · simp [h1, callObs]

/-- **C09, read at decoration — all histories.**  Start anywhere (`s`), run any history `pre`, apply any of the seven
    decorators to any target, run any further history `post` (setenv / unsetenv / enable_pedantic / disable_pedantic /
    more decorations — of fresh objects or of the same object again — / factories / calls, in any order and number), then
    call the decoration result: what is observed
    depends on the value of the variable at the moment of decoration and on nothing that happened afterwards. -/
theorem read_at_decoration (s : St) (pre post : List Op) (d : Deco) (t : Target) (k : CallKind) :
    lastObs s (pre ++ [.decorate d t] ++ post ++ [.call (exec s pre).handles.length k])
      = some (frozenCall (enabledAt (exec s pre).env) d t k) := by
  rw [lastObs_snoc, exec_append, exec_append]
  generalize exec s pre = s1
  have h1 : (exec s1 [.decorate d t]).handles[s1.handles.length]? = some (closedMode d t (enabledAt s1.env)) := by
    simp [exec, decorate_handles]
  have h2 := exec_preserves _ post _ _ h1
  simp only [step, h2, callObs_closedMode]

/-- **the check for type arguments is decided at decoration, too**: a class that lists `Generic[…]`, decorated by a class decorator of
    the pedantic family while the switch is on — after ANY history `post` (toggles included), a checked method called on an instance that
    was created without type arguments is turned away; decorated while the switch is off, it never is -/
theorem generic_instance_check_read_at_decoration (s : St) (pre post : List Op) (d : Deco) (t : Target)
    (hd : d.effect = .checks) (hc : d.onClass = true) (hf : fits d t = true) (hg : t.generic = true)
    (hdoc : (d.requiresDoc && !t.hasDoc) = false) :
    lastObs s (pre ++ [.decorate d t] ++ post ++ [.call (exec s pre).handles.length .unparamInst])
      = some (.called (enabledAt (exec s pre).env) false false) := by
  rw [read_at_decoration]
  cases hen : enabledAt (exec s pre).env
  · simp [frozenCall]
  · simp [frozenCall, hf, hdoc, Deco.effectOn, hd, hc, hg, effObs, CallKind.misuse]

-- a generic class decorated while on; switched off; instance without type arguments: turned away; with type arguments: accepted;
-- a plain sub class lists no `Generic[…]`: nothing is asked of its instances; decorated while off: nothing is asked at all
example : run (init none) [.decorate .pedanticClass ⟨true, true, false, false, false, true⟩, .disable, .call 0 .unparamInst, .call 0 .paramInst,
      .subclass 0, .call 1 .unparamInst, .call 1 .wrongType, .decorate .pedanticClass ⟨true, true, false, false, false, true⟩, .enable,
      .call 2 .unparamInst]
    = [.decorated true false, .none, .called true false false, .called false false false, .derived, .called false false false,
       .called true false false, .decorated true true, .none, .called false false false] := by decide
example : lastObs (init (some "1")) [.decorate (.forAll .pedantic) ⟨true, true, false, false, false, true⟩, .setenv "0", .call 0 .unparamInst]
    = some (.called true false false) := by decide
-- trace_class on a generic class, a non-generic class under pedantic_class: nothing of that kind
example : run (init none) [.decorate .traceClass ⟨true, true, false, false, false, true⟩, .call 0 .unparamInst,
      .decorate .pedanticClass ⟨true, true, false, false, false, false⟩, .call 1 .unparamInst]
    = [.decorated true false, .called false true false, .decorated true false, .called false false false] := by decide

theorem finish_factories (s : St) (o : DecoOut) : (finish s o).1.factories = s.factories := by
  cases o <;> rfl

theorem decorateNow_factories (s : St) (d : Deco) (t : Target) : (decorateNow s d t).1.factories = s.factories := by
  unfold decorateNow; split <;> exact finish_factories s _

theorem applyNow_factories (s : St) (k : Nat) (t : Target) : (applyNow s k t).1.factories = s.factories := by
  unfold applyNow; split
  · exact finish_factories s _
  · split <;> exact finish_factories s _

/-- factories are never rewritten either -/
theorem step_factories_prefix (s : St) (op : Op) : ∃ extra, (step s op).1.factories = s.factories ++ extra := by
  cases op with
  | factory d => exact ⟨[⟨d, isEnabledE s.env⟩], by simp [step]⟩
  | decorate d t => exact ⟨[], by simp [step, decorateNow_factories]⟩
  | apply k t => exact ⟨[], by simp [step, applyNow_factories]⟩
  | redecorate d h => exact ⟨[], by simp only [step]; split <;> simp [finish_factories, decorateNow_factories]⟩
  | reapply k h => exact ⟨[], by simp only [step]; split <;> simp [finish_factories, applyNow_factories]⟩
  | call h k => exact ⟨[], by simp only [step]; split <;> simp⟩
  | subclass h => obtain ⟨m, t, _, _, hf, _⟩ := subclass_fields s h; exact ⟨[], by simp [hf]⟩
  | callm h m v k => exact ⟨[], by simp [callm_state]⟩
  | _ => exact ⟨[], by simp [step]⟩

theorem exec_factories_prefix (s : St) (ops : List Op) : ∃ extra, (exec s ops).factories = s.factories ++ extra := by
  induction ops generalizing s with
  | nil => exact ⟨[], by simp [exec]⟩
  | cons o rest ih =>
    obtain ⟨e1, h1⟩ := step_factories_prefix s o
    obtain ⟨e2, h2⟩ := ih (step s o).1
    exact ⟨e1 ++ e2, by simp [exec, h2, h1]⟩

theorem exec_preserves_factory (s : St) (ops : List Op) (k : Nat) (f : Factory) (hh : s.factories[k]? = some f) :
    (exec s ops).factories[k]? = some f := by
  obtain ⟨extra, he⟩ := exec_factories_prefix s ops
  have hlt : k < s.factories.length := (List.getElem?_eq_some_iff.mp hh).1
  rw [he, List.getElem?_append_left hlt]; exact hh

/-- the same for a decorator obtained earlier (`pedantic()`, `pedantic(require_docstring=True)`,
    `for_all_methods(x)`, a reference) and applied later, after any history `mid`: the switch is read when the
    decorator is **applied** (state `s2`), not when it is obtained, and never again afterwards -/
theorem read_at_application (s : St) (pre mid post : List Op) (d : Deco) (t : Target) (k : CallKind) :
    let s1 := exec s pre
    let s2 := exec s1 (.factory d :: mid)
    lastObs s (pre ++ .factory d :: mid ++ [.apply s1.factories.length t] ++ post ++ [.call s2.handles.length k])
      = some (frozenCall (enabledAt s2.env) d t k) := by
  intro s1 s2
  rw [lastObs_snoc, exec_append, exec_append]
  have e1 : exec s (pre ++ .factory d :: mid) = s2 := by rw [exec_append]
  rw [e1]
  have hf : s2.factories[s1.factories.length]? = some ⟨d, isEnabledE s1.env⟩ := by
    show (exec (step s1 (.factory d)).1 mid).factories[s1.factories.length]? = _
    apply exec_preserves_factory
    simp [step]
  have h1 : (exec s2 [.apply s1.factories.length t]).handles[s2.handles.length]?
      = some (closedMode d t (enabledAt s2.env)) := by
    simp [exec, apply_handles s2 _ _ t hf]
  have h2 := exec_preserves _ post _ _ h1
  simp only [step, h2, callObs_closedMode]

example : lastObs (init none) [.disable, .factory .pedantic, .enable, .apply 0 ⟨false, true, false, false, false, false⟩, .disable, .call 0 .positional]
    = some (.called true false false) := by decide
example : lastObs (init none) [.disable, .decorate .pedanticClass ⟨true, true, false, false, false, false⟩, .enable, .call 0 .positional]
    = some (.called false false false) := by decide
example : lastObs (init (some "0")) [.unsetenv, .decorate .timerClass ⟨true, false, false, false, false, false⟩, .disable, .setenv "0", .call 0 .good]
    = some (.called false true false) := by decide

/-! ## 3b. the same function object handed to a decorator again -/

theorem finish_targets (s : St) (o : DecoOut) : (finish s o).1.targets = s.targets := by
  cases o <;> rfl

theorem decorateNow_targets (s : St) (d : Deco) (t : Target) : (decorateNow s d t).1.targets = s.targets := by
  unfold decorateNow; split <;> exact finish_targets s _

theorem applyNow_targets (s : St) (k : Nat) (t : Target) : (applyNow s k t).1.targets = s.targets := by
  unfold applyNow; split
  · exact finish_targets s _
  · split <;> exact finish_targets s _

/-- the table of targets only grows, too -/
theorem step_targets_prefix (s : St) (op : Op) : ∃ extra, (step s op).1.targets = s.targets ++ extra := by
  cases op with
  | decorate d t => exact ⟨[some t], by simp [step, decorateNow_targets]⟩
  | apply k t => exact ⟨[some t], by simp [step, applyNow_targets]⟩
  | redecorate d h =>
    simp only [step]; split
    · exact ⟨[none], by simp [finish_targets]⟩
    · rename_i t _; exact ⟨[some t], by simp [decorateNow_targets]⟩
  | reapply k h =>
    simp only [step]; split
    · exact ⟨[none], by simp [finish_targets]⟩
    · rename_i t _; exact ⟨[some t], by simp [applyNow_targets]⟩
  | call h k => exact ⟨[], by simp only [step]; split <;> simp⟩
  | subclass h => obtain ⟨m, t, _, ht, _, _⟩ := subclass_fields s h; exact ⟨[t], ht⟩
  | callm h m v k => exact ⟨[], by simp [callm_state]⟩
  | _ => exact ⟨[], by simp [step]⟩

theorem exec_targets_prefix (s : St) (ops : List Op) : ∃ extra, (exec s ops).targets = s.targets ++ extra := by
  induction ops generalizing s with
  | nil => exact ⟨[], by simp [exec]⟩
  | cons o rest ih =>
    obtain ⟨e1, h1⟩ := step_targets_prefix s o
    obtain ⟨e2, h2⟩ := ih (step s o).1
    exact ⟨e1 ++ e2, by simp [exec, h2, h1]⟩

theorem exec_preserves_target (s : St) (ops : List Op) (h : Nat) (t : Option Target) (hh : s.targets[h]? = some t) :
    (exec s ops).targets[h]? = some t := by
  obtain ⟨extra, he⟩ := exec_targets_prefix s ops
  have hlt : h < s.targets.length := (List.getElem?_eq_some_iff.mp hh).1
  rw [he, List.getElem?_append_left hlt]; exact hh

/-- every handle has its target recorded at the same index (true initially, kept by every operation) -/
def Aligned (s : St) : Prop := s.targets.length = s.handles.length

theorem init_aligned (e : Option String) : Aligned (init e) := rfl

theorem step_aligned (s : St) (op : Op) (ha : Aligned s) : Aligned (step s op).1 := by
  unfold Aligned at *
  cases op with
  | decorate d t => obtain ⟨m, hm⟩ := decorateNow_handles s d t; simp [step, decorateNow_targets, hm, ha]
  | apply k t => obtain ⟨m, hm⟩ := applyNow_handles s k t; simp [step, applyNow_targets, hm, ha]
  | redecorate d h =>
    simp only [step]; split
    · obtain ⟨m, hm⟩ := finish_handles s .noRow; simp [finish_targets, hm, ha]
    · rename_i t _; obtain ⟨m, hm⟩ := decorateNow_handles s d t; simp [decorateNow_targets, hm, ha]
  | reapply k h =>
    simp only [step]; split
    · obtain ⟨m, hm⟩ := finish_handles s .noRow; simp [finish_targets, hm, ha]
    · rename_i t _; obtain ⟨m, hm⟩ := applyNow_handles s k t; simp [applyNow_targets, hm, ha]
  | call h k => simp only [step]; split <;> simpa using ha
  | subclass h => obtain ⟨m, t, hm, ht, _, _⟩ := subclass_fields s h; simp [hm, ht, ha]
  | callm h m v k => simpa [callm_state] using ha
  | _ => simpa [step] using ha

theorem exec_aligned (s : St) (ops : List Op) (ha : Aligned s) : Aligned (exec s ops) := by
  induction ops generalizing s with
  | nil => exact ha
  | cons o rest ih => exact ih _ (step_aligned s o ha)

/-- **C09, the object's past does not matter — disabled.**  An object (a function, or any callable the decorators are not made
    for) that was handed to a decorator before (whatever the switch said then, whatever came out) is handed to any of the
    decorators again while the switch is off: the very object comes back, untouched — no wrapper made earlier is returned in
    its place -/
theorem redecorate_disabled_is_identity (s : St) (d : Deco) (h : Nat) (t : Target) (ht : again s.targets h = some t)
    (hoff : enabledAt s.env = false) :
    (step s (.redecorate d h)).2 = .decorated true true ∧
    (step s (.redecorate d h)).1.handles = s.handles ++ [.plain] := by
  have hen : isEnabledE s.env = some false := by rw [enabled_exact]; simpa [enabledAt] using hoff
  simp [step, ht, decorateNow, hen, disabled_is_identity d t _, finish, push]

/-- **C09, disabled ⇒ identity, in every state of every history**: whatever happened before (state `s`), with the switch off any
    of the seven decorators applied to ANY target — ordinary or not — is observed to return the very object, untouched, and what
    it returned behaves as the object itself on every later call -/
theorem decorate_disabled_is_identity (s : St) (d : Deco) (t : Target) (hoff : enabledAt s.env = false) :
    (step s (.decorate d t)).2 = .decorated true true ∧
    (step s (.decorate d t)).1.handles = s.handles ++ [.plain] := by
  have hen : isEnabledE s.env = some false := by rw [enabled_exact]; simpa [enabledAt] using hoff
  simp [step, decorateNow, hen, disabled_is_identity d t _, finish, push]

/-- the same for a decorator obtained earlier (whatever the switch said then) and applied now -/
theorem apply_disabled_is_identity (s : St) (k : Nat) (f : Factory) (t : Target) (hf : s.factories[k]? = some f)
    (hoff : enabledAt s.env = false) :
    (step s (.apply k t)).2 = .decorated true true ∧
    (step s (.apply k t)).1.handles = s.handles ++ [.plain] := by
  have hen : isEnabledE s.env = some false := by rw [enabled_exact]; simpa [enabledAt] using hoff
  simp [step, applyNow, hf, hen, disabled_is_identity f.deco t _, finish, push]

-- `pedantic` on a function made with `exec` / a builtin / a partial (odd), switched off by `disable_pedantic()` and by the
-- variable; `pedantic_class` on a function; then on again: not described
example : run (init none) [.disable, .decorate .pedantic ⟨false, false, false, true, false, false⟩, .call 0 .positional, .setenv "0",
      .decorate .pedanticDoc ⟨false, false, false, true, false, false⟩, .decorate .pedanticClass ⟨false, true, false, false, false, false⟩, .call 2 .wrongType,
      .enable, .decorate .pedantic ⟨false, false, false, true, false, false⟩, .call 3 .good]
    = [.none, .decorated true true, .called false false false, .none, .decorated true true, .decorated true true,
       .called false false false, .none, .unspecified, .unspecified] := by decide

/-- **C09, read at decoration — also for an object decorated before.**  Start in any state in which the targets are recorded
    (`Aligned`, e.g. the initial one), run any history `pre`, decorate a function `t` with `d0`, run any history `mid`
    (toggles, other decorations, calls, …), hand **the same function object** to decorator `d` (state `s2`), run any history
    `post`, then call the new result: what is observed depends on the value of the variable at the second decoration only —
    not on the first decoration of that object, not on the value of the variable then, not on anything afterwards. -/
theorem read_at_redecoration (s : St) (ha : Aligned s) (pre mid post : List Op) (d0 d : Deco) (t : Target) (k : CallKind)
    (htc : t.isClass = false) :
    let s1 := exec s pre
    let s2 := exec s1 (.decorate d0 t :: mid)
    lastObs s (pre ++ .decorate d0 t :: mid ++ [.redecorate d s1.handles.length] ++ post ++ [.call s2.handles.length k])
      = some (frozenCall (enabledAt s2.env) d t k) := by
  intro s1 s2
  rw [lastObs_snoc, exec_append, exec_append]
  have e1 : exec s (pre ++ .decorate d0 t :: mid) = s2 := by rw [exec_append]
  rw [e1]
  have ha1 : Aligned s1 := exec_aligned s pre ha
  have ht : again s2.targets s1.handles.length = some t := by
    have h0 : (step s1 (.decorate d0 t)).1.targets[s1.handles.length]? = some (some t) := by
      have hl : s1.handles.length = s1.targets.length := ha1.symm
      simp [step, decorateNow_targets, hl]
    have h1 : s2.targets[s1.handles.length]? = some (some t) := exec_preserves_target _ mid _ _ h0
    simp [again, h1, htc]
  have h1 : (exec s2 [.redecorate d s1.handles.length]).handles[s2.handles.length]?
      = some (closedMode d t (enabledAt s2.env)) := by
    simp [exec, redecorate_handles s2 d _ t ht]
  have h2 := exec_preserves _ post _ _ h1
  simp only [step, h2, callObs_closedMode]

/-- … and the wrapper made by the *first* decoration is not affected by decorating the same object again (instance of
    `read_at_decoration`, whose `post` ranges over histories with `redecorate` / `reapply`) -/
theorem first_result_unaffected_by_redecoration (s : St) (pre mid post : List Op) (d0 d : Deco) (t : Target) (k : CallKind) :
    lastObs s (pre ++ [.decorate d0 t] ++ (mid ++ .redecorate d (exec s pre).handles.length :: post) ++ [.call (exec s pre).handles.length k])
      = some (frozenCall (enabledAt (exec s pre).env) d0 t k) :=
  read_at_decoration s pre _ d0 t k

-- decorate while on, switch off, decorate the same function again: identity, and no checks on the new result;
-- the first wrapper keeps checking; switch on and decorate a third time: checks
example : run (init none) [.decorate .pedantic ⟨false, true, false, false, false, false⟩, .disable, .redecorate .pedantic 0, .call 1 .wrongType, .call 0 .wrongType,
      .enable, .redecorate .pedanticDoc 0, .call 2 .positional]
    = [.decorated false true, .none, .decorated true true, .called false false false, .called true false false,
       .none, .decorated false true, .called true false false] := by decide
example : run (init (some "0")) [.factory .pedantic, .decorate .pedantic ⟨false, false, false, false, false, false⟩, .enable, .reapply 0 0, .call 1 .positional, .call 0 .positional]
    = [.none, .decorated true true, .none, .decorated false true, .called true false false, .called false false false] := by decide
-- a class is changed in place by its decorators: handing the same class object in again is outside the model
example : run (init none) [.decorate .traceClass ⟨true, true, false, false, false, false⟩, .redecorate .traceClass 0] = [.decorated true false, .bad] := by decide

/-! ## 3c. sub classes of decorated classes: inherited members, reached through the sub class and through its instances -/

/-- what a member of a class shows when it is reached — through the class object or an instance, of the decorated class
    itself or of any class derived from it — as a function of the switch **when the base class was decorated** only -/
def frozenMember (en : Bool) (d : Deco) (t : Target) (m : Member) (v : Via) (k : CallKind) : Obs :=
  if !hasMember t m then .bad
  else if !en then .called false false false
  else if !fits d t then .unspecified
  else if d.requiresDoc && !t.hasDoc then .bad
  else effObsM (d.effectOn t) m v k

theorem callObsM_closedMode (d : Deco) (t : Target) (en : Bool) (now : Option Bool) (m : Member) (v : Via) (k : CallKind)
    (hm : hasMember t m = true) :
    callObsM (closedMode d t en) now m v k = frozenMember en d t m v k := by
  unfold closedMode closed frozenMember
  cases en
  · simp [hm, callObsM]
  · by_cases h1 : fits d t = true
    · by_cases h2 : (d.requiresDoc && !t.hasDoc) = true
      · simp [h1, h2, hm, callObsM]
      · simp [h1, h2, hm, callObsM]
    · simp [h1, hm, callObsM]

/-- a decoration result the model describes as a live class / callable -/
def Mode.live (m : Mode) : Prop := m ≠ .dead ∧ m ≠ .unknown

/-- when does a decoration produce a live class / callable (that the model describes): switched off — always, whatever the object
    is; switched on — for an object the decorator is made for, unless a required docstring is missing -/
theorem closedMode_live (d : Deco) (t : Target) (en : Bool) :
    (closedMode d t en).live ↔ en = false ∨ (fits d t = true ∧ (d.requiresDoc && !t.hasDoc) = false) := by
  unfold Mode.live closedMode closed
  cases en
  · simp
  · by_cases h1 : fits d t = true
    · by_cases h2 : (d.requiresDoc && !t.hasDoc) = true
      · simp [h1, h2]
      · simp [h1, h2]
    · simp [h1]

/-- handle `h` stands for a class described by `t` whose members behave as `m` says -/
def Carries (s : St) (h : Nat) (t : Target) (m : Mode) : Prop := s.handles[h]? = some m ∧ s.targets[h]? = some (some t)

/-- nothing that happens later changes what a handle carries -/
theorem carries_exec {s : St} {h : Nat} {t : Target} {m : Mode} (hc : Carries s h t m) (ops : List Op) :
    Carries (exec s ops) h t m :=
  ⟨exec_preserves s ops h m hc.1, exec_preserves_target s ops h (some t) hc.2⟩

theorem carries_decorate (s : St) (ha : Aligned s) (d : Deco) (t : Target) :
    Carries (step s (.decorate d t)).1 s.handles.length t (closedMode d t (enabledAt s.env)) := by
  constructor
  · simp [decorate_handles]
  · have hl : s.handles.length = s.targets.length := ha.symm
    simp [step, decorateNow_targets, hl]

/-- a plain sub class lists no `Generic[…]` itself -/
def ungeneric (t : Target) : Target := { t with generic := false }

@[simp] theorem ungeneric_idem (t : Target) : ungeneric (ungeneric t) = ungeneric t := rfl
@[simp] theorem derivedMode_idem (m : Mode) : derivedMode (derivedMode m) = derivedMode m := by
  cases m with
  | frozen e => cases e <;> rfl
  | dynamic e => cases e <;> rfl
  | _ => rfl

theorem derivedMode_live {m : Mode} (hm : m.live) : (derivedMode m).live := by
  obtain ⟨h1, h2⟩ := hm
  cases m with
  | dead => exact absurd rfl h1
  | unknown => exact absurd rfl h2
  | plain => exact ⟨by simp [derivedMode], by simp [derivedMode]⟩
  | frozen e => cases e <;> exact ⟨by simp [derivedMode], by simp [derivedMode]⟩
  | dynamic e => cases e <;> exact ⟨by simp [derivedMode], by simp [derivedMode]⟩

/-- the members of a class behave alike whether the class is asked for type arguments or not -/
theorem callObsM_derived (md : Mode) (now : Option Bool) (m : Member) (v : Via) (k : CallKind) :
    callObsM (derivedMode md) now m v k = callObsM md now m v k := by
  cases md with
  | frozen e => cases e <;> rfl
  | dynamic e => cases e <;> rfl
  | _ => rfl

/-- … and so does every call that is not made on an instance created without type arguments -/
theorem callObs_derived (md : Mode) (now : Option Bool) (k : CallKind) (hk : k ≠ .unparamInst) :
    callObs (derivedMode md) now k = callObs md now k := by
  cases md with
  | frozen e => cases e <;> cases k <;> first | rfl | exact absurd rfl hk
  | dynamic e => cases e <;> cases k <;> first | rfl | exact absurd rfl hk
  | _ => rfl

@[simp] theorem hasMember_ungeneric (t : Target) (m : Member) : hasMember (ungeneric t) m = hasMember t m := rfl

/-- **a sub class inherits the decided members**: deriving a class from a live class handle — at any time — yields a handle
    that carries exactly what its base carries (the sub class itself lists no `Generic[…]`: nothing is asked of its instances) -/
theorem carries_subclass (s : St) (ha : Aligned s) (h : Nat) (t : Target) (m : Mode) (hc : Carries s h t m)
    (htc : t.isClass = true) (hto : t.odd = false) (hm : m.live) :
    (step s (.subclass h)).2 = .derived ∧ Carries (step s (.subclass h)).1 s.handles.length (ungeneric t) (derivedMode m) := by
  have hl : s.handles.length = s.targets.length := ha.symm
  obtain ⟨h1, h2⟩ := hc
  obtain ⟨hm1, hm2⟩ := hm
  cases m with
  | dead => exact absurd rfl hm1
  | unknown => exact absurd rfl hm2
  | plain => exact ⟨by simp [step, h1, h2, htc, hto], by simp [step, h1, h2, htc, hto, push], by simp [step, h1, h2, htc, hto, push, hl, ungeneric]⟩
  | frozen e => exact ⟨by simp [step, h1, h2, htc, hto], by simp [step, h1, h2, htc, hto, push], by simp [step, h1, h2, htc, hto, push, hl, ungeneric]⟩
  | dynamic e => exact ⟨by simp [step, h1, h2, htc, hto], by simp [step, h1, h2, htc, hto, push], by simp [step, h1, h2, htc, hto, push, hl, ungeneric]⟩

theorem callm_of_carries (s : St) (h : Nat) (t : Target) (md : Mode) (hc : Carries s h t md) (m : Member) (v : Via) (k : CallKind) :
    (step s (.callm h m v k)).2 = if hasMember t m then callObsM md (isEnabledE s.env) m v k else .bad := by
  obtain ⟨h1, h2⟩ := hc
  by_cases hm : hasMember t m = true
  · simp [step, h1, h2, hm]
  · have : hasMember t m = false := by simpa using hm
    simp [step, h1, h2, this]

/-- a member reached through a handle that carries the result of a decoration -/
theorem callm_carried (s : St) (h : Nat) (d : Deco) (t : Target) (en : Bool) (hc : Carries s h t (closedMode d t en))
    (m : Member) (v : Via) (k : CallKind) :
    (step s (.callm h m v k)).2 = frozenMember en d t m v k := by
  rw [callm_of_carries s h t _ hc]
  by_cases hm : hasMember t m = true
  · simp [hm, callObsM_closedMode]
  · have : hasMember t m = false := by simpa using hm
    simp [this, frozenMember]

theorem call_carried (s : St) (h : Nat) (d : Deco) (t : Target) (en : Bool) (hc : Carries s h t (closedMode d t en)) (k : CallKind) :
    (step s (.call h k)).2 = frozenCall en d t k := by
  simp [step, hc.1, callObs_closedMode]

/-- a line of descent of any depth: run a history, derive a sub class from the current class, run another history, derive a
    sub class from that sub class, … (the operations, and the state / handle they end in) -/
def descendOps : St → Nat → List (List Op) → List Op
  | _, _, [] => []
  | s, h, seg :: rest =>
    seg ++ [.subclass h] ++ descendOps (step (exec s seg) (.subclass h)).1 (exec s seg).handles.length rest

def descendEnd : St → Nat → List (List Op) → St × Nat
  | s, h, [] => (s, h)
  | s, h, seg :: rest => descendEnd (step (exec s seg) (.subclass h)).1 (exec s seg).handles.length rest

theorem exec_descend (s : St) (h : Nat) (segs : List (List Op)) : exec s (descendOps s h segs) = (descendEnd s h segs).1 := by
  induction segs generalizing s h with
  | nil => rfl
  | cons seg rest ih => simp [descendOps, descendEnd, exec_append, exec, ih]

/-- what the last class of a line of descent is described by: the decorated class itself, or a plain sub class of it -/
def descT : List (List Op) → Target → Target
  | [], t => t
  | _ :: _, t => ungeneric t

def descM : List (List Op) → Mode → Mode
  | [], m => m
  | _ :: _, m => derivedMode m

theorem carries_descend (s : St) (ha : Aligned s) (h : Nat) (t : Target) (m : Mode) (hc : Carries s h t m)
    (htc : t.isClass = true) (hto : t.odd = false) (hm : m.live) (segs : List (List Op)) :
    Carries (descendEnd s h segs).1 (descendEnd s h segs).2 (descT segs t) (descM segs m) ∧ Aligned (descendEnd s h segs).1 := by
  induction segs generalizing s h t m with
  | nil => exact ⟨hc, ha⟩
  | cons seg rest ih =>
    have ha1 := exec_aligned s seg ha
    have hc1 := carries_exec hc seg
    have h2 := ih _ (step_aligned _ _ ha1) _ (ungeneric t) (derivedMode m) (carries_subclass _ ha1 h t m hc1 htc hto hm).2 htc hto
      (derivedMode_live hm)
    cases rest with
    | nil => exact h2
    | cons seg' rest' =>
      simp only [descT, descM, ungeneric_idem, derivedMode_idem] at h2
      exact h2

/-- **C09, read at decoration — inherited members, all histories, any depth of inheritance.**  Start in any state with recorded
    targets (e.g. the initial one), run any history `pre`, apply any class decorator of the property to a class (state `s1`: the
    switch is read HERE), then any line of descent `segs` — histories (toggles, other decorations, calls, other sub classes, …)
    each followed by deriving a sub class from the latest class of the line; `segs = []` is the decorated class itself — then any
    history `post`, then reach any member (instance method, class method, static method, property getter / setter) through the
    last class of the line or through an instance of it and call it: what is observed depends on the value of the variable at
    the decoration of the base class and on nothing else — not on when the sub classes were created, not on when they were
    used for the first time, not on any toggle in `segs` or `post`. -/
theorem read_at_decoration_inherited (s : St) (ha : Aligned s) (pre post : List Op) (segs : List (List Op)) (d : Deco) (t : Target)
    (m : Member) (v : Via) (k : CallKind) (htc : t.isClass = true) (hto : t.odd = false)
    (hlive : (closedMode d t (enabledAt (exec s pre).env)).live) :
    let s1 := exec s pre
    let s2 := (step s1 (.decorate d t)).1
    lastObs s (pre ++ [.decorate d t] ++ descendOps s2 s1.handles.length segs ++ post
                ++ [.callm (descendEnd s2 s1.handles.length segs).2 m v k])
      = some (frozenMember (enabledAt s1.env) d t m v k) := by
  intro s1 s2
  rw [lastObs_snoc, exec_append, exec_append, exec_append]
  have e1 : exec (exec s pre) [.decorate d t] = s2 := rfl
  rw [e1, exec_descend]
  have ha1 : Aligned s1 := exec_aligned s pre ha
  have hc := carries_decorate s1 ha1 d t
  have hd := (carries_descend s2 (step_aligned _ _ ha1) _ t _ hc htc hto hlive segs).1
  rw [callm_of_carries _ _ _ _ (carries_exec hd post)]
  have h1 : hasMember (descT segs t) m = hasMember t m := by cases segs <;> rfl
  have h2 : ∀ now, callObsM (descM segs (closedMode d t (enabledAt s1.env))) now m v k
      = callObsM (closedMode d t (enabledAt s1.env)) now m v k := by
    intro now; cases segs with
    | nil => rfl
    | cons _ _ => exact callObsM_derived _ _ _ _ _
  rw [h1, h2]
  by_cases hm : hasMember t m = true
  · simp [hm, callObsM_closedMode]
  · have : hasMember t m = false := by simpa using hm
    simp [this, frozenMember]

/-- the same for the plain call of the method `m` of a new instance (`call`) through the last class of the line — every call kind but
    the one made on an instance created without type arguments in the module of the class (which exists for the decorated class itself:
    `read_at_decoration`) -/
theorem read_at_decoration_inherited_call (s : St) (ha : Aligned s) (pre post : List Op) (segs : List (List Op)) (d : Deco)
    (t : Target) (k : CallKind) (htc : t.isClass = true) (hto : t.odd = false) (hk : k ≠ .unparamInst)
    (hlive : (closedMode d t (enabledAt (exec s pre).env)).live) :
    let s1 := exec s pre
    let s2 := (step s1 (.decorate d t)).1
    lastObs s (pre ++ [.decorate d t] ++ descendOps s2 s1.handles.length segs ++ post
                ++ [.call (descendEnd s2 s1.handles.length segs).2 k])
      = some (frozenCall (enabledAt s1.env) d t k) := by
  intro s1 s2
  rw [lastObs_snoc, exec_append, exec_append, exec_append]
  have e1 : exec (exec s pre) [.decorate d t] = s2 := rfl
  rw [e1, exec_descend]
  have ha1 : Aligned s1 := exec_aligned s pre ha
  have hc := carries_decorate s1 ha1 d t
  have hd := (carries_descend s2 (step_aligned _ _ ha1) _ t _ hc htc hto hlive segs).1
  have h1 := (carries_exec hd post).1
  have h2 : ∀ now, callObs (descM segs (closedMode d t (enabledAt s1.env))) now k = callObs (closedMode d t (enabledAt s1.env)) now k := by
    intro now; cases segs with
    | nil => rfl
    | cons _ _ => exact callObs_derived _ _ _ hk
  simp only [step, h1, h2, callObs_closedMode]

/-- reaching a member never changes the state (in particular: no decision is taken on first access) — so "used for the first
    time before or after a toggle" cannot matter: two histories that differ only in member calls end in the same state -/
theorem first_use_is_no_event (s : St) (h : Nat) (m : Member) (v : Via) (k : CallKind) (ops : List Op) :
    run s (.callm h m v k :: ops) = (step s (.callm h m v k)).2 :: run s ops := by
  simp [run, callm_state]

-- the missed scenario: class with a class method decorated while on, switch off, class method reached for the first time
-- through a sub class that was not used before (created before / after the toggle), then on again
example : run (init none) [.decorate .pedanticClass ⟨true, true, true, false, false, false⟩, .subclass 0, .disable, .subclass 0,
      .callm 1 .classMethod .cls .wrongType, .callm 2 .classMethod .cls .wrongType, .callm 2 .classMethod .inst .positional,
      .enable, .subclass 1, .callm 3 .staticMethod .inst .wrongType, .callm 3 .propGet .inst .wrongType, .callm 3 .propSet .cls .good]
    = [.decorated true false, .derived, .none, .derived, .called true false false, .called true false false, .called true false false,
       .none, .derived, .called true false false, .called true false false, .called false false false] := by decide
-- decorated while off: nothing is imposed on the sub class either, whatever the switch says later
example : run (init (some "0")) [.decorate (.forAll .pedantic) ⟨true, true, true, false, false, false⟩, .enable, .subclass 0, .callm 1 .classMethod .cls .wrongType,
      .callm 1 .method .inst .positional]
    = [.decorated true true, .none, .derived, .called false false false, .called false false false] := by decide
-- hypotheses of `read_at_decoration_inherited` are met by a concrete two-level line of descent
example : (closedMode .pedanticClassDoc ⟨true, true, true, false, false, false⟩ (enabledAt (exec (init none) [.enable]).env)).live := by
  unfold Mode.live; decide
example : lastObs (init none) ([.enable] ++ [.decorate .pedanticClassDoc ⟨true, true, true, false, false, false⟩]
      ++ descendOps (step (exec (init none) [.enable]) (.decorate .pedanticClassDoc ⟨true, true, true, false, false, false⟩)).1 0 [[.disable], [.enable, .disable]]
      ++ [.setenv "0"] ++ [.callm 2 .classMethod .cls .wrongType]) = some (.called true false false) := by decide
-- a function, or a decoration that raised, has no sub class; a class without the member: `bad`
example : run (init none) [.decorate .pedantic ⟨false, true, false, false, false, false⟩, .subclass 0, .decorate .pedanticClassDoc ⟨true, false, true, false, false, false⟩, .subclass 2,
      .decorate .traceClass ⟨true, true, false, false, false, false⟩, .callm 4 .classMethod .cls .good, .callm 4 .method .cls .good]
    = [.decorated false true, .bad, .decoRaised, .bad, .decorated true false, .bad, .called false true false] := by decide
-- trace / timer / foreign wrappers: class and static methods reached through an instance raise a TypeError (finding of C18)
example : run (init none) [.decorate .traceClass ⟨true, true, true, false, false, false⟩, .subclass 0, .callm 1 .staticMethod .inst .good, .callm 1 .staticMethod .cls .good]
    = [.decorated true false, .derived, .callError, .called false true false] := by decide

/-! ## 4. the model satisfies the specification on every history -/

def hrel (m : Mode) : SHandle → Prop
  | .identity => m = .plain
  | .active e => m = .frozen e
  | .dead => m = .dead
  | .unclaimed => True

def HR : List Mode → List SHandle → Prop
  | [], [] => True
  | m :: ms, h :: hs => hrel m h ∧ HR ms hs
  | _, _ => False

theorem HR_snoc : ∀ (a : List Mode) (b : List SHandle) (m : Mode) (h : SHandle), HR a b → hrel m h → HR (a ++ [m]) (b ++ [h])
  | [], [], _, _, _, hm => ⟨hm, trivial⟩
  | [], _ :: _, _, _, hab, _ => hab.elim
  | _ :: _, [], _, _, hab, _ => hab.elim
  | _ :: ms, _ :: hs, m, h, hab, hm => ⟨hab.1, HR_snoc ms hs m h hab.2 hm⟩

theorem HR_get : ∀ (a : List Mode) (b : List SHandle) (i : Nat), HR a b →
    (a[i]? = none ∧ b[i]? = none) ∨ ∃ m h, a[i]? = some m ∧ b[i]? = some h ∧ hrel m h
  | [], [], _, _ => .inl ⟨rfl, rfl⟩
  | [], _ :: _, _, hab => hab.elim
  | _ :: _, [], _, hab => hab.elim
  | m :: _, h :: _, 0, hab => .inr ⟨m, h, rfl, rfl, hab.1⟩
  | _ :: ms, _ :: hs, i + 1, hab => by simpa using HR_get ms hs i hab.2

def envRel (v sv : Option String) : Prop := ∀ b, claim sv = some b → enabledAt v = b

theorem envRel_same (v : Option String) : envRel v v := by
  intro b hc
  have h1 := claim_sound v b hc
  rw [enabled_exact] at h1
  simpa [enabledAt] using h1

theorem enabledAt_of (v : Option String) (b : Bool) (h : isEnabledE v = some b) : enabledAt v = b := by
  rw [enabled_exact] at h
  simpa [enabledAt] using h

/-- simulation relation between the model state and the specification state: the variables need not hold the same
    string (what `enable_pedantic()` / `disable_pedantic()` write is the code's business), only be read alike
    wherever the property claims something -/
structure Rel (s : St) (ss : SSt) : Prop where
  env : envRel s.env ss.env
  fac : s.factories.map (·.deco) = ss.factories
  hs : HR s.handles ss.handles
  tg : s.targets = ss.targets

theorem rel_push (s : St) (ss : SSt) (m : Mode) (h : SHandle) (r : Rel s ss) (hm : hrel m h) : Rel (push s m) (spush ss h) :=
  ⟨r.env, r.fac, HR_snoc _ _ _ _ r.hs hm, r.tg⟩

theorem rel_record (t : Option Target) (p : St × Obs) (q : SSt × SObs) (r : Rel p.1 q.1) : Rel (record t p).1 (srecord t q).1 :=
  ⟨r.env, r.fac, r.hs, by simp [srecord, r.tg]⟩

theorem finish_push (s : St) (o : DecoOut) : ∃ m, (finish s o).1 = push s m := by
  cases o <;> exact ⟨_, rfl⟩

/-- the specification's own wording of "not an object the decorator is made for" says the same as the model's `fits` -/
theorem spec_misfit (d : Deco) (t : Target) : (t.odd || d.onClass != t.isClass) = !fits d t := by
  unfold fits; cases t.odd <;> cases d.onClass <;> cases t.isClass <;> rfl

/-- one decoration, model against specification -/
theorem decorate_sim (s : St) (ss : SSt) (r : Rel s ss) (d : Deco) (t : Target) (enF : Option Bool) :
    Rel (finish s (decoOut d t enF (enabledAt s.env))).1 (specDecorate ss d t).1 ∧
    agrees (finish s (decoOut d t enF (enabledAt s.env))).2 (specDecorate ss d t).2 = true := by
  rw [decoOut_closed]
  unfold specDecorate
  cases hc : claim ss.env with
  | none =>
    obtain ⟨m, hm⟩ := finish_push s (closed d t (enabledAt s.env))
    simp only [hm]
    exact ⟨rel_push _ _ _ _ r trivial, rfl⟩
  | some b =>
    have hen : enabledAt s.env = b := r.env b hc
    unfold closed
    cases b
    · simp only [hen, Bool.not_false, ↓reduceIte, finish]
      exact ⟨rel_push _ _ _ _ r rfl, by decide⟩
    · rw [spec_misfit]
      cases hf : fits d t
      · simp only [hen, Bool.not_true, Bool.not_false, Bool.false_eq_true, ↓reduceIte, finish]
        exact ⟨rel_push _ _ _ _ r trivial, rfl⟩
      · by_cases hd : (d.requiresDoc && !t.hasDoc) = true
        · simp only [hen, Bool.not_true, Bool.false_eq_true, ↓reduceIte, hd, finish]
          exact ⟨rel_push _ _ _ _ r rfl, by decide⟩
        · simp only [hen, Bool.not_true, Bool.false_eq_true, ↓reduceIte, hd, finish]
          exact ⟨rel_push _ _ _ _ r rfl, rfl⟩

theorem call_sim (m : Mode) (h : SHandle) (hm : hrel m h) (now : Option Bool) (k : CallKind) :
    agrees (callObs m now k) (specCall h k) = true := by
  cases h with
  | identity => subst hm; rfl
  | active e => subst hm; cases e <;> cases k <;> rfl
  | dead => subst hm; rfl
  | unclaimed => rfl

theorem callm_sim (md : Mode) (h : SHandle) (hm : hrel md h) (now : Option Bool) (m : Member) (v : Via) (k : CallKind) :
    agrees (callObsM md now m v k) (specCallM h m v k) = true := by
  cases h with
  | identity => subst hm; rfl
  | active e => subst hm; cases e <;> cases m <;> cases v <;> cases k <;> rfl
  | dead => subst hm; rfl
  | unclaimed => rfl

theorem decorateNow_sim (s : St) (ss : SSt) (r : Rel s ss) (d : Deco) (t : Target) :
    Rel (decorateNow s d t).1 (specDecorate ss d t).1 ∧ agrees (decorateNow s d t).2 (specDecorate ss d t).2 = true := by
  simp only [decorateNow, enabled_exact]
  exact decorate_sim s ss r d t _

theorem applyNow_sim (s : St) (ss : SSt) (r : Rel s ss) (k : Nat) (t : Target) :
    Rel (applyNow s k t).1 (specApply ss k t).1 ∧ agrees (applyNow s k t).2 (specApply ss k t).2 = true := by
  simp only [applyNow, specApply]
  have hfk : ss.factories[k]? = (s.factories[k]?).map (·.deco) := by rw [← r.fac]; simp
  cases hf : s.factories[k]? with
  | none =>
    simp only [hfk, hf, Option.map_none, finish]
    exact ⟨rel_push _ _ _ _ r rfl, by decide⟩
  | some f =>
    simp only [hfk, hf, Option.map_some, enabled_exact]
    exact decorate_sim s ss r f.deco t _

theorem again_sim (s : St) (ss : SSt) (r : Rel s ss) (h : Nat) : sagain ss.targets h = again s.targets h := by
  rw [← r.tg]; rfl

theorem step_sim (s : St) (ss : SSt) (r : Rel s ss) (op : Op) :
    Rel (step s op).1 (specStep ss op).1 ∧ agrees (step s op).2 (specStep ss op).2 = true := by
  cases op with
  | setenv v => exact ⟨⟨envRel_same _, r.fac, r.hs, r.tg⟩, rfl⟩
  | unsetenv => exact ⟨⟨envRel_same _, r.fac, r.hs, r.tg⟩, rfl⟩
  | enable =>
    refine ⟨⟨?_, r.fac, r.hs, r.tg⟩, rfl⟩
    intro b hc
    have hb : b = true := by simpa [specStep, claim] using hc.symm
    subst hb
    exact enabledAt_of _ _ enable_enables
  | disable =>
    refine ⟨⟨?_, r.fac, r.hs, r.tg⟩, rfl⟩
    intro b hc
    have hb : b = false := by simpa [specStep, claim] using hc.symm
    subst hb
    exact enabledAt_of _ _ disable_disables
  | factory d => exact ⟨⟨r.env, by simp [step, specStep, r.fac], r.hs, r.tg⟩, rfl⟩
  | decorate d t =>
    obtain ⟨h1, h2⟩ := decorateNow_sim s ss r d t
    exact ⟨rel_record _ _ _ h1, h2⟩
  | apply k t =>
    obtain ⟨h1, h2⟩ := applyNow_sim s ss r k t
    exact ⟨rel_record _ _ _ h1, h2⟩
  | redecorate d h =>
    simp only [step, specStep, again_sim s ss r h]
    cases again s.targets h with
    | none => exact ⟨rel_record none (finish s .noRow) (spush ss .dead, .exact .bad) (rel_push _ _ _ _ r rfl), rfl⟩
    | some t =>
      obtain ⟨h1, h2⟩ := decorateNow_sim s ss r d t
      exact ⟨rel_record _ _ _ h1, h2⟩
  | reapply k h =>
    simp only [step, specStep, again_sim s ss r h]
    cases again s.targets h with
    | none => exact ⟨rel_record none (finish s .noRow) (spush ss .dead, .exact .bad) (rel_push _ _ _ _ r rfl), rfl⟩
    | some t =>
      obtain ⟨h1, h2⟩ := applyNow_sim s ss r k t
      exact ⟨rel_record _ _ _ h1, h2⟩
  | call h k =>
    simp only [step, specStep]
    rcases HR_get _ _ h r.hs with ⟨h1, h2⟩ | ⟨m, sh, h1, h2, hm⟩
    · simp only [h1, h2]; exact ⟨r, by decide⟩
    · simp only [h1, h2]; exact ⟨r, call_sim m sh hm _ k⟩
  | subclass h =>
    simp only [step, specStep, ← r.tg]
    have dead : Rel (record none (push s .dead, Obs.bad)).1 (srecord none (spush ss .dead, SObs.exact .bad)).1 :=
      rel_record none (push s .dead, Obs.bad) (spush ss .dead, SObs.exact .bad) (rel_push _ _ _ _ r rfl)
    rcases HR_get _ _ h r.hs with ⟨h1, h2⟩ | ⟨m, sh, h1, h2, hm⟩
    · simp only [h1, h2]; exact ⟨dead, rfl⟩
    · simp only [h1, h2]
      cases ht : s.targets[h]? with
      | none => exact ⟨dead, rfl⟩
      | some ot =>
        cases ot with
        | none => exact ⟨dead, rfl⟩
        | some t =>
          by_cases hc : (t.isClass && !t.odd) = true
          · simp only [hc, ↓reduceIte]
            cases sh with
            | identity =>
              subst hm
              exact ⟨rel_record (some { t with generic := false }) (push s .plain, Obs.derived) (spush ss .identity, SObs.exact .derived) (rel_push _ _ _ _ r rfl), rfl⟩
            | active e =>
              subst hm
              cases e with
              | checksGeneric =>
                exact ⟨rel_record (some { t with generic := false }) (push s (.frozen .checks), Obs.derived) (spush ss (.active .checks), SObs.exact .derived) (rel_push _ _ _ _ r rfl), rfl⟩
              | checks =>
                exact ⟨rel_record (some { t with generic := false }) (push s (.frozen .checks), Obs.derived) (spush ss (.active .checks), SObs.exact .derived) (rel_push _ _ _ _ r rfl), rfl⟩
              | prints =>
                exact ⟨rel_record (some { t with generic := false }) (push s (.frozen .prints), Obs.derived) (spush ss (.active .prints), SObs.exact .derived) (rel_push _ _ _ _ r rfl), rfl⟩
              | marks =>
                exact ⟨rel_record (some { t with generic := false }) (push s (.frozen .marks), Obs.derived) (spush ss (.active .marks), SObs.exact .derived) (rel_push _ _ _ _ r rfl), rfl⟩
            | dead =>
              subst hm
              exact ⟨rel_record (some { t with generic := false }) (push s .dead, Obs.bad) (spush ss .dead, SObs.exact .bad) (rel_push _ _ _ _ r rfl), rfl⟩
            | unclaimed =>
              cases m with
              | dead => exact ⟨rel_record (some { t with generic := false }) (push s .dead, Obs.bad) (spush ss .unclaimed, SObs.unclaimed) (rel_push _ _ _ _ r trivial), rfl⟩
              | unknown => exact ⟨rel_record (some { t with generic := false }) (push s .unknown, Obs.unspecified) (spush ss .unclaimed, SObs.unclaimed) (rel_push _ _ _ _ r trivial), rfl⟩
              | plain => exact ⟨rel_record (some { t with generic := false }) (push s .plain, Obs.derived) (spush ss .unclaimed, SObs.unclaimed) (rel_push _ _ _ _ r trivial), rfl⟩
              | frozen e => exact ⟨rel_record (some { t with generic := false }) (push s (derivedMode (.frozen e)), Obs.derived) (spush ss .unclaimed, SObs.unclaimed) (rel_push _ _ _ _ r trivial), rfl⟩
              | dynamic e => exact ⟨rel_record (some { t with generic := false }) (push s (derivedMode (.dynamic e)), Obs.derived) (spush ss .unclaimed, SObs.unclaimed) (rel_push _ _ _ _ r trivial), rfl⟩
          · simp only [hc, Bool.false_eq_true, ↓reduceIte]; exact ⟨dead, rfl⟩
  | callm h m v k =>
    simp only [step, specStep, ← r.tg]
    rcases HR_get _ _ h r.hs with ⟨h1, h2⟩ | ⟨md, sh, h1, h2, hm⟩
    · simp only [h1, h2]; exact ⟨r, by decide⟩
    · simp only [h1, h2]
      cases ht : s.targets[h]? with
      | none => exact ⟨r, rfl⟩
      | some ot =>
        cases ot with
        | none => exact ⟨r, rfl⟩
        | some t =>
          by_cases hc : hasMember t m = true
          · simp only [hc, ↓reduceIte]; exact ⟨r, callm_sim md sh hm _ m v k⟩
          · simp only [hc, Bool.false_eq_true, ↓reduceIte]; exact ⟨r, by decide⟩

theorem run_sim (s : St) (ss : SSt) (r : Rel s ss) (ops : List Op) : agreesAll (run s ops) (specRun ss ops) = true := by
  induction ops generalizing s ss with
  | nil => rfl
  | cons o rest ih =>
    obtain ⟨r', ha⟩ := step_sim s ss r o
    simp [run, specRun, agreesAll, ha, ih _ _ r']

/-- **C09, whole property, all histories**: from every initial value of the variable, for every sequence of operations
    of any length, every observation the model makes is one the specification allows (the specification claims
    identity / no checks after `"0"`, checks after unset / `"1"`, and nothing for other strings) -/
theorem run_refines_spec (e0 : Option String) (ops : List Op) :
    agreesAll (run (init e0) ops) (specRun (sinit e0) ops) = true :=
  run_sim (init e0) (sinit e0) ⟨envRel_same _, rfl, by simp [init, sinit, HR], rfl⟩ ops

example : specRun (sinit none) [.disable, .decorate .pedantic ⟨false, false, false, false, false, false⟩, .enable, .call 0 .wrongType, .decorate .pedantic ⟨false, true, false, false, false, false⟩, .call 1 .wrongType]
    = [.exact .none, .exact (.decorated true true), .exact .none, .exact (.called false false false), .enabledDeco, .exact (.called true false false)] := by decide

end PedVerif.Switch
