import PedVerif.Props.StateAudit.PedanticInit
import PedVerif.Props.StateAudit.Constants
import PedVerif.Props.StateAudit.DecoratorsInit
import PedVerif.Props.StateAudit.ClassDecorators
import PedVerif.Props.StateAudit.ClsDecoFrozenDataclass
import PedVerif.Props.StateAudit.FnDecoContextManager
import PedVerif.Props.StateAudit.FnDecoCountCalls
import PedVerif.Props.StateAudit.FnDecoDeprecated
import PedVerif.Props.StateAudit.FnDecoDoesSameAsFunction
import PedVerif.Props.StateAudit.FnDecoInSubprocess
import PedVerif.Props.StateAudit.FnDecoMock
import PedVerif.Props.StateAudit.FnDecoOverrides
import PedVerif.Props.StateAudit.FnDecoPedantic
import PedVerif.Props.StateAudit.FnDecoRenameKwargs
import PedVerif.Props.StateAudit.FnDecoRequireKwargs
import PedVerif.Props.StateAudit.FnDecoRetry
import PedVerif.Props.StateAudit.FnDecoTimer
import PedVerif.Props.StateAudit.FnDecoTrace
import PedVerif.Props.StateAudit.FnDecoTraceIfReturns
import PedVerif.Props.StateAudit.FnDecoUnimplemented
import PedVerif.Props.StateAudit.FnDecoValidateInit
import PedVerif.Props.StateAudit.ConvertValue
import PedVerif.Props.StateAudit.FnDecoValidateExceptions
import PedVerif.Props.StateAudit.FnDecoValidate
import PedVerif.Props.StateAudit.ParametersInit
import PedVerif.Props.StateAudit.AbstractExternalParameter
import PedVerif.Props.StateAudit.AbstractParameter
import PedVerif.Props.StateAudit.Deserializable
import PedVerif.Props.StateAudit.EnvironmentVariableParameter
import PedVerif.Props.StateAudit.FlaskParameters
import PedVerif.Props.StateAudit.ValidatorsInit
import PedVerif.Props.StateAudit.AbstractValidator
import PedVerif.Props.StateAudit.CompositeValidator
import PedVerif.Props.StateAudit.DatetimeIsoformat
import PedVerif.Props.StateAudit.DatetimeUnixTimestamp
import PedVerif.Props.StateAudit.Email
import PedVerif.Props.StateAudit.Enum
import PedVerif.Props.StateAudit.ForEach
import PedVerif.Props.StateAudit.IsUuid
import PedVerif.Props.StateAudit.MatchPattern
import PedVerif.Props.StateAudit.Max
import PedVerif.Props.StateAudit.MaxLength
import PedVerif.Props.StateAudit.Min
import PedVerif.Props.StateAudit.MinLength
import PedVerif.Props.StateAudit.NotEmpty
import PedVerif.Props.StateAudit.EnvVarLogic
import PedVerif.Props.StateAudit.PedanticExceptions
import PedVerif.Props.StateAudit.GetContext
import PedVerif.Props.StateAudit.HelperMethods
import PedVerif.Props.StateAudit.MixinsInit
import PedVerif.Props.StateAudit.GenericMixin
import PedVerif.Props.StateAudit.WithDecoratedMethods
import PedVerif.Props.StateAudit.ModelsInit
import PedVerif.Props.StateAudit.DecoratedFunction
import PedVerif.Props.StateAudit.FunctionCall
import PedVerif.Props.StateAudit.GeneratorWrapper
import PedVerif.Props.StateAudit.TypeCheckingLogicInit
import PedVerif.Props.StateAudit.CheckDocstring
import PedVerif.Props.StateAudit.CheckGenericClasses
import PedVerif.Props.StateAudit.CheckTypes
import PedVerif.Props.StateAudit.ResolveForwardRef
/-!
# No hidden state between calls (the assumption behind every "for free" theorem of the pure models)

Every model in `PedVerif/Model` is a pure function of its arguments plus the state it carries explicitly (per-instance TypeVar
bindings, the `count_calls` counter, the marks of `WithDecoratedMethods`, the ENABLE_PEDANTIC switch, ...).  Theorems such as
"bindings made during one call never influence a later call", "the verdict does not depend on what was checked before",
"every attempt receives the caller's arguments unchanged" hold of the model for free; they hold of the implementation only while
the library keeps no *other* state between calls.  `harness/gen/stateaudit.py` regenerates, on every run, the inventory of all
places where state can survive a call (`Gen/StateAudit.lean`); `Spec/StateInventory.lean` lists the sites of the unchanged tree
with one justification each (the model component that carries that state, or why it is not state between calls).  Here:

* `Props/StateAudit/<Module>.lean`: `only_expected_state_<module>` / `stateless_<module>` - per module, independent of each other,
  so that a new site breaks the obligations of exactly the properties whose models cover the module;
* this file: the same for the whole library (`no_unmodelled_state`), the module list (`no_new_modules`) and the import graph
  (`imports_stay_inside`).

## Which modules the model of each property covers

Derived from the `anchors.files` of `properties.jsonl`, the `level_note`s of `MANIFEST.json`, the source files every translator
in the import closure of `Props/<ID>.lean` reads (`harness/gen/*.py`), and the library modules those call into on the modelled
path.  Machine-readable: `harness/props/_stateaudit_modules.json` (the integrator lists the matching theorems in `Audit/<ID>.lean`).

<!-- table:begin -->
| property | modules (below `pedantic/`) |
|---|---|
| C01 | constants, decorators/class_decorators, decorators/cls_deco_frozen_dataclass, decorators/fn_deco_pedantic, env_var_logic, exceptions, get_context, models/decorated_function, models/function_call, models/generator_wrapper, type_checking_logic/check_generic_classes, type_checking_logic/check_types, type_checking_logic/resolve_forward_ref |
| C02 | constants, exceptions, type_checking_logic/check_types, type_checking_logic/resolve_forward_ref |
| C03 | constants, decorators/class_decorators, decorators/fn_deco_pedantic, env_var_logic, exceptions, get_context, models/decorated_function, models/function_call, models/generator_wrapper, type_checking_logic/check_generic_classes, type_checking_logic/check_types, type_checking_logic/resolve_forward_ref |
| C04 | constants, decorators/class_decorators, decorators/fn_deco_pedantic, env_var_logic, exceptions, get_context, models/decorated_function, models/function_call, models/generator_wrapper, type_checking_logic/check_generic_classes, type_checking_logic/check_types, type_checking_logic/resolve_forward_ref |
| C05 | constants, decorators/class_decorators, decorators/fn_deco_pedantic, decorators/fn_deco_require_kwargs, env_var_logic, exceptions, get_context, models/decorated_function, models/function_call, type_checking_logic/check_generic_classes, type_checking_logic/check_types, type_checking_logic/resolve_forward_ref |
| C06 | constants, decorators/class_decorators, decorators/fn_deco_pedantic, env_var_logic, exceptions, get_context, models/decorated_function, models/function_call, type_checking_logic/check_generic_classes, type_checking_logic/check_types, type_checking_logic/resolve_forward_ref |
| C07 | constants, decorators/class_decorators, decorators/fn_deco_pedantic, exceptions, get_context, models/decorated_function, models/function_call, type_checking_logic/check_generic_classes, type_checking_logic/check_types, type_checking_logic/resolve_forward_ref |
| C08 | constants, decorators/class_decorators, decorators/fn_deco_pedantic, env_var_logic, exceptions, get_context, models/decorated_function, models/function_call, models/generator_wrapper, type_checking_logic/check_generic_classes, type_checking_logic/check_types, type_checking_logic/resolve_forward_ref |
| C09 | constants, decorators/class_decorators, decorators/fn_deco_pedantic, env_var_logic, models/decorated_function |
| C10 | constants, decorators/cls_deco_frozen_dataclass, exceptions, get_context, type_checking_logic/check_types, type_checking_logic/resolve_forward_ref |
| C11 | decorators/cls_deco_frozen_dataclass |
| C12 | decorators/fn_deco_validate/convert_value, decorators/fn_deco_validate/exceptions, decorators/fn_deco_validate/fn_deco_validate, decorators/fn_deco_validate/parameters/abstract_external_parameter, decorators/fn_deco_validate/parameters/abstract_parameter, decorators/fn_deco_validate/validators/abstract_validator |
| C13 | decorators/fn_deco_validate/convert_value, decorators/fn_deco_validate/exceptions, decorators/fn_deco_validate/fn_deco_validate, decorators/fn_deco_validate/parameters/abstract_external_parameter, decorators/fn_deco_validate/parameters/abstract_parameter, decorators/fn_deco_validate/parameters/deserializable, decorators/fn_deco_validate/parameters/environment_variable_parameter, decorators/fn_deco_validate/parameters/flask_parameters, decorators/fn_deco_validate/validators/abstract_validator |
| C14 | decorators/fn_deco_validate/convert_value, decorators/fn_deco_validate/exceptions, decorators/fn_deco_validate/validators/abstract_validator, decorators/fn_deco_validate/validators/composite_validator, decorators/fn_deco_validate/validators/datetime_isoformat, decorators/fn_deco_validate/validators/datetime_unix_timestamp, decorators/fn_deco_validate/validators/email, decorators/fn_deco_validate/validators/enum, decorators/fn_deco_validate/validators/for_each, decorators/fn_deco_validate/validators/is_uuid, decorators/fn_deco_validate/validators/match_pattern, decorators/fn_deco_validate/validators/max, decorators/fn_deco_validate/validators/max_length, decorators/fn_deco_validate/validators/min, decorators/fn_deco_validate/validators/min_length, decorators/fn_deco_validate/validators/not_empty |
| C15 | decorators/fn_deco_retry |
| C16 | decorators/fn_deco_context_manager |
| C17 | decorators/fn_deco_in_subprocess |
| C18 | constants, decorators/class_decorators, decorators/fn_deco_count_calls, decorators/fn_deco_deprecated, decorators/fn_deco_does_same_as_function, decorators/fn_deco_mock, decorators/fn_deco_overrides, decorators/fn_deco_pedantic, decorators/fn_deco_rename_kwargs, decorators/fn_deco_require_kwargs, decorators/fn_deco_timer, decorators/fn_deco_trace, decorators/fn_deco_trace_if_returns, decorators/fn_deco_unimplemented, decorators/fn_deco_validate/fn_deco_validate, exceptions, helper_methods, models/decorated_function, models/function_call |
| C19 | decorators/class_decorators, decorators/fn_deco_pedantic, exceptions, models/decorated_function, type_checking_logic/check_docstring, type_checking_logic/check_types |
| C20 | mixins/generic_mixin, mixins/with_decorated_methods |

Covered by `no_unmodelled_state` alone (package `__init__` modules, imports only): __init__, decorators/__init__, decorators/fn_deco_validate/__init__, decorators/fn_deco_validate/parameters/__init__, decorators/fn_deco_validate/validators/__init__, mixins/__init__, models/__init__, type_checking_logic/__init__.
<!-- table:end -->
-/
namespace PedVerif.StateAudit
open PedVerif.Gen.StateAudit PedVerif.Spec

/-- the whole library keeps exactly the justified state sites -/
theorem no_unmodelled_state : sites = StateInventory.expected := by decide +kernel

/-- no module was added to (or removed from) the library: a new module is new code none of the models covers -/
theorem no_new_modules : modules = StateInventory.expectedModules := by decide +kernel

/-- every library module imports library modules of the known list only -/
theorem imports_stay_inside : imports.all (fun p => StateInventory.importsKnown p.2) = true := by decide +kernel

/-- the expected inventory mentions known modules only (a typo in a module name would make a site unreachable) -/
theorem expected_sites_in_known_modules : StateInventory.expected.all (fun s => StateInventory.expectedModules.contains s.mod) = true := by
  decide +kernel

/-- the per-module view and the global one agree: the sites of a module are the entries of `expected` with that module name -/
theorem sitesOf_eq_expectedOf (m : String) : sitesOf m = StateInventory.expectedOf m := by
  unfold sitesOf StateInventory.expectedOf; rw [no_unmodelled_state]

-- non-vacuity: the inventory is not empty and really contains the states the models carry
example : StateInventory.expected.length = 42 := by decide
example : (⟨"pedantic/decorators/fn_deco_count_calls.py", "count_calls.wrapper", .closureState, "<outer>.wrapper.num_calls"⟩ : Site) ∈ sites := by
  decide +kernel
example : sitesOf "pedantic/decorators/fn_deco_retry.py" = [] := by decide +kernel

end PedVerif.StateAudit
