import PedVerif.Props.C08
import PedVerif.Props.CallLayerIR
/-! C08 (wrapper level) restated about the translated code (see `Props/C03IR.lean`). -/
namespace PedVerif.CallIR
open PedVerif.Checker PedVerif.Call

/-- **C08 (the wrapper adds no exception of its own), about the translated code.** -/
theorem ir_wrapper_adds_nothing (env : Env) (orc : Nat → Val → Raw) (horc : ∀ k v, orc k v ≠ .raisedTV) (f : Fn) (args : List Val)
    (kw : List (NameId × Val)) (body : BodyOut) (w : World) (up : Val → Bool) (hP : (∀ v, up v = false) ∨ PedVerif.Gen.CallLayerIR.messagesUseSafeDescribe = true)
    (hrecv : PedVerif.Gen.CallTables.receiverMayBeKeyword = true → f.firstIsSelf = true → args.isEmpty = true → (lookup kw f.selfName).isSome = true)
    (hnd : (kw.map (·.1)).Nodup)
    (hinit : f.initFails args = false) (hc : f.clazzFails args = false)
    (hbinds : f.binds (fwdPosOf f args).length (kw.map (·.1)) = true) :
    (runCallIR env orc f args kw body w up).caller.allowed = true := by
  rw [ir_runCall_refines env orc f args kw body w up hP hrecv hnd]; exact wrapper_adds_nothing env orc horc f args kw body hinit hc hbinds

example : exFn.binds (fwdPosOf exFn []).length [1, 2] = true ∧
    (runCallIR envW (fun _ _ => .raisedOther) exFn [] [(1, .lit (.int 1)), (2, .lit (.str [98]))] (.raises 3) exW).caller.allowed = true := by decide
end PedVerif.CallIR
